// C03 harness: the five symmetric GENERALIZED solver classes of the REAL library.
//  stream "corr": harness-defined operator classes (explicit scalar loops over explicit matrices, mirrored by Model/GSymSolver.lean);
//                 every history is written as a request for the Lean driver (Driver/C03.lean, `gsym ...`) and must agree bit for bit
//                 (except the final matrix-matrix product of eigenvectors()); the property's predicate is evaluated as well.
//  stream "lib" : the library's OWN wrappers in dense/sparse storage combinations; only the property's predicate (long double).
//  both streams: the shift solvers are constructed under four shift-argument policies (with_shift_solver: variable kept / overwritten with 3 sigma + 1 / with NaN /
//                 factory from a by-value parameter with the dead frame scribbled over), and each stream ends with "twin" cases (one solver, several complete runs at ncv == n).
#include "solver_common.h"
#include <Eigen/Sparse>
#include <Eigen/Eigenvalues>
#include <memory>
#include <limits>
#include <Spectra/MatOp/SparseCholesky.h>
#include <Spectra/MatOp/SparseSymMatProd.h>
using namespace sh;
typedef Eigen::SparseMatrix<double> SpMat;
using Spectra::GEigsMode;

struct SpectraVerifAccess {
    template <class S> static auto& fac(S& s) { return s.m_fac; }
    template <class F> static double beta(const F& f) { return f.m_beta; }
    // a residual was discarded: beta set to exactly 0, or an exactly zero sub-diagonal entry (restart direction) inside the current factorization
    template <class F> static bool discarded(const F& f) { if (f.m_beta == 0.0) return true; for (long j = 0; j + 1 < f.m_k; j++) if (f.m_fac_H(j + 1, j) == 0.0) return true; return false; }
    template <class F> static std::string fachash(const F& f) {
        uint64_t h = 1469598103934665603ull; auto feed = [&h](double x) { uint64_t u = dbits(x + 0.0); for (int b = 0; b < 8; b++) { h ^= (u >> (8 * b)) & 0xff; h *= 1099511628211ull; } };
        feed(f.m_beta); const long m = f.m_m, n = f.m_n, k = f.m_k;
        for (long j = 0; j < m; j++) for (long i = 0; i < m; i++) feed(f.m_fac_H(i, j));
        for (long i = 0; i < n; i++) feed(f.m_fac_f[i]);
        for (long j = 0; j < k; j++) for (long i = 0; i < n; i++) feed(f.m_fac_V(i, j));
        return "k=" + str(k) + " beta=e:" + str(dbits(f.m_beta)) + " hash=" + str(h);
    }
};

// ---------------- harness-defined operator classes: explicit loops (Arnoldi.rowMajorOp / GSymSolver.rowMajorTOp of the model) ----------------
static inline void mv(const Mat& M, const double* x, double* y) { const long n = M.rows(), m = M.cols(); for (long i = 0; i < n; i++) { double s = 0.0; for (long j = 0; j < m; j++) s += M(i, j) * x[j]; y[i] = s; } }
static inline void mvT(const Mat& M, const double* x, double* y) { const long n = M.cols(), m = M.rows(); for (long i = 0; i < n; i++) { double s = 0.0; for (long j = 0; j < m; j++) s += M(j, i) * x[j]; y[i] = s; } }
struct Counter { long applied = 0; bool alias = false; void enter(const double* x, const double* y, long n) { applied++; if (x == y || (x < y + n && y < x + n)) alias = true; } };
// product with an explicit matrix (A-side operator of Cholesky / RegularInverse, B-side operator of the shift modes)
struct ProdOp { using Scalar = double; const Mat* M; Counter* c; ProdOp(const Mat& m, Counter* c_) : M(&m), c(c_) {}
    Eigen::Index rows() const { return M->rows(); } Eigen::Index cols() const { return M->cols(); }
    void perform_op(const double* x, double* y) const { if (c) c->enter(x, y, M->rows()); mv(*M, x, y); } };
// "Cholesky factor" operator: the two triangular solves as products with the explicit inverse factor
struct CholOp { using Scalar = double; const Mat* Linv; explicit CholOp(const Mat& li) : Linv(&li) {}
    Eigen::Index rows() const { return Linv->rows(); } Eigen::Index cols() const { return Linv->rows(); }
    Spectra::CompInfo info() const { return Spectra::CompInfo::Successful; }
    void lower_triangular_solve(const double* x, double* y) const { mv(*Linv, x, y); }
    void upper_triangular_solve(const double* x, double* y) const { mvT(*Linv, x, y); } };
// regular-inverse B operator: product with B and solve with B (explicit inverse)
struct RegInvOp { using Scalar = double; const Mat *B, *Binv; RegInvOp(const Mat& b, const Mat& bi) : B(&b), Binv(&bi) {}
    Eigen::Index rows() const { return B->rows(); } Eigen::Index cols() const { return B->rows(); }
    void perform_op(const double* x, double* y) const { mv(*B, x, y); }
    void solve(const double* x, double* y) const { mv(*Binv, x, y); } };
// shift-solve operator of the three shift modes: set_shift(sigma) "factorizes" A - sigma B (explicit inverse, long double), perform_op multiplies
struct ShiftSolveOp { using Scalar = double; const Mat *A, *B; Mat Minv; double sigma = 0; int nset = 0; Counter* c; bool fail = false;
    ShiftSolveOp(const Mat& a, const Mat& b, Counter* c_) : A(&a), B(&b), c(c_) {}
    Eigen::Index rows() const { return A->rows(); } Eigen::Index cols() const { return A->rows(); }
    void set_shift(const double& s) { sigma = s; nset++; MatL M = A->cast<LD>() - (LD) s * B->cast<LD>(); Eigen::FullPivLU<MatL> lu(M); if (!lu.isInvertible()) { fail = true; throw std::invalid_argument("ShiftSolveOp: singular"); } Minv = lu.inverse().cast<double>(); }
    void perform_op(const double* x, double* y) const { if (c) c->enter(x, y, A->rows()); mv(Minv, x, y); } };

// ---------------- how the shift reaches the constructor, and what its caller does with the variable afterwards ----------------
// The shift solvers take `const Scalar& sigma`; the property speaks of the sigma the solver was CONSTRUCTED with (that is the sigma `op.set_shift` factorized
// A - sigma B with, and the sigma all predicates below use).  A caller may re-use the variable it passed (a shift sweep over one local), or build the solver in a
// factory function from a by-value parameter / a temporary.  `sigarg` is drawn per case from its own random stream (the problem generators are not disturbed):
//   0  named variable, untouched for the life of the solver
//   1  named variable, overwritten with 3 sigma + 1 after construction and before the first init()/compute()
//   2  named variable, overwritten with NaN after construction
//   3  factory function with a by-value parameter that hands a temporary to the constructor and returns the solver; the factory's dead stack frame is
//      scribbled over before the first init()/compute()
// A solver that copies the shift (const Scalar m_sigma) behaves identically under all four; one that keeps a reference back-transforms with something else.
static __attribute__((noinline)) double as_temporary(double x) { asm volatile("" ::: "memory"); return x; }
static __attribute__((noinline)) void scribble_stack(double v) { volatile double junk[4096]; for (int i = 0; i < 4096; i++) junk[i] = (i & 1) ? v : -v; asm volatile("" ::: "memory"); }
template <class S, class OP, class BOP> static __attribute__((noinline)) std::unique_ptr<S> shift_solver_factory(OP& op, BOP& Bop, int nev, int ncv, double sigma_by_value) {
    return std::unique_ptr<S>(new S(op, Bop, nev, ncv, as_temporary(sigma_by_value)));
}
template <class S, class OP, class BOP, class F> static void with_shift_solver(int sigarg, OP& op, BOP& Bop, int nev, int ncv, double sigma, F&& body) {
    if (sigarg == 3) { std::unique_ptr<S> s = shift_solver_factory<S>(op, Bop, nev, ncv, sigma); scribble_stack(7.25e11); body(*s); return; }
    double sig = sigma;
    S s(op, Bop, nev, ncv, sig);
    if (sigarg == 1) sig = sigma * 3 + 1; else if (sigarg == 2) sig = std::numeric_limits<double>::quiet_NaN();
    asm volatile("" : : "r"(&sig) : "memory");
    body(s);
}

// ---------------- one problem ----------------
struct Problem {
    int mode = 0, n = 0, nev = 0, ncv = 0; Mat A, B; double sigma = 0; std::string desc; int condexp = 0, sigkind = 0;
    // derived, for the predicate
    MatL Al, Bl; LD nA = 0, nB = 0, condIp = 1, condF = 1, numax = 0, nu2 = 0, nu_one_min = 1; bool spectrum_ok = false;
    bool nu_one(LD tol) const { return (mode == 3 || mode == 4) && nu_one_min < std::max<LD>(1e3L * 2.220446049250313e-16L, 10 * tol); }
    std::vector<LD> nus;
    const Mat& ip() const { return mode == 3 ? A : B; }            // matrix of the inner product (Cholesky: the Gram matrix is taken w.r.t. B)
};
static LD sym_cond(const MatL& M) { Eigen::SelfAdjointEigenSolver<MatL> es(M, Eigen::EigenvaluesOnly); LD mx = 0, mn = std::numeric_limits<LD>::infinity(); for (long i = 0; i < M.rows(); i++) { LD a = std::fabs(es.eigenvalues()[i]); mx = std::max(mx, a); mn = std::min(mn, a); } return mn > 0 ? mx / mn : std::numeric_limits<LD>::infinity(); }
static LD nu_of(int mode, LD lam, LD sigma) { switch (mode) { case 2: return 1 / (lam - sigma); case 3: return lam / (lam - sigma); case 4: return (lam + sigma) / (lam - sigma); default: return lam; } }
static void derive(Problem& P) {
    P.Al = P.A.cast<LD>(); P.Bl = P.B.cast<LD>(); P.nA = P.Al.norm(); P.nB = P.Bl.norm();
    MatL Ip = P.ip().cast<LD>(); LD cip = sym_cond(Ip);
    MatL F = (P.mode <= 1) ? P.Bl : MatL(P.Al - (LD) P.sigma * P.Bl);
    P.condF = sym_cond(F); P.condIp = (P.mode == 0) ? 1 : cip;
    // transformed spectrum: generalized eigenvalues of the pencil with the positive definite matrix on the right
    Eigen::GeneralizedSelfAdjointEigenSolver<MatL> ges; P.numax = 0; P.spectrum_ok = true;
    if (P.mode == 3) { ges.compute(P.Bl, P.Al, Eigen::EigenvaluesOnly); if (ges.info() != Eigen::Success) { P.spectrum_ok = false; return; }
        LD mumax = 0; for (long i = 0; i < P.n; i++) mumax = std::max(mumax, std::fabs(ges.eigenvalues()[i]));
        for (long i = 0; i < P.n; i++) { LD mu = ges.eigenvalues()[i]; if (std::fabs(mu) <= 1e3L * 2.220446049250313e-16L * mumax) mu = 0;      // below the resolution of K_G's double entries: a null direction of K_G
            LD nu = 1 / (1 - (LD) P.sigma * mu); if (std::isfinite((double) nu)) { P.nus.push_back(std::fabs(nu)); P.nu_one_min = std::min(P.nu_one_min, std::fabs((LD) P.sigma * mu * nu)); } } }     // nu - 1 = sigma mu nu     // K_G x = mu K x, lambda = 1/mu, nu = 1/(1 - sigma mu)
    else { ges.compute(P.Al, P.Bl, Eigen::EigenvaluesOnly); if (ges.info() != Eigen::Success) { P.spectrum_ok = false; return; }
        for (long i = 0; i < P.n; i++) { LD lam = ges.eigenvalues()[i]; LD nu = nu_of(P.mode, lam, P.sigma); if (std::isfinite((double) nu)) P.nus.push_back(std::fabs(nu));
            if (P.mode == 4) P.nu_one_min = std::min(P.nu_one_min, std::fabs(2 * (LD) P.sigma / (lam - (LD) P.sigma))); } }                                                  // nu - 1 = 2 sigma / (lambda - sigma)
    std::sort(P.nus.begin(), P.nus.end(), [](LD a, LD b) { return a > b; });
    if (!P.nus.empty()) { P.numax = P.nus[0]; P.nu2 = 0; for (LD v : P.nus) if (v < P.numax * (1 - 1e-3L)) { P.nu2 = v; break; } }
}

// diagnostics recorded with every replay (they are what the known-finding signatures match on):
//   weak_handover  since the last init(), Arnoldi::init or compress_V handed over a residual with beta < 1e-2 ||Op|| (||Op|| = largest |nu| of the
//                  transformed reference spectrum); the next factorize_from normalises it without re-orthogonalisation (finding F12a of C07)
//   abs_discard    since the last init(), the factorization discarded a residual under one of its ABSOLUTE thresholds (beta < eps sqrt(n) => f := 0; Lanczos'
//                  local restart for beta < sqrt(eps); beta < near_0): observed as beta == 0, an exactly zero sub-diagonal entry, or an accepted restart direction
//                  (findings F12d of C07 / F12-svd of C16: the discarded amount is absolute, not relative to ||Op||)
//   nu_one         buckling / Cayley mode: the reference spectrum of the pencil contains an eigenvalue that the spectral map sends to nu = 1 within
//                  max(1e3 eps, 10 tol) (buckling: K_G singular, i.e. infinite eigenvalues of K x = lambda K_G x; both: |lambda| > |sigma| / max(1e3 eps, 10 tol))
struct Ctx { Out* out; uint64_t seed; long caseno; std::string stream; std::string tier; bool weak = false; LD minbeta_rel = 1e300L; bool discard = false; mutable int nu_one = 0; int sigarg = 0; bool twin = false; int ophist = 0; };
struct FnObserver : public Spectra::verif::Observer { std::function<void(const char*)> f; void on(const char* tag, const void*) override { if (f) f(tag); } };
static std::string hist_json(const Ctx& c, const std::string& cls, const Problem& P, const std::vector<Call>& calls, size_t upto) {
    std::string s = "{\"harness\":\"c03\",\"seed\":" + str(c.seed) + ",\"stream\":\"" + c.stream + "\",\"case\":" + str(c.caseno) + ",\"class\":\"" + cls + "\",\"mode\":" + str(P.mode) + ",\"n\":" + str(P.n) + ",\"nev\":" + str(P.nev) + ",\"ncv\":" + str(P.ncv) +
        ",\"sigma\":\"" + str(P.sigma) + "\",\"condB_exp\":" + str(P.condexp) + ",\"sigkind\":" + str(P.sigkind) + ",\"tier\":\"" + c.tier + "\",\"weak_handover\":" + str((int) c.weak) + ",\"abs_discard\":" + str((int) c.discard) + ",\"nu_one\":" + str(c.nu_one) + ",\"sigma_arg\":" + str(P.mode >= 2 ? c.sigarg : 0) + ",\"twin\":" + str((int) c.twin) + ",\"op_history\":" + str(c.ophist) + ",\"desc\":\"" + jesc(P.desc) + "\",\"calls\":\"";
    for (size_t i = 0; i <= upto && i < calls.size(); i++) { const Call& k = calls[i];
        if (k.kind == 'I') s += "init(v);"; else if (k.kind == 'J') s += "init();"; else if (k.kind == 'C') s += "compute(" + str(k.sel) + "," + str(k.maxit) + "," + str(k.tol) + "," + str(k.sort) + ");"; else s += std::string(1, k.kind) + ";"; }
    return s + "\"}";
}
static bool herm_sel_ok(int r) { return r == 0 || r == 3 || r == 4 || r == 7 || r == 8; }
static bool herm_sort_ok(int r) { return r == 0 || r == 3 || r == 4 || r == 7; }

// ---------------- the property's predicate on the pairs handed back (long double; constants stated here) ----------------
//   residual  ||A x - lam B x||_2  <=  C1 tol g S sqrt(cond(Ip)) + C2 n eps g S cond(F) sqrt(cond(Ip))
//       S  = (||A||_F + (|lam| + |sigma|) ||B||_F) ||x||_2          (sigma = 0 in the two non-shift modes: A - sigma B is what multiplies the Ritz residual)
//       g  = amplification of the transformed-problem tolerance by the back-transformation (from the exact identities c03_*):
//            1 (Cholesky, RegularInverse, ShiftInvert), |lam/sigma| (Buckling), |(lam+sigma)/(2 sigma)| (Cayley), never below 1,
//            times max(1, eps^(2/3)/|nu|) (the convergence test's floor)
//       Ip = matrix of the inner product (B; K in buckling mode; identity in Cholesky mode), F = the factorized matrix (B resp. A - sigma B)
//   Gram      max|X' G X - I|  <=  C3 n eps cond(G),   G = B (K in buckling mode)
//   A failure of either predicate is reported under the signature `...-weak-handover` iff, since the last init(), Arnoldi::init / compress_V handed over a
//   residual with beta < 1e-2 ||Op|| (observer hook; finding F12a of C07) AND the error is within the bound divided by min beta/||Op|| (the grading C07 measured);
//   any other failure keeps the plain signature, which no known finding matches.
static const LD C1 = 10, C2 = 100, C3 = 1000;
static void check_pairs(const Ctx& c, const std::string& cls, const Problem& P, const Vec& ev, const Mat& X, double tol, const std::function<std::string()>& rj) {
    Out& out = *c.out; const LD eps = 2.220446049250313e-16L, eps23 = std::pow((LD) eps, (LD) 2 / 3); const long k = ev.size(); const int n = P.n;
    if (X.cols() != k || (k > 0 && X.rows() != n)) { out.fail("shape", cls + ": eigenvectors() is " + str((long) X.rows()) + "x" + str((long) X.cols()) + " for " + str(k) + " eigenvalues", rj()); return; }
    if (k == 0) return;
    for (long i = 0; i < k; i++) { bool bad = !std::isfinite(ev[i]); for (int r = 0; r < n && !bad; r++) bad = !std::isfinite(X(r, i)); if (bad) {
        // nu = 1 regime: the pencil has an eigenvalue that the spectral map sends to nu = 1 within max(1e3 eps, 10 tol) (buckling: null vector of K_G, i.e. an
        // infinite eigenvalue; both modes: |lambda| > |sigma| / max(1e3 eps, 10 tol): a Ritz value of exactly 1 is then a converged approximation), where sigma nu / (nu - 1) resp. sigma (nu + 1) / (nu - 1) divides by (rounded) zero
        c.nu_one = P.nu_one(tol) ? 1 : 0;
        out.fail(c.nu_one ? "infinite-eigenvalue" : "nonfinite", cls + ": pair " + str(i) + " handed back as converged contains NaN/Inf (eigenvalue " + str(ev[i]) + ")", rj()); return; } }
    if (!P.spectrum_ok) { out.count("oracle_skipped_reference_failed"); return; }
    MatL Xl = X.cast<LD>(); const LD sg = (P.mode >= 2) ? std::fabs((LD) P.sigma) : 0;
    LD worst = 0;
    for (long i = 0; i < k; i++) {
        const LD lam = ev[i]; VecL x = Xl.col(i); VecL r = P.Al * x - lam * (P.Bl * x);
        const LD S = (P.nA + (std::fabs(lam) + sg) * P.nB) * x.norm();
        LD g = 1; if (P.mode == 3) g = std::max<LD>(1, std::fabs(lam / (LD) P.sigma)); if (P.mode == 4) g = std::max<LD>(1, std::fabs((lam + (LD) P.sigma) / (2 * (LD) P.sigma)));
        const LD nu = std::fabs(nu_of(P.mode, lam, P.sigma)); if (nu > 0 && nu < eps23) g *= eps23 / nu;
        const LD ratio = (nu > 0 && std::isfinite((double) nu)) ? std::max<LD>(1, P.numax / nu) : 1;
        const LD sq = std::sqrt(P.condIp);
        const LD rounding = C2 * n * eps * g * S * P.condF * sq, bound = C1 * (LD) tol * g * S * sq + rounding;
        if (rounding > 1e-3L * S) out.count("oracle_residual_bound_vacuous");
        const LD rn = r.norm(); if (bound > 0) worst = std::max(worst, rn / bound);
        if (std::getenv("C03_DEBUG_RES")) { static std::ofstream dbg(std::string(std::getenv("C03_DEBUG_RES"))); dbg << P.mode << " " << n << " " << (double) rn << " " << tol << " " << (double) S << " " << (double) g << " " << (double) P.condF << " " << (double) sq << " " << (double) ratio << " " << (int) c.weak << " " << (int) c.discard << " " << c.caseno << "\n"; }
        if (!(rn <= bound)) { const bool graded = c.weak && c.minbeta_rel > 0 && rn <= bound / c.minbeta_rel;     // F12a/F12c regime: error graded as ||Op|| / beta of the weakest hand-over
            // F12d regime: a discarded residual of absolute size <= ncv sqrt(eps) in the transformed problem is (ncv sqrt(eps) / |nu|) g S sqrt(cond(Ip)) in the pencil
            const bool absd = !graded && c.discard && nu > 0 && rn <= bound + C1 * (P.ncv * std::sqrt(eps) / nu) * g * S * sq;
            out.fail(graded ? "residual-weak-handover" : absd ? "residual-abs-threshold" : "residual", cls + ": pair " + str(i) + " lambda=" + str((double) lam) + " ||A x - lambda B x|| = " + str((double) rn) + " > bound " + str((double) bound) + " (tol=" + str(tol) + ", S=" + str((double) S) + ", cond(F)=" + str((double) P.condF) + ", cond(Ip)=" + str((double) P.condIp) + ")", rj()); break; }
    }
    out.count("oracle_pairs", k);
    { long b = worst <= 0 ? -20 : (long) std::floor(std::log10((double) worst)); if (b < -12) b = -12; out.count("residual_over_bound_1e" + str(b)); }
    MatL G = P.ip().cast<LD>(); if (P.mode == 0) G = P.Bl; const LD cg = sym_cond(G);
    MatL E = Xl.transpose() * G * Xl - MatL::Identity(k, k); const LD e = E.cwiseAbs().maxCoeff(), gb = C3 * n * eps * cg;
    if (gb > 1e-3L) out.count("oracle_gram_bound_vacuous");
    if (std::getenv("C03_DEBUG")) { static std::ofstream dbg(std::string(std::getenv("C03_DEBUG"))); dbg << P.mode << " " << n << " " << k << " " << (double) e << " " << (double) cg << " " << (double) (P.nu2 > 0 ? P.numax / P.nu2 : 1) << " " << (double) P.condF << " " << c.caseno << " " << (int) c.weak << " " << (double) c.minbeta_rel << "\n"; }
    if (!(e <= gb)) out.fail((c.weak && c.minbeta_rel > 0 && e <= gb / c.minbeta_rel) ? "gram-weak-handover" : "gram", cls + ": max|X'" + std::string(P.mode == 3 ? "K" : "B") + "X - I| = " + str((double) e) + " > " + str((double) gb) + " for " + str(k) + " returned vectors (cond = " + str((double) cg) + ")", rj());
    { long b = e <= 0 ? -20 : (long) std::floor(std::log10((double) (e / gb))); if (b < -12) b = -12; out.count("gram_over_bound_1e" + str(b)); }
}

// ---------------- run one history on one solver object ----------------
template <class S> static void drive(S& s, const std::string& cls, const Problem& P, const std::vector<Call>& calls, Ctx& c, std::string* req, std::string* resp,
                                     const std::function<long()>& applied, const std::function<void()>& reset_applied) {
    Out& out = *c.out; bool inited = false;
    FnObserver obs; obs.f = [&](const char* tag) { if (!std::strcmp(tag, "arnoldi.init") || !std::strcmp(tag, "arnoldi.compress")) { const LD b = std::fabs((LD) SpectraVerifAccess::beta(SpectraVerifAccess::fac(s)));
        if (P.numax > 0 && b > 0) { c.minbeta_rel = std::min(c.minbeta_rel, b / P.numax); if (b < 1e-2L * P.numax) c.weak = true; } }      // beta == 0 is a discarded residual (abs_discard): the next step restarts from a re-orthogonalised random direction
        if (!std::strcmp(tag, "arnoldi.expand")) c.discard = true;
        if (!std::strcmp(tag, "lanczos.factorize") && SpectraVerifAccess::discarded(SpectraVerifAccess::fac(s))) c.discard = true; };
    struct Guard { Guard(Spectra::verif::Observer* o) { Spectra::verif::observer() = o; } ~Guard() { Spectra::verif::observer() = nullptr; } } guard(&obs);
    for (size_t ci = 0; ci < calls.size(); ci++) {
        const Call& k = calls[ci]; auto rj = [&]() { return hist_json(c, cls, P, calls, ci); };
        if (k.kind == 'I' || k.kind == 'J') {
            c.weak = false; c.minbeta_rel = 1e300L; c.discard = false;
            if (req) *req += (k.kind == 'I' ? std::string(" | I") + vec_bits(k.v0) : std::string(" | J"));
            try { reset_applied(); if (k.kind == 'I') s.init(k.v0.data()); else s.init(); inited = true; }
            catch (const std::invalid_argument&) { out.count("init_throw"); if (resp) *resp += " | throw std::invalid_argument"; continue; }
            catch (const std::runtime_error& e) { out.count(std::string("init_runtime_error:") + std::string(e.what()).substr(0, 40)); if (resp) *resp += " | throw std::runtime_error"; continue; }
            if (resp) *resp += " | ok nmatop=" + str((long) s.num_operations());
            if (applied && s.num_operations() != applied()) out.fail("opcount", cls + ": num_operations() = " + str((long) s.num_operations()) + " but the composite operator was applied " + str(applied()) + " times", rj());
            continue;
        }
        if (k.kind == 'E') {
            if (req) { *req += " | E | S"; Vec e0 = s.eigenvalues(); *resp += " | k=" + str((long) e0.size()); for (long i = 0; i < e0.size(); i++) *resp += " e:" + str(dbits(e0[i]));
                *resp += " | info=" + str((int) s.info()) + " niter=" + str((long) s.num_iterations()) + " nmatop=" + str((long) s.num_operations()); }
            continue;
        }
        if (!inited) continue;
        const bool rules_ok = herm_sel_ok(k.sel) && herm_sort_ok(k.sort);
        long r = -1; bool threw = false; std::string ex;
        if (req) *req += " | C " + str(k.sel) + " " + str(k.maxit) + " " + str(dbits(k.tol)) + " " + str(k.sort);
        try { r = (long) s.compute((SortRule) k.sel, k.maxit, k.tol, (SortRule) k.sort); }
        catch (const std::invalid_argument&) { threw = true; ex = "std::invalid_argument"; }
        catch (const std::runtime_error& e) { threw = true; ex = "std::runtime_error"; out.count(std::string("compute_runtime_error:") + std::string(e.what()).substr(0, 40)); }
        catch (const std::exception&) { threw = true; ex = "other"; }
        if (threw) { if (resp) *resp += " | throw " + ex; out.count("compute_throw_" + ex); if (rules_ok && ex == "std::invalid_argument") out.fail("reject-valid-rule", cls + ": compute() rejected supported rules", rj()); continue; }
        if (resp) {
            *resp += " | ret=" + str(r) + " info=" + str((int) s.info()) + " niter=" + str((long) s.num_iterations()) + " nmatop=" + str((long) s.num_operations());
            *req += " | E | V " + str(P.nev) + " | F";
            Vec e1 = s.eigenvalues(); *resp += " | k=" + str((long) e1.size()); for (long i = 0; i < e1.size(); i++) *resp += " e:" + str(dbits(e1[i]));
            Mat X1 = s.eigenvectors(P.nev); *resp += " | rows=" + str(P.n) + " cols=" + str((long) X1.cols()); for (long j = 0; j < X1.cols(); j++) for (long i = 0; i < X1.rows(); i++) *resp += " " + str(dbits(X1(i, j) + 0.0));
            *resp += " | " + SpectraVerifAccess::fachash(SpectraVerifAccess::fac(s));
        }
        out.count("oracle_compute");
        if (!rules_ok) { out.fail("accept-invalid-rule", cls + ": compute() accepted unsupported rule sel=" + str(k.sel) + " sort=" + str(k.sort), rj()); continue; }
        Vec ev = s.eigenvalues(); Mat X = s.eigenvectors();
        if (r != ev.size()) out.fail("counts", cls + ": compute() returned " + str(r) + " but eigenvalues().size() = " + str((long) ev.size()), rj());
        if (r == P.nev) out.count("oracle_successful"); else if (r > 0) out.count("oracle_partial"); else out.count("oracle_none");
        if (applied && s.num_operations() != applied()) out.fail("opcount", cls + ": num_operations() = " + str((long) s.num_operations()) + " but the composite operator was applied " + str(applied()) + " times", rj());
        check_pairs(c, cls, P, ev, X, k.tol, rj);
    }
}

// ---------------- generators ----------------
static std::vector<Call> gen_history(Rng& r, int n, bool malformed) {
    std::vector<Call> h; int len = r.range(2, 6);
    static const int hsel[5] = {0, 3, 4, 7, 8}, hsort[4] = {0, 3, 4, 7};
    if (r.coin(0.2)) { Call e; e.kind = 'E'; h.push_back(e); }
    bool need_init = true;
    for (int i = 0; i < len; i++) {
        Call k;
        if (need_init || r.coin(0.3)) { k.kind = r.coin(0.5) ? 'J' : 'I'; k.v0 = Vec(n); for (int j = 0; j < n; j++) k.v0[j] = r.sym(); need_init = false; h.push_back(k); if (r.coin(0.1)) { Call e; e.kind = 'E'; h.push_back(e); } continue; }
        k.kind = 'C'; k.sel = hsel[r.below(5)]; k.sort = hsort[r.below(4)];
        if (malformed && r.coin(0.5)) { if (r.coin()) k.sel = r.range(0, 8); else k.sort = r.range(0, 8); }
        static const long mi[8] = {0, 1, 2, 3, 10, 300, 300, 1000}; k.maxit = mi[r.below(8)];
        static const double tl[5] = {1e-3, 1e-6, 1e-8, 1e-10, 1e-13}; k.tol = tl[r.below(5)];
        h.push_back(k);
    }
    return h;
}
// "twin" cases (case index >= the base count of the stream): ONE solver object is used for two or three complete runs init(); compute(rule_t); eigenvalues();
// eigenvectors() with DIFFERENT selection rules at ncv == n, where every run takes the same number of operator applications and restarts (the factorization is
// complete after n - 1 steps for every rule): what the accessors hand back after run t must be run t's pairs, not something remembered from an earlier run
static void make_twin(Problem& P) { P.ncv = P.n; if (P.n - P.nev > 16) P.nev = P.n - 16; P.desc += " twin(ncv=n)"; }
static std::vector<Call> twin_history(Rng& r, int n) {
    static const int hsel[5] = {0, 3, 4, 7, 8}, hsort[4] = {0, 3, 4, 7}; static const double tl[3] = {1e-6, 1e-8, 1e-10};
    std::vector<Call> h; const int i1 = (int) r.below(5); int i2 = (int) r.below(4); if (i2 >= i1) i2++;
    const double tol = tl[r.below(3)]; const int srt = hsort[r.below(4)]; const int rules[3] = {hsel[i1], hsel[i2], hsel[i1]}; const int nrun = 2 + (r.coin(0.3) ? 1 : 0);
    for (int t = 0; t < nrun; t++) {
        Call j; j.kind = (t == 0 || r.coin(0.7)) ? 'J' : 'I'; j.v0 = Vec(n); for (int q = 0; q < n; q++) j.v0[q] = r.sym(); h.push_back(j);
        Call k; k.kind = 'C'; k.sel = rules[t]; k.sort = srt; k.maxit = 300; k.tol = tol; h.push_back(k);
    }
    return h;
}
// SPD matrix with prescribed 2-norm condition number 10^e and norm bscale
static Mat gen_spd(Rng& r, int n, int e, double bscale) {
    Vec d(n); for (int i = 0; i < n; i++) d[i] = std::pow(10.0, -(double) e * i / std::max(1, n - 1)); if (r.coin(0.3)) for (int i = 1; i + 1 < n; i++) d[i] = std::pow(10.0, -(double) e * r.unit());
    Mat B = sym_from_spectrum(r, d); return (B * bscale).eval();
}
static Problem gen_problem(Rng& r, int mode, int nmax) {
    Problem P; P.mode = mode; int n = r.range(3, nmax); int nev = r.range(1, std::max(1, std::min(5, n - 1))); int lo = nev + 1; if (lo > n) { nev = n - 1; lo = n; } int ncv = r.range(lo, std::min(n, lo + 6));
    P.n = n; P.nev = nev; P.ncv = ncv;
    const int kind = r.range(0, 7); static const double scales[5] = {1.0, 1.0, 1e-4, 1e4, 37.0}; const double scale = scales[r.below(5)];
    static const int ce[6] = {0, 1, 2, 4, 6, 8}; P.condexp = ce[r.below(6)]; static const double bs[4] = {1.0, 1.0, 1e-3, 1e3}; const double bscale = bs[r.below(4)];
    Mat Sym = gen_sym(r, n, kind, scale); Mat Spd = gen_spd(r, n, P.condexp, bscale);
    if (mode == 3) { P.A = Spd; P.B = Sym; } else { P.A = Sym; P.B = Spd; }       // buckling: K (positive definite) x = lambda K_G x
    // shift
    P.sigkind = (mode >= 2) ? r.range(0, 5) : 0; const double unit = (mode == 3 ? bscale / std::max(scale, 1e-300) : scale / bscale);   // typical size of a generalized eigenvalue
    switch (P.sigkind) { case 0: P.sigma = 1.2345; break; case 1: P.sigma = -1.2345; break; case 2: P.sigma = 1.2345 * unit; break; case 3: P.sigma = -0.77 * unit; break;
        case 4: { // next to a generalized eigenvalue
            Eigen::GeneralizedSelfAdjointEigenSolver<Mat> ges; double lam = unit;
            if (mode == 3) { ges.compute(P.B, P.A, Eigen::EigenvaluesOnly); double mu = ges.eigenvalues()[r.below(n)]; double mx = ges.eigenvalues().cwiseAbs().maxCoeff(); if (std::fabs(mu) > 1e-10 * mx) lam = 1 / mu; }   // skip numerically zero mu (infinite eigenvalues) else { ges.compute(P.A, P.B, Eigen::EigenvaluesOnly); lam = ges.eigenvalues()[r.below(n)]; }
            static const double rel[3] = {1e-3, 1e-6, 1e-9}; const double rl = rel[r.below(3)]; P.sigma = lam * (1 + rl) + rl * unit * 1e-3; break; }
        default: P.sigma = (r.coin() ? 1 : -1) * 1e3 * unit * (1 + r.unit()); }
    if (mode >= 2 && r.coin(0.04)) { P.sigma = 0.0; P.sigkind = 9; }                       // the guard of buckling / Cayley
    if (mode < 2) P.sigma = 0.0;
    P.desc = "kind=" + str(kind) + " scale=" + str(scale) + " bscale=" + str(bscale) + " condB=1e" + str(P.condexp) + " sigkind=" + str(P.sigkind);
    return P;
}
static std::string header(const Problem& P, const Mat& aux) {
    const double eps = Spectra::TypeTraits<double>::epsilon(); const double eps23 = std::pow(eps, double(2) / 3); const double near0 = Spectra::TypeTraits<double>::min() * double(10);
    return "gsym " + str(P.mode) + " " + str(P.n) + " " + str(P.nev) + " " + str(P.ncv) + " " + str(dbits(eps23)) + " " + str(dbits(near0)) + " " + str(dbits(eps)) + " " + str(dbits(P.sigma)) + mat_bits(P.A) + mat_bits(P.B) + mat_bits(aux);
}
static Mat inv_ld(const Mat& M) { MatL I = M.cast<LD>().fullPivLu().inverse(); return I.cast<double>(); }

// ---------------- stream "corr": harness-defined operators, request for the model ----------------
static void corr_case(Ctx& c, Rng& r, int nmax) {
    Out& out = *c.out; const int mode = (int) (c.caseno % 5); Problem P = gen_problem(r, mode, c.twin ? std::min(nmax, 16) : nmax); if (c.twin) make_twin(P); derive(P);
    std::vector<Call> calls = c.twin ? twin_history(r, P.n) : gen_history(r, P.n, r.coin(0.12)); Counter cnt; if (c.twin) out.count("corr_twin"); std::string req, resp; const int n = P.n;
    out.count("corr_mode_" + str(mode)); out.count("corr_condB_1e" + str(P.condexp)); if (mode >= 2) out.count("corr_sigkind_" + str(P.sigkind));
    auto applied = [&cnt]() { return cnt.applied; }; auto reset = [&cnt]() { cnt.applied = 0; };
    auto emit = [&](const Mat& aux) { out.corr(header(P, aux) + req, resp.size() > 3 ? resp.substr(3) : resp); if (cnt.alias) out.fail("op-alias", "operator was handed overlapping input/output vectors", hist_json(c, "corr", P, calls, calls.size())); };
    try {
        if (mode == 0) { MatL Ll = P.Bl.llt().matrixL(); Mat Linv = MatL(Ll.inverse()).cast<double>(); for (int i = 0; i < n; i++) for (int j = i + 1; j < n; j++) Linv(i, j) = 0.0;
            ProdOp op(P.A, &cnt); CholOp Bop(Linv); Spectra::SymGEigsSolver<ProdOp, CholOp, GEigsMode::Cholesky> s(op, Bop, P.nev, P.ncv);
            drive(s, "SymGEigsSolver<Cholesky>", P, calls, c, &req, &resp, applied, reset); emit(Linv); }
        else if (mode == 1) { Mat Binv = inv_ld(P.B); ProdOp op(P.A, &cnt); RegInvOp Bop(P.B, Binv); Spectra::SymGEigsSolver<ProdOp, RegInvOp, GEigsMode::RegularInverse> s(op, Bop, P.nev, P.ncv);
            drive(s, "SymGEigsSolver<RegularInverse>", P, calls, c, &req, &resp, applied, reset); emit(Binv); }
        else {
            ShiftSolveOp op(P.A, P.B, &cnt); ProdOp Bop(mode == 3 ? P.A : P.B, nullptr);
            try {
                out.count("corr_sigarg_" + str(c.sigarg));
                if (mode == 2) with_shift_solver<Spectra::SymGEigsShiftSolver<ShiftSolveOp, ProdOp, GEigsMode::ShiftInvert>>(c.sigarg, op, Bop, P.nev, P.ncv, P.sigma, [&](auto& s) { drive(s, "SymGEigsShiftSolver<ShiftInvert>", P, calls, c, &req, &resp, applied, reset); });
                else if (mode == 3) with_shift_solver<Spectra::SymGEigsShiftSolver<ShiftSolveOp, ProdOp, GEigsMode::Buckling>>(c.sigarg, op, Bop, P.nev, P.ncv, P.sigma, [&](auto& s) { drive(s, "SymGEigsShiftSolver<Buckling>", P, calls, c, &req, &resp, applied, reset); });
                else with_shift_solver<Spectra::SymGEigsShiftSolver<ShiftSolveOp, ProdOp, GEigsMode::Cayley>>(c.sigarg, op, Bop, P.nev, P.ncv, P.sigma, [&](auto& s) { drive(s, "SymGEigsShiftSolver<Cayley>", P, calls, c, &req, &resp, applied, reset); });
                if (op.nset != 1 || op.sigma != P.sigma) out.fail("set-shift", "constructor called set_shift " + str(op.nset) + " times, last with " + str(op.sigma) + " instead of once with " + str(P.sigma), hist_json(c, "corr", P, calls, 0));
                if ((mode == 3 || mode == 4) && P.sigma == 0.0) out.fail("sigma0-accepted", "mode " + str(mode) + " accepted sigma = 0", hist_json(c, "corr", P, calls, 0));
                emit(op.Minv);
            } catch (const std::invalid_argument&) {
                if (op.fail) { out.count("corr_singular_shift"); return; }            // the user's operator rejected the shift: outside the quantifier
                out.count("corr_ctor_throw");
                if (!((mode == 3 || mode == 4) && P.sigma == 0.0)) out.fail("ctor-rejects-valid", "constructor rejected valid arguments (mode " + str(mode) + ", sigma " + str(P.sigma) + ")", hist_json(c, "corr", P, calls, 0));
                if (op.nset != 0) out.fail("sigma0-after-set-shift", "sigma = 0 was rejected only after set_shift had been called", hist_json(c, "corr", P, calls, 0));
                Mat Z = Mat::Zero(n, n); out.corr(header(P, Z), "throw std::invalid_argument");
            }
        }
    } catch (const std::exception& e) { out.count(std::string("corr_case_exception:") + std::string(e.what()).substr(0, 40)); }
}

// ---------------- stream "lib": the library's own wrappers, dense / sparse ----------------
#ifndef C03_NO_LIB
// what happened to the user's SymShiftInvert OBJECT before the solver is built on it (the solver's constructor installs its own shift):
//   1 an earlier legal shift;  2 a shift that is exactly an eigenvalue of the pencil (the decoupled coordinate 0: A00 = 2 B00), which the
//   factorization rejects with invalid_argument -- the user then retries with the shift of the case;  3 both, rejected one last
template <class OP> static void op_history(OP& op, Ctx& c) {
    if (c.ophist == 0) return;
    c.out->count("lib_op_history_" + str(c.ophist));
    if (c.ophist == 1 || c.ophist == 3) { try { op.set_shift(0.7321); } catch (const std::exception&) { c.out->count("lib_op_history_legal_shift_threw"); } }
    if (c.ophist >= 2) { try { op.set_shift(2.0); c.out->count("lib_op_history_singular_shift_accepted"); } catch (const std::invalid_argument&) { c.out->count("lib_op_history_singular_shift_rejected"); } catch (const std::exception&) { c.out->count("lib_op_history_singular_shift_other_exception"); } }
}
template <class S> static void lib_run(S& s, const std::string& cls, const Problem& P, const std::vector<Call>& calls, Ctx& c) { drive(s, cls, P, calls, c, nullptr, nullptr, std::function<long()>(), []() {}); }
template <class TA, class TB, class MA, class MB, class BP, class MBP> static void lib_shift(const MA& A, const MB& B, const MBP& Kp, const std::string& tag, const Problem& P, const std::vector<Call>& calls, Ctx& c) {
    using SI = Spectra::SymShiftInvert<double, TA, TB>; SI op(A, B); BP Bop(Kp);
    op_history(op, c);
    c.out->count("lib_sigarg_" + str(c.sigarg));
    if (P.mode == 2) with_shift_solver<Spectra::SymGEigsShiftSolver<SI, BP, GEigsMode::ShiftInvert>>(c.sigarg, op, Bop, P.nev, P.ncv, P.sigma, [&](auto& s) { lib_run(s, "SymGEigsShiftSolver<ShiftInvert>/" + tag, P, calls, c); });
    else if (P.mode == 3) with_shift_solver<Spectra::SymGEigsShiftSolver<SI, BP, GEigsMode::Buckling>>(c.sigarg, op, Bop, P.nev, P.ncv, P.sigma, [&](auto& s) { lib_run(s, "SymGEigsShiftSolver<Buckling>/" + tag, P, calls, c); });
    else with_shift_solver<Spectra::SymGEigsShiftSolver<SI, BP, GEigsMode::Cayley>>(c.sigarg, op, Bop, P.nev, P.ncv, P.sigma, [&](auto& s) { lib_run(s, "SymGEigsShiftSolver<Cayley>/" + tag, P, calls, c); });
}
// mixed triangle options: only the designated triangle of each matrix is meaningful, the other one holds garbage; the oracle
// (residual / Gram predicates in `drive`) is evaluated against the true symmetric pencil P.A, P.B
template <int UA, int UB> static void lib_shift_uplo(const Problem& P, const std::vector<Call>& calls, Ctx& c, Rng& r) {
    Mat Ag = P.A, Bg = P.B; const int n = P.n;
    for (int i = 0; i < n; i++) for (int j = 0; j < n; j++) { if (i == j) continue; const bool upper = j > i;
        if ((UA == Eigen::Lower) == upper) Ag(i, j) = 1e3 * (1.0 + r.unit()) * (r.coin() ? 1 : -1);
        if ((UB == Eigen::Lower) == upper) Bg(i, j) = 1e3 * (1.0 + r.unit()) * (r.coin() ? 1 : -1); }
    using SI = Spectra::SymShiftInvert<double, Eigen::Dense, Eigen::Dense, UA, UB>; SI op(Ag, Bg);
    op_history(op, c);
    const std::string tag = std::string("dense,dense,") + (UA == Eigen::Lower ? "Lower" : "Upper") + "," + (UB == Eigen::Lower ? "Lower" : "Upper");
    c.out->count("lib_sigarg_" + str(c.sigarg));
    if (P.mode == 3) { using BP = Spectra::DenseSymMatProd<double, UA>; BP Bop(Ag); with_shift_solver<Spectra::SymGEigsShiftSolver<SI, BP, GEigsMode::Buckling>>(c.sigarg, op, Bop, P.nev, P.ncv, P.sigma, [&](auto& s) { lib_run(s, "SymGEigsShiftSolver<Buckling>/" + tag, P, calls, c); }); }
    else { using BP = Spectra::DenseSymMatProd<double, UB>; BP Bop(Bg);
        if (P.mode == 2) with_shift_solver<Spectra::SymGEigsShiftSolver<SI, BP, GEigsMode::ShiftInvert>>(c.sigarg, op, Bop, P.nev, P.ncv, P.sigma, [&](auto& s) { lib_run(s, "SymGEigsShiftSolver<ShiftInvert>/" + tag, P, calls, c); });
        else with_shift_solver<Spectra::SymGEigsShiftSolver<SI, BP, GEigsMode::Cayley>>(c.sigarg, op, Bop, P.nev, P.ncv, P.sigma, [&](auto& s) { lib_run(s, "SymGEigsShiftSolver<Cayley>/" + tag, P, calls, c); }); }
}
static void lib_case(Ctx& c, Rng& r, int nmax) {
    Out& out = *c.out; const int mode = (int) (c.caseno % 5); Problem P = gen_problem(r, mode, nmax); if (P.sigkind == 9) { P.sigma = 1.2345; P.sigkind = 0; } if (c.twin) make_twin(P);
    // operator-object history share (shift modes, every 3rd case): coordinate 0 is decoupled with A00 = 2 B00, so sigma = 2 is EXACTLY an eigenvalue
    c.ophist = (mode >= 2 && !c.twin && (c.caseno / 5) % 3 == 2) ? 1 + (int) ((c.caseno / 15) % 3) : 0;     // period 3 against the period-4 storage combinations: every dense/sparse pairing gets every kind
    if (c.ophist >= 2) { for (int j = 1; j < P.n; j++) { P.A(0, j) = P.A(j, 0) = 0.0; P.B(0, j) = P.B(j, 0) = 0.0; } P.B(0, 0) = 1.0; P.A(0, 0) = 2.0; if (std::fabs(P.sigma - 2.0) < 0.05) P.sigma += 0.11; }
    derive(P);
    std::vector<Call> calls = c.twin ? twin_history(r, P.n) : gen_history(r, P.n, false); if (c.twin) out.count("lib_twin"); const int combo = (int) ((c.caseno / 5) % 4); const bool sa = combo & 1, sb = combo & 2;
    SpMat As = P.A.sparseView(), Bs = P.B.sparseView(); As.makeCompressed(); Bs.makeCompressed();
    out.count("lib_mode_" + str(mode) + "_combo_" + str(combo)); out.count("lib_condB_1e" + str(P.condexp));
    using DP = Spectra::DenseSymMatProd<double>; using SP = Spectra::SparseSymMatProd<double>;
    try {
        if (mode == 0) {
            if (!sa && !sb) { DP op(P.A); Spectra::DenseCholesky<double> Bop(P.B); Spectra::SymGEigsSolver<DP, Spectra::DenseCholesky<double>, GEigsMode::Cholesky> s(op, Bop, P.nev, P.ncv); lib_run(s, "SymGEigsSolver<Cholesky>/dense,dense", P, calls, c); }
            else if (sa && !sb) { SP op(As); Spectra::DenseCholesky<double> Bop(P.B); Spectra::SymGEigsSolver<SP, Spectra::DenseCholesky<double>, GEigsMode::Cholesky> s(op, Bop, P.nev, P.ncv); lib_run(s, "SymGEigsSolver<Cholesky>/sparse,dense", P, calls, c); }
            else if (!sa && sb) { DP op(P.A); Spectra::SparseCholesky<double> Bop(Bs); Spectra::SymGEigsSolver<DP, Spectra::SparseCholesky<double>, GEigsMode::Cholesky> s(op, Bop, P.nev, P.ncv); lib_run(s, "SymGEigsSolver<Cholesky>/dense,sparse", P, calls, c); }
            else { SP op(As); Spectra::SparseCholesky<double> Bop(Bs); Spectra::SymGEigsSolver<SP, Spectra::SparseCholesky<double>, GEigsMode::Cholesky> s(op, Bop, P.nev, P.ncv); lib_run(s, "SymGEigsSolver<Cholesky>/sparse,sparse", P, calls, c); }
        } else if (mode == 1) {
            Spectra::SparseRegularInverse<double> Bop(Bs);
            if (!sa) { DP op(P.A); Spectra::SymGEigsSolver<DP, Spectra::SparseRegularInverse<double>, GEigsMode::RegularInverse> s(op, Bop, P.nev, P.ncv); lib_run(s, "SymGEigsSolver<RegularInverse>/dense,sparse", P, calls, c); }
            else { SP op(As); Spectra::SymGEigsSolver<SP, Spectra::SparseRegularInverse<double>, GEigsMode::RegularInverse> s(op, Bop, P.nev, P.ncv); lib_run(s, "SymGEigsSolver<RegularInverse>/sparse,sparse", P, calls, c); }
        } else if (((c.caseno / 20) % 3) != 0 && !sa && !sb) {   // dense/dense with mixed triangle options and garbage in the unused triangles
            out.count("lib_mixed_uplo");
            if (((c.caseno / 20) % 3) == 1) lib_shift_uplo<Eigen::Lower, Eigen::Upper>(P, calls, c, r); else lib_shift_uplo<Eigen::Upper, Eigen::Lower>(P, calls, c, r);
        } else if (mode == 3) {   // Bop = product with K = P.A (first matrix of the pencil), storage follows A
            if (!sa && !sb) lib_shift<Eigen::Dense, Eigen::Dense, Mat, Mat, DP, Mat>(P.A, P.B, P.A, "dense,dense", P, calls, c);
            else if (sa && !sb) lib_shift<Eigen::Sparse, Eigen::Dense, SpMat, Mat, SP, SpMat>(As, P.B, As, "sparse,dense", P, calls, c);
            else if (!sa && sb) lib_shift<Eigen::Dense, Eigen::Sparse, Mat, SpMat, DP, Mat>(P.A, Bs, P.A, "dense,sparse", P, calls, c);
            else lib_shift<Eigen::Sparse, Eigen::Sparse, SpMat, SpMat, SP, SpMat>(As, Bs, As, "sparse,sparse", P, calls, c);
        } else {                  // Bop = product with B, storage follows B
            if (!sa && !sb) lib_shift<Eigen::Dense, Eigen::Dense, Mat, Mat, DP, Mat>(P.A, P.B, P.B, "dense,dense", P, calls, c);
            else if (sa && !sb) lib_shift<Eigen::Sparse, Eigen::Dense, SpMat, Mat, DP, Mat>(As, P.B, P.B, "sparse,dense", P, calls, c);
            else if (!sa && sb) lib_shift<Eigen::Dense, Eigen::Sparse, Mat, SpMat, SP, SpMat>(P.A, Bs, Bs, "dense,sparse", P, calls, c);
            else lib_shift<Eigen::Sparse, Eigen::Sparse, SpMat, SpMat, SP, SpMat>(As, Bs, Bs, "sparse,sparse", P, calls, c);
        }
    } catch (const std::invalid_argument&) { out.count("lib_ctor_invalid_argument"); }
      catch (const std::exception& e) { out.count(std::string("lib_case_exception:") + std::string(e.what()).substr(0, 40)); }
}

#else
static void lib_case(Ctx&, Rng&, int) {}
#endif
static long json_long(const std::string& s, const std::string& key, long dflt) { size_t p = s.find("\"" + key + "\":"); if (p == std::string::npos) return dflt; p += key.size() + 3; while (p < s.size() && (s[p] == ' ' || s[p] == '"')) p++; return std::strtol(s.c_str() + p, nullptr, 10); }
static std::string json_str(const std::string& s, const std::string& key) { size_t p = s.find("\"" + key + "\":"); if (p == std::string::npos) return ""; p = s.find('"', p + key.size() + 3); if (p == std::string::npos) return ""; size_t q = s.find('"', p + 1); return s.substr(p + 1, q - p - 1); }

int main(int argc, char** argv) {
    Args args(argc, argv); Out out(args.out);
    long only = -1; std::string only_stream; uint64_t seed = args.seed;
    // --replay FILE: re-run exactly the recorded case (stream, case index, seed and tier are taken from the replay record)
    if (!args.replay.empty()) { std::ifstream f(args.replay); std::stringstream ss; ss << f.rdbuf(); std::string t = ss.str(); only = json_long(t, "case", -1); only_stream = json_str(t, "stream"); long sd = json_long(t, "seed", -1); if (sd >= 0) seed = (uint64_t) sd;
        std::string tr = json_str(t, "tier"); if (tr == "quick" || tr == "thorough") args.tier = tr; }
    const int ncorr = args.thorough() ? 3000 : 400, nlib = args.thorough() ? 3000 : 400;
    const int ncorr_twin = args.thorough() ? 300 : 40, nlib_twin = args.thorough() ? 300 : 40;       // twin cases: indices ncorr.., nlib..
    const int nmax_corr = args.thorough() ? 20 : 11, nmax_lib = args.thorough() ? 40 : 16;
    auto one = [&](const std::string& stream, long cs) {
        { std::ofstream lc(args.out + "/lastcase.txt"); lc << "c03 stream " << stream << " case " << cs << " seed " << seed << "\n"; }
        Ctx c{&out, seed, cs, stream, args.tier};
        c.twin = cs >= (stream == "corr" ? ncorr : nlib);
        { Rng rp(seed, stream == "corr" ? 33 : 34, cs); const double u = rp.unit(); c.sigarg = u < 0.40 ? 0 : u < 0.65 ? 1 : u < 0.75 ? 2 : 3; }      // shift-argument policy (see with_shift_solver)
        if (stream == "corr") { Rng r(seed, 31, cs); corr_case(c, r, nmax_corr); } else { Rng r(seed, 32, cs); lib_case(c, r, nmax_lib); }
    };
    if (only >= 0 && !only_stream.empty()) { one(only_stream, only); out.finish(); return 0; }
    for (long cs = 0; cs < ncorr + ncorr_twin; cs++) one("corr", cs);
    for (long cs = 0; cs < nlib + nlib_twin; cs++) one("lib", cs);
    out.finish();
    return 0;
}
