// C04 kernel-level correspondence harness (requests for drv_c04; the acceptance oracle on whole solver runs is harness/c04.cpp):
//   wanted / wantedc   real argsort-then-take-k (exhaustive over a tie-rich alphabet) and real SortEigenvalue<Complex, rule>
//   hrestart/grestart  real HermEigsBase::restart / GenEigsBase::restart on injected Ritz values, observed through the
//                      "arnoldi.compress" hook (H after the shift sweeps, Arnoldi::m_k)  vs  HermSolver.restartShifts / the
//                      translated shift-loop skeleton (RestartIdx.genPasses) driving the TridiagQR / UpperHessenbergQR / DoubleShiftQR models
#include "solver_common.h"
#include <Eigen/LU>
#include <Eigen/Eigenvalues>
#include <Eigen/Sparse>
#include <Spectra/Util/SelectionRule.h>
using namespace sh;
typedef std::complex<double> CD;
typedef std::complex<LD> CL;
typedef Eigen::MatrixXcd CMat;
typedef Eigen::VectorXcd CVec;
typedef Eigen::Matrix<CL, Eigen::Dynamic, Eigen::Dynamic> CMatL;
using Eigen::Index;

struct SpectraVerifAccess {
    // the members live in the (friend) base classes; derived solver classes re-declare the names privately, so go through the base
    template <class O, class B> static auto fac(Spectra::HermEigsBase<O, B>& s) -> decltype((s.m_fac)) { return s.m_fac; }
    template <class O, class B> static auto fac(Spectra::GenEigsBase<O, B>& s) -> decltype((s.m_fac)) { return s.m_fac; }
    template <class O, class B> static auto ritz_val(Spectra::HermEigsBase<O, B>& s) -> decltype((s.m_ritz_val)) { return s.m_ritz_val; }
    template <class O, class B> static auto ritz_val(Spectra::GenEigsBase<O, B>& s) -> decltype((s.m_ritz_val)) { return s.m_ritz_val; }
    template <class O, class B> static void restart(Spectra::HermEigsBase<O, B>& s, Index k, SortRule r) { s.restart(k, r); }
    template <class O, class B> static void restart(Spectra::GenEigsBase<O, B>& s, Index k, SortRule r) { s.restart(k, r); }
    template <class F> static Index fac_k(const F& f) { return f.m_k; }
    template <class F> static const Mat& fac_H(const F& f) { return f.m_fac_H; }
    template <class F> static std::string fachash(const F& f) {
        uint64_t h = 1469598103934665603ull; auto feed = [&h](double x) { uint64_t u = dbits(x + 0.0); for (int b = 0; b < 8; b++) { h ^= (u >> (8 * b)) & 0xff; h *= 1099511628211ull; } };
        feed(f.m_beta); const long m = f.m_m, n = f.m_n, k = f.m_k;
        for (long j = 0; j < m; j++) for (long i = 0; i < m; i++) feed(f.m_fac_H(i, j));
        for (long i = 0; i < n; i++) feed(f.m_fac_f[i]);
        for (long j = 0; j < k; j++) for (long i = 0; i < n; i++) feed(f.m_fac_V(i, j));
        return "k=" + str(k) + " beta=e:" + str(dbits(f.m_beta)) + " hash=" + str(h);
    }
};
typedef SpectraVerifAccess AX;

struct Obs : public Spectra::verif::Observer { std::function<void(const char*, const void*)> f; void on(const char* tag, const void* o) override { if (f) f(tag, o); } };

static const int REAL_RULES[5] = {0, 3, 4, 7, 8};
static const int CPLX_RULES[6] = {0, 1, 2, 4, 5, 6};
// ---------------------------------------------------------------- part kernel
static std::string idx_str(const std::vector<Eigen::Index>& ind, long k) { std::string s = "ok"; for (long i = 0; i < k && i < (long) ind.size(); i++) s += " " + str((long) ind[i]); return s; }
template <int R> static std::vector<Eigen::Index> sortc(const std::vector<CD>& v) { Spectra::SortEigenvalue<CD, (SortRule) R> s(v.data(), (Eigen::Index) v.size()); return s.index(); }
static std::vector<Eigen::Index> sortc_rule(int rule, const std::vector<CD>& v) {
    switch (rule) { case 0: return sortc<0>(v); case 1: return sortc<1>(v); case 2: return sortc<2>(v); case 4: return sortc<4>(v); case 5: return sortc<5>(v); default: return sortc<6>(v); }
}
static void all_vecs(int n, const std::vector<double>& alpha, std::vector<double>& cur, const std::function<void(const std::vector<double>&)>& f) {
    if ((int) cur.size() == n) { f(cur); return; }
    for (double x : alpha) { cur.push_back(x); all_vecs(n, alpha, cur, f); cur.pop_back(); }
}
static std::string hmat_bits(const Mat& H) { std::string s; for (long j = 0; j < H.cols(); j++) for (long i = 0; i < H.rows(); i++) { s += " "; s += str(dbits(H(i, j) + 0.0)); } return s; }

static void part_kernel(const Args& a, Out& out) {
    const bool T = a.thorough();
    // (a) argsort then take k, real values, exhaustive over a tie-rich alphabet; all nine rules (unsupported ones must throw)
    { const std::vector<double> alpha = {-2, -1, 0, 1, 2};
      for (int n = 0; n <= (T ? 5 : 4); n++) { std::vector<double> cur;
        all_vecs(n, alpha, cur, [&](const std::vector<double>& v) {
            Vec ev(n); for (int i = 0; i < n; i++) ev[i] = v[i];
            for (int rule = 0; rule < 9; rule++) { std::vector<Eigen::Index> ind; bool thr = false;
                try { ind = Spectra::argsort((SortRule) rule, ev, (Eigen::Index) n); } catch (const std::invalid_argument&) { thr = true; }
                for (int k = 0; k <= n; k++) { std::string req = "wanted " + str(rule) + " " + str(k) + " " + str(n) + vec_bits(ev); out.corr(req, thr ? "throw std::invalid_argument" : idx_str(ind, k)); out.count("K_wanted"); if (thr) break; } } }); }
      Rng r(a.seed, 60, 0);
      for (int t = 0; t < (T ? 3000 : 600); t++) { int n = r.range(1, 16); Vec ev(n); int kind = r.range(0, 2); for (int i = 0; i < n; i++) ev[i] = kind == 0 ? r.sym() : kind == 1 ? (double) r.range(-3, 3) : std::ldexp(1.0, r.range(-8, 8)) * (r.coin() ? 1 : -1);
          int rule = REAL_RULES[r.below(5)]; int k = r.range(0, n); auto ind = Spectra::argsort((SortRule) rule, ev, (Eigen::Index) n); out.corr("wanted " + str(rule) + " " + str(k) + " " + str(n) + vec_bits(ev), idx_str(ind, k)); out.count("K_wanted_random"); } }
    // (b) SortEigenvalue<Complex, rule> then take k: conjugate pairs, magnitude / real-part / imaginary-part ties
    { const std::vector<CD> alpha = {CD(3, 4), CD(3, -4), CD(5, 0), CD(-5, 0), CD(0, 5), CD(0, -5), CD(4, 3), CD(1, 0)};
      const int NM = T ? 4 : 3;
      for (int n = 0; n <= NM; n++) { long tot = 1; for (int i = 0; i < n; i++) tot *= (long) alpha.size();
        for (long code = 0; code < tot; code++) { std::vector<CD> v(n); long cc = code; for (int i = 0; i < n; i++) { v[i] = alpha[cc % alpha.size()]; cc /= alpha.size(); }
            std::string vb; for (auto& z : v) { vb += " " + str(dbits(z.real())) + " " + str(dbits(z.imag())); }
            for (int ri = 0; ri < 6; ri++) { int rule = CPLX_RULES[ri]; auto ind = sortc_rule(rule, v); for (int k = 0; k <= n; k++) { out.corr("wantedc " + str(rule) + " " + str(k) + " " + str(n) + vb, idx_str(ind, k)); out.count("K_wantedc"); } } } } }
    Obs obs; Spectra::verif::observer() = &obs;
    // (c) HermEigsBase::restart on injected Ritz values: H after the shift sweeps (at the compress hook) vs restartShifts driving TridiagQR
    { Rng rng(a.seed, 61, 0);
      for (int ncv = 2; ncv <= (T ? 12 : 8); ncv++) {
        const int n = ncv + 3; Vec d(n); for (int i = 0; i < n; i++) d[i] = 3.0 * rng.sym(); Mat A = sym_from_spectrum(rng, d); OpLog log; LoopMatOp op(A, log);
        Spectra::SymEigsSolver<LoopMatOp> s(op, 1, ncv); s.init(); s.compute(SortRule::LargestAlge, 0);
        const std::vector<double> alpha = {-2, -1, -0.5, 0.5, 1, 2};
        std::vector<std::vector<double>> vecs;
        if (ncv <= (T ? 5 : 4)) { std::vector<double> cur; all_vecs(ncv, alpha, cur, [&](const std::vector<double>& v) { vecs.push_back(v); }); }
        else for (int t = 0; t < (T ? 400 : 120); t++) { std::vector<double> v(ncv); int kind = rng.range(0, 2); for (int i = 0; i < ncv; i++) v[i] = kind == 0 ? alpha[rng.below(6)] : kind == 1 ? 3.0 * rng.sym() : d[rng.below(n)] ; vecs.push_back(v); }
        long since = 0;
        for (auto& v : vecs) for (int k = 1; k <= ncv; k++) {
            if (ncv > 5 && k != 1 + (int) (since % ncv)) { since++; continue; }
            since++;
            auto& F = AX::fac(s); Mat H0 = AX::fac_H(F);
            if (!H0.allFinite() || AX::fac_k(F) != ncv || since % 64 == 0) { s.init(); s.compute(SortRule::LargestAlge, 0); H0 = AX::fac_H(AX::fac(s)); }
            auto& rv = AX::ritz_val(s); for (int i = 0; i < ncv; i++) rv[i] = v[i];
            std::string req = "hrestart " + str(ncv) + " " + str(k) + hmat_bits(H0); for (int i = 0; i < ncv; i++) req += " " + str(dbits(v[i]));
            { std::ofstream lc(a.out + "/lastcase.txt"); lc << req.substr(0, 300) << "\n"; }
            Mat Hh; long mk = -1; obs.f = [&](const char* tag, const void*) { if (!std::strcmp(tag, "arnoldi.compress")) { Hh = AX::fac_H(AX::fac(s)); mk = (long) AX::fac_k(AX::fac(s)); } };
            std::string resp;
            try { AX::restart(s, k, SortRule::LargestAlge); resp = (k >= ncv) ? std::string("early") : "mk=" + str(mk) + " H" + hmat_bits(Hh); }
            catch (const std::exception& e) { resp = std::string("threw ") + e.what(); s.init(); s.compute(SortRule::LargestAlge, 0); }
            obs.f = nullptr; out.corr(req, resp); out.count("K_hrestart");
        } } }
    // (d) GenEigsBase::restart on injected Ritz values (adjacent conjugate pairs, orphans, reals, a complex value in the last position)
    { Rng rng(a.seed, 62, 0); const double are = 0.3, aim = 0.4;
      auto pat_val = [&](char ch) { switch (ch) { case 'a': return CD(are, aim); case 'c': return CD(are, -aim); case 'b': return CD(aim, are); case 'd': return CD(aim, -are); case 's': return CD(are, 0.0); default: return CD(1.5, 0.0); } };
      for (int ncv = 3; ncv <= (T ? 8 : 6); ncv++) {
        const int n = ncv + 3; Mat A(n, n); for (int i = 0; i < n; i++) for (int j = 0; j < n; j++) A(i, j) = rng.sym(); OpLog log; LoopMatOp op(A, log);
        Spectra::GenEigsSolver<LoopMatOp> s(op, 1, ncv); s.init(); s.compute(SortRule::LargestMagn, 0);
        std::vector<std::string> pats; const std::string al = "racbds";
        if (ncv <= (T ? 5 : 4)) { long tot = 1; for (int i = 0; i < ncv; i++) tot *= 6; for (long code = 0; code < tot; code++) { std::string p; long cc = code; for (int i = 0; i < ncv; i++) { p += al[cc % 6]; cc /= 6; } pats.push_back(p); } }
        else for (int t = 0; t < (T ? 500 : 150); t++) { std::string p; for (int i = 0; i < ncv; i++) { if (i + 1 < ncv && rng.coin(0.35)) { bool ab = rng.coin(); p += ab ? "ac" : "bd"; i++; } else p += al[rng.below(6)]; } pats.push_back(p.substr(0, ncv)); }
        long since = 0;
        for (auto& p : pats) for (int k = 1; k <= ncv; k++) {
            std::vector<CD> v(ncv); for (int i = 0; i < ncv; i++) v[i] = pat_val(p[i]);
            // a complex value met at the LAST position has no partner inside the array: the repaired loop (F9) treats it as a single real shift;
            // the sanitizers of this harness would abort on a read past the end
            { int i = k; while (i < ncv) { if (v[i].imag() != 0.0) { if (i + 1 >= ncv) { out.count("K_grestart_complex_at_end"); break; } if (v[i] == std::conj(v[i + 1])) i++; } i++; } }
            since++;
            auto& F = AX::fac(s); Mat H0 = AX::fac_H(F);
            if (!H0.allFinite() || AX::fac_k(F) != ncv || since % 64 == 0) { s.init(); s.compute(SortRule::LargestMagn, 0); H0 = AX::fac_H(AX::fac(s)); }
            auto& rv = AX::ritz_val(s); for (int i = 0; i < ncv; i++) rv[i] = v[i];
            std::string req = "grestart " + str(ncv) + " " + str(k) + hmat_bits(H0); for (int i = 0; i < ncv; i++) req += " " + str(dbits(v[i].real())) + " " + str(dbits(v[i].imag()));
            { std::ofstream lc(a.out + "/lastcase.txt"); lc << req.substr(0, 300) << "\n"; }
            Mat Hh; long mk = -1; obs.f = [&](const char* tag, const void*) { if (!std::strcmp(tag, "arnoldi.compress")) { Hh = AX::fac_H(AX::fac(s)); mk = (long) AX::fac_k(AX::fac(s)); } };
            std::string resp; bool reinit = false;
            try { AX::restart(s, k, SortRule::LargestMagn); resp = (k >= ncv) ? std::string("early") : "mk=" + str(mk) + " H" + hmat_bits(Hh); }
            catch (const std::exception& e) { if (mk >= 0) resp = "mk=" + str(mk) + " H" + hmat_bits(Hh); else resp = std::string("threw ") + e.what(); reinit = true; }
            obs.f = nullptr; out.corr(req, resp); out.count("K_grestart");
            if (reinit) { try { s.init(); s.compute(SortRule::LargestMagn, 0); } catch (...) {} }
        } } }
    Spectra::verif::observer() = nullptr;
}


int main(int argc, char** argv) {
    Args args(argc, argv); Out out(args.out);
    part_kernel(args, out);
    out.finish();
    return 0;
}
