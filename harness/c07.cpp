// C07 harness: Krylov factorization invariant  A V = V H + f e_k',  V'BV = I,  V'Bf = 0  at every hand-over point.
//  (a) correspondence: the REAL Arnoldi / Lanczos classes are driven through init / factorize_from / compress_H+compress_V
//      histories via friend access; every state (k, op count, accepted expansions, beta, V, H, f) is printed bit-exactly and
//      compared with the Lean model (requests arnoldi_steps / lanczos_steps / compressV);
//  (b) oracle: the property's predicate in long double at every hand-over point of those histories AND (observer hooks) of
//      full solver runs (SymEigsSolver, GenEigsSolver, SymGEigsSolver Cholesky / RegularInverse).
// Predicate constants (generous, stated):  with u = 2^-52, nA = ||A||_F (operator matrix), K = max(k,1),
//      ||A V - V H - f e_k'||_F <= CREL * K * u * nA          CREL = 2000
//      ||V'BV - I||_F           <= CORT * K * u               CORT = 2000   (times cond-ish factor ||B||_F ||B^-1||_F for B != I)
//      ||V'B f||_2              <= CREL * K * u * nA
//      | beta - ||f||_B |       <= CREL * u * max(||f||_B, u*nA)
//      H upper Hessenberg (exact zeros below the subdiagonal of the leading k x k block); Lanczos: tridiagonal, H(i,i-1) == H(i-1,i)
//      k == advertised dimension (1 after init, to_m after factorize_from, reduced k after compress).
#include "common.h"
#include <Eigen/Core>
#include <Eigen/Cholesky>
#include <Eigen/LU>
#include <Spectra/Util/VerifHooks.h>
struct SpectraVerifAccess;
#include <Spectra/LinAlg/Arnoldi.h>
#include <Spectra/LinAlg/Lanczos.h>
#include <Spectra/LinAlg/UpperHessenbergQR.h>
#include <Spectra/LinAlg/DoubleShiftQR.h>
#include <Spectra/SymEigsSolver.h>
#include <Spectra/GenEigsSolver.h>
#include <Spectra/SymGEigsSolver.h>
#include <Spectra/MatOp/DenseSymMatProd.h>
#include <Spectra/MatOp/DenseCholesky.h>
#include <unistd.h>
#include <sys/wait.h>
#include <fcntl.h>
using namespace vh;
typedef long double LD;
typedef Eigen::MatrixXd Mat;
typedef Eigen::VectorXd Vec;
typedef Eigen::Index Index;

static const LD U = 2.220446049250313e-16L;
static const LD CREL = 2000, CORT = 2000;

// ------------------------------------------------------------------ operators with explicit row-major loops
struct Track { const double* last_in = nullptr; long calls = 0; };
struct DenseOp {
    using Scalar = double;
    int n; std::vector<double> a; Track* tr;
    DenseOp(int n_, Track* t = nullptr) : n(n_), a((size_t) n_ * n_, 0.0), tr(t) {}
    Index rows() const { return n; }
    Index cols() const { return n; }
    double& at(int i, int j) { return a[(size_t) i * n + j]; }
    double at(int i, int j) const { return a[(size_t) i * n + j]; }
    void perform_op(const double* x, double* y) const {
        if (tr) { tr->last_in = x; tr->calls++; }
        for (int i = 0; i < n; i++) { double s = 0.0; for (int j = 0; j < n; j++) s += a[(size_t) i * n + j] * x[j]; y[i] = s; }
    }
};
// B operator for the RegularInverse mode: perform_op = B x (explicit loop), solve = dense LLT
struct DenseBInv {
    using Scalar = double;
    int n; DenseOp B; Eigen::LLT<Mat> llt;
    DenseBInv(const DenseOp& b) : n(b.n), B(b) { Mat M(n, n); for (int i = 0; i < n; i++) for (int j = 0; j < n; j++) M(i, j) = b.at(i, j); llt.compute(M); }
    Index rows() const { return n; }
    Index cols() const { return n; }
    void perform_op(const double* x, double* y) const { B.perform_op(x, y); }
    void solve(const double* x, double* y) const { Eigen::Map<const Vec> xv(x, n); Eigen::Map<Vec> yv(y, n); yv.noalias() = llt.solve(xv); }
};

struct SpectraVerifAccess {
    template <class AO> static const Mat& V(const Spectra::Arnoldi<double, AO>& f) { return f.m_fac_V; }
    template <class AO> static const Mat& H(const Spectra::Arnoldi<double, AO>& f) { return f.m_fac_H; }
    template <class AO> static const Vec& f(const Spectra::Arnoldi<double, AO>& f) { return f.m_fac_f; }
    template <class AO> static Mat& Vm(Spectra::Arnoldi<double, AO>& f) { return f.m_fac_V; }
    template <class AO> static Mat& Hm(Spectra::Arnoldi<double, AO>& f) { return f.m_fac_H; }
    template <class AO> static Vec& fm(Spectra::Arnoldi<double, AO>& f) { return f.m_fac_f; }
    template <class AO> static Index& km(Spectra::Arnoldi<double, AO>& f) { return f.m_k; }
    template <class AO> static double& betam(Spectra::Arnoldi<double, AO>& f) { return f.m_beta; }
    template <class AO> static double beta(const Spectra::Arnoldi<double, AO>& f) { return f.m_beta; }
    template <class AO> static Index k(const Spectra::Arnoldi<double, AO>& f) { return f.m_k; }
    template <class AO> static Index m(const Spectra::Arnoldi<double, AO>& f) { return f.m_m; }
    template <class AO> static Index n(const Spectra::Arnoldi<double, AO>& f) { return f.m_n; }
    template <class AO> static double near0(const Spectra::Arnoldi<double, AO>& f) { return f.m_near_0; }
    template <class AO> static double eps(const Spectra::Arnoldi<double, AO>& f) { return f.m_eps; }
    template <class AO> static const AO& op(const Spectra::Arnoldi<double, AO>& f) { return f.m_op; }
};
typedef SpectraVerifAccess AX;

static std::string fb(double x) { return x == 0.0 ? std::string("0") : str(dbits(x)); }

// ------------------------------------------------------------------ the oracle
struct Ctx {
    int n = 0; bool lanczos = false; bool hasB = false;
    std::vector<LD> M, B;      // operator matrix and inner-product matrix, row-major, long double
    LD normA = 0, condB = 1;
    std::string replay;        // replay JSON prefix (without closing brace)
    std::string gen;
    Out* out = nullptr;
    long nfail_here = 0;
    bool nan = false;          // a non-finite factorization was handed over: the history stops and no correspondence line is written
    bool nearinv = false;      // sticky diagnostic: a residual handed over by init / compress_V had beta < 1e-2 ||A||_F (it is normalised by the next
                               // factorize_from without any re-orthogonalisation); used only for known-finding matching
    bool discard = false;      // sticky diagnostic: a hand-over point of this run showed an exact zero beta or subdiagonal (f := 0 shortcut / restart)
    bool tinysub = false;      // sticky diagnostic: some sub-diagonal |H(j+1,j)|, j+1 < k, was < 1e-2 ||A||_F (a residual that small relative to ||A|| was normalised)
    int absd = 0;              // set when a relation failure is within k*sqrt(eps) absolute and `discard` holds
    std::string reported;      // signatures already reported for this case (one report per signature and case)
    int av0zero = 0;           // A v0 == 0 exactly
    std::string cls;
};
static LD g_max_rel = 0, g_max_ort = 0, g_max_fo = 0, g_max_beta = 0;

static void report(Ctx& c, const std::string& sig, const std::string& what, const std::string& replay) {
    c.nfail_here++;
    if (c.reported.find("<" + sig + ">") != std::string::npos) return;
    c.reported += "<" + sig + ">"; c.out->fail(sig, what, replay);
}
static std::string rj(const Ctx& c, const std::string& tag, const std::string& extra = "") {
    return c.replay + ",\"class\":\"" + c.cls + "\",\"weak_handover\":" + str((int) c.nearinv) + ",\"tiny_subdiag\":" + str((int) c.tinysub) + ",\"abs_discard\":" + str(c.absd) + ",\"Av0_zero\":" + str(c.av0zero) + ",\"tag\":\"" + tag + "\"" + extra + "}";
}
static bool finite_all(const Mat& V, int k, const Mat& H, const Vec& f, double beta) {
    for (int j = 0; j < k; j++) for (int i = 0; i < V.rows(); i++) if (!std::isfinite(V(i, j))) return false;
    for (int j = 0; j < k; j++) for (int i = 0; i < k; i++) if (!std::isfinite(H(i, j))) return false;
    for (int i = 0; i < f.size(); i++) if (!std::isfinite(f[i])) return false;
    return std::isfinite(beta);
}
// B-apply in long double
static void applyB(const Ctx& c, const std::vector<LD>& x, std::vector<LD>& y) {
    int n = c.n; y.assign(n, 0);
    if (!c.hasB) { y = x; return; }
    for (int i = 0; i < n; i++) { LD s = 0; for (int j = 0; j < n; j++) s += c.B[(size_t) i * n + j] * x[j]; y[i] = s; }
}
// full predicate at a hand-over point with k columns
static void check_point(Ctx& c, const char* tag, const Mat& V, const Mat& H, const Vec& f, double beta, int k, int k_expected) {
    Out& out = *c.out; int n = c.n;
    out.count(std::string("oracle_") + tag);
    if (k_expected >= 0 && k != k_expected) { report(c, "krylov-k", std::string(tag) + ": subspace_dim = " + str(k) + " but advertised " + str(k_expected), rj(c, tag)); return; }
    if (k < 1 || k > V.cols()) { report(c, "krylov-k", std::string(tag) + ": subspace_dim = " + str(k) + " out of range", rj(c, tag)); return; }
    if (!finite_all(V, k, H, f, beta)) { c.nan = true; report(c, "krylov-nan", std::string(tag) + ": non-finite entries in V/H/f/beta handed over (gen " + c.gen + ")", rj(c, tag)); return; }
    if ((!std::strcmp(tag, "arnoldi.init") || !std::strcmp(tag, "arnoldi.compress")) && (LD) std::fabs(beta) < 1e-2L * c.normA) c.nearinv = true;
    { for (int j = 0; j + 1 < k; j++) if ((LD) std::fabs(H(j + 1, j)) < 1e-2L * c.normA) c.tinysub = true; }
    { if (beta == 0.0) c.discard = true; for (int j = 0; j + 1 < k; j++) if (H(j + 1, j) == 0.0) c.discard = true; }
    // shape: entries outside the Hessenberg (Lanczos: tridiagonal) band, and the asymmetry for Lanczos.  UpperHessenbergQR / TridiagQR
    // leave exact zeros; DoubleShiftQR (Householder bulge chasing) leaves rounding residue, so the band part is required
    // to be below the relation tolerance and is counted in `shape_residue_nonzero` when not exactly zero.
    LD sh2 = 0; bool exact = true;
    for (int j = 0; j < k; j++) for (int i = j + 2; i < k; i++) if (H(i, j) != 0.0) { exact = false; sh2 += (LD) H(i, j) * H(i, j); }
    if (c.lanczos) {
        for (int j = 0; j < k; j++) for (int i = 0; i + 1 < j; i++) if (H(i, j) != 0.0) { exact = false; sh2 += (LD) H(i, j) * H(i, j); }
        for (int j = 0; j + 1 < k; j++) if (H(j + 1, j) != H(j, j + 1)) { report(c, "krylov-shape", std::string(tag) + ": Lanczos H not symmetric at " + str(j), rj(c, tag)); return; }
        if (!exact) { report(c, "krylov-shape", std::string(tag) + ": Lanczos H has a nonzero entry outside the tridiagonal band", rj(c, tag)); return; }
    }
    if (!exact) out.count("shape_residue_nonzero");
    { LD sh = std::sqrt(sh2), tol = CREL * k * U * c.normA; if (!(sh <= tol)) { char b2[300]; snprintf(b2, sizeof b2, "%s: H not upper Hessenberg: ||below-subdiagonal part||_F = %.3Le > %.3Le", tag, sh, tol); report(c, "krylov-shape", b2, rj(c, tag)); return; } }
    std::vector<std::vector<LD>> v(k, std::vector<LD>(n)), bv(k);
    for (int j = 0; j < k; j++) { for (int i = 0; i < n; i++) v[j][i] = V(i, j); applyB(c, v[j], bv[j]); }
    std::vector<LD> fl(n), bf; for (int i = 0; i < n; i++) fl[i] = f[i]; applyB(c, fl, bf);
    // relation
    LD r2 = 0;
    for (int j = 0; j < k; j++) for (int i = 0; i < n; i++) {
        LD s = 0; for (int l = 0; l < n; l++) s += c.M[(size_t) i * n + l] * v[j][l];
        for (int l = 0; l < k && l <= j + 1; l++) s -= v[l][i] * (LD) H(l, j);
        if (j == k - 1) s -= fl[i];
        r2 += s * s;
    }
    LD rel = std::sqrt(r2);
    LD o2 = 0; for (int a = 0; a < k; a++) for (int b = 0; b < k; b++) { LD s = 0; for (int i = 0; i < n; i++) s += v[a][i] * bv[b][i]; if (a == b) s -= 1; o2 += s * s; }
    LD ort = std::sqrt(o2);
    LD f2 = 0; for (int a = 0; a < k; a++) { LD s = 0; for (int i = 0; i < n; i++) s += v[a][i] * bf[i]; f2 += s * s; }
    LD fo = std::sqrt(f2);
    LD fn2 = 0; for (int i = 0; i < n; i++) fn2 += fl[i] * bf[i];
    LD fn = std::sqrt(fn2 > 0 ? fn2 : 0);
    LD K = k, nA = c.normA;
    LD tol_rel = CREL * K * U * nA, tol_ort = CORT * K * U * c.condB, tol_beta = CREL * U * std::max(fn, U * nA) * c.condB;
    // headroom statistics over runs without a weak hand-over (the known-finding mechanism) only
    if (!c.nearinv && !c.discard && !(c.lanczos && c.tinysub)) {
    if (nA > 0 && rel <= tol_rel) g_max_rel = std::max(g_max_rel, rel / (K * U * nA));
    if (nA > 0 && fo <= tol_rel) g_max_fo = std::max(g_max_fo, fo / (K * U * nA));
    if (ort <= tol_ort) g_max_ort = std::max(g_max_ort, ort / (K * U * c.condB));
    if (std::fabs((LD) beta - fn) <= tol_beta) g_max_beta = std::max(g_max_beta, std::fabs((LD) beta - fn) / (U * std::max(fn, U * nA) * c.condB + 1e-4000L));
    }
    c.absd = (c.discard && rel <= K * 1.4901161193847656e-08L) ? 1 : 0;
    char buf[400];
    if (std::getenv("C07_DEBUG")) { fprintf(stderr, "[dbg] %s k=%d beta=%.3e rel=%.3Le ort=%.3Le fo=%.3Le nA=%.3Le sub:", tag, k, beta, rel, ort, fo, nA); for (int j = 0; j + 1 < k; j++) fprintf(stderr, " %.3e", H(j + 1, j)); fprintf(stderr, "\n"); }
    if (!(ort <= tol_ort)) { snprintf(buf, sizeof buf, "%s: ||V'BV - I||_F = %.3Le > %.3Le (k=%d, ||A||_F=%.3Le, gen %s)", tag, ort, tol_ort, k, nA, c.gen.c_str()); report(c, "krylov-orth", buf, rj(c, tag)); }
    if (!(rel <= tol_rel)) { snprintf(buf, sizeof buf, "%s: ||AV - VH - f e_k'||_F = %.3Le > %.3Le (k=%d, ||A||_F=%.3Le, gen %s)", tag, rel, tol_rel, k, nA, c.gen.c_str()); report(c, "krylov-relation", buf, rj(c, tag)); }
    if (!(fo <= tol_rel)) { snprintf(buf, sizeof buf, "%s: ||V'Bf|| = %.3Le > %.3Le (k=%d, ||A||_F=%.3Le, gen %s)", tag, fo, tol_rel, k, nA, c.gen.c_str()); report(c, "krylov-forth", buf, rj(c, tag)); }
    if (!(std::fabs((LD) beta - fn) <= tol_beta)) { snprintf(buf, sizeof buf, "%s: beta = %.17g but ||f||_B = %.17Lg", tag, beta, fn); report(c, "krylov-beta", buf, rj(c, tag)); }
}
// fresh direction accepted by expand_basis: f orthogonal (relative to its own norm) to the first i columns, beta = ||f||_B
static void check_expand(Ctx& c, const Mat& V, const Vec& f, double beta, int i) {
    Out& out = *c.out; int n = c.n; out.count("oracle_arnoldi.expand");
    for (int l = 0; l < n; l++) if (!std::isfinite(f[l])) { report(c, "krylov-nan", "arnoldi.expand: non-finite direction", rj(c, "arnoldi.expand")); return; }
    std::vector<LD> fl(n), bf; for (int l = 0; l < n; l++) fl[l] = f[l]; applyB(c, fl, bf);
    LD fn2 = 0; for (int l = 0; l < n; l++) fn2 += fl[l] * bf[l]; LD fn = std::sqrt(fn2 > 0 ? fn2 : 0);
    LD mx = 0; for (int a = 0; a < i; a++) { LD s = 0; for (int l = 0; l < n; l++) s += (LD) V(l, a) * bf[l]; mx = std::max(mx, std::fabs(s)); }
    char buf[300];
    if (!(mx <= 100 * U * fn * c.condB)) { snprintf(buf, sizeof buf, "arnoldi.expand: max|V'Bf| = %.3Le > 100 u ||f|| = %.3Le (i=%d)", mx, 100 * U * fn, i); report(c, "krylov-expand-orth", buf, rj(c, "arnoldi.expand")); }
    if (!(std::fabs((LD) beta - fn) <= CREL * U * fn * c.condB) || !(fn > 0)) { snprintf(buf, sizeof buf, "arnoldi.expand: beta = %.17g, ||f||_B = %.17Lg", beta, fn); report(c, "krylov-beta", buf, rj(c, "arnoldi.expand")); }
}

static void set_ctx_dense(Ctx& c, const DenseOp& A, const DenseOp* B) {
    int n = A.n; c.n = n; c.M.resize((size_t) n * n); LD s = 0;
    for (int i = 0; i < n * n; i++) { c.M[i] = A.a[i]; s += c.M[i] * c.M[i]; }
    c.normA = std::sqrt(s); c.hasB = (B != nullptr); c.condB = 1;
    if (B) {
        c.B.resize((size_t) n * n); for (int i = 0; i < n * n; i++) c.B[i] = B->a[i];
        Mat Bm(n, n); for (int i = 0; i < n; i++) for (int j = 0; j < n; j++) Bm(i, j) = B->at(i, j);
        c.condB = std::max((LD) 1, (LD) (Bm.norm() * Bm.inverse().norm()));
    }
}

// ------------------------------------------------------------------ matrix generators
static const char* GEN[] = {"random", "smallint", "blockdiag", "rankdef", "eigstart", "graded", "kerstart"};
enum { G_RANDOM, G_SMALLINT, G_BLOCK, G_RANKDEF, G_EIGSTART, G_GRADED, G_KER, G_COUNT };

struct Problem { int n; DenseOp A; Vec v0; int gen; int scale_exp; bool sym; Problem(int n_) : n(n_), A(n_), v0(n_), gen(0), scale_exp(0), sym(false) {} };

static void symmetrize(DenseOp& A) { for (int i = 0; i < A.n; i++) for (int j = 0; j < i; j++) A.at(j, i) = A.at(i, j); }

static Problem make_problem(Rng& r, int n, int gen, bool sym) {
    Problem p(n); p.gen = gen; p.sym = sym;
    for (int i = 0; i < n; i++) p.v0[i] = r.sym();
    auto scale = [&](int e) { double s = std::pow(10.0, e); for (auto& x : p.A.a) x *= s; p.scale_exp = e; };
    switch (gen) {
    case G_RANDOM: for (auto& x : p.A.a) x = r.sym(); if (sym) symmetrize(p.A); break;
    case G_SMALLINT: for (auto& x : p.A.a) x = r.coin(0.4) ? 0.0 : (double) r.range(-3, 3); if (sym) symmetrize(p.A);
        for (int i = 0; i < n; i++) p.v0[i] = (double) r.range(-2, 2); if (p.v0.norm() == 0) p.v0[0] = 1; break;
    case G_BLOCK: {  // invariant subspace of dimension q spanned by the first q coordinates; start vector inside it
        int q = r.range(1, std::max(1, n / 2));
        for (int i = 0; i < n; i++) for (int j = 0; j < n; j++) { bool in = (i < q) == (j < q); p.A.at(i, j) = in ? (r.coin(0.5) ? r.sym() : (double) r.range(-2, 2)) : 0.0; }
        if (sym) symmetrize(p.A);
        for (int i = 0; i < n; i++) p.v0[i] = i < q ? (r.coin(0.5) ? r.sym() : (double) r.range(1, 3)) : 0.0;
        if (r.coin(0.3)) scale(r.range(-8, 8));
        break; }
    case G_RANKDEF: {  // A = sum_{t<rk} s_t x_t y_t'  (y = x when symmetric), norm 1e-8..1e8
        int rk = r.range(1, std::max(1, n / 2));
        for (int t = 0; t < rk; t++) {
            std::vector<double> x(n), y(n); for (int i = 0; i < n; i++) { x[i] = r.coin(0.5) ? r.sym() : (double) r.range(-2, 2); y[i] = r.coin(0.5) ? r.sym() : (double) r.range(-2, 2); }
            double s = r.coin(0.5) ? 1.0 : r.sym() * 4;
            for (int i = 0; i < n; i++) for (int j = 0; j < n; j++) p.A.at(i, j) += s * x[i] * (sym ? x[j] : y[j]);
        }
        scale(r.range(-8, 8)); break; }
    case G_EIGSTART: {  // A = P D P with P = I - 2uu'/u'u (Householder), v0 = P e_0: an eigenvector up to rounding
        std::vector<double> u(n), d(n); double uu = 0; for (int i = 0; i < n; i++) { u[i] = r.sym(); uu += u[i] * u[i]; d[i] = r.coin(0.5) ? r.sym() * 3 : (double) r.range(-3, 3); }
        Mat P = Mat::Identity(n, n); for (int i = 0; i < n; i++) for (int j = 0; j < n; j++) P(i, j) -= 2 * u[i] * u[j] / uu;
        Mat D = Mat::Zero(n, n); for (int i = 0; i < n; i++) D(i, i) = d[i];
        if (!sym) for (int i = 0; i < n; i++) for (int j = i + 1; j < n; j++) D(i, j) = r.sym();   // upper triangular: e_0 still an eigenvector
        Mat A = P * D * P; for (int i = 0; i < n; i++) for (int j = 0; j < n; j++) p.A.at(i, j) = A(i, j);
        if (sym) symmetrize(p.A);
        for (int i = 0; i < n; i++) p.v0[i] = P(i, 0);
        if (r.coin(0.3)) scale(r.range(-8, 8));
        break; }
    case G_GRADED: for (int i = 0; i < n; i++) for (int j = 0; j < n; j++) p.A.at(i, j) = r.sym() * std::pow(10.0, -(double) (i + j) * r.range(1, 8) / (double) n); if (sym) symmetrize(p.A); scale(r.range(-8, 8)); break;
    case G_KER: {  // first coordinate in the kernel (row and column 0 are zero), v0 = e_0: A v0 = 0
        for (int i = 1; i < n; i++) for (int j = 1; j < n; j++) p.A.at(i, j) = r.sym(); if (sym) symmetrize(p.A);
        p.v0.setZero(); p.v0[0] = 1; break; }
    }
    return p;
}
static DenseOp make_spd(Rng& r, int n) {
    DenseOp B(n); Mat G(n, n); for (int i = 0; i < n; i++) for (int j = 0; j < n; j++) G(i, j) = r.sym();
    Mat M = G * G.transpose() / n + Mat::Identity(n, n) * (1.0 + r.unit());
    for (int i = 0; i < n; i++) for (int j = 0; j <= i; j++) { B.at(i, j) = M(i, j); B.at(j, i) = M(i, j); }
    return B;
}

// ------------------------------------------------------------------ direct drive (correspondence + oracle)
template <class FAC> static std::string snapshot(const FAC& fac, long ops, long nexp) {
    std::string s = "| " + str(AX::k(fac)) + " " + str(ops) + " " + str(nexp) + " " + fb(AX::beta(fac));
    const Mat& V = AX::V(fac); const Mat& H = AX::H(fac); const Vec& f = AX::f(fac);
    Index n = AX::n(fac), m = AX::m(fac), k = AX::k(fac);
    for (Index j = 0; j < k; j++) for (Index i = 0; i < n; i++) { s += " "; s += fb(V(i, j)); }
    for (Index j = 0; j < m; j++) for (Index i = 0; i < m; i++) { s += " "; s += fb(H(i, j)); }
    for (Index i = 0; i < n; i++) { s += " "; s += fb(f[i]); }
    return s;
}
static std::string bitsrow(const DenseOp& A) { std::string s; for (double x : A.a) { s += " "; s += str(dbits(x)); } return s; }
static std::string bitscol(const Mat& M) { std::string s; for (Index j = 0; j < M.cols(); j++) for (Index i = 0; i < M.rows(); i++) { s += " "; s += str(dbits(M(i, j))); } return s; }

struct CountObs : Spectra::verif::Observer { long nexp = 0; void on(const char* tag, const void*) override { if (!std::strcmp(tag, "arnoldi.expand")) nexp++; } };


// observer used both in direct drive (expand checks + counting) and in solver runs (full predicate at every tag)
template <class AOP> struct FacObs : Spectra::verif::Observer {
    Ctx* c; Track* tr; bool solver; long nexp = 0; int ncv = -1; bool buildM = false; long npoints = 0;
    FacObs(Ctx* c_, Track* t, bool s) : c(c_), tr(t), solver(s) {}
    void on(const char* tag, const void* obj) override {
        if (std::strncmp(tag, "arnoldi.", 8) && std::strncmp(tag, "lanczos.", 8)) return;   // herm.restart / gen.restart: solver object
        const Spectra::Arnoldi<double, AOP>& fac = *static_cast<const Spectra::Arnoldi<double, AOP>*>(obj);
        int n = (int) AX::n(fac), m = (int) AX::m(fac);
        if (buildM && c->M.empty()) {   // operator matrix by applying the real operator to unit vectors (double), see header
            c->n = n; c->M.assign((size_t) n * n, 0); Vec e = Vec::Zero(n), y(n); LD s = 0;
            for (int j = 0; j < n; j++) { e.setZero(); e[j] = 1; AX::op(fac).perform_op(e.data(), y.data()); for (int i = 0; i < n; i++) { c->M[(size_t) i * n + j] = y[i]; s += (LD) y[i] * y[i]; } }
            c->normA = std::sqrt(s);
        }
        if (!std::strcmp(tag, "arnoldi.expand")) {
            nexp++;
            int i = (int) AX::k(fac);
            if (tr && tr->last_in) { const double* base = AX::V(fac).data(); if (tr->last_in >= base && tr->last_in < base + (size_t) n * m) i = (int) ((tr->last_in - base) / n) + 1; }
            check_expand(*c, AX::V(fac), AX::f(fac), AX::beta(fac), i);
            return;
        }
        if (tr) tr->last_in = nullptr;
        if (!solver) return;
        npoints++;
        int expected = -1;
        if (!std::strcmp(tag, "arnoldi.init")) expected = 1;
        else if (!std::strcmp(tag, "arnoldi.factorize") || !std::strcmp(tag, "lanczos.factorize")) expected = ncv;
        int k = (int) AX::k(fac);
        if (!std::strcmp(tag, "arnoldi.compress") && !(k >= 1 && k < m)) { report(*c, "krylov-k", "arnoldi.compress: reduced dimension " + str(k) + " not in [1, m)", rj(*c, tag)); return; }
        check_point(*c, tag, AX::V(fac), AX::H(fac), AX::f(fac), AX::beta(fac), k, expected);
    }
};

// ---- structured breakdown problems for the CORRESPONDENCE streams (and the oracle): the Krylov sequence breaks down after q < m steps
//  kind 0 "bk_eigvec"  : v0 = c e_0 an EXACT eigenvector (row/column 0 of A decoupled, integer eigenvalue): f = 0 exactly after init
//  kind 1 "bk_eignoise": v0 = eigenvector up to rounding (A = P D P resp. W D W'B): step-1 residual is rounding noise (init guard taken or not)
//  kind 2 "bk_twoeig"  : v0 = sum of two such eigenvectors: numerically invariant subspace of dimension 2 (re-orthogonalisation `f := 0` shortcut)
//  kind 3 "bk_block"   : v0 = c e_0 inside an EXACT invariant block of size q = 2..3 (integer upper Hessenberg / symmetric tridiagonal block,
//                        unreduced), so that beta = 0 EXACTLY after q steps: `beta < near_0` -> expand_basis -> further steps after the restart
//  With B (Lanczos only): exact kinds use B = blockdiag(diag(powers of 4), dense SPD) and the operator S*B with S block diagonal;
//  noise kinds use the dense SPD B = L L', W = L^-T P (so W'BW = I), operator (W D W') B, v0 = W e_0 (+ W e_1).
static const char* BKN[] = {"bk_eigvec", "bk_eignoise", "bk_twoeig", "bk_block"};
static Problem make_breakdown(Rng& r, int n, int kind, bool sym, bool withB, DenseOp& Bm) {
    Problem p(n); p.gen = 0; p.sym = sym;
    if (kind == 0 || kind == 3) {
        int q = kind == 0 ? 1 : r.range(2, 3);
        std::vector<double> bd(q, 1.0);
        if (withB) for (int i = 0; i < q; i++) bd[i] = std::pow(4.0, r.range(-1, 2));
        // S: block 1 integer (symmetric tridiagonal for Lanczos, upper Hessenberg for Arnoldi), unreduced; block 2 random
        DenseOp S(n);
        for (int i = 0; i < q; i++) for (int j = 0; j < q; j++) {
            bool band = sym ? (std::abs(i - j) <= 1) : (i <= j + 1);
            if (!band) continue;
            double v = (double) r.range(-3, 3);
            if (i == j + 1 && v == 0) v = 1; if (i == j && q == 1 && v == 0) v = 2;
            S.at(i, j) = v;
        }
        if (sym) for (int i = 0; i < q; i++) for (int j = 0; j < i; j++) S.at(j, i) = S.at(i, j);
        for (int i = q; i < n; i++) for (int j = q; j < n; j++) S.at(i, j) = r.coin(0.5) ? r.sym() : (double) r.range(-2, 2);
        if (sym) for (int i = q; i < n; i++) for (int j = q; j < i; j++) S.at(j, i) = S.at(i, j);
        if (withB) {
            DenseOp B2 = make_spd(r, n);
            for (auto& x : Bm.a) x = 0.0;
            for (int i = 0; i < q; i++) Bm.at(i, i) = bd[i];
            for (int i = q; i < n; i++) for (int j = q; j < n; j++) Bm.at(i, j) = B2.at(i, j);
            Mat Sm(n, n), Bq(n, n); for (int i = 0; i < n; i++) for (int j = 0; j < n; j++) { Sm(i, j) = S.at(i, j); Bq(i, j) = Bm.at(i, j); }
            Mat P = Sm * Bq; for (int i = 0; i < n; i++) for (int j = 0; j < n; j++) p.A.at(i, j) = ((i < q) == (j < q)) ? P(i, j) : 0.0;
        } else p.A = S;
        p.v0.setZero(); static const double cs[] = {1.0, 2.0, -0.5, 3.0, -4.0}; p.v0[0] = cs[r.below(5)];
        if (r.coin(0.25)) { int e = r.range(-8, 8); double sc = std::pow(10.0, e); if (kind == 0 || e == 0) { for (auto& x : p.A.a) x *= sc; p.scale_exp = e; } }
        return p;
    }
    // noise kinds
    std::vector<double> u(n), d(n); double uu = 0; for (int i = 0; i < n; i++) { u[i] = r.sym(); uu += u[i] * u[i]; d[i] = r.coin(0.5) ? r.sym() * 3 : (double) r.range(-3, 3); if (d[i] == 0) d[i] = 1.5; }
    Mat P = Mat::Identity(n, n); for (int i = 0; i < n; i++) for (int j = 0; j < n; j++) P(i, j) -= 2 * u[i] * u[j] / uu;
    Mat D = Mat::Zero(n, n); for (int i = 0; i < n; i++) D(i, i) = d[i];
    if (!sym) for (int i = 0; i < n; i++) for (int j = i + 1; j < n; j++) D(i, j) = r.sym();
    Mat W = P, A;
    if (withB) {
        Mat Bq(n, n); for (int i = 0; i < n; i++) for (int j = 0; j < n; j++) Bq(i, j) = Bm.at(i, j);
        Eigen::LLT<Mat> llt(Bq); Mat L = llt.matrixL();
        W = L.transpose().triangularView<Eigen::Upper>().solve(P);
        Mat S = W * D * W.transpose(); S = (0.5 * (S + S.transpose())).eval();
        A = S * Bq;
    } else { A = P * D * P; if (sym) A = (0.5 * (A + A.transpose())).eval(); }
    double sc = 1.0; if (r.coin(0.3)) { int e = r.range(-8, 8); sc = std::pow(10.0, e); p.scale_exp = e; }
    for (int i = 0; i < n; i++) for (int j = 0; j < n; j++) p.A.at(i, j) = A(i, j) * sc;
    for (int i = 0; i < n; i++) p.v0[i] = W(i, 0) + (kind == 2 ? W(i, 1) : 0.0);
    return p;
}

template <bool LAN>
static void direct_case(uint64_t seed, long idx, Out& out, bool do_corr, int force_gen = -1, int bk = -1) {
    Rng r(seed, bk >= 0 ? (LAN ? 76 : 77) : (LAN ? 71 : 72), (uint64_t) idx);
    int n = bk >= 0 ? r.range(5, 10) : (r.coin(0.85) ? r.range(2, 9) : r.range(10, 12));
    int m = bk >= 0 ? r.range(4, std::min(n, 8)) : r.range(2, std::min(n, 8));
    int gen = force_gen >= 0 ? force_gen : (int) r.below(G_COUNT - 1);       // kerstart only when forced (NaN, oracle only)
    bool withB = LAN && (bk >= 0 ? ((idx / 4) % 2 == 1) : r.coin(0.3)) && gen != G_KER;
    DenseOp Bm = make_spd(r, n);
    Problem p = bk >= 0 ? make_breakdown(r, n, bk, LAN, withB, Bm) : make_problem(r, n, gen, LAN);
    if (bk >= 0) gen = 0;
    const std::string gname = bk >= 0 ? BKN[bk] : GEN[gen];
    if (withB && bk < 0) {  // operator S*B is B-self-adjoint
        Mat Sm(n, n), Bq(n, n); for (int i = 0; i < n; i++) for (int j = 0; j < n; j++) { Sm(i, j) = p.A.at(i, j); Bq(i, j) = Bm.at(i, j); }
        Mat P = Sm * Bq; for (int i = 0; i < n; i++) for (int j = 0; j < n; j++) p.A.at(i, j) = P(i, j);
    }
    Track tr; p.A.tr = &tr;
    Ctx c; c.out = &out; c.lanczos = LAN; c.cls = LAN ? "Lanczos" : "Arnoldi"; c.gen = gname; set_ctx_dense(c, p.A, withB ? &Bm : nullptr);
    { Vec y(n); p.A.perform_op(p.v0.data(), y.data()); c.av0zero = (y.cwiseAbs().maxCoeff() == 0.0); }
    c.replay = "{\"c07mode\":\"direct\",\"c07lanczos\":" + str((int) LAN) + ",\"c07idx\":" + str(idx) + ",\"c07seed\":" + str(seed) + ",\"c07force\":" + str(force_gen) + ",\"c07bk\":" + str(bk) + ",\"gen\":\"" + gname + "\",\"withB\":" + str((int) withB) + ",\"scale_exp\":" + str(p.scale_exp) + ",\"n\":" + str(n) + ",\"m\":" + str(m);
    out.count(std::string("direct_gen_") + gname); if (withB) out.count(bk >= 0 ? "direct_bk_withB" : "direct_withB");
    std::string req, resp, opsq; int nops = 0;
    long t_init0 = 0, t_restart = 0, t_restart_steps = 0, t_fbeta0 = 0, t_nexp = 0;   // branch tags of this history (implementation side)
    auto run = [&](auto& fac, auto& obs) {
        Index ops = 0;
        req = std::string(LAN ? "lanczos_steps " : "arnoldi_steps ") + str(n) + " " + str(m) + " " + str(dbits(AX::near0(fac))) + " " + str(dbits(AX::eps(fac))) + " " + (withB ? "1" : "0") + bitsrow(p.A) + (withB ? bitsrow(Bm) : std::string());
        { Eigen::Map<const Vec> v0(p.v0.data(), n); opsq += " I"; for (int i = 0; i < n; i++) opsq += " " + str(dbits(p.v0[i])); nops++;
          try { fac.init(v0, ops); } catch (const std::invalid_argument&) { resp += "| throw"; out.count("direct_throw"); return; }
          resp += snapshot(fac, ops, obs.nexp) + " ";
          check_point(c, "arnoldi.init", AX::V(fac), AX::H(fac), AX::f(fac), AX::beta(fac), (int) AX::k(fac), 1);
          if (AX::beta(fac) == 0.0) t_init0++;
          if (c.nan) return; }
        auto fact = [&](Index a, Index b) -> bool {
            opsq += " F " + str(a) + " " + str(b); nops++;
            Index kbefore = AX::k(fac);
            try { fac.factorize_from(a, b, ops); } catch (const std::invalid_argument&) { resp += "| throw"; out.count("direct_throw"); return false; }
            resp += snapshot(fac, ops, obs.nexp) + " ";
            check_point(c, LAN ? "lanczos.factorize" : "arnoldi.factorize", AX::V(fac), AX::H(fac), AX::f(fac), AX::beta(fac), (int) AX::k(fac), (int) (b > a ? b : kbefore));
            if (b > a && !c.nan) {   // a zero sub-diagonal in a NEW column = that pass went through expand_basis (restart)
                for (Index i = a; i < b; i++) if (AX::H(fac)(i, i - 1) == 0.0) { t_restart++; if (i + 1 < b) t_restart_steps++; }
                if (AX::beta(fac) == 0.0) t_fbeta0++;
            }
            return !c.nan; };
        int m1 = r.range(1, m);
        if (!fact(1, m1)) return;
        if (r.coin(0.1)) { if (!fact(m1, m1)) return; }                 // no-op
        if (r.coin(0.04)) { fact(m1 + 1, m1 + 2); return; }             // from_k > k: must throw
        if (m1 < m && !fact(m1, m)) return;
        int rounds = r.range(0, 3);
        for (int rd = 0; rd < rounds; rd++) {
            int knew = r.range(1, m - 1);
            Mat Q = Mat::Identity(m, m);
            int kk = m;
            while (kk > knew) {
                double mu = AX::H(fac)(r.range(0, m - 1), r.range(0, m - 1)) + (r.coin(0.5) ? 0.0 : r.sym() * (double) c.normA);
                if constexpr (LAN) { Spectra::TridiagQR<double> d(m); d.compute(AX::H(fac), mu); d.apply_YQ(Q); fac.compress_H(d); kk -= 1; out.count("direct_shift_tridiag"); }
                else {
                    if (kk - knew >= 2 && r.coin(0.4)) { double s = 2 * mu, t = mu * mu + r.unit() * (double) (c.normA * c.normA); Spectra::DoubleShiftQR<double> d(m); d.compute(AX::H(fac), s, t); d.apply_YQ(Q); fac.compress_H(d); kk -= 2; out.count("direct_shift_double"); }
                    else { Spectra::UpperHessenbergQR<double> d(m); d.compute(AX::H(fac), mu); d.apply_YQ(Q); fac.compress_H(d); kk -= 1; out.count("direct_shift_single"); }
                }
            }
            opsq += " C " + str(knew) + bitscol(AX::H(fac)) + bitscol(Q); nops++;
            fac.compress_V(Q);
            resp += snapshot(fac, ops, obs.nexp) + " ";
            check_point(c, "arnoldi.compress", AX::V(fac), AX::H(fac), AX::f(fac), AX::beta(fac), (int) AX::k(fac), knew);
            if (c.nan) return;
            if (!fact(knew, m)) return;
        }
    };
    if (withB) {
        typedef Spectra::ArnoldiOp<double, DenseOp, DenseOp> AOP;
        FacObs<AOP> obs(&c, &tr, false); Spectra::verif::observer() = &obs;
        if constexpr (LAN) { Spectra::Lanczos<double, AOP> fac(AOP(p.A, Bm), m); run(fac, obs); }
        out.count("direct_expansions", obs.nexp); t_nexp = obs.nexp;
    } else {
        typedef Spectra::ArnoldiOp<double, DenseOp, Spectra::IdentityBOp> AOP;
        FacObs<AOP> obs(&c, &tr, false); Spectra::verif::observer() = &obs;
        Spectra::IdentityBOp ib;
        typename std::conditional<LAN, Spectra::Lanczos<double, AOP>, Spectra::Arnoldi<double, AOP>>::type fac(AOP(p.A, ib), m);
        run(fac, obs);
        out.count("direct_expansions", obs.nexp); t_nexp = obs.nexp;
    }
    Spectra::verif::observer() = nullptr;
    while (!resp.empty() && resp.back() == ' ') resp.pop_back();
    // a correspondence line is written for EVERY finite history, also when the oracle reported a failure on it
    if (do_corr && !c.nan && (bk >= 0 || gen != G_KER)) {
        out.corr(req + " " + str(nops) + opsq, resp);
        const std::string pre = std::string("corrtag_") + (LAN ? "lanczos" : "arnoldi") + (withB ? "B_" : "_");
        out.count(pre + "lines");
        if (t_init0) out.count(pre + "init_shortcut_beta0");
        if (t_init0 && (bk == 1 || bk == 2)) out.count(pre + "init_guard_on_noise");
        if (t_restart) { out.count(pre + "lines_with_restart"); out.count(pre + "expand_basis_calls", t_restart); }
        if (t_nexp) out.count(pre + "expansions_accepted", t_nexp);
        if (t_restart_steps) out.count(pre + "restart_followed_by_steps", t_restart_steps);
        if (t_fbeta0) out.count(pre + "factorize_end_beta0");
        if (c.nfail_here) out.count(pre + "lines_with_oracle_failure");
    }
}

// kernel-level compress_V with an ARBITRARY dense Q (exercises the nnz truncation) on an explicit state
static void compressV_case(uint64_t seed, long idx, Out& out) {
    Rng r(seed, 73, (uint64_t) idx);
    int n = r.range(2, 9), m = r.range(2, std::min(n, 7)), k = r.range(1, m - 1);
    DenseOp A(n); Spectra::IdentityBOp ib; typedef Spectra::ArnoldiOp<double, DenseOp, Spectra::IdentityBOp> AOP;
    Spectra::Arnoldi<double, AOP> fac(AOP(A, ib), m);
    Mat V(n, m), H(m, m), Q(m, m); Vec f(n);
    bool ints = r.coin(0.3);
    auto val = [&]() { return ints ? (double) r.range(-3, 3) : r.sym(); };
    for (int j = 0; j < m; j++) for (int i = 0; i < n; i++) V(i, j) = val();
    for (int j = 0; j < m; j++) for (int i = 0; i < m; i++) { H(i, j) = val(); Q(i, j) = val(); }
    for (int i = 0; i < n; i++) f[i] = val();
    AX::Vm(fac) = V; AX::Hm(fac) = H; AX::fm(fac) = f; AX::km(fac) = k;
    fac.compress_V(Q);
    std::string req = "compressV " + str(n) + " " + str(m) + " " + str(k) + bitscol(V) + bitscol(H) + bitscol(Mat(f)) + bitscol(Q);
    std::string resp = fb(AX::beta(fac));
    for (int j = 0; j < k + 1; j++) for (int i = 0; i < n; i++) resp += " " + fb(AX::V(fac)(i, j));
    for (int i = 0; i < n; i++) resp += " " + fb(AX::f(fac)[i]);
    out.corr(req, resp); out.count("compressV_cases");
    // oracle (bandwidth lemma on the real code): entries of Q below the band must not influence the result
    Mat Q2 = Q; for (int j = 0; j < k; j++) for (int i = m - k + j + 1; i < m; i++) Q2(i, j) = 0.0;
    Spectra::Arnoldi<double, AOP> fac2(AOP(A, ib), m);
    AX::Vm(fac2) = V; AX::Hm(fac2) = H; AX::fm(fac2) = f; AX::km(fac2) = k; fac2.compress_V(Q2);
    out.count("oracle_compressV_band");
    bool same = true; for (int j = 0; j < k + 1 && same; j++) for (int i = 0; i < n; i++) if (dbits(AX::V(fac)(i, j)) != dbits(AX::V(fac2)(i, j))) { same = false; break; }
    // f uses Q(m-1,k-1), which is inside the band (row m-1 = m-k+(k-1)), so f agrees too
    for (int i = 0; i < n && same; i++) if (dbits(AX::f(fac)[i]) != dbits(AX::f(fac2)[i])) same = false;
    if (!same) out.fail("compressV-band", "compress_V result depends on entries of Q outside the band", "{\"c07mode\":\"compressV\",\"c07idx\":" + str(idx) + ",\"c07seed\":" + str(seed) + "}");
}

// ------------------------------------------------------------------ full solver runs, observed through the hooks
static void solver_case(uint64_t seed, long idx, Out& out) {
    Rng r(seed, 74, (uint64_t) idx);
    int kind = (int) (idx % 4);            // 0 SymEigs, 1 GenEigs, 2 SymGEigs Cholesky, 3 SymGEigs RegularInverse
    int n = r.coin(0.7) ? r.range(4, 14) : r.range(15, 40);
    int gen = (int) r.below(G_COUNT - 1);
    bool sym = kind != 1;
    Problem p = make_problem(r, n, gen, sym);
    int nev = r.range(1, std::min(n - 2, 6)); int ncv = r.range(kind == 1 ? std::min(n, nev + 2) : nev + 1, std::min(n, nev + 2 + 2 * nev + 3));
    if (nev >= n - 1) nev = n - 2; if (nev < 1) nev = 1; if (ncv <= nev) ncv = nev + 1; if (kind == 1 && ncv < nev + 2) ncv = std::min(n, nev + 2); if (ncv > n) ncv = n;
    int maxit = r.range(3, 40); double tol = r.coin(0.5) ? 1e-10 : 1e-6;
    static const char* KN[] = {"SymEigsSolver", "GenEigsSolver", "SymGEigsCholesky", "SymGEigsRegularInverse"};
    Track tr; p.A.tr = &tr;
    Ctx c; c.out = &out; c.lanczos = sym; c.cls = sym ? "Lanczos" : "Arnoldi"; c.gen = GEN[gen];
    { Vec y(n); p.A.perform_op(p.v0.data(), y.data()); c.av0zero = (y.cwiseAbs().maxCoeff() == 0.0); }
    c.replay = "{\"c07mode\":\"solver\",\"c07idx\":" + str(idx) + ",\"c07seed\":" + str(seed) + ",\"solver\":\"" + KN[kind] + "\",\"gen\":\"" + GEN[gen] + "\",\"scale_exp\":" + str(p.scale_exp) + ",\"n\":" + str(n) + ",\"nev\":" + str(nev) + ",\"ncv\":" + str(ncv);
    out.count(std::string("solver_") + KN[kind]); out.count(std::string("solver_gen_") + GEN[gen]);
    long npoints = 0, nexp = 0;
    try {
        if (kind == 0) {
            typedef Spectra::ArnoldiOp<double, DenseOp, Spectra::IdentityBOp> AOP;
            set_ctx_dense(c, p.A, nullptr);
            FacObs<AOP> obs(&c, &tr, true); obs.ncv = ncv; Spectra::verif::observer() = &obs;
            Spectra::SymEigsSolver<DenseOp> eigs(p.A, nev, ncv); eigs.init(p.v0.data());
            eigs.compute((Spectra::SortRule) (r.coin(0.5) ? 0 : (r.coin(0.5) ? 3 : 7)), maxit, tol);
            npoints = obs.npoints; nexp = obs.nexp;
        } else if (kind == 1) {
            typedef Spectra::ArnoldiOp<double, DenseOp, Spectra::IdentityBOp> AOP;
            set_ctx_dense(c, p.A, nullptr);
            FacObs<AOP> obs(&c, &tr, true); obs.ncv = ncv; Spectra::verif::observer() = &obs;
            Spectra::GenEigsSolver<DenseOp> eigs(p.A, nev, ncv); eigs.init(p.v0.data());
            eigs.compute((Spectra::SortRule) (r.coin(0.5) ? 0 : (r.coin(0.5) ? 1 : 5)), maxit, tol);
            npoints = obs.npoints; nexp = obs.nexp;
        } else if (kind == 2) {
            typedef Spectra::DenseSymMatProd<double> OA; typedef Spectra::DenseCholesky<double> OB;
            typedef Spectra::ArnoldiOp<double, Spectra::SymGEigsCholeskyOp<OA, OB>, Spectra::IdentityBOp> AOP;
            DenseOp Bd = make_spd(r, n); Mat Am(n, n), Bm(n, n); for (int i = 0; i < n; i++) for (int j = 0; j < n; j++) { Am(i, j) = p.A.at(i, j); Bm(i, j) = Bd.at(i, j); }
            OA opA(Am); OB opB(Bm);
            c.condB = std::max((LD) 1, (LD) (Bm.norm() * Bm.inverse().norm()));
            FacObs<AOP> obs(&c, nullptr, true); obs.ncv = ncv; obs.buildM = true; Spectra::verif::observer() = &obs;
            Spectra::SymGEigsSolver<OA, OB, Spectra::GEigsMode::Cholesky> eigs(opA, opB, nev, ncv); eigs.init(p.v0.data());
            eigs.compute((Spectra::SortRule) (r.coin(0.5) ? 0 : 3), maxit, tol);
            npoints = obs.npoints; nexp = obs.nexp;
        } else {
            typedef Spectra::ArnoldiOp<double, Spectra::SymGEigsRegInvOp<DenseOp, DenseBInv>, DenseBInv> AOP;
            DenseOp Bd = make_spd(r, n); DenseBInv opB(Bd);
            Mat Bm(n, n); for (int i = 0; i < n; i++) for (int j = 0; j < n; j++) Bm(i, j) = Bd.at(i, j);
            c.hasB = true; c.B.resize((size_t) n * n); for (int i = 0; i < n * n; i++) c.B[i] = Bd.a[i];
            c.condB = std::max((LD) 1, (LD) (Bm.norm() * Bm.inverse().norm()));
            p.A.tr = nullptr;
            FacObs<AOP> obs(&c, nullptr, true); obs.ncv = ncv; obs.buildM = true; Spectra::verif::observer() = &obs;
            Spectra::SymGEigsSolver<DenseOp, DenseBInv, Spectra::GEigsMode::RegularInverse> eigs(p.A, opB, nev, ncv); eigs.init(p.v0.data());
            eigs.compute((Spectra::SortRule) (r.coin(0.5) ? 0 : 3), maxit, tol);
            npoints = obs.npoints; nexp = obs.nexp;
        }
    } catch (const std::exception& e) { out.count(std::string("solver_exception_") + (std::strstr(e.what(), "decomposition") ? "decomp" : "other")); }
    Spectra::verif::observer() = nullptr;
    out.count("solver_points", npoints); out.count("solver_expansions", nexp);
}

// Arnoldi (not Lanczos) with a NON-identity B operator: factorize_from evaluates m_op.norm(h) on the coefficient vector h (length i+1),
// i.e. applies B to a pointer with only i+1 valid entries and dots vectors of different length.  Run in a child process (the
// failure mode is an Eigen assertion / out-of-bounds read); no library solver instantiates this combination.
static void arnoldiB_case(uint64_t seed, Out& out) {
    out.count("oracle_arnoldiB");
    fflush(nullptr);
    pid_t pid = fork();
    if (pid == 0) {
        int fd = open("/dev/null", O_WRONLY); if (fd >= 0) { dup2(fd, 2); dup2(fd, 1); }
        Rng r(seed, 75, 0); int n = 6, m = 4;
        Problem p = make_problem(r, n, G_RANDOM, false); DenseOp Bm = make_spd(r, n);
        typedef Spectra::ArnoldiOp<double, DenseOp, DenseOp> AOP;
        Spectra::Arnoldi<double, AOP> fac(AOP(p.A, Bm), m);
        Eigen::Map<const Vec> v0(p.v0.data(), n); Index ops = 0;
        fac.init(v0, ops); fac.factorize_from(1, m, ops);
        _exit(AX::k(fac) == m ? 0 : 3);
    }
    int st = 0; if (pid > 0) waitpid(pid, &st, 0);
    bool ok = pid > 0 && WIFEXITED(st) && WEXITSTATUS(st) == 0;
    if (!ok) out.fail("arnoldi-bnorm-h", "Arnoldi<Scalar, ArnoldiOp<Scalar, Op, BOp>> with a non-identity BOp: init + factorize_from(1, m) on a random 6x6 operator terminates abnormally (Eigen assertion size() == other.size() in m_op.norm(h) / out-of-bounds read of H)",
                      "{\"c07mode\":\"arnoldiB\",\"c07seed\":" + str(seed) + ",\"class\":\"ArnoldiB\"}");
}

static long find_num(const std::string& t, const std::string& key, long dflt) {
    auto p = t.find("\"" + key + "\":"); if (p == std::string::npos) return dflt; return std::atol(t.c_str() + p + key.size() + 3);
}

int main(int argc, char** argv) {
    Args a(argc, argv); Out out(a.out);
    if (!a.replay.empty()) {
        std::ifstream f(a.replay); std::string t((std::istreambuf_iterator<char>(f)), {});
        long idx = find_num(t, "c07idx", 0); uint64_t sd = (uint64_t) find_num(t, "c07seed", (long) a.seed); int force = (int) find_num(t, "c07force", -1);
        if (t.find("arnoldiB") != std::string::npos) arnoldiB_case(sd, out);
        else if (t.find("\"c07mode\":\"solver\"") != std::string::npos || t.find("\"c07mode\": \"solver\"") != std::string::npos) solver_case(sd, idx, out);
        else if (t.find("compressV") != std::string::npos) compressV_case(sd, idx, out);
        else if (find_num(t, "c07lanczos", 0)) direct_case<true>(sd, idx, out, true, force, (int) find_num(t, "c07bk", -1));
        else direct_case<false>(sd, idx, out, true, force, (int) find_num(t, "c07bk", -1));
        out.finish(); return 0;
    }
    long nd = a.thorough() ? 30000 : 1000, nc = a.thorough() ? 5000 : 400, ns = a.thorough() ? 48000 : 1600;
    for (long i = 0; i < nd; i++) { direct_case<false>(a.seed, i, out, true); direct_case<true>(a.seed, i, out, true); }
    // structured breakdown histories: a fixed share (nd/4 each for Arnoldi and Lanczos; kinds cycle, every second group of 4 with B for Lanczos)
    for (long i = 0; i < nd / 4; i++) { direct_case<false>(a.seed, i, out, true, -1, (int) (i % 4)); direct_case<true>(a.seed, i, out, true, -1, (int) (i % 4)); }
    for (long i = 0; i < nc; i++) compressV_case(a.seed, i, out);
    for (long i = 0; i < 3; i++) { direct_case<false>(a.seed, 1000000 + i, out, false, G_KER); direct_case<true>(a.seed, 1000000 + i, out, false, G_KER); }
    for (long i = 0; i < ns; i++) solver_case(a.seed, i, out);
    arnoldiB_case(a.seed, out);
    out.count("max_ratio_relation_x1000", (long) std::min((LD) 4e18, g_max_rel * 1000));
    out.count("max_ratio_orth_x1000", (long) std::min((LD) 4e18, g_max_ort * 1000));
    out.count("max_ratio_forth_x1000", (long) std::min((LD) 4e18, g_max_fo * 1000));
    out.count("max_ratio_beta_x1000", (long) std::min((LD) 4e18, g_max_beta * 1000));
    out.finish(); return 0;
}
