// C20 harness (built with -fsanitize=thread, NOT ASan): concurrent-vs-sequential bitwise comparison of the real solver classes,
// 2..16 threads, operators private per thread or ONE shared const Dense/Sparse product wrapper, randomised launch order,
// start barrier and random pre-delays.  Any ThreadSanitizer report and any bit difference is an oracle failure whose replay
// names (seed, launch index, thread count, configuration, mode).
// Correspondence requests (answered on the model side by drv_c20 from Gen.Footprint / Model.Par):
//   footprint statics | thread_locals      <- symbol table of THIS binary (nm): writable / TLS data symbols of namespace Spectra
//   footprint wrapper <name>                 <- type-trait probes of the compiled wrapper classes
//   par_rng N seeds.. sched..                <- N real threads drawing concurrently from private SimpleRandom objects
#include "common.h"
#include <thread>
#include <atomic>
#include <type_traits>
#include <memory>
#include <unistd.h>
#include <Eigen/Core>
#include <Eigen/SparseCore>
#include <Spectra/SymEigsSolver.h>
#include <Spectra/SymEigsShiftSolver.h>
#include <Spectra/HermEigsSolver.h>
#include <Spectra/GenEigsSolver.h>
#include <Spectra/GenEigsRealShiftSolver.h>
#include <Spectra/GenEigsComplexShiftSolver.h>
#include <Spectra/SymGEigsSolver.h>
#include <Spectra/SymGEigsShiftSolver.h>
#include <Spectra/DavidsonSymEigsSolver.h>
#include <Spectra/contrib/PartialSVDSolver.h>
#include <Spectra/MatOp/DenseSymMatProd.h>
#include <Spectra/MatOp/DenseHermMatProd.h>
#include <Spectra/MatOp/DenseGenMatProd.h>
#include <Spectra/MatOp/SparseSymMatProd.h>
#include <Spectra/MatOp/SparseHermMatProd.h>
#include <Spectra/MatOp/SparseGenMatProd.h>
#include <Spectra/MatOp/DenseSymShiftSolve.h>
#include <Spectra/MatOp/DenseGenRealShiftSolve.h>
#include <Spectra/MatOp/DenseGenComplexShiftSolve.h>
#include <Spectra/MatOp/DenseCholesky.h>
#include <Spectra/MatOp/SparseRegularInverse.h>
#include <Spectra/MatOp/SymShiftInvert.h>
#include <Spectra/Util/SimpleRandom.h>
using namespace vh;
using namespace Spectra;
typedef Eigen::MatrixXd Mat; typedef Eigen::VectorXd Vec; typedef Eigen::SparseMatrix<double> SpMat;
typedef Eigen::MatrixXcd CMat; typedef std::complex<double> cd;
typedef std::vector<uint64_t> Blob;

// ---- ThreadSanitizer report hook (weak in libtsan): count reports so that each launch can be judged on its own ----
static std::atomic<long> g_tsan_reports(0);
extern "C" void __tsan_on_report(void*) { g_tsan_reports.fetch_add(1, std::memory_order_relaxed); }
extern "C" const char* __tsan_default_options() { return "halt_on_error=0:report_signal_unsafe=0:history_size=4:second_deadlock_stack=1"; }

// ---- configurations ----
enum Cfg { SymDense, SymSparse, GenDense, GenSparse, Davidson, SVD, SymShift, GenRealShift, GSymChol, HermDense, GenCplxShift, GSymShiftInv, GSymRegInv, NCFG };
static const char* CFG_NAME[] = {"SymEigsSolver<DenseSymMatProd>", "SymEigsSolver<SparseSymMatProd>", "GenEigsSolver<DenseGenMatProd>", "GenEigsSolver<SparseGenMatProd>",
    "DavidsonSymEigsSolver<DenseSymMatProd>", "PartialSVDSolver<MatrixXd>", "SymEigsShiftSolver<DenseSymShiftSolve>", "GenEigsRealShiftSolver<DenseGenRealShiftSolve>",
    "SymGEigsSolver<DenseSymMatProd,DenseCholesky,Cholesky>", "HermEigsSolver<DenseHermMatProd>", "GenEigsComplexShiftSolver<DenseGenComplexShiftSolve>",
    "SymGEigsShiftSolver<SymShiftInvert,DenseSymMatProd,ShiftInvert>", "SymGEigsSolver<SparseSymMatProd,SparseRegularInverse,RegularInverse>"};
// which configurations have a shareable product wrapper (the property's sharing clause)
static bool shareable(int c) { return c == SymDense || c == SymSparse || c == GenDense || c == GenSparse || c == Davidson || c == SVD || c == GSymChol || c == HermDense || c == GSymShiftInv || c == GSymRegInv; }

struct Problem {   // the data of one operator: built from (seed, stream, idx) only
    int n; Mat A, B, G, R; SpMat As, Bs, Gs; CMat H;
    Problem(int n_, Rng& r) : n(n_) {
        Mat X(n, n); for (int j = 0; j < n; j++) for (int i = 0; i < n; i++) X(i, j) = r.sym();
        A = 0.5 * (X + X.transpose()); for (int i = 0; i < n; i++) A(i, i) += 1.5 * (i % 7) - 3.0;
        G = X; for (int i = 0; i < n; i++) G(i, i) += 2.0 + 0.37 * i;
        Mat Y(n, n); for (int j = 0; j < n; j++) for (int i = 0; i < n; i++) Y(i, j) = r.sym();
        B = Y * Y.transpose() / n + Mat::Identity(n, n) * 2.0;
        int m = n + 5 + (int) r.below(10); R.resize(m, n); for (int j = 0; j < n; j++) for (int i = 0; i < m; i++) R(i, j) = r.sym();
        Mat Sa = A, Sg = G, Sb = B;
        for (int j = 0; j < n; j++) for (int i = 0; i < n; i++) if (std::abs(i - j) > 3 && ((i * 7 + j * 7 + i * j) % 5) != 0) { Sa(i, j) = 0; Sg(i, j) = 0; }
        for (int j = 0; j < n; j++) for (int i = 0; i < n; i++) if (std::abs(i - j) > 1) Sb(i, j) = 0;
        for (int i = 0; i < n; i++) Sb(i, i) += 2.0;
        As = Sa.sparseView(); Gs = Sg.sparseView(); Bs = Sb.sparseView(); As.makeCompressed(); Gs.makeCompressed(); Bs.makeCompressed();
        H = A.cast<cd>(); for (int j = 0; j < n; j++) for (int i = j + 1; i < n; i++) { double t = 0.3 * X(i, j); H(i, j) += cd(0, t); H(j, i) -= cd(0, t); }
    }
};
// one shared set of wrappers over one Problem (the objects several threads use simultaneously in "shared" mode)
struct SharedOps {
    DenseSymMatProd<double> dsym; SparseSymMatProd<double> ssym; DenseGenMatProd<double> dgen; SparseGenMatProd<double> sgen;
    DenseHermMatProd<cd> dherm; DenseSymMatProd<double> bprod;
    explicit SharedOps(const Problem& p) : dsym(p.A), ssym(p.As), dgen(p.G), sgen(p.Gs), dherm(p.H), bprod(p.B) {}
};
struct Job { int cfg; int nev, ncv; int rule; double sigma; };

static void put(Blob& b, double x) { b.push_back(dbits(x)); }
static void put(Blob& b, cd x) { b.push_back(dbits(x.real())); b.push_back(dbits(x.imag())); }
template <class M> static void putm(Blob& b, const M& m) { b.push_back((uint64_t) m.rows()); b.push_back((uint64_t) m.cols()); for (Eigen::Index j = 0; j < m.cols(); j++) for (Eigen::Index i = 0; i < m.rows(); i++) put(b, m(i, j)); }
template <class S> static void put_solver(Blob& b, S& s, Eigen::Index nconv) {
    b.push_back((uint64_t) nconv); b.push_back((uint64_t) (int) s.info()); b.push_back((uint64_t) s.num_iterations()); b.push_back((uint64_t) s.num_operations());
    putm(b, s.eigenvalues()); putm(b, s.eigenvectors());
}
static const SortRule SYM_RULES[] = {SortRule::LargestMagn, SortRule::LargestAlge, SortRule::SmallestAlge, SortRule::BothEnds, SortRule::SmallestMagn};
static const SortRule GEN_RULES[] = {SortRule::LargestMagn, SortRule::LargestReal, SortRule::LargestImag, SortRule::SmallestReal, SortRule::SmallestMagn};

// run one job on problem p; `sh` non-null => use the shared wrappers (which were built over p), else private wrappers built here
static Blob run_job(const Job& j, const Problem& p, SharedOps* sh) {
    Blob b; b.push_back((uint64_t) j.cfg);
    const int maxit = 300; const double tol = 1e-9;
    try {
        switch (j.cfg) {
        case SymDense: { std::unique_ptr<DenseSymMatProd<double>> own; if (!sh) own.reset(new DenseSymMatProd<double>(p.A)); DenseSymMatProd<double>& op = sh ? sh->dsym : *own;
            SymEigsSolver<DenseSymMatProd<double>> s(op, j.nev, j.ncv); s.init(); auto nc = s.compute(SYM_RULES[j.rule % 5], maxit, tol); put_solver(b, s, nc); break; }
        case SymSparse: { std::unique_ptr<SparseSymMatProd<double>> own; if (!sh) own.reset(new SparseSymMatProd<double>(p.As)); SparseSymMatProd<double>& op = sh ? sh->ssym : *own;
            SymEigsSolver<SparseSymMatProd<double>> s(op, j.nev, j.ncv); s.init(); auto nc = s.compute(SYM_RULES[j.rule % 5], maxit, tol); put_solver(b, s, nc); break; }
        case GenDense: { std::unique_ptr<DenseGenMatProd<double>> own; if (!sh) own.reset(new DenseGenMatProd<double>(p.G)); DenseGenMatProd<double>& op = sh ? sh->dgen : *own;
            GenEigsSolver<DenseGenMatProd<double>> s(op, j.nev, j.ncv); s.init(); auto nc = s.compute(GEN_RULES[j.rule % 5], maxit, tol); put_solver(b, s, nc); break; }
        case GenSparse: { std::unique_ptr<SparseGenMatProd<double>> own; if (!sh) own.reset(new SparseGenMatProd<double>(p.Gs)); SparseGenMatProd<double>& op = sh ? sh->sgen : *own;
            GenEigsSolver<SparseGenMatProd<double>> s(op, j.nev, j.ncv); s.init(); auto nc = s.compute(GEN_RULES[j.rule % 5], maxit, tol); put_solver(b, s, nc); break; }
        case Davidson: { std::unique_ptr<DenseSymMatProd<double>> own; if (!sh) own.reset(new DenseSymMatProd<double>(p.A)); DenseSymMatProd<double>& op = sh ? sh->dsym : *own;
            DavidsonSymEigsSolver<DenseSymMatProd<double>> s(op, j.nev); auto nc = s.compute((j.rule & 1) ? SortRule::LargestAlge : SortRule::SmallestAlge, 60, 1e-8);
            b.push_back((uint64_t) nc); b.push_back((uint64_t) (int) s.info()); b.push_back((uint64_t) s.num_iterations()); putm(b, s.eigenvalues()); putm(b, s.eigenvectors()); break; }
        case SVD: { // the "wrapper" here is the const matrix itself (PartialSVDSolver builds its own adaptor over it): shared = same Mat object
            Mat own; if (!sh) own = p.R; const Mat& M = sh ? p.R : own;
            PartialSVDSolver<Mat> s(M, j.nev, j.ncv); auto nc = s.compute(maxit, tol); b.push_back((uint64_t) nc); putm(b, s.singular_values()); putm(b, s.matrix_U(j.nev)); putm(b, s.matrix_V(j.nev)); break; }
        case SymShift: { DenseSymShiftSolve<double> op(p.A); SymEigsShiftSolver<DenseSymShiftSolve<double>> s(op, j.nev, j.ncv, j.sigma); s.init(); auto nc = s.compute(SortRule::LargestMagn, maxit, tol); put_solver(b, s, nc); break; }
        case GenRealShift: { DenseGenRealShiftSolve<double> op(p.G); GenEigsRealShiftSolver<DenseGenRealShiftSolve<double>> s(op, j.nev, j.ncv, j.sigma); s.init(); auto nc = s.compute(SortRule::LargestMagn, maxit, tol); put_solver(b, s, nc); break; }
        case GSymChol: { std::unique_ptr<DenseSymMatProd<double>> own; if (!sh) own.reset(new DenseSymMatProd<double>(p.A)); DenseSymMatProd<double>& op = sh ? sh->dsym : *own; DenseCholesky<double> Bop(p.B);
            SymGEigsSolver<DenseSymMatProd<double>, DenseCholesky<double>, GEigsMode::Cholesky> s(op, Bop, j.nev, j.ncv); s.init(); auto nc = s.compute(SYM_RULES[j.rule % 4], maxit, tol); put_solver(b, s, nc); break; }
        case HermDense: { std::unique_ptr<DenseHermMatProd<cd>> own; if (!sh) own.reset(new DenseHermMatProd<cd>(p.H)); DenseHermMatProd<cd>& op = sh ? sh->dherm : *own;
            HermEigsSolver<DenseHermMatProd<cd>> s(op, j.nev, j.ncv); s.init(); auto nc = s.compute(SYM_RULES[j.rule % 4], maxit, tol); put_solver(b, s, nc); break; }
        case GenCplxShift: { DenseGenComplexShiftSolve<double> op(p.G); GenEigsComplexShiftSolver<DenseGenComplexShiftSolve<double>> s(op, j.nev, j.ncv, j.sigma, 0.4); s.init(); auto nc = s.compute(SortRule::LargestMagn, maxit, tol); put_solver(b, s, nc); break; }
        case GSymShiftInv: { using SI = SymShiftInvert<double, Eigen::Dense, Eigen::Dense>; SI op(p.A, p.B);   // the B product wrapper is the shared object
            std::unique_ptr<DenseSymMatProd<double>> own; if (!sh) own.reset(new DenseSymMatProd<double>(p.B)); DenseSymMatProd<double>& Bop = sh ? sh->bprod : *own;
            SymGEigsShiftSolver<SI, DenseSymMatProd<double>, GEigsMode::ShiftInvert> s(op, Bop, j.nev, j.ncv, j.sigma); s.init(); auto nc = s.compute(SortRule::LargestMagn, maxit, tol); put_solver(b, s, nc); break; }
        case GSymRegInv: { std::unique_ptr<SparseSymMatProd<double>> own; if (!sh) own.reset(new SparseSymMatProd<double>(p.As)); SparseSymMatProd<double>& op = sh ? sh->ssym : *own; SparseRegularInverse<double> Bop(p.Bs);
            SymGEigsSolver<SparseSymMatProd<double>, SparseRegularInverse<double>, GEigsMode::RegularInverse> s(op, Bop, j.nev, j.ncv); s.init(); auto nc = s.compute(SYM_RULES[j.rule % 2], maxit, tol); put_solver(b, s, nc); break; }
        }
    } catch (const std::exception& e) { b.push_back(0xEEEEEEEEull); uint64_t h = 1469598103934665603ull; for (const char* c = e.what(); *c; c++) h = (h ^ (unsigned char) *c) * 1099511628211ull; b.push_back(h); }
    return b;
}

struct Launch { int idx; int T; bool shared; bool mixed; std::vector<Job> jobs; std::vector<int> prob; std::vector<int> order; std::vector<int> delay; int nprob; int n; };

static Launch make_launch(uint64_t seed, int idx, bool thorough, const std::vector<int>& cfgs) {
    Rng r(seed, 2020, (uint64_t) idx);
    Launch L; L.idx = idx;
    static const int TQ[] = {2, 3, 4, 4, 6, 8}; static const int TT[] = {2, 3, 4, 5, 6, 7, 8, 9, 10, 11, 12, 13, 14, 15, 16, 16};
    L.T = thorough ? TT[r.below(16)] : TQ[r.below(6)];
    int c0 = cfgs[idx % cfgs.size()];
    L.mixed = (r.below(5) == 0);
    L.shared = !L.mixed && shareable(c0) && (idx / (int) cfgs.size()) % 2 == 0 ? true : (!L.mixed && shareable(c0) && r.coin(0.5));
    L.n = 16 + (int) r.below(thorough ? 40 : 24);
    L.nprob = L.shared ? 1 : L.T;
    for (int t = 0; t < L.T; t++) {
        Job j; j.cfg = L.mixed ? cfgs[r.below(cfgs.size())] : c0;
        j.nev = 2 + (int) r.below(4); j.ncv = std::min(L.n - 1, j.nev + 3 + (int) r.below(8)); if (j.cfg == GenDense || j.cfg == GenSparse || j.cfg == GenRealShift || j.cfg == GenCplxShift) j.ncv = std::min(L.n - 1, std::max(j.ncv, j.nev + 3));
        j.rule = (int) r.below(5); j.sigma = 0.31 + 0.1 * (double) r.below(7);
        L.jobs.push_back(j); L.prob.push_back(L.shared ? 0 : t); L.order.push_back(t); L.delay.push_back((int) r.below(4) == 0 ? (int) r.below(20000) : (int) r.below(200));
    }
    for (int t = L.T - 1; t > 0; t--) std::swap(L.order[t], L.order[r.below(t + 1)]);   // randomised launch order
    return L;
}

static std::string launch_json(uint64_t seed, const std::string& tier, const Launch& L, int thread = -1) {
    std::string s = "{\"op\":\"launch\",\"seed\":" + str(seed) + ",\"tier\":\"" + tier + "\",\"launch\":" + str(L.idx) + ",\"threads\":" + str(L.T) + ",\"mode\":\"" + (L.mixed ? "mixed-private" : L.shared ? "shared-wrapper" : "private") + "\",\"n\":" + str(L.n) + ",\"class\":\"" + CFG_NAME[L.jobs[0].cfg] + "\"";
    if (thread >= 0) s += ",\"thread\":" + str(thread) + ",\"thread_class\":\"" + std::string(CFG_NAME[L.jobs[thread].cfg]) + "\",\"nev\":" + str(L.jobs[thread].nev) + ",\"ncv\":" + str(L.jobs[thread].ncv);
    return s + "}";
}

// run one launch: sequential reference, concurrent run (reps times), sequential again; compare bitwise
static void do_launch(Out& out, uint64_t seed, const std::string& tier, const Launch& L, int reps) {
    Rng pr(seed, 2021, (uint64_t) L.idx);
    std::vector<std::unique_ptr<Problem>> probs; for (int k = 0; k < L.nprob; k++) probs.emplace_back(new Problem(L.n, pr));
    std::unique_ptr<SharedOps> sh; if (L.shared) sh.reset(new SharedOps(*probs[0]));
    long rep0 = g_tsan_reports.load();
    std::vector<Blob> ref(L.T);
    // the sequential reference uses its OWN wrapper objects: the shared wrappers of the concurrent phase must be used for the first time
    // by several threads at once (a lazily initialised cache in a wrapper would otherwise be filled here, before any concurrency)
    std::unique_ptr<SharedOps> sh_ref; if (L.shared) sh_ref.reset(new SharedOps(*probs[0]));
    for (int t = 0; t < L.T; t++) ref[t] = run_job(L.jobs[t], *probs[L.prob[t]], sh_ref.get());
    for (int t = 0; t < L.T; t++) { out.count(std::string("oracle_") + (ref[t].size() > 2 && ref[t][1] != 0xEEEEEEEEull ? "job_ok" : "job_threw")); out.count(std::string("cfg:") + CFG_NAME[L.jobs[t].cfg]); }
    out.count(L.mixed ? "mode:mixed-private" : L.shared ? "mode:shared-wrapper" : "mode:private"); out.count("threads:" + str(L.T));
    const int inner = 3;   // each thread solves its job `inner` times back to back, so that the threads really overlap in time
    for (int rep = 0; rep < reps; rep++) {
        if (L.shared) sh.reset(new SharedOps(*probs[0]));     // fresh shared wrappers: first use happens concurrently
        std::vector<std::vector<Blob>> got(L.T, std::vector<Blob>(inner)); std::atomic<int> arrived(0); std::atomic<bool> go(false);
        std::vector<std::thread> th;
        for (int k = 0; k < L.T; k++) { int t = L.order[k];
            th.emplace_back([&, t]() {
                arrived.fetch_add(1); while (!go.load(std::memory_order_acquire)) std::this_thread::yield();
                volatile int sink = 0; for (int d = 0; d < L.delay[t] * (rep + 1); d++) sink += d;
                for (int q = 0; q < inner; q++) got[t][q] = run_job(L.jobs[t], *probs[L.prob[t]], sh.get());
            }); }
        while (arrived.load() < L.T) std::this_thread::yield();
        go.store(true, std::memory_order_release);
        for (auto& x : th) x.join();
        for (int t = 0; t < L.T; t++) for (int q = 0; q < inner; q++) { out.count("oracle_concurrent_vs_sequential");
            if (got[t][q] != ref[t]) { const Blob& g = got[t][q]; size_t k = 0; while (k < g.size() && k < ref[t].size() && g[k] == ref[t][k]) k++;
                out.fail("concurrent-differs", std::string(CFG_NAME[L.jobs[t].cfg]) + ": result of thread " + str(t) + " of " + str(L.T) + " (" + (L.shared ? "shared wrapper" : "private operators") + ") differs bitwise from the sequential run at word " + str(k) + " of " + str(ref[t].size()), launch_json(seed, tier, L, t)); break; } }
    }
    // sequential again: a run must not have been changed by the concurrent phase (state left behind in a shared object)
    for (int t = 0; t < L.T; t++) { Blob again = run_job(L.jobs[t], *probs[L.prob[t]], sh.get()); out.count("oracle_sequential_repeat");
        if (again != ref[t]) out.fail("sequential-repeat-differs", std::string(CFG_NAME[L.jobs[t].cfg]) + ": sequential re-run after the concurrent phase differs from the first sequential run (job " + str(t) + ")", launch_json(seed, tier, L, t)); }
    long nrep = g_tsan_reports.load() - rep0;
    if (nrep > 0) out.fail("tsan-report", "ThreadSanitizer reported " + str(nrep) + " issue(s) (data race) during launch " + str(L.idx) + ": " + str(L.T) + " threads, " + CFG_NAME[L.jobs[0].cfg] + (L.mixed ? " (mixed classes)" : "") + ", " + (L.shared ? "one shared product wrapper" : "private operators") + "; report text is in the harness log", launch_json(seed, tier, L));
}

// ---- footprint probes on the compiled code ----
template <class W, class Handle, class In, class OutT> static std::string wrapper_probe() {
    bool one_member = sizeof(W) == sizeof(Handle);
    bool not_assignable = !std::is_copy_assignable<W>::value && !std::is_move_assignable<W>::value;
    bool const_call = std::is_invocable<decltype(&W::perform_op), const W&, const In*, OutT*>::value && std::is_invocable<decltype(&W::rows), const W&>::value && std::is_invocable<decltype(&W::cols), const W&>::value;
    bool no_vbase = !std::is_polymorphic<W>::value;
    return str((int) one_member) + " " + str((int) not_assignable) + " " + str((int) const_call) + " " + str((int) no_vbase);
}
// drop template argument lists: every instantiation of one source-level declaration gets the same name
static std::string strip_targs(const std::string& s) { std::string o; int d = 0; for (char c : s) { if (c == '<') d++; else if (c == '>') { if (d > 0) d--; } else if (d == 0) o += c; } return o; }
static void symbol_probe(Out& out) {
    // writable data / bss / unique-global symbols whose demangled name lies in namespace Spectra, from the symbol table of THIS binary;
    // TLS objects are identified through readelf (symbol type TLS); vtables/typeinfo (read-only) and guard variables (one per
    // function-local static, not a variable of the source) are skipped
    std::string exe = "/proc/" + str((long) getpid()) + "/exe";
    std::vector<std::string> tlsnames, seen, seen_tls; long statics = 0, tls = 0; bool ok = false; std::string names;
    FILE* f = popen(("readelf -sW " + exe + " 2>/dev/null | grep ' TLS ' | c++filt").c_str(), "r");
    if (f) { char buf[8192]; while (fgets(buf, sizeof buf, f)) { std::string ln(buf); while (!ln.empty() && (ln.back() == '\n' || ln.back() == ' ')) ln.pop_back();
            if (ln.find("Spectra::") == std::string::npos || ln.find("guard variable") != std::string::npos) continue;
            auto p = ln.find("Spectra::"); auto q = ln.rfind(' ', p); std::string nm = ln.substr(q == std::string::npos ? p : q + 1); tlsnames.push_back(nm);
            std::string key = strip_targs(nm); if (std::find(seen_tls.begin(), seen_tls.end(), key) == seen_tls.end()) { seen_tls.push_back(key); tls++; } } pclose(f); }
    f = popen(("nm -C --defined-only " + exe + " 2>/dev/null").c_str(), "r");
    if (f) { char buf[8192];
        while (fgets(buf, sizeof buf, f)) { ok = true; std::string ln(buf); while (!ln.empty() && ln.back() == '\n') ln.pop_back(); if (ln.size() < 19) continue; char ty = ln[17]; std::string name = ln.substr(19);
            if (name.find("Spectra::") == std::string::npos) continue;
            if (name.rfind("vtable for", 0) == 0 || name.rfind("typeinfo", 0) == 0 || name.rfind("VTT for", 0) == 0 || name.rfind("guard variable", 0) == 0) continue;
            if (name.find("__tsan") != std::string::npos || name.find("TLS init function") != std::string::npos || name.find("TLS wrapper function") != std::string::npos) continue;
            if (std::strchr("bBdDuGgSs", ty) == nullptr) continue;
            if (std::find(tlsnames.begin(), tlsnames.end(), name) != tlsnames.end()) continue;
            std::string key = strip_targs(name); if (std::find(seen.begin(), seen.end(), key) != seen.end()) continue;   // count source-level declarations, not instantiations
            seen.push_back(key); statics++; names += name + "; "; }
        pclose(f); }
    if (!ok) { out.count("symbol_probe_unavailable"); return; }
    out.corr("footprint statics", str(statics));
    out.corr("footprint thread_locals", str(tls));
    out.count("oracle_symbol_probe");
    if (statics > 0) out.fail("static-symbol", "the compiled harness contains " + str(statics) + " writable static-storage symbol(s) of namespace Spectra: " + names.substr(0, 600), "{\"op\":\"symbols\"}");
}

// ---- Par model correspondence: N real threads with private SimpleRandom generators ----
static void par_rng(Out& out, uint64_t seed, int idx) {
    Rng r(seed, 2022, (uint64_t) idx); int N = 2 + (int) r.below(7);
    std::vector<unsigned long> seeds; std::vector<int> k; for (int i = 0; i < N; i++) { seeds.push_back((unsigned long) (2 * r.below(1 << 20) + 123 * r.below(5))); k.push_back((int) r.below(60)); }
    std::vector<uint64_t> res(N); std::atomic<bool> go(false); std::vector<std::thread> th;
    for (int i = 0; i < N; i++) th.emplace_back([&, i]() { SimpleRandom<double> g(seeds[i]); while (!go.load(std::memory_order_acquire)) std::this_thread::yield();
        volatile double sink = 0; for (int d = 0; d < k[i]; d++) { sink = sink + g.random(); if ((d & 7) == 0) std::this_thread::yield(); } res[i] = dbits(g.random()); });
    go.store(true, std::memory_order_release); for (auto& x : th) x.join();
    // the schedule given to the model: a random interleaving with k[i] occurrences of i (any would do: that is the theorem)
    std::vector<int> sched; for (int i = 0; i < N; i++) for (int d = 0; d < k[i]; d++) sched.push_back(i);
    for (int t = (int) sched.size() - 1; t > 0; t--) std::swap(sched[t], sched[r.below(t + 1)]);
    std::string rq = "par_rng " + str(N); for (auto s : seeds) rq += " " + str(s); for (int s : sched) rq += " " + str(s);
    std::string rs; for (int i = 0; i < N; i++) rs += (i ? " " : "") + str(res[i]);
    out.corr(rq, rs); out.count("par_rng");
}

int main(int argc, char** argv) {
    Args a(argc, argv); Out out(a.out);
    std::vector<int> cfgs = a.thorough() ? std::vector<int>{SymDense, SymSparse, GenDense, GenSparse, Davidson, SVD, SymShift, GenRealShift, GSymChol, HermDense, GenCplxShift, GSymShiftInv, GSymRegInv}
                                         : std::vector<int>{SymDense, GenDense, SymSparse, GenSparse, Davidson, SVD, GSymChol, SymShift, GenRealShift, HermDense};
    if (!a.replay.empty()) {
        std::ifstream f(a.replay); std::string t((std::istreambuf_iterator<char>(f)), {});
        auto gi = [&](const char* k, long d) { auto p = t.find(std::string("\"") + k + "\":"); return p == std::string::npos ? d : std::atol(t.c_str() + p + std::strlen(k) + 3); };
        uint64_t seed = (uint64_t) gi("seed", (long) a.seed); int idx = (int) gi("launch", 0); auto tp = t.find("\"tier\""); bool th = tp != std::string::npos && t.substr(tp, 24).find("thorough") != std::string::npos;
        if (th) cfgs = {SymDense, SymSparse, GenDense, GenSparse, Davidson, SVD, SymShift, GenRealShift, GSymChol, HermDense, GenCplxShift, GSymShiftInv, GSymRegInv};
        if (t.find("\"symbols\"") != std::string::npos) symbol_probe(out);
        else { Launch L = make_launch(seed, idx, th, cfgs); do_launch(out, seed, th ? "thorough" : "quick", L, 10); }
        out.finish(); return 0;
    }
    // 1. footprint probes
    symbol_probe(out);
    typedef Eigen::Ref<const Mat> DRef; typedef Eigen::Ref<const SpMat> SRef; typedef Eigen::Ref<const CMat> CRef; typedef Eigen::Ref<const Eigen::SparseMatrix<cd>> SCRef;
    out.corr("footprint wrapper DenseSymMatProd", wrapper_probe<DenseSymMatProd<double>, DRef, double, double>());
    out.corr("footprint wrapper DenseGenMatProd", wrapper_probe<DenseGenMatProd<double>, DRef, double, double>());
    out.corr("footprint wrapper DenseHermMatProd", wrapper_probe<DenseHermMatProd<cd>, CRef, cd, cd>());
    out.corr("footprint wrapper SparseSymMatProd", wrapper_probe<SparseSymMatProd<double>, SRef, double, double>());
    out.corr("footprint wrapper SparseGenMatProd", wrapper_probe<SparseGenMatProd<double>, SRef, double, double>());
    out.corr("footprint wrapper SparseHermMatProd", wrapper_probe<SparseHermMatProd<cd>, SCRef, cd, cd>());
    // 2. Par model vs real threads (private generators)
    int npar = a.thorough() ? 400 : 60; for (int i = 0; i < npar; i++) par_rng(out, a.seed, i);
    // 3. concurrent vs sequential
    int nl = a.thorough() ? 390 : 40; int reps = a.thorough() ? 3 : 2;
    for (int i = 0; i < nl; i++) {
        Launch L = make_launch(a.seed, i, a.thorough(), cfgs);
        { std::ofstream lc(a.out + "/lastcase.txt"); lc << launch_json(a.seed, a.tier, L); }
        do_launch(out, a.seed, a.tier, L, reps);
    }
    if (g_tsan_reports.load() > 0) out.count("tsan_reports", g_tsan_reports.load());
    out.count("launches", nl);
    out.finish();
    return 0;   // TSan itself exits with 66 if it reported anything
}
