// C06 harness: "results depend only on the arguments; the operator is left untouched" on the REAL classes.
//   (ii) implementation-level bitwise oracle, all solver classes: the observed pair init(v); compute(args) is run on (a) a fresh
//        solver, (b) a solver reused after a random history (other rules/tolerances, non-converging runs, rejected rules, rejected start
//        vectors, the user's operator throwing at a random application), (c) a second solver constructed over the SAME operator
//        object, (d) the reused solver once more with calls of the second solver interleaved between its init and compute;
//        return value / exception, eigenvalues, eigenvectors, num_iterations, num_operations, info must agree BIT FOR BIT, and the
//        user's operator objects are probed with fixed vectors before and after every compute() (bit-identical output required).
//   (i)  model tie: for SymEigsSolver / SymEigsShiftSolver every one of those runs is also written as a `herm` request (protocol of
//        Driver/C05.lean, answered by the Lean solver model), and for the shift solvers the sequence of set_shift / perform_op
//        events on the operator is written as an `opshift` request (Model/OpShift.lean).
//        General family: for GenEigsSolver / GenEigsRealShiftSolver (explicit-loop operators LoopMatOp / ShiftLoopOp, ncv <= 16) the
//        same fresh / reused / second-solver runs are written as `gen` requests (protocol of Driver/C02.lean, answered by
//        GenSolver.genKern, the record `gen_respects` / `c06_gen_*` are proved about).
#include "solver_common.h"
#include <Eigen/LU>
#include <Eigen/Sparse>
#include <Spectra/DavidsonSymEigsSolver.h>
#include <Spectra/contrib/PartialSVDSolver.h>
#include <Spectra/MatOp/SparseGenRealShiftSolve.h>
#include <Spectra/MatOp/SparseGenComplexShiftSolve.h>
#include <memory>
using namespace sh;
typedef std::complex<double> CD;
typedef Eigen::MatrixXcd CMat;
typedef Eigen::VectorXcd CVec;

struct SpectraVerifAccess {
    template <class S> static auto& fac(S& s) { return s.m_fac; }
    template <class F> static std::string fachash(const F& f) {
        uint64_t h = 1469598103934665603ull; auto feed = [&h](double x) { uint64_t u = dbits(x + 0.0); for (int b = 0; b < 8; b++) { h ^= (u >> (8 * b)) & 0xff; h *= 1099511628211ull; } };
        feed(f.m_beta); const long m = f.m_m, n = f.m_n, k = f.m_k;
        for (long j = 0; j < m; j++) for (long i = 0; i < m; i++) feed(f.m_fac_H(i, j));
        for (long i = 0; i < n; i++) feed(f.m_fac_f[i]);
        for (long j = 0; j < k; j++) for (long i = 0; i < n; i++) feed(f.m_fac_V(i, j));
        return "k=" + str(k) + " beta=e:" + str(dbits(f.m_beta)) + " hash=" + str(h);
    }
};

// ---- bit-level serialisation ----
static void put(std::string& s, double x) { s += ' '; s += str(dbits(x)); }
static void put(std::string& s, const CD& z) { put(s, z.real()); put(s, z.imag()); }
template <class M> static std::string matbits(const M& X) {
    std::string s = " [" + str((long) X.rows()) + "x" + str((long) X.cols()) + "]";
    for (long j = 0; j < X.cols(); j++) for (long i = 0; i < X.rows(); i++) put(s, X(i, j));
    return s;
}

// ---- operator-side event trace (set_shift / perform_op) of the shift operators ----
struct ShiftTrace {
    int cls = 0;                      // 0 real shift, 1 complex shift
    double sr0 = 0, si0 = 0; bool have0 = false;   // the constructor's shift (first set_shift of the case)
    double sr = 0, si = 0;            // installed now
    std::string req, resp;            // opshift request of the current construction epoch
    bool open = false;
    // per call
    long p_before = 0, p_after = 0, nset = 0, p_total = 0; long throw_idx = -1; std::string ev; long run = 0;
    bool probe_throw = false;         // the user's operator threw while a shift other than the constructor's was installed
    void flushP() { if (run) { ev += " P" + str(run); run = 0; } }
    void on_set(double r, double i) { flushP(); ev += " S" + str(dbits(r)) + "," + str(dbits(i)); sr = r; si = i; nset++; }
    void on_apply(bool will_throw) { run++; if (nset == 0) p_before++; else if (nset == 1) p_after++; if (will_throw) { throw_idx = p_total; if (!(sr == sr0 && si == si0)) probe_throw = true; } p_total++; }
    void begin_call() { p_before = p_after = nset = p_total = 0; throw_idx = -1; ev.clear(); run = 0; }
    std::string shift_now() const { return str(dbits(sr)) + "," + str(dbits(cls == 0 ? 0.0 : si)); }
    std::string events(bool) { flushP(); std::string e = ev.size() ? ev.substr(1) + " " : ""; return e + (throw_idx >= 0 ? "threw" : "ret") + " shift=" + shift_now(); }   // threw = the USER'S OPERATOR threw (what the model's exec reports)
    void end_call(char kind, bool threw) {
        if (!open) return;
        if (kind == 'I') req += " | I " + str(p_total) + " " + str(throw_idx);
        else if (cls == 0) req += " | C " + str(p_total) + " 0 0 " + str(throw_idx);
        else req += " | C " + str(p_before) + " " + str(p_after) + " " + str(nset > 0 ? 1 : 0) + " " + str(throw_idx);
        resp += " | " + events(threw);
    }
};

// Re[(A - sigma I)^{-1} x] resp. (A - sigma I)^{-1} x with the shift the solver installs; explicit row loop (model: Arnoldi.rowMajorOp)
struct ShiftLoopOp {
    using Scalar = double; const Mat* A; OpLog* log; ShiftTrace* st; Mat R; bool saving = false;
    ShiftLoopOp(const Mat& a, OpLog& l, ShiftTrace& t) : A(&a), log(&l), st(&t) {}
    Eigen::Index rows() const { return A->rows(); } Eigen::Index cols() const { return A->cols(); }
    void install(double r_, double i_) {
        if (i_ == 0.0) { MatL M = A->cast<LD>(); for (long k = 0; k < M.rows(); k++) M(k, k) -= (LD) r_; MatL I = M.partialPivLu().inverse(); R = I.cast<double>(); }
        else { CMat M = A->cast<CD>(); for (long k = 0; k < M.rows(); k++) M(k, k) -= CD(r_, i_); CMat Inv = M.partialPivLu().inverse(); R = Inv.real(); }
    }
    void set_shift(const double& r_) { if (!st->have0) { st->sr0 = r_; st->si0 = 0; st->have0 = true; } st->on_set(r_, 0.0); install(r_, 0.0); }
    void set_shift(const double& r_, const double& i_) { if (!st->have0) { st->sr0 = r_; st->si0 = i_; st->have0 = true; } st->on_set(r_, i_); install(r_, i_); }
    void perform_op(const double* x, double* y) const {
        const long n = rows();
        if (!saving) st->on_apply(log->throw_at >= 0 && log->count + 1 == log->throw_at);
        log->enter(x, y, n);
        for (long i = 0; i < n; i++) { double s = 0.0; for (long j = 0; j < n; j++) s += R(i, j) * x[j]; y[i] = s; }
    }
};

struct CntSymProd : public Spectra::DenseSymMatProd<double> { OpLog* log; CntSymProd(const Mat& A, OpLog& l) : Spectra::DenseSymMatProd<double>(A), log(&l) {}
    void perform_op(const double* x, double* y) const { log->enter(x, y, rows()); Spectra::DenseSymMatProd<double>::perform_op(x, y); }
    Mat operator*(const Eigen::Ref<const Mat>& X) const { if (X.cols() == 0) return Mat(X.rows(), 0);   // DenseSymMatProd::operator* on a 0-column block (Davidson right after a restart) binds a reference to a null data pointer inside Eigen (UBSan): not this property's subject
        log->count++; if (log->throw_at >= 0 && log->count == log->throw_at) log->raise(log->count); return Spectra::DenseSymMatProd<double>::operator*(X); } };
struct CntHermProd : public Spectra::DenseHermMatProd<CD> { OpLog* log; CntHermProd(const CMat& A, OpLog& l) : Spectra::DenseHermMatProd<CD>(A), log(&l) {}
    void perform_op(const CD* x, CD* y) const { log->count++; if (log->throw_at >= 0 && log->count == log->throw_at) log->raise(log->count); Spectra::DenseHermMatProd<CD>::perform_op(x, y); } };

// ---- uniform view ----
struct Handle {
    std::shared_ptr<void> keep;
    std::function<void(const Vec*)> init;               // empty: the class has no init()
    std::function<long(int, long, double, int)> compute;
    std::function<std::string()> results;               // accessor output, bit patterns
    std::function<std::string(bool)> status;            // counters (+ info when asked)
    std::function<void()> touch;                        // accessor calls made during a history
    // model tie (SymEigsSolver / SymEigsShiftSolver)
    std::function<std::string()> fachash, ev_seg, vec_seg, stat_seg;
};
struct Family {
    std::string cls; int n = 0, nev = 0, ncv = 0; bool gen = false, has_init = true, can_throw = true, davidson = false, svd = false;
    std::function<Handle()> make;
    std::function<std::string()> probe;
    OpLog* log = nullptr; ShiftTrace* st = nullptr;
    std::string ref_probe; std::string header;           // herm request header (model-tied classes)
    std::string shift_header;                            // opshift request prefix
    Out* out = nullptr;
    // operator-event epochs: one opshift request per constructor call on the shared operator
    void flush_epoch() { if (st && st->open && st->req.size()) { out->corr(st->req, st->resp.substr(3)); } if (st) { st->open = false; st->req.clear(); st->resp.clear(); } }
    Handle mk() {
        if (!st) return make();
        flush_epoch(); st->open = true; st->req = shift_header + " " + str(dbits(st->sr)) + " " + str(dbits(st->cls == 0 ? 0.0 : st->si)); st->begin_call();
        Handle h = make(); st->resp += " | " + st->events(false); return h;
    }
};
struct ObsArgs { bool default_init = true; Vec v0; int sel = 0, sort = 3; long maxit = 300; double tol = 1e-10; };
struct Ctx { Out* out; uint64_t seed; long caseno; std::string tier; std::string desc; std::string hist; bool probe_throw = false; };

static std::string replay_json(const Ctx& c, const Family& F, const std::string& stage) {
    return "{\"harness\":\"c06\",\"seed\":" + str(c.seed) + ",\"case\":" + str(c.caseno) + ",\"tier\":\"" + c.tier + "\",\"class\":\"" + F.cls + "\",\"n\":" + str(F.n) + ",\"nev\":" + str(F.nev) + ",\"ncv\":" + str(F.ncv) +
           ",\"throw_in_probe\":" + str((F.st && F.st->probe_throw) ? 1 : 0) + ",\"stage\":\"" + jesc(stage) + "\",\"desc\":\"" + jesc(c.desc) + "\",\"history\":\"" + jesc(c.hist) + "\"}";
}

// request/response recorder for the Lean solver model (protocol of Driver/C05.lean)
struct Rec { std::string req, resp; bool ok = true; };

static bool herm_sel_ok(int r) { return r == 0 || r == 3 || r == 4 || r == 7 || r == 8; }
static bool herm_sort_ok(int r) { return r == 0 || r == 3 || r == 4 || r == 7; }
static bool gen_rule_ok(int r) { return r == 0 || r == 1 || r == 2 || r == 4 || r == 5 || r == 6; }

// probe the user's operator object(s); the probe's own applications are hidden from the logs
static bool check_probe(Family& F, Ctx& c, const std::string& stage) {
    std::string p = F.probe();
    if (p == F.ref_probe) { c.out->count("oracle_probe"); return true; }
    c.out->fail("operator-drift", F.cls + ": the user's operator object answers a fixed probe vector differently " + stage + " than right after construction (operator state changed by the solver)", replay_json(c, F, stage));
    return false;
}

struct Outcome { bool init_threw = false, threw = false; std::string text; };

// init(v); compute(args) on one solver object, everything a caller can observe, as bit patterns
static Outcome observe(Family& F, Handle& h, const ObsArgs& a, Ctx& c, const std::string& who, Rec* rec, bool& drift, const std::function<void()>& between = nullptr) {
    Outcome o; ShiftTrace* st = F.st;
    if (h.init) {
        if (rec) rec->req += a.default_init ? std::string(" | J") : " | I" + vec_bits(a.v0);
        if (st) st->begin_call();
        try { h.init(a.default_init ? nullptr : &a.v0); o.text += "init=ok"; if (st) st->end_call('I', false); if (rec) rec->resp += " | ok nmatop=" + h.stat_seg().substr(h.stat_seg().rfind('=') + 1); }
        catch (const std::invalid_argument&) { o.init_threw = true; o.text = "init=invalid_argument"; if (st) st->end_call('I', true); if (rec) rec->resp += " | throw std::invalid_argument"; return o; }
    }
    if (between) between();
    if (!check_probe(F, c, who + ", before compute()")) { drift = true; return o; }
    if (rec) rec->req += " | C " + str(a.sel) + " " + str(a.maxit) + " " + str(dbits(a.tol)) + " " + str(a.sort);
    if (st) st->begin_call();
    long ret = -1;
    try { ret = h.compute(a.sel, a.maxit, a.tol, a.sort); o.text += " ret=" + str(ret); }
    catch (const std::invalid_argument&) { o.threw = true; o.text += " throw=invalid_argument"; if (rec) rec->resp += " | throw std::invalid_argument"; }
    catch (const std::runtime_error&) { o.threw = true; o.text += " throw=runtime_error"; if (rec) rec->resp += " | throw std::runtime_error"; }
    catch (const std::logic_error&) { o.threw = true; o.text += " throw=logic_error"; if (rec) rec->resp += " | throw other"; }
    if (st) st->end_call('C', o.threw);
    if (!check_probe(F, c, who + ", after compute()")) { drift = true; return o; }
    if (o.threw && !F.has_init) return o;      // no init(): a rejected call leaves the previous run's results in place by design
    o.text += h.status(!o.threw) + h.results();
    if (rec && !o.threw) {
        rec->resp += " | ret=" + str(ret) + " " + h.stat_seg(); rec->req += " | E | V " + str(F.nev) + " | F";
        rec->resp += " | " + h.ev_seg() + " | " + h.vec_seg() + " | " + h.fachash();
    }
    return o;
}

static ObsArgs gen_args(Rng& r, const Family& F, bool allow_bad) {
    static const int hsel[5] = {0, 3, 4, 7, 8}, hsort[4] = {0, 3, 4, 7}, grule[6] = {0, 1, 2, 4, 5, 6};
    ObsArgs a; a.default_init = r.coin(0.4); a.v0 = Vec(F.n); for (int j = 0; j < F.n; j++) a.v0[j] = r.sym();
    a.sel = F.gen ? grule[r.below(6)] : hsel[r.below(5)]; a.sort = F.gen ? grule[r.below(6)] : hsort[r.below(4)];
    if (F.davidson && a.sel == 8) a.sel = 3;
    if (allow_bad && r.coin(0.12)) { if (r.coin()) a.sel = r.range(0, 8); else a.sort = r.range(0, 8); }
    static const long mi[8] = {0, 1, 1, 2, 3, 10, 300, 300}; a.maxit = mi[r.below(8)]; if (F.davidson) a.maxit = std::max<long>(1, std::min<long>(a.maxit, 60));
    static const double tl[5] = {1e-3, 1e-6, 1e-8, 1e-10, 1e-13}; a.tol = tl[r.below(5)];
    return a;
}
static std::string args_str(const ObsArgs& a) { return std::string(a.default_init ? "init();" : "init(v);") + "compute(" + str(a.sel) + "," + str(a.maxit) + "," + str(a.tol) + "," + str(a.sort) + ");"; }

// a random earlier history on solver h (the operator object is shared with every other solver of the case)
static void run_history(Family& F, Handle& h, Rng& r, Ctx& c, Rec* rec, bool& drift) {
    Out& out = *c.out; ShiftTrace* st = F.st; OpLog& log = *F.log;
    const int len = r.range(1, 5); bool computed = false;
    const bool modelable = rec && r.coin(0.6);     // model-tied classes: keep most histories inside what the Lean solver model can replay
    for (int i = 0; i < len && !drift; i++) {
        int kind = r.range(0, 9);
        if (modelable && (kind == 5 || kind == 6 || kind == 7)) kind = 2 + (kind - 5);
        if (!F.has_init && (kind == 0 || kind == 1 || kind == 6 || kind == 7)) kind = 2;
        if (!F.can_throw && (kind == 5 || kind == 6)) kind = 3;
        ObsArgs a = gen_args(r, F, false);
        auto do_init = [&](bool zero) -> bool {
            if (!h.init) return true;
            Vec v = a.v0; if (zero) v.setZero();
            if (rec) { if (zero) rec->ok = false; rec->req += (a.default_init && !zero) ? std::string(" | J") : " | I" + vec_bits(v); }
            if (st) st->begin_call();
            try { h.init((a.default_init && !zero) ? nullptr : &v); if (st) st->end_call('I', false); if (rec) rec->resp += " | ok nmatop=" + h.stat_seg().substr(h.stat_seg().rfind('=') + 1); c.hist += zero ? "init(0);" : (a.default_init ? "init();" : "init(v');"); return true; }
            catch (const std::invalid_argument&) { if (st) st->end_call('I', true); if (rec) rec->resp += " | throw std::invalid_argument"; c.hist += "init(0)!;"; out.count("hist_init_rejected"); return false; }
        };
        auto do_compute = [&](const ObsArgs& b, const char* tag) {
            if (rec) rec->req += " | C " + str(b.sel) + " " + str(b.maxit) + " " + str(dbits(b.tol)) + " " + str(b.sort);
            if (st) st->begin_call();
            bool threw = false; std::string ex;
            try { long ret = h.compute(b.sel, b.maxit, b.tol, b.sort); computed = true; c.hist += std::string(tag) + "compute(" + str(b.sel) + "," + str(b.maxit) + "," + str(b.tol) + "," + str(b.sort) + ")=" + str(ret) + ";"; out.count(ret >= F.nev ? "hist_converged" : "hist_not_converged");
                  if (rec) rec->resp += " | ret=" + str(ret) + " " + h.stat_seg(); }
            catch (const UserFault&) { threw = true; ex = "UserFault"; if (rec) rec->ok = false; }
            catch (const RawFault&) { threw = true; ex = "RawFault"; if (rec) rec->ok = false; }
            catch (const std::invalid_argument&) { threw = true; ex = "invalid_argument"; if (rec) rec->resp += " | throw std::invalid_argument"; }
            catch (const std::runtime_error&) { threw = true; ex = "runtime_error"; if (rec) rec->resp += " | throw std::runtime_error"; }
            catch (const std::logic_error&) { threw = true; ex = "logic_error"; if (rec) rec->resp += " | throw other"; }
            if (st) st->end_call('C', threw);
            if (threw) { c.hist += std::string(tag) + "compute(" + str(b.sel) + "," + str(b.maxit) + "," + str(b.tol) + "," + str(b.sort) + ")!" + ex + ";"; out.count("hist_threw_" + ex); }
            if (!check_probe(F, c, "reused solver, after history call " + str(i))) drift = true;
        };
        switch (kind) {
            case 0: case 1: do_init(false); break;
            case 7: do_init(true); break;
            case 8: if (h.touch && (computed || !F.svd)) { h.touch(); c.hist += "accessors;"; } break;
            case 2: case 9: { if (r.coin(0.75)) { if (!do_init(false)) break; } do_compute(a, ""); break; }
            case 3: { if (r.coin(0.75)) { if (!do_init(false)) break; } a.maxit = F.davidson ? 1 : r.range(0, 1); a.tol = 1e-13; do_compute(a, ""); break; }
            case 4: { if (r.coin(0.75)) { if (!do_init(false)) break; } if (r.coin()) a.sel = F.gen ? 3 : (F.davidson ? 1 : 1); else { if (F.davidson || F.svd) a.sel = 2; else a.sort = F.gen ? 7 : 8; } do_compute(a, ""); break; }
            case 5: {   // the user's operator throws at a random application of this compute(): count them on a scratch solver first
                long N = -1;
                { Handle tmp = F.mk(); bool ok = true;
                  if (tmp.init) { if (st) st->begin_call(); try { tmp.init(a.default_init ? nullptr : &a.v0); if (st) st->end_call('I', false); } catch (const std::exception&) { ok = false; if (st) st->end_call('I', true); } }
                  if (ok) { if (st) st->begin_call(); try { long c0 = log.count; tmp.compute(a.sel, a.maxit, a.tol, a.sort); N = log.count - c0; if (st) st->end_call('C', false); } catch (const std::exception&) { N = -1; if (st) st->end_call('C', true); } } }
                if (rec) rec->ok = false;
                if (N < 1) break;
                if (!do_init(false)) break;
                long t = r.coin(0.4) ? std::max<long>(1, N - (long) r.below(2 * F.nev + 2)) : 1 + (long) r.below(N);
                log.throw_at = log.count + t; log.throw_kind = (int) (t % 2);   // every second fault is of a type not derived from std::exception
                do_compute(a, "op-throws:"); log.throw_at = -1; log.throw_kind = 0; break; }
            case 6: {   // the user's operator throws inside init()
                if (rec) rec->ok = false;
                log.throw_at = log.count + r.range(1, 2); log.throw_kind = (int) (log.throw_at % 2); if (st) st->begin_call();
                try { h.init(a.default_init ? nullptr : &a.v0); if (st) st->end_call('I', false); } catch (const UserFault&) { if (st) st->end_call('I', true); c.hist += "init()!UserFault;"; out.count("hist_threw_UserFault_init"); }
                catch (const RawFault&) { if (st) st->end_call('I', true); c.hist += "init()!RawFault;"; out.count("hist_threw_RawFault_init"); }
                log.throw_at = -1; log.throw_kind = 0; break; }
        }
    }
}

// ---- the experiment of one case ----
static void experiment_body(Family& F, Rng& r, Ctx& c);
static void experiment(Family& F, Rng& r, Ctx& c) { F.out = c.out; experiment_body(F, r, c); F.flush_epoch(); }
static void experiment_body(Family& F, Rng& r, Ctx& c) {
    Out& out = *c.out; ShiftTrace* st = F.st; const bool tied = !F.header.empty();
    auto mk = [&]() { return F.mk(); };
    ObsArgs a = gen_args(r, F, true);
    c.hist.clear();
    // (a) fresh solver
    Handle ha = mk(); F.ref_probe = F.probe();
    bool drift = false;
    Rec ra; ra.req = F.header;
    Outcome oa = observe(F, ha, a, c, "fresh solver", tied ? &ra : nullptr, drift);
    if (drift) return;
    if (tied) { out.corr(ra.req, ra.resp.substr(3)); if (F.gen) out.count("tied_gen_fresh"); }
    out.count(oa.init_threw ? "obs_init_rejected" : oa.threw ? "obs_compute_threw" : "obs_returned");
    // (b) reused solver
    Handle hb = mk(); Rec rb; rb.req = F.header;
    run_history(F, hb, r, c, tied ? &rb : nullptr, drift);
    if (drift) return;
    c.hist += "|observed:" + args_str(a);
    Outcome ob = observe(F, hb, a, c, "reused solver", tied ? &rb : nullptr, drift);
    if (drift) return;
    if (tied && rb.ok) { out.corr(rb.req, rb.resp.substr(3)); out.count("tied_reused_history"); if (F.gen) out.count("tied_gen_reused_history"); }
    out.count("oracle_fresh_vs_reused");
    if (oa.text != ob.text) { out.fail("fresh-vs-reused", F.cls + ": init(v); compute(args) on a solver reused after the history differs bitwise from the same pair on a fresh solver: fresh `" + oa.text.substr(0, 160) + "` reused `" + ob.text.substr(0, 160) + "`", replay_json(c, F, "reused")); return; }
    // (c) a second solver over the same operator object, while the first is alive
    Handle hc = mk(); Rec rc_; rc_.req = F.header;
    Outcome oc = observe(F, hc, a, c, "second solver sharing the operator", tied ? &rc_ : nullptr, drift);
    if (drift) return;
    if (tied) { out.corr(rc_.req, rc_.resp.substr(3)); if (F.gen) out.count("tied_gen_second"); }
    out.count("oracle_second_solver");
    if (oa.text != oc.text) { out.fail("second-solver", F.cls + ": a second solver constructed over the same operator object gives a bitwise different result: fresh `" + oa.text.substr(0, 160) + "` second `" + oc.text.substr(0, 160) + "`", replay_json(c, F, "second")); return; }
    // (d) the reused solver again, with calls on the second solver between its init() and compute()
    ObsArgs other = gen_args(r, F, false);
    auto between = [&]() {
        if (hc.init) { if (st) st->begin_call(); try { hc.init(other.default_init ? nullptr : &other.v0); if (st) st->end_call('I', false); } catch (const std::exception&) { if (st) st->end_call('I', true); return; } }
        if (st) st->begin_call(); try { hc.compute(other.sel, std::min<long>(other.maxit, 3), other.tol, other.sort); if (st) st->end_call('C', false); } catch (const std::exception&) { if (st) st->end_call('C', true); } };
    Outcome od = observe(F, hb, a, c, "reused solver, second solver's calls interleaved", nullptr, drift, between);
    if (drift) return;
    out.count("oracle_interleaved");
    if (oa.text != od.text) { out.fail("interleaved", F.cls + ": calls on a second solver sharing the operator, made between init() and compute() of the first, change the first solver's result bitwise", replay_json(c, F, "interleaved")); return; }
}

// ---- per-class adapters ----
template <class S, class Sc> static Handle wrap(std::shared_ptr<S> sp, int n, int nev, bool tied) {
    Handle h; h.keep = sp; S* s = sp.get();
    h.compute = [s](int sel, long maxit, double tol, int sort) { return (long) s->compute((SortRule) sel, maxit, tol, (SortRule) sort); };
    h.results = [s]() { return std::string(" ev") + matbits(s->eigenvalues()) + " X" + matbits(s->eigenvectors()); };
    h.status = [s](bool with_info) { return " niter=" + str((long) s->num_iterations()) + " nmatop=" + str((long) s->num_operations()) + (with_info ? " info=" + str((int) s->info()) : std::string()); };
    h.touch = [s, nev]() { (void) s->eigenvalues(); (void) s->eigenvectors(nev); };
    h.stat_seg = [s]() { return "info=" + str((int) s->info()) + " niter=" + str((long) s->num_iterations()) + " nmatop=" + str((long) s->num_operations()); };
    (void) n; (void) tied;
    return h;
}
template <class S> static void real_init(Handle& h, S* s) { h.init = [s](const Vec* v) { if (v) s->init(v->data()); else s->init(); }; }
template <class S> static void tie(Handle& h, S* s, int n, int nev) {
    h.fachash = [s]() { return SpectraVerifAccess::fachash(SpectraVerifAccess::fac(*s)); };
    h.ev_seg = [s]() { auto e = s->eigenvalues(); std::string t = "k=" + str((long) e.size()); for (long i = 0; i < e.size(); i++) t += " e:" + str(dbits(e[i])); return t; };
    h.vec_seg = [s, n, nev]() { auto X = s->eigenvectors(nev); std::string t = "rows=" + str(n) + " cols=" + str((long) X.cols()); for (long j = 0; j < X.cols(); j++) for (long i = 0; i < X.rows(); i++) t += " " + str(dbits(X(i, j) + 0.0)); return t; };
    // compute's own segment is "ret=.. info=.. niter=.. nmatop=..": stat_seg is reused for it with the return value prepended by the caller
}

// general family: complex eigenvalues / eigenvectors in the format of Driver/C02.lean
template <class S> static void tie_gen(Handle& h, S* s, int n, int nev) {
    h.fachash = [s]() { return SpectraVerifAccess::fachash(SpectraVerifAccess::fac(*s)); };
    h.ev_seg = [s]() { auto e = s->eigenvalues(); std::string t = "k=" + str((long) e.size()); for (long i = 0; i < e.size(); i++) t += " e:" + str(dbits(e[i].real())) + " e:" + str(dbits(e[i].imag())); return t; };
    h.vec_seg = [s, n, nev]() { auto X = s->eigenvectors(nev); std::string t = "rows=" + str(n) + " cols=" + str((long) X.cols()); for (long j = 0; j < X.cols(); j++) for (long i = 0; i < X.rows(); i++) t += " " + str(dbits(X(i, j).real() + 0.0)) + " " + str(dbits(X(i, j).imag() + 0.0)); return t; };
}
static std::string gen_header(int variant, int n, int nev, int ncv, double sigma, const Mat& M) {
    const double eps = Spectra::TypeTraits<double>::epsilon(); const double eps23 = std::pow(eps, double(2) / 3); const double near0 = Spectra::TypeTraits<double>::min() * double(10);
    return "gen " + str(variant) + " " + str(n) + " " + str(nev) + " " + str(ncv) + " " + str(dbits(eps23)) + " " + str(dbits(near0)) + " " + str(dbits(eps)) + " " + str(dbits(sigma)) + " " + str(dbits(0.0)) + mat_bits(M);
}
static std::string herm_header(int variant, int n, int nev, int ncv, double sigma, const Mat& M) {
    const double eps = Spectra::TypeTraits<double>::epsilon(); const double eps23 = std::pow(eps, double(2) / 3); const double near0 = Spectra::TypeTraits<double>::min() * double(10);
    return "herm " + str(variant) + " " + str(n) + " " + str(nev) + " " + str(ncv) + " " + str(dbits(eps23)) + " " + str(dbits(near0)) + " " + str(dbits(eps)) + " " + str(dbits(sigma)) + mat_bits(M);
}

// hide a probe's operator applications from the logs
struct LogGuard { OpLog* l; OpLog saved; explicit LogGuard(OpLog* x) : l(x), saved(*x) { l->throw_at = -1; } ~LogGuard() { *l = saved; } };
static Vec probe_vec(int n, int k) { Vec x(n); for (int i = 0; i < n; i++) x[i] = std::sin(1.0 + 0.37 * i + k) + 0.25 * ((i + k) % 3); return x; }

static void run_case(int cs, const Args& args, Out& out) {
    Rng r(args.seed, 6, cs);
    { std::ofstream lc(args.out + "/lastcase.txt"); lc << "{\"harness\":\"c06\",\"seed\":" << args.seed << ",\"case\":" << cs << ",\"tier\":\"" << args.tier << "\"}\n"; }
    Ctx c{&out, args.seed, cs, args.tier, "", "", false};
    const int nmax = args.thorough() ? 20 : 11;
    // cases beyond the base range: the LIBRARY's own shift-solve wrappers as the user's operator object (classes 13..15); the base
    // cases keep their numbering, so every recorded replay still names the same case
    const int nbase = args.thorough() ? 10400 : 1430;
    const int cls = cs < nbase ? cs % 13 : 13 + (cs - nbase) % 3; const bool gen = (cls >= 3 && cls <= 5) || cls == 14 || cls == 15;
    int n = r.range(gen ? 5 : 4, nmax); int nev = r.range(1, std::max(1, std::min(4, n - (gen ? 3 : 2)))); int lo = nev + (gen ? 2 : 1);
    int ncv = r.range(lo, std::min(n, lo + 5));
    const int kind = r.range(0, 7); static const double scales[5] = {1.0, 1.0, 1e-6, 1e5, 37.0}; const double scale = scales[r.below(5)];
    OpLog log; ShiftTrace st; Family F; F.n = n; F.nev = nev; F.ncv = ncv; F.gen = gen; F.log = &log;
    c.desc = "kind=" + str(kind) + " scale=" + str(scale);
    out.count("cls_" + str(cls));
    switch (cls) {
    case 0: { Mat A = gen_sym(r, n, kind, scale); LoopMatOp op(A, log); F.cls = "SymEigsSolver"; F.header = herm_header(0, n, nev, ncv, 0.0, A);
        F.make = [&]() { auto sp = std::make_shared<Spectra::SymEigsSolver<LoopMatOp>>(op, nev, ncv); Handle h = wrap<Spectra::SymEigsSolver<LoopMatOp>, double>(sp, n, nev, true); real_init(h, sp.get()); tie(h, sp.get(), n, nev); return h; };
        F.probe = [&]() { LogGuard g(&log); Vec x = probe_vec(n, 0), y(n); op.perform_op(x.data(), y.data()); return matbits(y); };
        experiment(F, r, c); break; }
    case 1: { Mat A = gen_sym(r, n, kind == 4 ? 0 : kind, scale); double sigma = 0.37 * scale * r.sym() * 3; st.cls = 0; F.st = &st; ShiftLoopOp op(A, log, st); F.cls = "SymEigsShiftSolver";
        op.install(sigma, 0.0); F.header = herm_header(1, n, nev, ncv, sigma, op.R); F.shift_header = "opshift 0 " + str(dbits(sigma)) + " 0";
        op.install(sigma * 0.5 + 0.123, 0.0); st.sr = sigma * 0.5 + 0.123;   // something else is installed before the solver is constructed
        F.make = [&]() { auto sp = std::make_shared<Spectra::SymEigsShiftSolver<ShiftLoopOp>>(op, nev, ncv, sigma); Handle h = wrap<Spectra::SymEigsShiftSolver<ShiftLoopOp>, double>(sp, n, nev, true); real_init(h, sp.get()); tie(h, sp.get(), n, nev); return h; };
        F.probe = [&]() { LogGuard g(&log); op.saving = true; Vec x = probe_vec(n, 0), y(n); op.perform_op(x.data(), y.data()); op.saving = false; return matbits(y); };
        experiment(F, r, c); break; }
    case 2: { Mat Re = gen_sym(r, n, kind, scale); Mat Im = gen_general(r, n, 1, scale * 0.3); CMat A = Re.cast<CD>() + CD(0, 1) * Im.cast<CD>(); CntHermProd op(A, log); F.cls = "HermEigsSolver";
        F.make = [&]() { using S = Spectra::HermEigsSolver<CntHermProd>; auto sp = std::make_shared<S>(op, nev, ncv); Handle h = wrap<S, CD>(sp, n, nev, false); S* s = sp.get();
            h.init = [s, n](const Vec* v) { if (v) { CVec z = v->cast<CD>(); for (int i = 0; i < n; i++) z[i] += CD(0, 0.5 * (*v)[(i + 1) % n]); s->init(z.data()); } else s->init(); }; return h; };
        F.probe = [&]() { LogGuard g(&log); CVec x = probe_vec(n, 0).cast<CD>() + CD(0, 1) * probe_vec(n, 1).cast<CD>(), y(n); op.perform_op(x.data(), y.data()); return matbits(y); };
        experiment(F, r, c); break; }
    case 3: { Mat A = gen_general(r, n, kind % 7, scale); LoopMatOp op(A, log); F.cls = "GenEigsSolver"; if (ncv <= 16) F.header = gen_header(0, n, nev, ncv, 0.0, A);
        F.make = [&]() { using S = Spectra::GenEigsSolver<LoopMatOp>; auto sp = std::make_shared<S>(op, nev, ncv); Handle h = wrap<S, CD>(sp, n, nev, false); real_init(h, sp.get()); tie_gen(h, sp.get(), n, nev); return h; };
        F.probe = [&]() { LogGuard g(&log); Vec x = probe_vec(n, 0), y(n); op.perform_op(x.data(), y.data()); return matbits(y); };
        experiment(F, r, c); break; }
    case 4: { Mat A = gen_general(r, n, (kind % 7 == 5 || kind % 7 == 3) ? 0 : kind % 7, scale); double sigma = 1.7 * scale * (1 + r.unit()); st.cls = 0; F.st = &st; ShiftLoopOp op(A, log, st); F.cls = "GenEigsRealShiftSolver";
        op.install(sigma, 0.0); if (ncv <= 16) F.header = gen_header(1, n, nev, ncv, sigma, op.R);     // the matrix the constructor's set_shift(sigma) installs
        F.shift_header = "opshift 0 " + str(dbits(sigma)) + " 0"; op.install(-sigma, 0.0); st.sr = -sigma;
        F.make = [&]() { using S = Spectra::GenEigsRealShiftSolver<ShiftLoopOp>; auto sp = std::make_shared<S>(op, nev, ncv, sigma); Handle h = wrap<S, CD>(sp, n, nev, false); real_init(h, sp.get()); tie_gen(h, sp.get(), n, nev); return h; };
        F.probe = [&]() { LogGuard g(&log); op.saving = true; Vec x = probe_vec(n, 0), y(n); op.perform_op(x.data(), y.data()); op.saving = false; return matbits(y); };
        experiment(F, r, c); break; }
    case 5: { Mat A = gen_general(r, n, (kind % 7 == 5 || kind % 7 == 3) ? 0 : kind % 7, scale); double sr = 0.9 * scale * r.sym(), si = 0.4 * scale * (0.2 + r.unit()); st.cls = 1; F.st = &st; ShiftLoopOp op(A, log, st); F.cls = "GenEigsComplexShiftSolver";
        F.shift_header = "opshift 1 " + str(dbits(sr)) + " " + str(dbits(si)); op.install(sr + 1.0, si); st.sr = sr + 1.0; st.si = si;
        F.make = [&]() { using S = Spectra::GenEigsComplexShiftSolver<ShiftLoopOp>; auto sp = std::make_shared<S>(op, nev, ncv, sr, si); Handle h = wrap<S, CD>(sp, n, nev, false); real_init(h, sp.get()); return h; };
        F.probe = [&]() { LogGuard g(&log); op.saving = true; Vec x = probe_vec(n, 0), y(n); op.perform_op(x.data(), y.data()); op.saving = false; return matbits(y); };
        experiment(F, r, c); break; }
    case 13: { Mat A = gen_sym(r, n, kind == 4 ? 0 : kind, scale); double sigma = 0.37 * scale * r.sym() * 3; Spectra::DenseSymShiftSolve<double> op(A); F.cls = "SymEigsShiftSolver<DenseSymShiftSolve>"; F.can_throw = false;
        op.set_shift(sigma * 0.5 + 0.123 * scale);   // something else is installed before the solver is constructed
        F.make = [&]() { using S = Spectra::SymEigsShiftSolver<Spectra::DenseSymShiftSolve<double>>; auto sp = std::make_shared<S>(op, nev, ncv, sigma); Handle h = wrap<S, double>(sp, n, nev, false); real_init(h, sp.get()); return h; };
        F.probe = [&]() { Vec x = probe_vec(n, 0), y(n); op.perform_op(x.data(), y.data()); return matbits(y); };
        experiment(F, r, c); break; }
    case 14: { Mat A = gen_general(r, n, (kind % 7 == 5 || kind % 7 == 3) ? 0 : kind % 7, scale); double sigma = 1.7 * scale * (1 + r.unit()); F.can_throw = false;
        const bool sparse = r.coin(); Eigen::SparseMatrix<double> As = A.sparseView(); Spectra::DenseGenRealShiftSolve<double> opd(A); Spectra::SparseGenRealShiftSolve<double> ops(As);
        if (sparse) ops.set_shift(-sigma); else opd.set_shift(-sigma);
        if (sparse) { F.cls = "GenEigsRealShiftSolver<SparseGenRealShiftSolve>";
            F.make = [&]() { using S = Spectra::GenEigsRealShiftSolver<Spectra::SparseGenRealShiftSolve<double>>; auto sp = std::make_shared<S>(ops, nev, ncv, sigma); Handle h = wrap<S, CD>(sp, n, nev, false); real_init(h, sp.get()); return h; };
            F.probe = [&]() { Vec x = probe_vec(n, 0), y(n); ops.perform_op(x.data(), y.data()); return matbits(y); }; }
        else { F.cls = "GenEigsRealShiftSolver<DenseGenRealShiftSolve>";
            F.make = [&]() { using S = Spectra::GenEigsRealShiftSolver<Spectra::DenseGenRealShiftSolve<double>>; auto sp = std::make_shared<S>(opd, nev, ncv, sigma); Handle h = wrap<S, CD>(sp, n, nev, false); real_init(h, sp.get()); return h; };
            F.probe = [&]() { Vec x = probe_vec(n, 0), y(n); opd.perform_op(x.data(), y.data()); return matbits(y); }; }
        experiment(F, r, c); break; }
    case 15: { Mat A = gen_general(r, n, (kind % 7 == 5 || kind % 7 == 3) ? 0 : kind % 7, scale); double sr = 0.9 * scale * r.sym(), si = 0.4 * scale * (0.2 + r.unit()); F.can_throw = false;
        const bool sparse = r.coin(); Eigen::SparseMatrix<double> As = A.sparseView(); Spectra::DenseGenComplexShiftSolve<double> opd(A); Spectra::SparseGenComplexShiftSolve<double> ops(As);
        if (sparse) ops.set_shift(sr + scale, si); else opd.set_shift(sr + scale, si);
        if (sparse) { F.cls = "GenEigsComplexShiftSolver<SparseGenComplexShiftSolve>";
            F.make = [&]() { using S = Spectra::GenEigsComplexShiftSolver<Spectra::SparseGenComplexShiftSolve<double>>; auto sp = std::make_shared<S>(ops, nev, ncv, sr, si); Handle h = wrap<S, CD>(sp, n, nev, false); real_init(h, sp.get()); return h; };
            F.probe = [&]() { Vec x = probe_vec(n, 0), y(n); ops.perform_op(x.data(), y.data()); return matbits(y); }; }
        else { F.cls = "GenEigsComplexShiftSolver<DenseGenComplexShiftSolve>";
            F.make = [&]() { using S = Spectra::GenEigsComplexShiftSolver<Spectra::DenseGenComplexShiftSolve<double>>; auto sp = std::make_shared<S>(opd, nev, ncv, sr, si); Handle h = wrap<S, CD>(sp, n, nev, false); real_init(h, sp.get()); return h; };
            F.probe = [&]() { Vec x = probe_vec(n, 0), y(n); opd.perform_op(x.data(), y.data()); return matbits(y); }; }
        experiment(F, r, c); break; }
    case 11: { if (n < 5) n = 5; nev = std::max(1, std::min(nev, (n - 2) / 3)); F.n = n; F.nev = nev; Mat A = gen_sym(r, n, kind, scale); for (int i = 0; i < n; i++) A(i, i) += scale * (3.0 * i + 1.0); CntSymProd op(A, log); F.cls = "DavidsonSymEigsSolver"; F.has_init = false; F.davidson = true;
        F.make = [&]() { using S = Spectra::DavidsonSymEigsSolver<CntSymProd>; auto sp = std::make_shared<S>(op, nev); Handle h; h.keep = sp; S* s = sp.get();
            h.compute = [s](int sel, long maxit, double tol, int) { return (long) s->compute((SortRule) sel, maxit, tol); };
            h.results = [s]() { return std::string(" ev") + matbits(s->eigenvalues()) + " X" + matbits(s->eigenvectors()); };
            h.status = [s](bool) { return " niter=" + str((long) s->num_iterations()) + " info=" + str((int) s->info()); };
            return h; };
        F.probe = [&]() { LogGuard g(&log); Vec x = probe_vec(n, 0), y(n); op.Spectra::DenseSymMatProd<double>::perform_op(x.data(), y.data()); return matbits(y); };
        experiment(F, r, c); break; }
    case 12: { int m = r.range(3, nmax), p = r.range(3, nmax); Mat A(m, p); for (int i = 0; i < m; i++) for (int j = 0; j < p; j++) A(i, j) = r.sym() * scale; const int d = std::min(m, p); int ncomp = r.range(1, std::max(1, std::min(3, d - 1))); int ncv2 = r.range(ncomp + 1, std::min(d, ncomp + 4));
        F.cls = "PartialSVDSolver"; F.has_init = false; F.can_throw = false; F.svd = true; F.n = d; F.nev = ncomp; F.ncv = ncv2; const Mat A0 = A;
        F.make = [&]() { using S = Spectra::PartialSVDSolver<Mat>; auto sp = std::make_shared<S>(A, ncomp, ncv2); Handle h; h.keep = sp; S* s = sp.get();
            h.compute = [s](int, long maxit, double tol, int) { return (long) s->compute(maxit, tol); };
            h.results = [s, ncomp]() { return std::string(" sv") + matbits(s->singular_values()) + " U" + matbits(s->matrix_U(ncomp)) + " V" + matbits(s->matrix_V(ncomp)); };
            h.status = [](bool) { return std::string(); };
            h.touch = [s, ncomp]() { (void) s->matrix_U(ncomp); (void) s->matrix_V(1); };
            return h; };
        F.probe = [&]() { return matbits(A); };
        (void) A0; experiment(F, r, c); break; }
    default: {
        Mat A = gen_sym(r, n, kind, scale); Mat M = gen_general(r, n, 0, 1.0); Mat B = M * M.transpose() + Mat::Identity(n, n) * (0.5 + r.unit());
        double sigma = (0.3 + r.unit()) * scale * (r.coin() ? 1 : -1);
        if (cls == 6) { CntSymProd op(A, log); Spectra::DenseCholesky<double> Bop(B); F.cls = "SymGEigsSolver<Cholesky>";
            F.make = [&]() { using S = Spectra::SymGEigsSolver<CntSymProd, Spectra::DenseCholesky<double>, Spectra::GEigsMode::Cholesky>; auto sp = std::make_shared<S>(op, Bop, nev, ncv); Handle h = wrap<S, double>(sp, n, nev, false); real_init(h, sp.get()); return h; };
            F.probe = [&]() { LogGuard g(&log); Vec x = probe_vec(n, 0), y(n), z(n), w(n); op.Spectra::DenseSymMatProd<double>::perform_op(x.data(), y.data()); Bop.lower_triangular_solve(x.data(), z.data()); Bop.upper_triangular_solve(x.data(), w.data()); return matbits(y) + matbits(z) + matbits(w); };
            experiment(F, r, c); }
        else if (cls == 7) { CntSymProd op(A, log); Eigen::SparseMatrix<double> Bs = B.sparseView(); Spectra::SparseRegularInverse<double> Bop(Bs); F.cls = "SymGEigsSolver<RegularInverse>";
            F.make = [&]() { using S = Spectra::SymGEigsSolver<CntSymProd, Spectra::SparseRegularInverse<double>, Spectra::GEigsMode::RegularInverse>; auto sp = std::make_shared<S>(op, Bop, nev, ncv); Handle h = wrap<S, double>(sp, n, nev, false); real_init(h, sp.get()); return h; };
            F.probe = [&]() { LogGuard g(&log); Vec x = probe_vec(n, 0), y(n), z(n), w(n); op.Spectra::DenseSymMatProd<double>::perform_op(x.data(), y.data()); Bop.solve(x.data(), z.data()); Bop.perform_op(x.data(), w.data()); return matbits(y) + matbits(z) + matbits(w); };
            experiment(F, r, c); }
        else {
            using SI = Spectra::SymShiftInvert<double, Eigen::Dense, Eigen::Dense>;
            Mat K1 = (cls == 9) ? B : A, K2 = (cls == 9) ? A : B;    // Buckling: K positive definite, KG symmetric
            SI op(K1, K2); op.set_shift(sigma * 0.5 + 0.77);          // something else is installed before the solver is constructed
            CntSymProd Bop(cls == 9 ? K1 : B, log);
            auto probe = [&]() { LogGuard g(&log); Vec x = probe_vec(n, 0), y(n), z(n); op.perform_op(x.data(), y.data()); Bop.Spectra::DenseSymMatProd<double>::perform_op(x.data(), z.data()); return matbits(y) + matbits(z); };
            F.probe = probe;
            if (cls == 8) { F.cls = "SymGEigsShiftSolver<ShiftInvert>"; F.make = [&]() { using S = Spectra::SymGEigsShiftSolver<SI, CntSymProd, Spectra::GEigsMode::ShiftInvert>; auto sp = std::make_shared<S>(op, Bop, nev, ncv, sigma); Handle h = wrap<S, double>(sp, n, nev, false); real_init(h, sp.get()); return h; }; }
            else if (cls == 9) { F.cls = "SymGEigsShiftSolver<Buckling>"; F.make = [&]() { using S = Spectra::SymGEigsShiftSolver<SI, CntSymProd, Spectra::GEigsMode::Buckling>; auto sp = std::make_shared<S>(op, Bop, nev, ncv, sigma); Handle h = wrap<S, double>(sp, n, nev, false); real_init(h, sp.get()); return h; }; }
            else { F.cls = "SymGEigsShiftSolver<Cayley>"; F.make = [&]() { using S = Spectra::SymGEigsShiftSolver<SI, CntSymProd, Spectra::GEigsMode::Cayley>; auto sp = std::make_shared<S>(op, Bop, nev, ncv, sigma); Handle h = wrap<S, double>(sp, n, nev, false); real_init(h, sp.get()); return h; }; }
            experiment(F, r, c);
        }
    } }
}

int main(int argc, char** argv) {
    Args args(argc, argv); Out out(args.out);
    int only = -1;
    if (!args.replay.empty()) {   // replay: {"harness":"c06","seed":S,"case":K,"tier":T,...}
        std::ifstream f(args.replay); std::stringstream ss; ss << f.rdbuf(); std::string t = ss.str();
        auto num = [&t](const std::string& key) -> long { size_t p = t.find("\"" + key + "\""); if (p == std::string::npos) return -1; p = t.find(':', p); return std::strtol(t.c_str() + p + 1, nullptr, 10); };
        long s = num("seed"), k = num("case"); if (s >= 0) args.seed = (uint64_t) s; if (k >= 0) only = (int) k;
        size_t p = t.find("\"tier\""); if (p != std::string::npos) { p = t.find('"', t.find(':', p)); size_t q = t.find('"', p + 1); if (p != std::string::npos && q != std::string::npos) args.tier = t.substr(p + 1, q - p - 1); }
    }
    const int ncases = args.thorough() ? 10400 + 900 : 1430 + 150;     // base cases + library-wrapper cases (classes 13..15)
    for (int cs = 0; cs < ncases; cs++) {
        if (only >= 0 && cs != only) continue;
        try { run_case(cs, args, out); }
        catch (const std::exception& e) { out.count(std::string("case_exception_") + (dynamic_cast<const std::invalid_argument*>(&e) ? "invalid_argument" : "other")); }
    }
    out.finish();
    return 0;
}
