// C11 harness: every template configuration of the 16 MatOp wrappers and the 5 composite operators, driven on the REAL classes.
//   compiled once per part:  -DC11_PART=k   (parts 0..5: quick covering subset; parts 10..: the rest of the cross product, thorough)
//   for each configuration and case:
//     * the stored matrix holds the documented symmetric matrix in triangle Uplo and JUNK in the other triangle;
//     * correspondence line: request (stored matrices, uplo, shift, vector as bit patterns) + the wrapper's outputs; the Lean model
//       answers `spec uplo M …` computed from symFromTri uplo M by its own Cholesky / Gaussian elimination;
//     * oracle: long-double reference of the documented operator, |impl - ref|_inf <= C n eps scale  (C = 256, scale = ||A|| ||x|| for
//       products, cond_inf * ||y|| for solves, see reference());  error mapping (singular shift => std::invalid_argument, non-SPD => NumericalIssue);
//     * product wrappers with operator*(matrix) / operator()(i,i): checked against the same reference (oracle only);
//     * shift-and-invert wrappers (SymShiftSolve, GenRealShiftSolve, GenComplexShiftSolve, SymShiftInvert; dense and sparse): extra NEAR-SINGULAR-PIVOT
//       cases (gen_near: grid Laplacians, tridiagonal Toeplitz, diagonal + low rank, sigma within 1e-9..1e-5 (relative) of a diagonal entry, shifted
//       matrix well conditioned), and for every real shift solve the normwise BACKWARD error
//       |(A - sigma B) y - x|_inf / (|A - sigma B|_inf |y|_inf + |x|_inf) <= C n eps  (same C = 256): LU with partial pivoting and Bunch-Kaufman pass,
//       an elimination that keeps tiny diagonal pivots does not;
//     * complex shift solves: the shift history set_shift(complex); set_shift(real, 0); set_shift(same complex) on ONE object must reproduce the first answer;
//     * metamorphic: the junk triangle is overwritten with different huge values (and a different sparsity pattern): outputs bit-identical.
#include "common.h"
// an Eigen assertion is a result, not the end of the run: it is turned into an exception that the case runner records
struct c11_eigen_assert : std::logic_error { explicit c11_eigen_assert(const char* m) : std::logic_error(m) {} };
#define eigen_assert(x) do { if (!(x)) throw c11_eigen_assert(#x); } while (0)
#include <Eigen/Core>
#include <Eigen/SparseCore>
#include <Eigen/SparseCholesky>
#include <Spectra/MatOp/DenseGenMatProd.h>
#include <Spectra/MatOp/DenseSymMatProd.h>
#include <Spectra/MatOp/DenseHermMatProd.h>
#include <Spectra/MatOp/SparseGenMatProd.h>
#include <Spectra/MatOp/SparseSymMatProd.h>
#include <Spectra/MatOp/SparseHermMatProd.h>
#include <Spectra/MatOp/DenseSymShiftSolve.h>
#include <Spectra/MatOp/SparseSymShiftSolve.h>
#include <Spectra/MatOp/DenseGenRealShiftSolve.h>
#include <Spectra/MatOp/SparseGenRealShiftSolve.h>
#include <Spectra/MatOp/DenseGenComplexShiftSolve.h>
#include <Spectra/MatOp/SparseGenComplexShiftSolve.h>
#include <Spectra/MatOp/DenseCholesky.h>
#include <Spectra/MatOp/SparseCholesky.h>
#include <Spectra/MatOp/SparseRegularInverse.h>
#include <Spectra/MatOp/SymShiftInvert.h>
#include <Spectra/MatOp/internal/SymGEigsCholeskyOp.h>
#include <Spectra/MatOp/internal/SymGEigsRegInvOp.h>
#include <Spectra/MatOp/internal/SymGEigsShiftInvertOp.h>
#include <Spectra/MatOp/internal/SymGEigsBucklingOp.h>
#include <Spectra/MatOp/internal/SymGEigsCayleyOp.h>
using namespace vh;
#include "c11_core.inc"
#include "c11_run.inc"
#ifndef C11_PART
#define C11_PART 0
#endif
#include "c11_parts.inc"

static const double C_ORACLE = 256.0;

struct Ref { std::string status = "ok"; std::vector<LVec> blocks; std::vector<LD> scales; bool usable = true; LD cond = 1; };

static bool valid_perm(const std::vector<int>& p, int n) { if ((int) p.size() != n) return false; std::vector<int> c(n, 0); for (int v : p) { if (v < 0 || v >= n || c[v]) return false; c[v] = 1; } return true; }

// the documented operator in long double, from the FULL documented matrices (= symmetric completion of the stored triangle)
static Ref reference(const Inst& I, const Prob& p, const std::vector<int>& perm, size_t nblocks) {
    Ref R; const int n = p.n; LVec x = tolv(p.x);
    auto solve = [&](const LMat& M, const LVec& b, LVec& y, LD& cond) { if (!ld_gepp(M, b, y)) return false; cond = ld_cond(M); return std::isfinite((double) cond); };
    switch (I.kind) {
        case GENPROD: case SYMPROD: { LMat S = ld_sym(p.A, I.uplo); R.blocks.push_back(S * x); R.scales.push_back(ninf(S) * vinf(x));
            if (nblocks == 4) {   // operator*(matrix) on [x, reverse(x)] and the diagonal through operator()(i, i)
                LVec xr = x.reverse(); R.blocks.push_back(S * x); R.scales.push_back(ninf(S) * vinf(x)); R.blocks.push_back(S * xr); R.scales.push_back(ninf(S) * vinf(x));
                R.blocks.push_back(S.diagonal()); R.scales.push_back(0); }
            break; }
        case HERMPROD: {
            LMat Sr = ld_sym(p.A, I.uplo), Si(n, n);
            for (int i = 0; i < n; i++) for (int j = 0; j < n; j++) Si(i, j) = in_tri(I.uplo, i, j) ? (LD) p.Ai(i, j) : -(LD) p.Ai(j, i);
            LVec xi = tolv(p.xi); LMat ab = Sr.cwiseAbs() + Si.cwiseAbs(); LD sc = ninf(ab) * (vinf(x) + vinf(xi));
            R.blocks.push_back(Sr * x - Si * xi); R.scales.push_back(sc); R.blocks.push_back(Sr * xi + Si * x); R.scales.push_back(sc); break; }
        case SYMSHIFT: case GENRSHIFT: {
            LMat M = ld_sym(p.A, I.uplo) - (LD) p.sigma * LMat::Identity(n, n); LVec y;
            if (!solve(M, x, y, R.cond)) { R.status = "throw"; break; }
            R.blocks.push_back(y); R.scales.push_back(R.cond * vinf(y)); break; }
        case GENCSHIFT: {
            LMat S = ld_sym(p.A, 0), M = LMat::Zero(2 * n, 2 * n); LVec b = LVec::Zero(2 * n), z;
            M.topLeftCorner(n, n) = S - (LD) p.sigma * LMat::Identity(n, n); M.bottomRightCorner(n, n) = M.topLeftCorner(n, n);
            M.topRightCorner(n, n) = (LD) p.sigmai * LMat::Identity(n, n); M.bottomLeftCorner(n, n) = -(LD) p.sigmai * LMat::Identity(n, n);
            b.head(n) = x;
            if (!solve(M, b, z, R.cond)) { R.status = "throw"; break; }
            R.blocks.push_back(z.head(n)); R.scales.push_back(R.cond * vinf(LVec(z.head(n)))); break; }
        case CHOL: case COMPCH: {
            LMat SB = ld_sym(I.kind == CHOL ? p.A : p.B, I.kind == CHOL ? I.uplo : I.uploB), L0, Lp, PS(n, n);
            if (!ld_chol(SB, L0)) { R.status = "throw"; break; }
            if (!valid_perm(perm, n)) { R.usable = false; break; }
            for (int i = 0; i < n; i++) for (int j = 0; j < n; j++) PS(perm[i], perm[j]) = SB(i, j);
            if (!ld_chol(PS, Lp)) { R.status = "throw"; break; }
            R.cond = ld_cond(SB);
            auto lower = [&](const LVec& v) { LVec pv(n); for (int i = 0; i < n; i++) pv[perm[i]] = v[i]; return ld_fwd(Lp, pv); };
            auto upper = [&](const LVec& v) { LVec w = ld_bwdT(Lp, v), r(n); for (int i = 0; i < n; i++) r[i] = w[perm[i]]; return r; };
            if (I.kind == CHOL) { LVec lo = lower(x), up = upper(x); R.blocks.push_back(lo); R.scales.push_back(R.cond * R.cond * vinf(lo)); R.blocks.push_back(up); R.scales.push_back(R.cond * R.cond * vinf(up)); }
            else { LMat SA = ld_sym(p.A, I.uplo), Bi; ld_inverse(SB, Bi); R.blocks.push_back(lower(SA * upper(x))); R.scales.push_back(R.cond * R.cond * ninf(Bi) * ninf(SA) * vinf(x)); }
            break; }
        case REGINV: {
            LMat S = ld_sym(p.A, I.uplo); LVec y;
            if (!solve(S, x, y, R.cond)) { R.usable = false; break; }
            R.blocks.push_back(y); R.scales.push_back(R.cond * vinf(y)); R.blocks.push_back(S * x); R.scales.push_back(ninf(S) * vinf(x)); break; }
        case SSI: {
            LMat M = ld_pencil(p.A, I.uplo, p.B, I.uploB, p.sigma); LVec y;
            if (!solve(M, x, y, R.cond)) { R.status = "throw"; break; }
            R.blocks.push_back(y); R.scales.push_back(R.cond * vinf(y)); break; }
        case COMP2: {
            LMat M = ld_pencil(p.A, I.uplo, p.B, I.uploB, p.sigma), Mi, SC = ld_sym(p.C, I.uploC); LVec y;
            if (!solve(M, SC * x, y, R.cond)) { R.status = "throw"; break; }
            ld_inverse(M, Mi); LD inner = R.cond * ninf(Mi) * ninf(SC) * vinf(x);
            if (I.kind2 == 2) { R.blocks.push_back(x + (LD) 2 * (LD) p.sigma * y); R.scales.push_back(vinf(x) + 2 * std::fabs((LD) p.sigma) * inner); }
            else { R.blocks.push_back(y); R.scales.push_back(inner); }
            break; }
        case COMPRI: {
            LMat SA = ld_sym(p.A, I.uplo), SB = ld_sym(p.B, I.uploB), Bi; LVec y;
            if (!solve(SB, SA * x, y, R.cond)) { R.usable = false; break; }
            ld_inverse(SB, Bi); R.blocks.push_back(y); R.scales.push_back(R.cond * ninf(Bi) * ninf(SA) * vinf(x)); break; }
    }
    return R;
}

static std::string request_line(const Inst& I, const Prob& p, const std::vector<int>& perm) {
    std::string h = std::string(" ") + I.cfg + " " + str(p.n) + " ";
    auto permS = [&]() { std::string s; for (int i = 0; i < p.n; i++) { s += " "; s += str(i < (int) perm.size() ? perm[i] : i); } return s; };
    switch (I.kind) {
        case GENPROD: case SYMPROD: return "prod" + h + str(I.uplo) + bits_mat(p.A) + bits_vec(p.x);
        case HERMPROD: return "hprod" + h + str(I.uplo) + bits_mat(p.A) + bits_mat(p.Ai) + bits_vec(p.x) + bits_vec(p.xi);
        case SYMSHIFT: case GENRSHIFT: return "shift" + h + str(I.uplo) + " " + str(dbits(p.sigma)) + bits_mat(p.A) + bits_vec(p.x);
        case GENCSHIFT: return "cshift" + h + str(dbits(p.sigma)) + " " + str(dbits(p.sigmai)) + bits_mat(p.A) + bits_vec(p.x);
        case CHOL: return "chol" + h + str(I.uplo) + permS() + bits_mat(p.A) + bits_vec(p.x);
        case REGINV: return "reginv" + h + str(I.uplo) + bits_mat(p.A) + bits_vec(p.x);
        case SSI: return "ssi" + h + str(I.pairing) + " " + str(I.uplo) + " " + str(I.uploB) + " " + str(dbits(p.sigma)) + bits_mat(p.A) + bits_mat(p.B) + bits_vec(p.x);
        case COMP2: return "comp2" + h + str(I.kind2) + " " + str(I.pairing) + " " + str(I.uplo) + " " + str(I.uploB) + " " + str(I.uploC) + " " + str(dbits(p.sigma)) + bits_mat(p.A) + bits_mat(p.B) + bits_mat(p.C) + bits_vec(p.x);
        case COMPCH: return "compch" + h + str(I.uplo) + " " + str(I.uploB) + permS() + bits_mat(p.A) + bits_mat(p.B) + bits_vec(p.x);
        case COMPRI: return "compri" + h + str(I.uplo) + " " + str(I.uploB) + bits_mat(p.A) + bits_mat(p.B) + bits_vec(p.x);
    }
    return "?";
}

static std::string replay_json(const Inst& I, const Args& a, int ci, int n, const std::string& member) {
    return "{\"harness\":\"c11\",\"part\":" + str(C11_PART) + ",\"wrapper\":\"" + I.wrapper + "\",\"member\":\"" + member + "\",\"uplo\":\"" + uplo_name(I.uplo) +
           "\",\"bop_uplo\":\"" + uplo_name(I.uploB) + "\",\"order\":\"" + (I.cfg.find("RowMajor") != std::string::npos ? "RowMajor" : "ColMajor") + "\",\"cfg\":\"" + jesc(I.cfg) + "\",\"case\":" + str(ci) + ",\"seed\":" + str(a.seed) + ",\"tier\":\"" + a.tier + "\",\"n\":" + str(n) + "}";
}

static uint64_t hash_str(const std::string& s) { uint64_t h = 1469598103934665603ull; for (unsigned char c : s) { h ^= c; h *= 1099511628211ull; } return h; }

static void run_case(const Inst& I, const Args& a, Out& out, int ci, int ncases) {
    Rng rng(a.seed, hash_str(I.cfg) % 1000003ull, (uint64_t) ci);
    static const int sizes_q[] = {3, 1, 2, 5, 8, 12, 4, 6}; static const int sizes_t[] = {3, 1, 2, 5, 8, 12, 4, 6, 7, 16, 9, 24, 10, 2, 13, 20};
    const bool isfloat = I.scalar == "float" || I.scalar == "cfloat";
    const int nearidx = ci - ncases;                        // >= 0: near-singular-pivot case number (shift-and-invert wrappers only)
    const bool near = nearidx >= 0;
    NearProb np; const LD condnear = isfloat ? 50 : 1000;
    if (near) {
        const bool sym = I.kind == SYMSHIFT || I.kind == SSI;
        bool ok = false;
        for (int t = 0; t < 8 && !ok; t++) {
            np = gen_near(rng, nearidx + (int) (hash_str(I.cfg) % 3), nearidx / 3 + (int) (hash_str(I.cfg) / 3 % 3), a.thorough(), sym, I.kind == SSI, I.kind == GENCSHIFT, isfloat);
            const int m = (int) np.A.rows();
            LMat M = I.kind == SSI ? ld_pencil(np.A, 0, np.B, 0, np.sigma) : LMat(ld_sym(np.A, 0) - (LD) np.sigma * LMat::Identity(m, m));
            LD big = ninf(ld_sym(np.A, 0)) + std::fabs((LD) np.sigma) * (I.kind == SSI ? ninf(ld_sym(np.B, 0)) : (LD) 1);
            if (!(ninf(M) * 16 >= big)) continue;          // the shifted matrix must not be a small difference of large ones (its entries are rounded once when formed)
            if (I.kind == GENCSHIFT) { LMat T = M; M = LMat::Zero(2 * m, 2 * m); M.topLeftCorner(m, m) = T; M.bottomRightCorner(m, m) = T; M.topRightCorner(m, m) = (LD) np.sigmai * LMat::Identity(m, m); M.bottomLeftCorner(m, m) = -(LD) np.sigmai * LMat::Identity(m, m); }
            ok = ld_cond(M) <= condnear;
        }
        if (!ok) { out.count("skipped_near_illconditioned"); out.count(std::string("skipped_near_") + near_family_name(np.fam)); return; }
    }
    const int n = near ? (int) np.A.rows() : a.thorough() ? sizes_t[ci % 16] : sizes_q[ci % 8];
    const int fam = (int) rng.below(4);
    auto pattern = [&](bool sparse) { return sparse ? 1 + (int) rng.below(3) : (int) rng.below(4); };
    const bool special = (ci == ncases - 1) && n >= 2 && (I.kind == SYMSHIFT || (I.kind == GENRSHIFT && I.sparse) || (I.kind == GENCSHIFT && I.sparse && n >= 3) || I.kind == SSI || I.kind == CHOL || I.kind == COMP2);
    // ---- documented matrices
    DMat SA, SAi, SB, SC;
    Prob p; p.n = n; p.form = ci % std::max(1, I.nforms);
    p.sigma = 0; p.sigmai = 0;
    if (near) { SA = np.A; if (I.kind == SSI) SB = np.B; p.sigma = np.sigma; p.sigmai = np.sigmai; }
    else switch (I.kind) {
        case GENPROD: SA = gen_gen(rng, n, fam, pattern(I.sparse)); break;
        case SYMPROD: SA = gen_sym(rng, n, fam, pattern(I.sparse)); break;
        case HERMPROD: { SA = gen_sym(rng, n, fam, pattern(I.sparse)); SAi = gen_sym(rng, n, fam, pattern(I.sparse)); for (int i = 0; i < n; i++) { SAi(i, i) = 0; for (int j = i + 1; j < n; j++) SAi(i, j) = -SAi(j, i); } break; }
        case SYMSHIFT: SA = gen_sym(rng, n, fam, pattern(I.sparse)); p.sigma = 2.0 * rng.sym(); break;
        case GENRSHIFT: SA = gen_gen(rng, n, fam, pattern(I.sparse)); p.sigma = 2.0 * rng.sym(); break;
        case GENCSHIFT: SA = gen_gen(rng, n, fam, pattern(I.sparse)); p.sigma = 2.0 * rng.sym(); p.sigmai = (rng.coin() ? 1 : -1) * (0.3 + 1.2 * rng.unit()); break;
        case CHOL: case REGINV: SA = gen_spd(rng, n, fam, pattern(I.sparse)); break;
        case SSI: case COMP2: SA = gen_sym(rng, n, fam, pattern(I.sparse)); SB = gen_spd(rng, n, fam, pattern(I.sparseB)); p.sigma = 2.0 * rng.sym(); if (I.kind == COMP2) SC = (I.kind2 == 1 ? SA : SB); break;
        case COMPCH: case COMPRI: SA = gen_sym(rng, n, fam, pattern(I.sparse)); SB = gen_spd(rng, n, fam, pattern(I.sparseB)); break;
    }
    if (fam == 1 && !near) p.sigma = std::round(p.sigma * 4) / 4;
    if (special) {
        // error mapping: exactly singular shifted matrix (decoupled coordinate k whose pivot is exactly 0) / a non-SPD matrix
        int k = (int) rng.below(n);
        if (I.kind == CHOL) { SA(k, k) = -1.0 - rng.unit(); }
        else if (I.kind == GENCSHIFT) {      // sigma = a + bi is an eigenvalue of A: decoupled rotation block [[a,-b],[b,a]]
            k = (int) rng.below(n - 1); double ar = (double) rng.range(-3, 3) * 0.5, br = (double) rng.range(1, 4) * 0.5;
            for (int i = 0; i < n; i++) for (int d = 0; d < 2; d++) { SA(i, k + d) = 0; SA(k + d, i) = 0; }
            SA(k, k) = ar; SA(k + 1, k + 1) = ar; SA(k, k + 1) = -br; SA(k + 1, k) = br; p.sigma = ar; p.sigmai = br;
        }
        else {
            for (int i = 0; i < n; i++) if (i != k) { SA(i, k) = SA(k, i) = 0; if (SB.size()) SB(i, k) = SB(k, i) = 0; }
            double b = SB.size() ? (rng.coin() ? 1.0 : 2.0) : 1.0; if (SB.size()) SB(k, k) = b;
            p.sigma = (double) rng.range(-3, 3) * 0.5; SA(k, k) = p.sigma * b;
            if (I.kind == COMP2) SC = (I.kind2 == 1 ? SA : SB);
        }
    }
    p.x = DVec(n); for (int i = 0; i < n; i++) p.x[i] = rng.sym();
    if (I.cx) { p.xi = DVec(n); for (int i = 0; i < n; i++) p.xi[i] = rng.sym(); }
    if (isfloat) { round_float(SA); if (SAi.size()) round_float(SAi); if (SB.size()) round_float(SB); if (SC.size()) round_float(SC); round_float(p.x); if (p.xi.size()) round_float(p.xi); p.sigma = (double) (float) p.sigma; p.sigmai = (double) (float) p.sigmai; }
    // ---- keep the shifted matrix reasonably conditioned (the property quantifies over nonsingular shifted matrices)
    const LD condmax = isfloat ? 50 : 1e4;
    if (!special && !near && (I.kind == SYMSHIFT || I.kind == GENRSHIFT || I.kind == GENCSHIFT || I.kind == SSI || I.kind == COMP2)) {
        bool ok = false;
        for (int t = 0; t < 12 && !ok; t++) {
            LMat M = I.kind == SSI || I.kind == COMP2 ? ld_pencil(SA, 0, SB, 0, p.sigma) : LMat(ld_sym(SA, 0) - (LD) p.sigma * LMat::Identity(n, n));
            if (I.kind == GENCSHIFT) { LMat T = M; M = LMat::Zero(2 * n, 2 * n); M.topLeftCorner(n, n) = T; M.bottomRightCorner(n, n) = T; M.topRightCorner(n, n) = (LD) p.sigmai * LMat::Identity(n, n); M.bottomLeftCorner(n, n) = -(LD) p.sigmai * LMat::Identity(n, n); }
            LD c = ld_cond(M);
            if (c <= condmax) ok = true; else { p.sigma += 0.375; if (isfloat) p.sigma = (double) (float) p.sigma; }
        }
        if (!ok) { out.count("skipped_illconditioned"); return; }
    }
    // ---- stored matrices: documented triangle + junk
    Rng j1(a.seed, 7001, (uint64_t) ci + hash_str(I.cfg) % 65521ull), j2(a.seed, 7002, (uint64_t) ci + hash_str(I.cfg) % 65521ull);
    auto store = [&](Prob& q, Rng& jr, int level) {
        q.A = with_junk(SA, I.uplo, jr, level); if (SAi.size()) q.Ai = with_junk(SAi, I.uplo, jr, level);
        if (SB.size()) q.B = with_junk(SB, I.uploB, jr, level); if (SC.size()) q.C = with_junk(SC, I.uploC, jr, level);
        if (isfloat) { round_float(q.A); if (q.Ai.size()) round_float(q.Ai); if (q.B.size()) round_float(q.B); if (q.C.size()) round_float(q.C); }
    };
    store(p, j1, 1);
    { std::ofstream lc(out.dir + "/lastcase.txt"); lc << replay_json(I, a, ci, n, "?") << "\n"; }
    Res r = I.run(p);
    out.count(std::string("cases_") + kind_name(I.kind)); out.count("form_" + str(p.form)); out.count("n_" + str(n)); if (special) out.count("special_error_mapping");
    if (near) { out.count(std::string("near_pivot_") + near_family_name(np.fam)); out.count(std::string("near_pivot_") + kind_name(I.kind)); }
    const std::string nearinfo = near ? std::string(", near-singular pivot: ") + near_family_name(np.fam) + " " + np.desc + ", sigma = d(1 +- " + str(np.delta) + ") for the diagonal entry d of index " + str(np.k) : std::string();
    Ref ref = reference(I, p, r.perm, r.blocks.size());
    // ---- correspondence line (double configurations; the model has no float / long double instance)
    if (I.scalar == "double" || I.scalar == "cdouble") {
        std::string resp = r.status == "ok" || r.status == "unstable" || r.status == "stale" ? "ok" : "throw";
        for (size_t b = 0; b < r.blocks.size() && (r.ncorr < 0 || (int) b < r.ncorr); b++) for (LD v : r.blocks[b]) { resp += " "; resp += str(dbits((double) v)); }
        out.corr(request_line(I, p, r.perm), resp);
        static std::ofstream meta(out.dir + "/meta.txt");      // one replay descriptor per request line
        meta << replay_json(I, a, ci, n, "perform_op") << std::endl;
    }
    // ---- oracle: documented operator
    if (!ref.usable) { out.count("reference_unusable"); }
    else if (ref.status != (r.status == "ok" ? "ok" : r.status == "unstable" ? "unstable" : r.status == "stale" ? "stale" : "throw")) {
        out.fail(ref.status == "throw" ? "error-mapping" : "wrong-operator", I.cfg + ": documented operator " + (ref.status == "throw" ? "does not exist (singular / not SPD) but the wrapper reported success" : "exists (cond " + str((double) ref.cond) + ") but the wrapper " + (r.status == "unstable" ? "returned different answers on two calls" : r.status == "stale" ? "returned a different answer after the shift history set_shift(sigma); set_shift(real shift, 0); set_shift(sigma) on the same object" : "failed with " + r.exc)) + " (n=" + str(n) + nearinfo + ")",
                 replay_json(I, a, ci, n, r.status == "ok" || r.status == "stale" ? "set_shift" : (r.members.empty() ? (I.kind == REGINV ? "solve" : "perform_op") : r.members[0])));
    } else if (r.status == "throw") {
        out.count("oracle_error_mapping_ok");
        const bool wantInfo = I.kind == CHOL || I.kind == COMPCH;
        if ((wantInfo && r.exc != "NumericalIssue") || (!wantInfo && r.exc != "invalid_argument"))
            out.fail("error-mapping", I.cfg + ": factorization failure reported as " + r.exc + " (documented: " + (wantInfo ? "info() = NumericalIssue" : "std::invalid_argument") + ")", replay_json(I, a, ci, n, "set_shift"));
    } else {
        for (size_t b = 0; b < ref.blocks.size() && b < r.blocks.size(); b++) {
            LD err = 0; for (int i = 0; i < n; i++) err = std::max(err, std::fabs(r.blocks[b][i] - ref.blocks[b][i]));
            LD tol = C_ORACLE * n * (LD) I.eps * ref.scales[b];
            out.count("oracle_blocks");
            if (!(err <= tol))
                out.fail("wrong-operator", I.cfg + "::" + r.members[b] + ": |result - documented operator|_inf = " + str((double) err) + " > " + str((double) tol) + " = 256 n eps scale (n=" + str(n) + ", cond=" + str((double) ref.cond) + ", |ref|=" + str((double) vinf(ref.blocks[b])) + nearinfo + ")",
                         replay_json(I, a, ci, n, r.members[b]));
        }
        if (r.blocks.size() != ref.blocks.size()) out.fail("wrong-operator", I.cfg + ": number of outputs", replay_json(I, a, ci, n, "?"));
        // ---- normwise backward error of the real shift solves (what a backward-stable factorization guarantees whatever the conditioning)
        if ((I.kind == SYMSHIFT || I.kind == GENRSHIFT || I.kind == SSI) && r.blocks.size() == 1) {
            LMat M = I.kind == SSI ? ld_pencil(p.A, I.uplo, p.B, I.uploB, p.sigma) : LMat(ld_sym(p.A, I.uplo) - (LD) p.sigma * LMat::Identity(n, n));
            LVec y = tolv(r.blocks[0]), x = tolv(p.x), res = M * y - x;
            LD eta = vinf(res) / (ninf(M) * vinf(y) + vinf(x)), tol = C_ORACLE * n * (LD) I.eps;
            out.count("oracle_backward");
            if (!(eta <= tol))
                out.fail("backward-error", I.cfg + "::perform_op: |(A - sigma B) y - x|_inf / (|A - sigma B|_inf |y|_inf + |x|_inf) = " + str((double) eta) + " > " + str((double) tol) + " = 256 n eps (n=" + str(n) + ", sigma=" + str(p.sigma) + ", cond=" + str((double) ref.cond) + nearinfo + ")",
                         replay_json(I, a, ci, n, "perform_op"));
        }
    }
    // ---- metamorphic: overwrite the unused triangle(s)
    if (I.uplo || I.uploB || I.uploC) {
        Prob q = p; store(q, j2, 2);
        Res r2 = I.run(q); out.count("oracle_metamorphic");
        bool same = r2.status == r.status && r2.blocks.size() == r.blocks.size() && r2.perm == r.perm; size_t bad = 0;
        if (same) for (size_t b = 0; b < r.blocks.size() && same; b++) for (int i = 0; i < n; i++) if (!(r.blocks[b][i] == r2.blocks[b][i])) { same = false; bad = b; break; }
        if (!same)
            out.fail("tri-leak", I.cfg + ": output changed when the unused triangle was overwritten (status " + r.status + "/" + r2.status + r2.exc + ", n=" + str(n) + ")",
                     replay_json(I, a, ci, n, bad < r.members.size() ? r.members[bad] : (I.kind == REGINV ? "solve" : "perform_op")));
    }
}

int main(int argc, char** argv) {
    Args a(argc, argv); Out out(a.out);
    std::vector<Inst> insts; register_part(insts);
    std::string only_cfg; int only_case = -1;
    if (!a.replay.empty()) {
        std::ifstream f(a.replay); std::string t((std::istreambuf_iterator<char>(f)), {});
        auto getS = [&](const std::string& k) { auto p = t.find("\"" + k + "\""); if (p == std::string::npos) return std::string(); p = t.find(':', p); p = t.find('"', p); auto e = t.find('"', p + 1); return t.substr(p + 1, e - p - 1); };
        auto getI = [&](const std::string& k, long d) { auto p = t.find("\"" + k + "\""); if (p == std::string::npos) return d; p = t.find(':', p); return std::atol(t.c_str() + p + 1); };
        only_cfg = getS("cfg"); only_case = (int) getI("case", -1); a.seed = (uint64_t) getI("seed", (long) a.seed); std::string tr = getS("tier"); if (!tr.empty()) a.tier = tr;
    }
    const int ncases = a.thorough() ? 24 : 8, nnear = a.thorough() ? 9 : 3;      // base cases; near-singular-pivot cases (case numbers ncases .. ncases + nnear - 1)
    for (auto& I : insts) {
        if (!only_cfg.empty() && I.cfg != only_cfg) continue;
        out.count("configurations");
        const bool shiftinv = I.kind == SYMSHIFT || I.kind == GENRSHIFT || I.kind == GENCSHIFT || I.kind == SSI;
        for (int ci = 0; ci < ncases + (shiftinv ? nnear : 0); ci++) { if (only_case >= 0 && ci != only_case) continue; run_case(I, a, out, ci, ncases); }
    }
    { std::ofstream cf(a.out + "/configs.txt"); for (auto& I : insts) cf << I.cfg << "\n"; }
    out.finish();
    return (!a.replay.empty() && out.nfail) ? 1 : 0;
}
