// C18 harness: real argsort / SortEigenvalue / solver rule dispatch  vs  Lean model, plus the property's own oracle.
#include "common.h"
#include <Eigen/Core>
#include <Spectra/Util/SelectionRule.h>
#include <Spectra/SymEigsSolver.h>
#include <Spectra/GenEigsSolver.h>
#include <Spectra/MatOp/DenseSymMatProd.h>
#include <Spectra/MatOp/DenseGenMatProd.h>
using namespace vh;
using Spectra::SortRule;
typedef long double LD;
typedef std::complex<double> CD;

static const char* RN[9] = {"LargestMagn", "LargestReal", "LargestImag", "LargestAlge", "SmallestMagn", "SmallestReal", "SmallestImag", "SmallestAlge", "BothEnds"};

static std::string vec_json(const std::vector<double>& v) { std::string s = "["; for (size_t i = 0; i < v.size(); i++) { if (i) s += ","; s += str(dbits(v[i])); } return s + "]"; }

// documented key of a rule for real values, in long double: smaller key first
static bool real_key(int rule, double x, LD& k) {
    switch (rule) { case 0: k = -std::fabs((LD) x); return true; case 3: case 8: k = -(LD) x; return true; case 4: k = std::fabs((LD) x); return true; case 7: k = (LD) x; return true; default: return false; }
}
static bool cplx_key(int rule, CD z, LD& k) {
    switch (rule) { case 0: k = -std::hypot((LD) z.real(), (LD) z.imag()); return true; case 1: k = -(LD) z.real(); return true; case 2: k = -std::fabs((LD) z.imag()); return true;
                    case 4: k = std::hypot((LD) z.real(), (LD) z.imag()); return true; case 5: k = (LD) z.real(); return true; case 6: k = std::fabs((LD) z.imag()); return true; default: return false; }
}

static void oracle_real(int rule, const std::vector<double>& v, Out& out) {
    const long n = (long) v.size();
    Eigen::VectorXd ev(n); for (long i = 0; i < n; i++) ev[i] = v[i];
    std::string rj = "{\"op\":\"argsort\",\"rule\":" + str(rule) + ",\"values\":" + vec_json(v) + "}";
    LD dummy; bool defined = real_key(rule, 0.0, dummy);
    std::vector<Eigen::Index> ind;
    try { ind = Spectra::argsort((SortRule) rule, ev, n); }
    catch (const std::invalid_argument&) { if (defined) out.fail("sort-reject-defined", std::string("argsort rejects defined rule ") + RN[rule], rj); out.count("oracle_real_throw"); return; }
    catch (...) { out.fail("sort-wrong-exception", std::string("argsort threw a non-invalid_argument exception for ") + RN[rule], rj); return; }
    out.count("oracle_real");
    if (!defined) { out.fail("sort-accept-undefined", std::string("argsort accepted rule not defined for real values: ") + RN[rule], rj); return; }
    if ((long) ind.size() != n) { out.fail("sort-not-perm", "argsort result has wrong length", rj); return; }
    std::vector<int> seen(n, 0);
    for (long i = 0; i < n; i++) { if (ind[i] < 0 || ind[i] >= n || seen[ind[i]]++) { out.fail("sort-not-perm", std::string("argsort result is not a permutation, rule ") + RN[rule], rj); return; } }
    if (rule != 8) {
        for (long i = 0; i + 1 < n; i++) { LD a, b; real_key(rule, v[ind[i]], a); real_key(rule, v[ind[i + 1]], b);
            if (a > b) { out.fail("sort-not-sorted", std::string("argsort order violates key of ") + RN[rule] + " at position " + str(i), rj); return; } }
    } else {
        // for every k: first k positions = ceil(k/2) largest + floor(k/2) smallest (as multisets of values)
        std::vector<double> s(v); std::sort(s.begin(), s.end(), [](double a, double b) { return a > b; });
        for (long k = 0; k <= n; k++) {
            std::vector<double> got, want;
            for (long i = 0; i < k; i++) got.push_back(v[ind[i]]);
            for (long i = 0; i < (k + 1) / 2; i++) want.push_back(s[i]);
            for (long i = 0; i < k / 2; i++) want.push_back(s[n - 1 - i]);
            std::sort(got.begin(), got.end()); std::sort(want.begin(), want.end());
            if (got != want) { out.fail("sort-bothends", "BothEnds: first " + str(k) + " positions are not the ceil(k/2) largest + floor(k/2) smallest", rj); return; }
        }
    }
}

template <int R> static bool sortc_one(const std::vector<CD>& v, std::vector<Eigen::Index>& ind) {
    Spectra::SortEigenvalue<CD, (SortRule) R> s(v.data(), (Eigen::Index) v.size()); ind = s.index(); return true;
}
static bool sortc(int rule, const std::vector<CD>& v, std::vector<Eigen::Index>& ind) {
    switch (rule) { case 0: return sortc_one<0>(v, ind); case 1: return sortc_one<1>(v, ind); case 2: return sortc_one<2>(v, ind);
                    case 4: return sortc_one<4>(v, ind); case 5: return sortc_one<5>(v, ind); case 6: return sortc_one<6>(v, ind); default: return false; }
}

static void do_real(int rule, const std::vector<double>& v, Out& out, bool keyseq) {
    const long n = (long) v.size();
    Eigen::VectorXd ev(n); for (long i = 0; i < n; i++) ev[i] = v[i];
    std::string rq = std::string(keyseq ? "argsortk " : "argsort ") + str(rule) + " " + str(n); for (double x : v) rq += " " + str(dbits(x));
    std::string rs;
    try { auto ind = Spectra::argsort((SortRule) rule, ev, n); rs = "ok "; bool f1 = true; for (auto i : ind) { if (!f1) rs += " "; f1 = false; rs += (keyseq ? str(dbits(((rule == 0 || rule == 4) ? std::fabs(v[i]) : v[i]) + 0.0)) : str((long) i)); } }
    catch (const std::invalid_argument&) { rs = "throw std::invalid_argument"; }
    catch (const std::exception& e) { rs = std::string("throw other ") + e.what(); }
    out.corr(rq, rs);
    oracle_real(rule, v, out);
}

static void do_cplx(int rule, const std::vector<CD>& v, Out& out) {
    const long n = (long) v.size();
    std::string rq = "sortc " + str(rule) + " " + str(n); for (CD z : v) rq += " " + str(dbits(z.real())) + " " + str(dbits(z.imag()));
    std::vector<Eigen::Index> ind; std::string rs;
    std::string rj = "{\"op\":\"sortc\",\"rule\":" + str(rule) + ",\"n\":" + str(n) + "}";
    if (!sortc(rule, v, ind)) { out.corr(rq, "no-instance"); return; }
    rs = "ok "; { bool f1 = true; for (auto i : ind) { if (!f1) rs += " "; f1 = false; rs += str((long) i); } }
    out.corr(rq, rs); out.count("oracle_cplx");
    std::vector<int> seen(n, 0);
    for (long i = 0; i < n; i++) if (ind[i] < 0 || ind[i] >= n || seen[ind[i]]++) { out.fail("sort-not-perm", std::string("complex sort result is not a permutation, rule ") + RN[rule], rj); return; }
    for (long i = 0; i + 1 < n; i++) { LD a, b; cplx_key(rule, v[ind[i]], a); cplx_key(rule, v[ind[i + 1]], b);
        if (a > b * (1 + 4e-16L) + 1e-300L && a > b) { if (std::fabs((double) (a - b)) > 1e-15 * std::fabs((double) a)) { out.fail("sort-not-sorted", std::string("complex sort order violates key of ") + RN[rule], rj); return; } } }
}

// rule dispatch of the solvers themselves
static void solver_rules(Out& out) {
    const int n = 8;
    Eigen::MatrixXd A = Eigen::MatrixXd::Zero(n, n); for (int i = 0; i < n; i++) { A(i, i) = i + 1; if (i + 1 < n) { A(i, i + 1) = 0.5; A(i + 1, i) = 0.5; } }
    Eigen::MatrixXd G = A; G(0, n - 1) = 0.3; G(2, 1) = -0.7;
    for (int r = 0; r < 9; r++) {
        {   Spectra::DenseSymMatProd<double> op(A); Spectra::SymEigsSolver<Spectra::DenseSymMatProd<double>> s(op, 2, 6); s.init();
            std::string rs; try { s.compute((SortRule) r, 100, 1e-10, SortRule::LargestAlge); rs = "ok"; } catch (const std::invalid_argument&) { rs = "throw std::invalid_argument"; } catch (const std::exception& e) { rs = std::string("throw other ") + e.what(); }
            bool want = (r == 0 || r == 3 || r == 4 || r == 7 || r == 8);
            if (want != (rs == "ok") || (!want && rs != "throw std::invalid_argument")) out.fail("rule-dispatch", std::string("SymEigsSolver selection rule ") + RN[r] + ": " + rs, "{\"op\":\"herm_select\",\"rule\":" + str(r) + "}");
            out.corr("hermrule_select " + str(r), rs == "ok" ? "ok " + str(r == 8 ? 3 : r) : rs); }
        {   Spectra::DenseSymMatProd<double> op(A); Spectra::SymEigsSolver<Spectra::DenseSymMatProd<double>> s(op, 2, 6); s.init();
            std::string rs; try { s.compute(SortRule::LargestMagn, 100, 1e-10, (SortRule) r); rs = "ok"; } catch (const std::invalid_argument&) { rs = "throw std::invalid_argument"; } catch (const std::exception& e) { rs = std::string("throw other ") + e.what(); }
            bool want = (r == 0 || r == 3 || r == 4 || r == 7);
            if (want != (rs == "ok") || (!want && rs != "throw std::invalid_argument")) out.fail("rule-dispatch", std::string("SymEigsSolver sorting rule ") + RN[r] + ": " + rs, "{\"op\":\"herm_sort\",\"rule\":" + str(r) + "}");
            out.corr("hermrule_sort " + str(r), rs == "ok" ? "ok " + str(r) : rs); }
        {   Spectra::DenseGenMatProd<double> op(G); Spectra::GenEigsSolver<Spectra::DenseGenMatProd<double>> s(op, 2, 6); s.init();
            std::string rs; try { s.compute((SortRule) r, 100, 1e-10, SortRule::LargestMagn); rs = "ok"; } catch (const std::invalid_argument&) { rs = "throw std::invalid_argument"; } catch (const std::exception& e) { rs = std::string("throw other ") + e.what(); }
            bool want = (r == 0 || r == 1 || r == 2 || r == 4 || r == 5 || r == 6);
            if (want != (rs == "ok") || (!want && rs != "throw std::invalid_argument")) out.fail("rule-dispatch", std::string("GenEigsSolver selection rule ") + RN[r] + ": " + rs, "{\"op\":\"gen_select\",\"rule\":" + str(r) + "}");
            out.corr("genrule_select " + str(r), rs == "ok" ? "ok " + str(r) : rs); }
        {   Spectra::DenseGenMatProd<double> op(G); Spectra::GenEigsSolver<Spectra::DenseGenMatProd<double>> s(op, 2, 6); s.init();
            std::string rs; try { s.compute(SortRule::LargestMagn, 100, 1e-10, (SortRule) r); rs = "ok"; } catch (const std::invalid_argument&) { rs = "throw std::invalid_argument"; } catch (const std::exception& e) { rs = std::string("throw other ") + e.what(); }
            bool want = (r == 0 || r == 1 || r == 2 || r == 4 || r == 5 || r == 6);
            if (want != (rs == "ok") || (!want && rs != "throw std::invalid_argument")) out.fail("rule-dispatch", std::string("GenEigsSolver sorting rule ") + RN[r] + ": " + rs, "{\"op\":\"gen_sort\",\"rule\":" + str(r) + "}");
            out.corr("genrule_sort " + str(r), rs == "ok" ? "ok " + str(r) : rs); }
    }
}

int main(int argc, char** argv) {
    Args a(argc, argv); Out out(a.out);
    if (!a.replay.empty()) {
        std::ifstream f(a.replay); std::string t((std::istreambuf_iterator<char>(f)), {});
        auto pr = t.find("\"rule\":"); int rule = pr == std::string::npos ? 0 : std::atoi(t.c_str() + pr + 7);
        auto pv = t.find("\"values\":[");
        if (pv != std::string::npos) { std::vector<double> v; const char* c = t.c_str() + pv + 10; while (*c && *c != ']') { char* e; unsigned long long u = std::strtoull(c, &e, 10); v.push_back(bitsd(u)); c = e; if (*c == ',') c++; } oracle_real(rule, v, out); }
        else solver_rules(out);
        out.finish(); return out.nfail ? 1 : 0;
    }
    const std::vector<double> alpha = {-2, -1, 0, 1, 2};
    const std::vector<CD> calpha = {CD(0, 0), CD(1, 0), CD(-1, 0), CD(0, 1), CD(0, -1), CD(1, 1), CD(1, -1), CD(-1, 1), CD(-1, -1), CD(2, 0)};
    const int maxlen = a.thorough() ? 7 : 6, cmaxlen = a.thorough() ? 5 : 4;
    // exhaustive: all vectors over the alphabet, all nine rules
    for (int len = 0; len <= maxlen; len++) {
        long total = 1; for (int i = 0; i < len; i++) total *= (long) alpha.size();
        for (long code = 0; code < total; code++) {
            std::vector<double> v(len); long c = code; for (int i = 0; i < len; i++) { v[i] = alpha[c % alpha.size()]; c /= alpha.size(); }
            for (int r = 0; r < 9; r++) do_real(r, v, out, false);
            out.count("real_vectors");
        }
    }
    for (int len = 0; len <= cmaxlen; len++) {
        long total = 1; for (int i = 0; i < len; i++) total *= (long) calpha.size();
        for (long code = 0; code < total; code++) {
            std::vector<CD> v(len); long c = code; for (int i = 0; i < len; i++) { v[i] = calpha[c % calpha.size()]; c /= calpha.size(); }
            for (int r = 0; r < 9; r++) do_cplx(r, v, out);
            out.count("cplx_vectors");
        }
    }
    // random vectors: lengths up to 16 compared index-exactly (libstdc++ insertion sort is stable), longer by key sequence
    Rng rng(a.seed, 18);
    int nrand = a.thorough() ? 4000 : 600;
    for (int t = 0; t < nrand; t++) {
        int len = rng.coin(0.85) ? rng.range(7, 16) : rng.range(17, 120);
        std::vector<double> v(len);
        int mode = rng.range(0, 3);
        for (int i = 0; i < len; i++) v[i] = mode == 0 ? rng.sym() : mode == 1 ? (double) rng.range(-3, 3) : mode == 2 ? std::ldexp(rng.sym(), rng.range(-40, 40)) : (rng.coin(0.3) ? v[rng.below(i + 1 > 1 ? i : 1)] * (rng.coin() ? 1 : -1) : rng.sym());
        for (int r = 0; r < 9; r++) do_real(r, v, out, len > 16);
        if (len <= 16) { std::vector<CD> cv(len); for (int i = 0; i < len; i++) cv[i] = mode == 1 ? CD(rng.range(-2, 2), rng.range(-2, 2)) : CD(rng.sym(), rng.coin(0.3) ? 0.0 : rng.sym());
            for (int r = 0; r < 9; r++) do_cplx(r, cv, out); }
        out.count("random_vectors");
    }
    // extreme magnitudes (the whole finite range of double, incl. values whose squares under/overflow and subnormals): the order
    // must still be by |x| / Re / |Im| exactly; mixed with ordinary values, with ties and sign pairs
    {
        const std::vector<double> ext = {1e-320, 4.9e-324, 1e-300, 3e-200, 1e-180, 2e-170, 1e-162, 1.5e-154, 1e-100, 1e-20, 0.5, 1, 3, 1e20, 1e100, 1.2e154, 1.4e154, 1e160, 3e200, 1e300, 1.7e308};
        int next = a.thorough() ? 1500 : 250;
        for (int t = 0; t < next; t++) {
            int len = rng.range(2, 10);
            std::vector<double> v(len); for (int i = 0; i < len; i++) v[i] = ext[rng.below(ext.size())] * (rng.coin() ? 1 : -1);
            for (int r = 0; r < 9; r++) do_real(r, v, out, false);
            std::vector<CD> cv(len); for (int i = 0; i < len; i++) { double m = ext[rng.below(ext.size() - 1)]; int k = rng.range(0, 3); cv[i] = k == 0 ? CD(m, 0) : k == 1 ? CD(0, -m) : k == 2 ? CD(m, m * 0.5) : CD(-m * 0.5, m); }
            for (int r = 0; r < 9; r++) do_cplx(r, cv, out);
            out.count("extreme_vectors");
        }
    }
    // near-ties: keys that differ by 1..16 ulps (clusters, chains of neighbours, conjugate-like pairs whose moduli differ in the
    // last bits): the order is by the exact key comparison, a difference of one ulp is a difference
    {
        int nnear = a.thorough() ? 3000 : 400;
        for (int t = 0; t < nnear; t++) {
            int len = rng.range(2, 12);
            double base = rng.coin(0.2) ? 1.0 : std::ldexp(1.0 + rng.sym(), rng.range(-30, 30));
            std::vector<double> v(len);
            for (int i = 0; i < len; i++) { uint64_t u = dbits(base); int d = rng.coin(0.25) ? 0 : rng.range(1, 16); u = rng.coin() ? u + (uint64_t) d : u - (uint64_t) d; v[i] = bitsd(u) * (rng.coin(0.3) ? -1 : 1); }
            if (rng.coin(0.3)) for (int i = 1; i < len; i++) v[i] = std::nextafter(v[i - 1], rng.coin() ? 1e308 : -1e308);   // chain of neighbours
            for (int r = 0; r < 9; r++) do_real(r, v, out, false);
            std::vector<CD> cv(len);
            for (int i = 0; i < len; i++) { double re = v[i], im = rng.coin(0.4) ? 0.0 : bitsd(dbits(std::fabs(base)) + (uint64_t) rng.range(0, 8)) * (rng.coin() ? 1 : -1); cv[i] = CD(re, im); }
            for (int r = 0; r < 9; r++) do_cplx(r, cv, out);
            out.count("near_tie_vectors");
        }
    }
    solver_rules(out);
    out.finish();
    return 0;
}
