// C10 harness: the real Spectra::BKLDLT (and DenseSymShiftSolve / SymShiftInvert built on it)
//   (a) correspondence with the Lean models (Model/BKLDLT.lean real double/float, Model/BKLDLTC.lean complex<double>, + Gen.BK):
//       packed array after compute, m_perm, info, solve(b) -- bit exact, in one of Lower/Upper x ColMajor/RowMajor x (unused triangle NaN);
//       the translated kernels solve_inplace_2x2 / inverse_inplace_2x2 / compress_permutation / wrapper guards separately;
//   (b) the property's own predicates on the implementation (double, float, complex<double>), evaluated in long double:
//       residual  ||(A - sI)x - b||_2 <= C_RES n eps (||A - sI||_F ||x||_2 + ||b||_2)   for every run reported Successful,
//       Lower/Upper x ColMajor/RowMajor x (unused triangle = NaN garbage) give bitwise identical data, perm, info, solution,
//       NumericalIssue on matrices with an exactly singular pivot block (arithmetic exact by construction),
//       NumericalIssue only if the matrix is numerically singular (sigma_min <= C_SING n eps sigma_max),
//       a run reported Successful has no exactly singular D block, wrappers throw invalid_argument iff info != Successful.
//   (c) object REUSE (part "hist"): a request is a HISTORY on ONE BKLDLT object -- compute(A1,uplo1,s1); solve(b); compute(A2,uplo2,s2)
//       (same matrix other shift: far outside the spectrum / nearby; another matrix of the same size; another size); solve(b);
//       compute(A3,...) (back to the first arguments / far shift); solve(b) -- in double, float or complex<double>.  The model runs the
//       same history on one model state (`hist` lines, bit exact: info, m_perm, m_permc, packed data, solution after every step);
//       oracle: every compute on the used object gives bitwise what a FRESH object gives for the same arguments
//       (`reuse-differs-from-fresh`) and every solve satisfies the residual predicate.
//   (d) wrapper histories on ONE DenseSymShiftSolve object (part "whist"): set_shift(s); set_shift(s) again; [perform_op];
//       set_shift(s_ok) (A - s_ok I strictly diagonally dominant); perform_op; set_shift(s); SymEigsShiftSolver(op, 1, 2, s); [perform_op].
//       Graded: every set_shift / solver construction with a shift for which a fresh BKLDLT meets an exactly zero pivot throws
//       std::invalid_argument -- the 1st, 2nd, 3rd time alike --, never throws otherwise; after a set_shift that returned normally
//       perform_op equals the fresh solve bit for bit (hence finite whenever that is) and satisfies the residual predicate.
//       The model (`whist` lines: Model/BKLDLT.lean DenseShift + translated guard) answers the same history.
//   (e) STRUCTURED RIGHT-HAND SIDES (part "rhs"): one factorization (two objects: one triangle each), MANY solves.  The right-hand sides
//       have exact zeros placed relative to the pivot structure the real object reports (m_perm / m_permc through the guarded access):
//       every unit vector e_j, unit vectors in permuted coordinates at the first / second row of a 2x2 block, dense vectors that are
//       zero (+0 or -0) on the first / second / both rows of a 2x2 block or on a 1x1 pivot row, 1-3 nonzeros, the zero vector, all -0,
//       mixed signed zeros, leading / trailing zero runs (original and permuted coordinates), the dense vector as control.
//       Oracle: residual predicate for every solve, Lower- and Upper-triangle objects agree bitwise, DenseSymShiftSolve::perform_op
//       equals solve.  Correspondence: the whole list goes to the model as one `hist` line (C + many S, bit exact; double, float,
//       complex<double>) and, for double, as one `whist` line (T + many P).
//   (f) SPECIAL MATRICES (idx >= SPECIAL_BASE, kinds "pivot-pattern" and "tie", run through ALL parts above): prescribed pivot
//       patterns (2x2 block first / last / in the middle / everywhere / mixed 1x1-2x2, dense weak coupling so that L is full), exact
//       TIES in the three pivot comparisons (|a_kk| = alpha*lambda, sigma*|a_kk| = alpha*lambda^2, |a_rr| = alpha*sigma, each also one ulp
//       below / above, in the working precision of double AND float), equal magnitudes in the column-maximum searches (real +-v,
//       complex entries of equal modulus 1 / 5), sizes 1, 2, 3.
#include "common.h"
#include <Eigen/Core>
#include <Eigen/SVD>
#include <Spectra/LinAlg/BKLDLT.h>
#include <Spectra/MatOp/DenseSymShiftSolve.h>
#include <Spectra/MatOp/SymShiftInvert.h>
#include <Spectra/SymEigsShiftSolver.h>
using namespace vh;
typedef long double LD;
typedef std::complex<double> CD;
typedef std::complex<LD> CLD;

static const LD C_RES = 100.0L;    // residual constant (generous: observed maxima are recorded in stats.json)
static const LD C_SING = 1000.0L;  // "NumericalIssue only on numerically singular input"

struct SpectraVerifAccess {
    template <class S> static std::vector<S> data(const Spectra::BKLDLT<S>& f) { return std::vector<S>(f.m_data.data(), f.m_data.data() + f.m_data.size()); }
    template <class S> static std::vector<long> perm(const Spectra::BKLDLT<S>& f) { return std::vector<long>(f.m_perm.data(), f.m_perm.data() + f.m_perm.size()); }
    template <class S> static std::vector<std::pair<long, long>> permc(const Spectra::BKLDLT<S>& f) { std::vector<std::pair<long, long>> r; for (auto& p : f.m_permc) r.push_back({(long) p.first, (long) p.second}); return r; }
    template <class S> static void solve2(const S& e11, const S& e21, const S& e22, S& b1, S& b2) { Spectra::BKLDLT<S> f; f.solve_inplace_2x2(e11, e21, e22, b1, b2); }
    template <class S> static void inv2(S& e11, S& e21, S& e22) { Spectra::BKLDLT<S> f; f.inverse_inplace_2x2(e11, e21, e22); }
    static std::vector<std::pair<long, long>> permc_from(const std::vector<long>& p) {
        Spectra::BKLDLT<double> f; f.m_n = (Eigen::Index) p.size(); f.m_perm.resize(p.size()); for (size_t i = 0; i < p.size(); i++) f.m_perm[i] = p[i];
        f.m_permc.clear(); f.compress_permutation(); return permc(f);
    }
};

// ------------------------------------------------------------------ cases
static const char* KN[] = {"spd", "indefinite", "zerodiag", "blockdiag", "graded", "integer", "exact-singular", "shift-diag", "tridiag-2x2", "corpus", "pivot-pattern", "tie", "dominant-entry"};
static const long DOMINANT_BASE = 2000000;    // idx >= DOMINANT_BASE: gen_dominant (kind 12)
static const long SPECIAL_BASE = 1000000;     // idx >= SPECIAL_BASE: gen_special (kinds 10, 11)
struct Case {
    int kind = 0, n = 1; double shift = 0; long idx = 0;
    std::vector<double> re, im;      // logical full Hermitian matrix, (i,j) at i + j*n; im is skew (zero for real scalars)
    std::vector<double> b, bim;
    bool expect_singular = false, expect_nonsingular = false;
    std::vector<int> want_bs; int variant = -1, tie_w = -1; bool permuted = false;   // special matrices: intended block sizes, tie sub-variant (0 exact, 1 one ulp below, 2 above)
    double& A(int i, int j) { return re[i + (size_t) j * n]; }
    double a(int i, int j) const { return re[i + (size_t) j * n]; }
    double ai(int i, int j) const { return i > j ? im[i + (size_t) j * n] : i < j ? -im[j + (size_t) i * n] : 0.0; }   // exactly skew, signed zeros included
    void sym(int i, int j, double v, double w = 0) { re[i + (size_t) j * n] = v; re[j + (size_t) i * n] = v; if (i != j) { im[i + (size_t) j * n] = w; im[j + (size_t) i * n] = -w; } }
};

static void permute_sym(Case& c, Rng& r) {
    int n = c.n; std::vector<int> p(n); for (int i = 0; i < n; i++) p[i] = i;
    for (int i = n - 1; i > 0; i--) std::swap(p[i], p[r.below(i + 1)]);
    std::vector<double> re(c.re), im(c.im);
    for (int i = 0; i < n; i++) for (int j = 0; j < n; j++) { c.re[i + (size_t) j * n] = re[p[i] + (size_t) p[j] * n]; c.im[i + (size_t) j * n] = im[p[i] + (size_t) p[j] * n]; }
}

// ------------------------------------------------------------------ special matrices: prescribed pivot patterns, ties (idx >= SPECIAL_BASE)
// variant = j mod 8:  0 2x2 block first | 1 2x2 block last | 2 one 2x2 block in the middle | 3 2x2 blocks only | 4 random mix of 1x1 and 2x2
//                     5 tie |a_kk| = alpha*lambda | 6 ties sigma*|a_kk| = alpha*lambda^2 and |a_rr| = alpha*sigma | 7 equal magnitudes / sizes 1..3
// Ties are exact in the working precision selected by (j / 8) mod 2: 0 = double, 1 = float (all entries float-representable, alpha = (float) alpha).
static Case gen_special(uint64_t seed, long j, bool thorough) {
    Rng r(seed, 14, (uint64_t) j); Case c; c.idx = SPECIAL_BASE + j;
    const int variant = (int) (j % 8); const bool fprec = ((j / 8) % 2) == 1; c.variant = variant;
    const double alpha_d = (1.0 + std::sqrt(17.0)) / 8.0; const double alpha = fprec ? (double) (float) alpha_d : alpha_d;
    auto rnd = [&](double x) { return fprec ? (double) (float) x : x; };                       // representable in the tie precision
    auto mul = [&](double a, double b) { return fprec ? (double) ((float) a * (float) b) : a * b; };   // product as the code forms it
    auto nudge = [&](double v, int w) {                                                        // w = 0 exact, 1 one ulp towards 0, 2 one ulp away
        if (w == 0) return v;
        if (fprec) { float f = (float) v; return (double) std::nextafterf(f, w == 1 ? 0.0f : (f > 0 ? 1e30f : -1e30f)); }
        return std::nextafter(v, w == 1 ? 0.0 : (v > 0 ? 1e300 : -1e300)); };
    auto sgn = [&]() { return r.coin() ? 1.0 : -1.0; };
    if (variant <= 4) {
        c.kind = 10;
        int n = thorough ? (r.coin(0.7) ? r.range(2, 14) : r.range(15, 40)) : (r.coin(0.6) ? r.range(2, 8) : r.range(9, 18));
        std::vector<int> bs;                                       // block sizes
        if (variant == 0) { if (n < 3) n = 3; bs.push_back(2); for (int i = 2; i < n; i++) bs.push_back(1); }
        else if (variant == 1) { if (n < 3) n = 3; for (int i = 0; i < n - 2; i++) bs.push_back(1); bs.push_back(2); }
        else if (variant == 2) { if (n < 4) n = 4; int at = r.range(1, n - 3); for (int i = 0; i < at; i++) bs.push_back(1); bs.push_back(2); for (int i = at + 2; i < n; i++) bs.push_back(1); }
        else if (variant == 3) { if (n % 2) n++; for (int i = 0; i < n; i += 2) bs.push_back(2); }
        else { int i = 0; while (i < n) { int b = (n - i >= 2 && r.coin(0.5)) ? 2 : 1; bs.push_back(b); i += b; } }
        c.n = n; c.re.assign((size_t) n * n, 0.0); c.im.assign((size_t) n * n, 0.0);
        const double cpl = std::min(0.15, 1.0 / n); const bool zd = r.coin(0.4);
        for (int i = 0; i < n; i++) for (int q = 0; q < i; q++) c.sym(i, q, cpl * r.sym(), cpl * r.sym());     // dense weak coupling: L has no zero entries
        int i = 0; for (int b : bs) {
            if (b == 1) c.sym(i, i, sgn() * (2.0 + r.unit()), 0);
            else { c.sym(i, i, zd ? 0.0 : 0.05 * r.sym(), 0); c.sym(i + 1, i + 1, (zd || r.coin(0.3)) ? 0.0 : 0.05 * r.sym(), 0); c.sym(i + 1, i, sgn() * (1.0 + r.unit()), 0.3 * r.sym()); }
            i += b; }
        c.want_bs = bs; if (r.coin(0.3)) { permute_sym(c, r); c.permuted = true; }
        c.shift = r.coin(0.7) ? 0.0 : 0.01 * r.sym();
    } else {
        c.kind = 11;
        int n = variant == 7 ? r.range(1, 5) : variant == 5 ? r.range(2, 6) : r.range(3, 6);
        c.n = n; c.re.assign((size_t) n * n, 0.0); c.im.assign((size_t) n * n, 0.0); c.shift = 0;
        if (variant == 5) {          // |a_00| vs alpha*lambda, lambda = |a_r0| (largest of column 0, real entry)
            const double L = r.coin(0.5) ? std::ldexp(1.0, r.range(-2, 2)) : rnd(1.0 + r.unit()); const int rr = r.range(1, n - 1);
            for (int i = 0; i < n; i++) for (int q = 0; q <= i; q++) c.sym(i, q, rnd(0.9 * L * r.sym()), i == q ? 0 : rnd(0.3 * L * r.sym()));
            for (int i = 1; i < n; i++) c.sym(i, 0, rnd(0.6 * L * r.sym()), rnd(0.3 * L * r.sym()));
            c.sym(rr, 0, sgn() * L, 0);
            c.tie_w = r.range(0, 2); c.sym(0, 0, sgn() * nudge(mul(alpha, L), c.tie_w), 0);
        } else if (variant == 6) {   // lambda = 1 at (rr,0); sigma = 2 at (p,rr); a_00 = alpha/2 (tie of the 2nd test) or one ulp below, then a_rr = 2 alpha (tie of the 3rd test) -/+ one ulp
            const int rr = r.range(1, n - 1); int p = r.range(1, n - 1); if (p == rr) p = (rr == n - 1) ? 1 : rr + 1; if (p == rr) p = 1;
            for (int i = 0; i < n; i++) for (int q = 0; q <= i; q++) c.sym(i, q, rnd(0.8 * r.sym()), i == q ? 0 : rnd(0.3 * r.sym()));
            c.sym(rr, 0, sgn(), 0);
            if (p != rr && p != 0) c.sym(std::max(p, rr), std::min(p, rr), 2.0 * sgn(), 0);
            const int w1 = r.range(0, 2) == 0 ? 0 : 1; c.tie_w = w1;     // exact tie -> 1x1 without interchange; one ulp below -> third test decides
            c.sym(0, 0, sgn() * nudge(mul(alpha, 0.5), w1), 0);
            c.sym(rr, rr, sgn() * nudge(mul(alpha, 2.0), r.range(0, 2)), 0);
        } else {                     // equal magnitudes everywhere: +-v (real) resp. modulus 1 / 5 (complex), zero or tiny diagonal; sizes 1..5
            const int fam = r.range(0, 2);
            static const double U[8][2] = {{1, 0}, {-1, 0}, {0, 1}, {0, -1}, {5, 0}, {3, 4}, {-4, 3}, {0, -5}};
            for (int i = 0; i < n; i++) for (int q = 0; q < i; q++) {
                if (fam == 0) c.sym(i, q, sgn(), 0);
                else if (fam == 1) { const double* u = U[r.range(0, 3)]; c.sym(i, q, u[0], u[1]); }
                else { const double* u = U[r.range(4, 7)]; c.sym(i, q, u[0], u[1]); } }
            for (int i = 0; i < n; i++) c.sym(i, i, r.coin(0.5) ? 0.0 : (double) r.range(-2, 2), 0);
            if (n == 1 && c.a(0, 0) == 0) c.A(0, 0) = 3.0;
        }
    }
    c.b.resize(c.n); c.bim.resize(c.n); for (auto& x : c.b) x = r.sym(); for (auto& x : c.bim) x = r.sym();
    return c;
}

// kind 12 "dominant-entry": the pivot tests compare |a_kk|, lambda = max|column k|, sigma = max|column r| (r = row of lambda).  Here the candidate
// column r holds ONE entry that dominates everything else by 10^3..10^10, at a prescribed row p (the last row in half of the cases, else
// the first eligible or a random one), the diagonal entry a_kk is zero or tiny, and a_rr is O(1): the correct choice is the 2x2 pivot
// {k, r}; a scan of column r that misses row p takes a_rr as a 1x1 pivot and the multipliers are of the size of the dominant entry.
static Case gen_dominant(uint64_t seed, long j, bool thorough) {
    Rng r(seed, 17, (uint64_t) j); Case c; c.idx = DOMINANT_BASE + j; c.kind = 12;
    int n = thorough ? (r.coin(0.6) ? r.range(3, 12) : r.range(13, 60)) : (r.coin(0.6) ? r.range(3, 8) : r.range(9, 20));
    c.n = n; c.re.assign((size_t) n * n, 0.0); c.im.assign((size_t) n * n, 0.0);
    auto sgn = [&]() { return r.coin() ? 1.0 : -1.0; };
    const double cpl = r.coin(0.5) ? 0.3 : 0.05;
    for (int i = 0; i < n; i++) for (int q = 0; q <= i; q++) c.sym(i, q, cpl * r.sym() + (i == q ? sgn() * (0.5 + r.unit()) : 0.0), i == q ? 0.0 : cpl * r.sym());
    const int k = 0; const int rr = r.range(1, n - 1);
    c.sym(k, k, r.coin(0.5) ? 0.0 : 1e-3 * r.sym(), 0);
    c.sym(rr, k, sgn() * (1.0 + r.unit()), 0.3 * r.sym());                       // lambda, at row rr of column k
    int p; const int w = r.range(0, 3);
    if (w <= 1) p = n - 1; else if (w == 2) p = 1; else p = r.range(1, n - 1);
    if (p == rr) p = (rr == n - 1) ? (n >= 3 ? n - 2 : rr) : (w == 2 && rr == 1 ? 2 : (p == rr ? rr + 1 : p));
    if (p == rr || p == k || p >= n) p = (rr == 1) ? 2 : 1;
    const double H = std::pow(10.0, (double) r.range(3, 10)) * (1.0 + r.unit());
    if (p != rr && p != k && p < n) c.sym(std::max(p, rr), std::min(p, rr), sgn() * H, r.coin(0.5) ? 0.0 : 0.3 * H * r.sym());   // sigma, at row p of column rr
    c.shift = r.coin(0.7) ? 0.0 : 0.125;
    c.b.resize(c.n); c.bim.resize(c.n); for (auto& x : c.b) x = r.sym(); for (auto& x : c.bim) x = r.sym();
    return c;
}

static Case gen_case(uint64_t seed, long idx, bool thorough, int force_n = -1) {
    if (idx >= DOMINANT_BASE) return gen_dominant(seed, idx - DOMINANT_BASE, thorough);
    if (idx >= SPECIAL_BASE) return gen_special(seed, idx - SPECIAL_BASE, thorough);
    Rng r(seed, 10, (uint64_t) idx); Case c; c.idx = idx;
    c.kind = (int) (idx % 10);
    int n;
    if (!thorough) n = r.coin(0.5) ? r.range(1, 6) : r.range(1, 20);
    else { double u = r.unit(); n = u < 0.35 ? r.range(1, 6) : u < 0.8 ? r.range(1, 20) : r.range(21, 80); }
    if (force_n >= 1) n = force_n;
    if (c.kind == 9) n = 0;
    c.n = n; c.re.assign((size_t) n * n, 0.0); c.im.assign((size_t) n * n, 0.0);
    switch (c.kind) {
    case 0: {  // SPD: G G^T + n I, shift below the spectrum
        std::vector<double> G((size_t) n * n), H((size_t) n * n); for (auto& x : G) x = r.sym(); for (auto& x : H) x = r.sym();
        for (int i = 0; i < n; i++) for (int j = 0; j <= i; j++) { double s = 0, t = 0; for (int k = 0; k < n; k++) { s += G[i + (size_t) k * n] * G[j + (size_t) k * n] + H[i + (size_t) k * n] * H[j + (size_t) k * n]; t += H[i + (size_t) k * n] * G[j + (size_t) k * n] - G[i + (size_t) k * n] * H[j + (size_t) k * n]; } c.sym(i, j, s + (i == j ? n : 0), i == j ? 0 : t); }
        c.shift = r.coin(0.5) ? 0.0 : -r.unit(); c.expect_nonsingular = true; break; }
    case 1: for (int i = 0; i < n; i++) for (int j = 0; j <= i; j++) c.sym(i, j, r.sym(), r.sym()); c.shift = r.coin(0.3) ? 0.0 : r.sym(); break;
    case 2: { bool pm1 = r.coin(0.4); for (int i = 0; i < n; i++) for (int j = 0; j < i; j++) c.sym(i, j, pm1 ? (r.coin() ? 1.0 : (r.coin(0.3) ? 0.0 : -1.0)) : r.sym(), pm1 ? 0.0 : r.sym()); c.shift = 0; break; }
    case 3: {  // block diagonal: 1x1, [0 a; a 0]-like and dense 2x2 / 3x3 blocks, then a symmetric permutation
        int i = 0; while (i < n) { int bs = std::min(n - i, r.range(1, 3));
            if (bs == 2 && r.coin(0.5)) { c.sym(i + 1, i, r.coin() ? 1.0 : 1.0 + r.unit(), 0); }
            else for (int p = 0; p < bs; p++) for (int q = 0; q <= p; q++) c.sym(i + p, i + q, r.sym() + (p == q ? 0.5 : 0), r.sym());
            i += bs; }
        if (r.coin(0.6)) permute_sym(c, r); c.shift = 0; break; }
    case 4: { std::vector<double> s(n); for (int i = 0; i < n; i++) s[i] = std::pow(10.0, -8.0 * (n > 1 ? (double) i / (n - 1) : 0)); if (r.coin()) std::reverse(s.begin(), s.end());
        for (int i = 0; i < n; i++) for (int j = 0; j <= i; j++) c.sym(i, j, s[i] * s[j] * (r.sym() + (i == j ? 2.0 : 0)), s[i] * s[j] * r.sym()); c.shift = 0; break; }
    case 5: { int m = r.range(1, 3); double pz = r.unit() * 0.6; for (int i = 0; i < n; i++) for (int j = 0; j <= i; j++) c.sym(i, j, r.coin(pz) ? 0.0 : (double) r.range(-m, m), (double) (r.coin(0.5) ? 0 : r.range(-m, m))); c.shift = (double) r.range(-2, 2); break; }
    case 6: {  // exactly singular pivot block, arithmetic exact by construction: block diagonal of small exact blocks, >= 1 singular
        double sh = r.coin(0.5) ? 0.0 : (double) r.range(-2, 2); c.shift = sh;
        int i = 0; bool have = false; int guard = 0;
        while (i < n) { int rem = n - i; int t = r.range(0, 6); double sc = std::ldexp(1.0, r.range(-3, 3)); guard++;
            if (!have) t = rem >= 2 ? r.range(0, 3) : 0;          // the first block is a singular one (position is randomised by the permutation)
            if (t == 0) { c.sym(i, i, 0, 0); have = true; i += 1; }                                                         // [0]
            else if (t == 1 && rem >= 2) { c.sym(i, i, sc, 0); c.sym(i + 1, i, sc, 0); c.sym(i + 1, i + 1, sc, 0); have = true; i += 2; }                    // s[1 1;1 1]
            else if (t == 2 && rem >= 2) { c.sym(i, i, sc, 0); c.sym(i + 1, i, 2 * sc, 0); c.sym(i + 1, i + 1, 4 * sc, 0); have = true; i += 2; }            // s[1 2;2 4]
            else if (t == 3 && rem >= 2) { c.sym(i, i, 0, 0); c.sym(i + 1, i, 0, 0); c.sym(i + 1, i + 1, 0, 0); have = true; i += 2; }                       // 2x2 zero
            else if (t == 4 && rem >= 2) { c.sym(i + 1, i, sc, 0); i += 2; }                                               // [0 s;s 0] nonsingular
            else if (t == 5) { c.sym(i, i, sc * (r.coin() ? 1 : -1), 0); i += 1; }                                         // nonsingular 1x1
            else if (t == 6 && rem >= 2) { c.sym(i, i, 2 * sc, 0); c.sym(i + 1, i, sc, 0); c.sym(i + 1, i + 1, -sc, 0); i += 2; }  // nonsingular, exact: pivot 2s, l = 1/2, schur = -s - s/2
            else if (guard > 10000) break; }
        for (int d = 0; d < n; d++) c.A(d, d) += sh;   // small integers / powers of two: exact, and exactly undone by the shift
        if (r.coin(0.7)) permute_sym(c, r);
        c.expect_singular = true; break; }
    case 7: { bool dd = r.coin(0.4); for (int i = 0; i < n; i++) for (int j = 0; j <= i; j++) c.sym(i, j, (i == j ? 1.0 + 3 * r.unit() : (dd ? 0.01 : 1.0) * r.sym()), r.sym() * (dd ? 0.01 : 1.0));
        int d = r.range(0, n - 1); double v = c.a(d, d); int w = r.range(0, 4);
        c.shift = w == 0 ? v : w == 1 ? std::nextafter(v, 10.0) : w == 2 ? std::nextafter(v, -10.0) : w == 3 ? v * (1 + 1e-12) : v - 1e-9; break; }
    case 8: { double dg = std::pow(10.0, -r.range(0, 6)); for (int i = 0; i < n; i++) { c.sym(i, i, dg * r.sym(), 0); if (i + 1 < n) c.sym(i + 1, i, 1.0 + r.unit(), r.sym()); }
        int extra = r.range(0, n); for (int e = 0; e < extra && n > 2; e++) { int i = r.range(2, n - 1), j = r.range(0, i - 2); c.sym(i, j, 2 * r.sym(), r.sym()); }
        c.shift = r.coin(0.7) ? 0.0 : r.sym() * dg; break; }
    default: {
        static const std::vector<std::vector<double>> M = {
            {1, 2, 0, 2, 4, 1, 0, 1, 0},      // c6a8b72: nonsingular, needs the |A[r,r]| >= alpha*sigma interchange
            {5}, {0}, {0, 1, 1, 0}, {0, 0, 0, 0}, {1, 1, 1, 1}, {1, 2, 2, 4}, {-3}, {0, 2, 0, 2, 0, 3, 0, 3, 0},
            {1e-3, 1, 0, 0, 1, 1e-3, 5, 0, 0, 5, 1, 2, 0, 0, 2, 1}, {4, 1, 2, 1, 0.5, 3, 2, 3, 0.25} };
        static const bool sing[] = {false, false, true, false, true, true, true, false, true, false, false};
        size_t w = (size_t) ((idx / 10) % M.size()); const auto& m = M[w]; n = (int) std::lround(std::sqrt((double) m.size()));
        c.n = n; c.re = m; c.im.assign(m.size(), 0.0); c.shift = 0; c.expect_singular = sing[w]; c.expect_nonsingular = !sing[w]; break; }
    }
    c.b.resize(c.n); c.bim.resize(c.n); for (auto& x : c.b) x = r.sym(); for (auto& x : c.bim) x = r.sym();
    return c;
}

// ------------------------------------------------------------------ running the real class
template <class S> struct Tr;
template <> struct Tr<double> { typedef double R; typedef LD W; static double mk(double re, double) { return re; } static const char* name() { return "double"; } static const bool cplx = false; };
template <> struct Tr<float> { typedef float R; typedef LD W; static float mk(double re, double) { return (float) re; } static const char* name() { return "float"; } static const bool cplx = false; };
template <> struct Tr<CD> { typedef double R; typedef CLD W; static CD mk(double re, double im) { return CD(re, im); } static const char* name() { return "complex<double>"; } static const bool cplx = true; };

template <class S> struct Result { int info = -1; std::vector<long> perm; std::vector<S> data, x; std::vector<S> mem; bool threw = false; };

template <class S> static bool same_bits(const std::vector<S>& a, const std::vector<S>& b) { return a.size() == b.size() && (a.empty() || std::memcmp(a.data(), b.data(), a.size() * sizeof(S)) == 0); }

template <class S, int Order> static Result<S> run_bk(const Case& c, int uplo, bool garbage) {
    typedef Eigen::Matrix<S, Eigen::Dynamic, Eigen::Dynamic, Order> Mat; typedef Eigen::Matrix<S, Eigen::Dynamic, 1> Vec;
    const int n = c.n; Mat M(n, n); const typename Tr<S>::R nan = std::numeric_limits<typename Tr<S>::R>::quiet_NaN();
    for (int i = 0; i < n; i++) for (int j = 0; j < n; j++) {
        bool used = (uplo == Eigen::Lower) ? (i >= j) : (i <= j);
        M(i, j) = (used || !garbage) ? Tr<S>::mk(c.a(i, j), c.ai(i, j)) : Tr<S>::mk(nan, nan);
    }
    Result<S> r; r.mem.assign(M.data(), M.data() + (size_t) n * n);
    Spectra::BKLDLT<S> f; f.compute(M, uplo, (typename Tr<S>::R) c.shift);
    r.info = (int) f.info(); r.perm = SpectraVerifAccess::perm(f); r.data = SpectraVerifAccess::data(f);
    Vec b(n); for (int i = 0; i < n; i++) b[i] = Tr<S>::mk(c.b[i], c.bim[i]);
    if (r.info == 0) { Vec x = f.solve(b); r.x.assign(x.data(), x.data() + n); }
    return r;
}
// the same matrix handed over as a VIEW whose outer stride differs from n (BKLDLT::compute takes an Eigen::Ref): a block of a larger matrix
// (kind 0) or a Map with an explicit outer stride (kind 1); everything outside the view is NaN, so a read through the wrong stride shows
template <class S, int Order> static Result<S> run_bk_view(const Case& c, int uplo, int vkind) {
    typedef Eigen::Matrix<S, Eigen::Dynamic, Eigen::Dynamic, Order> Mat; typedef Eigen::Matrix<S, Eigen::Dynamic, 1> Vec;
    const int n = c.n; const typename Tr<S>::R nan = std::numeric_limits<typename Tr<S>::R>::quiet_NaN();
    Result<S> r; Spectra::BKLDLT<S> f;
    if (vkind == 0) {
        Mat Big = Mat::Constant(n + 3, n + 2, Tr<S>::mk(nan, nan));
        for (int i = 0; i < n; i++) for (int j = 0; j < n; j++) Big(i + 1, j + 1) = Tr<S>::mk(c.a(i, j), c.ai(i, j));
        f.compute(Big.block(1, 1, n, n), uplo, (typename Tr<S>::R) c.shift);
    } else {
        const int os = n + 5; std::vector<S> buf((size_t) os * (n + 1) + 7, Tr<S>::mk(nan, nan));
        Eigen::Map<Mat, 0, Eigen::OuterStride<>> V(buf.data() + 3, n, n, Eigen::OuterStride<>(os));
        for (int i = 0; i < n; i++) for (int j = 0; j < n; j++) V(i, j) = Tr<S>::mk(c.a(i, j), c.ai(i, j));
        f.compute(V, uplo, (typename Tr<S>::R) c.shift);
    }
    r.info = (int) f.info(); r.perm = SpectraVerifAccess::perm(f); r.data = SpectraVerifAccess::data(f);
    Vec b(n); for (int i = 0; i < n; i++) b[i] = Tr<S>::mk(c.b[i], c.bim[i]);
    if (r.info == 0) { Vec x = f.solve(b); r.x.assign(x.data(), x.data() + n); }
    return r;
}
template <class S> static Result<S> run_cfg(const Case& c, int cfg, bool garbage) {   // cfg: bit0 = Upper, bit1 = RowMajor
    int uplo = (cfg & 1) ? Eigen::Upper : Eigen::Lower;
    return (cfg & 2) ? run_bk<S, Eigen::RowMajor>(c, uplo, garbage) : run_bk<S, Eigen::ColMajor>(c, uplo, garbage);
}

static std::string replay_json(const Case& c, uint64_t seed, const std::string& tier, const char* scalar, int cfg) {
    return "{\"harness\":\"c10\",\"seed\":" + str(seed) + ",\"idx\":" + str(c.idx) + ",\"tier\":\"" + tier + "\",\"kind\":\"" + KN[c.kind] + "\",\"n\":" + str(c.n) + ",\"scalar\":\"" + scalar + "\",\"cfg\":" + str(cfg) + "}";
}

static std::map<std::string, LD> g_max;
static std::string fb(double x) { return std::isnan(x) ? std::string("nan") : str(dbits(x)); }

template <class S> static void oracle(const Case& c, uint64_t seed, const std::string& tier, Out& out, Result<S>* keep = nullptr, int keepcfg = 0, bool keepgarb = false) {
    typedef typename Tr<S>::W W; typedef typename Tr<S>::R R;
    const int n = c.n; const std::string sc = Tr<S>::name();
    Result<S> ref = run_cfg<S>(c, 0, false);
    const LD eps = (LD) std::numeric_limits<R>::epsilon();
    std::string rj = replay_json(c, seed, tier, Tr<S>::name(), 0);
    // --- Lower/Upper x ColMajor/RowMajor x garbage in the unused triangle: bitwise identical
    for (int cfg = 0; cfg < 4; cfg++) for (int g = 0; g < 2; g++) {
        if (cfg == 0 && g == 0) continue;
        Result<S> o = run_cfg<S>(c, cfg, g == 1);
        if (keep && cfg == keepcfg && (g == 1) == keepgarb) *keep = o;
        out.count("oracle_uplo_" + sc);
        // complex + failed factorization: diagonal entries not yet used as pivots keep the sign of their (zero) imaginary part,
        // which is -0 when read through conj() from the upper triangle; there is no result to compare in that case
        const bool cmpdata = !(Tr<S>::cplx && ref.info != 0);
        if (o.info != ref.info || o.perm != ref.perm || (cmpdata && !same_bits(o.data, ref.data)) || !same_bits(o.x, ref.x))
            out.fail("uplo-order-disagree", sc + ": result from " + ((cfg & 1) ? "Upper" : "Lower") + "/" + ((cfg & 2) ? "RowMajor" : "ColMajor") + (g ? " (unused triangle = NaN)" : "") + " differs from Lower/ColMajor; kind " + KN[c.kind] + " n=" + str(n), replay_json(c, seed, tier, Tr<S>::name(), cfg));
    }
    if (keep && keepcfg == 0 && !keepgarb) *keep = ref;
    // --- the matrix handed over as a view with outer stride != n (block of a larger matrix, strided Map): bitwise the same factorization
    if (n >= 1) for (int cfg = 0; cfg < 4; cfg++) {
        const int vkind = (int) ((c.idx + cfg) % 2); const int uplo = (cfg & 1) ? Eigen::Upper : Eigen::Lower;
        Result<S> o = (cfg & 2) ? run_bk_view<S, Eigen::RowMajor>(c, uplo, vkind) : run_bk_view<S, Eigen::ColMajor>(c, uplo, vkind);
        out.count("oracle_view_" + sc);
        const bool cmpdata = !(Tr<S>::cplx && ref.info != 0);
        if (o.info != ref.info || o.perm != ref.perm || (cmpdata && !same_bits(o.data, ref.data)) || !same_bits(o.x, ref.x))
            out.fail("view-disagree", sc + ": compute() on a " + (vkind == 0 ? "block of a larger matrix" : "Map with an outer stride") + " (" + ((cfg & 1) ? "Upper" : "Lower") + "/" + ((cfg & 2) ? "RowMajor" : "ColMajor") + ") differs from the same matrix passed as a plain object (info " + str(o.info) + " vs " + str(ref.info) + "); kind " + KN[c.kind] + " n=" + str(n),
                     replay_json(c, seed, tier, Tr<S>::name(), cfg));
    }
    out.count(std::string("info_") + sc + "_" + str(ref.info));
    // --- status
    if (ref.info != 0 && ref.info != 3) out.fail("status-other", sc + ": info() = " + str(ref.info) + " after compute (neither Successful nor NumericalIssue), kind " + KN[c.kind] + " n=" + str(n), rj);
    if (c.expect_singular) { out.count("oracle_expect_singular_" + sc); if (ref.info != 3) out.fail("singular-not-reported", sc + ": exactly singular pivot block but info() = " + str(ref.info) + ", kind " + KN[c.kind] + " n=" + str(n), rj); }
    if (c.expect_nonsingular) { out.count("oracle_expect_nonsingular_" + sc); if (ref.info != 0) out.fail("nonsingular-rejected", sc + ": nonsingular matrix but info() = " + str(ref.info) + ", kind " + KN[c.kind] + " n=" + str(n), rj); }
    // working-precision copy of what the code saw
    Eigen::Matrix<W, Eigen::Dynamic, Eigen::Dynamic> A(n, n);
    for (int i = 0; i < n; i++) for (int j = 0; j < n; j++) { S v = Tr<S>::mk(c.a(i, j), c.ai(i, j)); A(i, j) = W(v); if (i == j) A(i, j) -= W((LD) (R) c.shift); }
    if (ref.info == 0) {
        // no exactly singular D block
        auto at = [&](long i, long j) { return ref.data[(size_t) (j * n - j * (j - 1) / 2 + (i - j))]; };
        for (long i = 0; i < n;) {
            if (ref.perm[i] >= 0) { if (at(i, i) == S(0)) out.fail("singular-D-successful", sc + ": Successful but D has a zero 1x1 block at " + str(i), rj); i++; }
            else { S e11 = at(i, i), e21 = at(i + 1, i), e22 = at(i + 1, i + 1); S e12 = Spectra::ScalarOp<S>::conj(e21);
                if (e11 * e22 - e12 * e21 == S(0)) out.fail("singular-D-successful", sc + ": Successful but D has a singular 2x2 block at " + str(i), rj); i += 2; }
        }
        // residual
        Eigen::Matrix<W, Eigen::Dynamic, 1> x(n), b(n);
        bool finite = true;
        for (int i = 0; i < n; i++) { x[i] = W(ref.x[i]); b[i] = W(Tr<S>::mk(c.b[i], c.bim[i])); if (!(std::abs(x[i]) <= std::numeric_limits<LD>::max())) finite = false; }
        out.count("oracle_residual_" + sc);
        if (!finite) {
            // Successful with a non-finite solution: only acceptable when the matrix is numerically singular (tiny pivot -> overflow)
            Eigen::JacobiSVD<Eigen::Matrix<W, Eigen::Dynamic, Eigen::Dynamic>> svd(A); LD smax = svd.singularValues()[0], smin = svd.singularValues()[n - 1];
            out.count("nonfinite_solution_" + sc);
            if (smin > C_SING * n * eps * smax) out.fail("nonfinite-solution", sc + ": Successful but solve(b) is not finite on a well-conditioned matrix, kind " + KN[c.kind] + " n=" + str(n), rj);
        } else {
            LD res = (A * x - b).norm(), bound = n * eps * (A.norm() * x.norm() + b.norm());
            LD ratio = bound > 0 ? res / bound : (res == 0 ? 0 : 1e30L);
            g_max["resid_ratio_" + sc] = std::max(g_max["resid_ratio_" + sc], ratio);
            if (!(ratio <= C_RES)) out.fail("residual", sc + ": residual " + str((double) res) + " > " + str((double) C_RES) + "*n*eps*(|A-sI||x|+|b|) = " + str((double) (C_RES * bound)) + ", kind " + KN[c.kind] + " n=" + str(n), rj);
        }
    } else if (ref.info == 3 && !c.expect_singular && n > 0) {
        Eigen::JacobiSVD<Eigen::Matrix<W, Eigen::Dynamic, Eigen::Dynamic>> svd(A); LD smax = svd.singularValues()[0], smin = svd.singularValues()[n - 1];
        out.count("oracle_issue_implies_singular_" + sc);
        if (smin > C_SING * n * eps * smax) out.fail("nonsingular-rejected", sc + ": NumericalIssue on a matrix with sigma_min/sigma_max = " + str((double) (smin / smax)) + ", kind " + KN[c.kind] + " n=" + str(n), rj);
    }
}

// ------------------------------------------------------------------ histories on ONE BKLDLT object (part "hist")
template <class S> struct Enc;
template <> struct Enc<double> { static const char* tag() { return "d"; } static std::string in(double x) { return str(dbits(x)); } static std::string out(double x) { return fb(x); }
    static std::string real(double x) { return str(dbits(x)); } };
template <> struct Enc<float> { static const char* tag() { return "f"; } static std::string in(float x) { return str(fbits(x)); } static std::string out(float x) { return std::isnan(x) ? std::string("nan") : str(fbits(x)); }
    static std::string real(double x) { return str(fbits((float) x)); } };
template <> struct Enc<CD> { static const char* tag() { return "c"; } static std::string in(CD z) { return str(dbits(z.real())) + " " + str(dbits(z.imag())); } static std::string out(CD z) { return fb(z.real()) + " " + fb(z.imag()); }
    static std::string real(double x) { return str(dbits(x)); } };

// one compute() call on the given object: the matrix of case c in configuration cfg (bit0 Upper, bit1 RowMajor), unused triangle NaN if garbage
template <class S, int Order> static void compute_on_o(Spectra::BKLDLT<S>& f, const Case& c, int uplo, bool garbage, double shift, std::vector<S>& mem) {
    typedef Eigen::Matrix<S, Eigen::Dynamic, Eigen::Dynamic, Order> Mat;
    const int n = c.n; Mat M(n, n); const typename Tr<S>::R nan = std::numeric_limits<typename Tr<S>::R>::quiet_NaN();
    for (int i = 0; i < n; i++) for (int j = 0; j < n; j++) {
        bool used = (uplo == Eigen::Lower) ? (i >= j) : (i <= j);
        M(i, j) = (used || !garbage) ? Tr<S>::mk(c.a(i, j), c.ai(i, j)) : Tr<S>::mk(nan, nan);
    }
    mem.assign(M.data(), M.data() + (size_t) n * n);
    f.compute(M, uplo, (typename Tr<S>::R) shift);
}
template <class S> static void compute_on(Spectra::BKLDLT<S>& f, const Case& c, int cfg, bool garbage, double shift, std::vector<S>& mem) {
    int uplo = (cfg & 1) ? Eigen::Upper : Eigen::Lower;
    if (cfg & 2) compute_on_o<S, Eigen::RowMajor>(f, c, uplo, garbage, shift, mem); else compute_on_o<S, Eigen::ColMajor>(f, c, uplo, garbage, shift, mem);
}
template <class S> struct Snap { int info = -1; std::vector<long> perm; std::vector<std::pair<long, long>> permc; std::vector<S> data;
    bool same(const Snap& o) const { return info == o.info && perm == o.perm && permc == o.permc && same_bits(data, o.data); } };
template <class S> static Snap<S> snap(const Spectra::BKLDLT<S>& f) { Snap<S> s; s.info = (int) f.info(); s.perm = SpectraVerifAccess::perm(f); s.permc = SpectraVerifAccess::permc(f); s.data = SpectraVerifAccess::data(f); return s; }
template <class S> static std::vector<S> solve_with(const Spectra::BKLDLT<S>& f, const Case& c) {
    typedef Eigen::Matrix<S, Eigen::Dynamic, 1> Vec; Vec b(c.n); for (int i = 0; i < c.n; i++) b[i] = Tr<S>::mk(c.b[i], c.bim[i]);
    Vec x = f.solve(b); return std::vector<S>(x.data(), x.data() + c.n);
}
static double max_row_sum(const Case& c) { double R = 0; for (int i = 0; i < c.n; i++) { double s = 0; for (int j = 0; j < c.n; j++) s += std::hypot(c.a(i, j), c.ai(i, j)); R = std::max(R, s); } return R; }

// residual of x for (A - shift I) x = b in the working precision of the oracle; returns the ratio to n eps (|A - sI| |x| + |b|), -1 if x is not finite
template <class S> static LD resid_ratio(const Case& c, double shift, const std::vector<S>& xs) {
    typedef typename Tr<S>::W W; typedef typename Tr<S>::R R; const int n = c.n; const LD eps = (LD) std::numeric_limits<R>::epsilon();
    Eigen::Matrix<W, Eigen::Dynamic, Eigen::Dynamic> A(n, n); Eigen::Matrix<W, Eigen::Dynamic, 1> x(n), b(n);
    for (int i = 0; i < n; i++) for (int j = 0; j < n; j++) { S v = Tr<S>::mk(c.a(i, j), c.ai(i, j)); A(i, j) = W(v); if (i == j) A(i, j) -= W((LD) (R) shift); }
    for (int i = 0; i < n; i++) { x[i] = W(xs[i]); b[i] = W(Tr<S>::mk(c.b[i], c.bim[i])); if (!(std::abs(x[i]) <= std::numeric_limits<LD>::max())) return -1; }
    LD res = (A * x - b).norm(), bound = n * eps * (A.norm() * x.norm() + b.norm());
    return bound > 0 ? res / bound : (res == 0 ? 0 : 1e30L);
}

struct HStep { Case c; int cfg = 0; bool garb = false; double shift = 0; const char* what = ""; };

static std::vector<HStep> gen_history(const Case& c, uint64_t seed, bool thorough) {
    Rng r(seed, 12, (uint64_t) c.idx); std::vector<HStep> h;
    HStep s1; s1.c = c; s1.cfg = (int) r.below(4); s1.garb = r.coin(0.3); s1.shift = c.shift; s1.what = "first"; h.push_back(s1);
    HStep s2; s2.cfg = (int) r.below(4); s2.garb = r.coin(0.3);
    switch ((int) r.below(5)) {
    case 0: case 1: s2.c = c; s2.shift = (r.coin() ? 1.0 : -1.0) * (1.0 + 2.0 * max_row_sum(c)); s2.what = "same-matrix-far-shift"; break;     // strictly diagonally dominant: plain 1x1 pivots
    case 2: s2.c = c; s2.shift = c.shift + r.sym(); s2.what = "same-matrix-near-shift"; break;
    case 3: { long j = (long) r.below(1000000); if (j % 10 == 9) j -= (long) r.range(1, 9); s2.c = gen_case(seed, j, thorough, c.n); s2.c.idx = c.idx; s2.shift = s2.c.shift; s2.what = "other-matrix-same-size"; break; }
    default: { long j = (long) r.below(1000000); s2.c = gen_case(seed, j, thorough); s2.c.idx = c.idx; s2.shift = s2.c.shift; s2.what = "other-size"; break; }
    }
    h.push_back(s2);
    HStep s3;
    if (r.coin(0.5)) { s3 = s1; s3.what = "back-to-first"; }
    else { s3.c = s2.c; s3.cfg = (int) r.below(4); s3.garb = false; s3.shift = (r.coin() ? 1.0 : -1.0) * (1.0 + 2.0 * max_row_sum(s2.c)); s3.what = "far-shift"; }
    h.push_back(s3);
    return h;
}

template <class S> static void history(const Case& c0, uint64_t seed, const std::string& tier, Out& out) {
    const std::string sc = Tr<S>::name();
    std::vector<HStep> h = gen_history(c0, seed, tier == "thorough");
    Spectra::BKLDLT<S> obj;                                 // ONE object for the whole history
    const double alpha = (1.0 + std::sqrt(17.0)) / 8.0;
    std::string rq = std::string("hist ") + Enc<S>::tag() + " " + Enc<S>::real(alpha), rs; long entries = 0;
    Snap<S> prev;
    for (size_t k = 0; k < h.size(); k++) {
        const HStep& s = h[k]; const int n = s.c.n; std::vector<S> mem, memf;
        std::string rj = "{\"harness\":\"c10\",\"seed\":" + str(seed) + ",\"idx\":" + str(c0.idx) + ",\"tier\":\"" + tier + "\",\"part\":\"hist\",\"scalar\":\"" + sc + "\",\"step\":" + str(k) + ",\"what\":\"" + s.what + "\",\"n\":" + str(n) + ",\"cfg\":" + str(s.cfg) + "}";
        compute_on<S>(obj, s.c, s.cfg, s.garb, s.shift, mem);
        Snap<S> got = snap(obj);
        Spectra::BKLDLT<S> fresh; compute_on<S>(fresh, s.c, s.cfg, s.garb, s.shift, memf);
        Snap<S> ref = snap(fresh);
        out.count("hist_compute_" + sc); out.count(std::string("hist_step_") + s.what); out.count("hist_info_" + str(got.info));
        if (k > 0) {   // coverage of what would make stale members visible
            out.count(prev.perm.size() == got.perm.size() ? "hist_prev_same_size" : "hist_prev_other_size"); if (prev.info != 0) out.count("hist_prev_failed");
            bool sens = false; if (prev.perm.size() == got.perm.size()) for (size_t i = 0; i < got.perm.size(); i++) if (got.perm[i] == (long) i && prev.perm[i] != (long) i) sens = true;
            if (sens) out.count("hist_stale_perm_sensitive");      // an entry m_perm[i] that this compute leaves at its reset value i held something else before
        }
        if (!got.same(ref))
            out.fail("reuse-differs-from-fresh", sc + ": compute() #" + str(k + 1) + " (" + s.what + ", n=" + str(n) + ", shift " + str(s.shift) + ") on a used BKLDLT object differs from the same call on a fresh object: info " + str(got.info) + " vs " + str(ref.info) + (got.perm != ref.perm ? ", m_perm differs" : "") + (got.permc != ref.permc ? ", m_permc differs" : "") + (!same_bits(got.data, ref.data) ? ", packed data differ" : ""), rj);
        rq += " C " + str(n) + " " + str((s.cfg & 1) ? 2 : 1) + " " + str((s.cfg & 2) ? 1 : 0) + " " + Enc<S>::real(s.shift);
        for (const S& v : mem) rq += " " + Enc<S>::in(v);
        entries += (long) n * n;
        rs += std::string(rs.empty() ? "" : " | ") + "C " + str(got.info) + " 1 P";
        for (long p : got.perm) rs += " " + str(p);
        { std::string a; for (auto& ab : got.permc) a += (a.empty() ? "" : " ") + str(ab.first) + ":" + str(ab.second); rs += " Q " + a + "."; }
        rs += " D"; for (const S& v : got.data) rs += " " + Enc<S>::out(v);
        if (got.info != 0 && got.info != 3) out.fail("status-other", sc + ": info() = " + str(got.info) + " after compute #" + str(k + 1) + " on a used object", rj);
        if (!got.same(ref)) break;      // already reported; solve() on members that belong to different factorizations may read out of bounds
        if (got.info == 0) {
            std::vector<S> x = solve_with<S>(obj, s.c);
            std::vector<S> xf = ref.info == 0 ? solve_with<S>(fresh, s.c) : std::vector<S>();
            out.count("hist_solve_" + sc);
            if (ref.info == 0 && !same_bits(x, xf)) out.fail("reuse-differs-from-fresh", sc + ": solve() after compute() #" + str(k + 1) + " (" + s.what + ", n=" + str(n) + ") on a used BKLDLT object differs from a fresh object", rj);
            LD ratio = resid_ratio<S>(s.c, s.shift, x);
            if (ratio >= 0) { g_max["hist_resid_ratio_" + sc] = std::max(g_max["hist_resid_ratio_" + sc], ratio);
                if (!(ratio <= C_RES)) out.fail("residual", sc + ": compute() #" + str(k + 1) + " (" + s.what + ") on a used BKLDLT object reports Successful but the residual is " + str((double) ratio) + " n eps (|A-sI||x|+|b|) > " + str((double) C_RES) + " n eps (...), n=" + str(n) + " shift " + str(s.shift), rj); }
            else out.count("hist_nonfinite_solution_" + sc);
            rq += " S"; for (int i = 0; i < n; i++) rq += " " + Enc<S>::in(Tr<S>::mk(s.c.b[i], s.c.bim[i]));
            rs += " | S 1 X"; for (const S& v : x) rs += " " + Enc<S>::out(v);
        }
        prev = got;
    }
    if (entries <= 1800) { out.corr(rq, rs); out.count("corr_hist_" + sc); }
}

// ------------------------------------------------------------------ wrappers (real double)
template <int Uplo, int Flags> static void wrappers(const Case& c, const Result<double>& ref, uint64_t seed, const std::string& tier, Out& out, int cfg) {
    typedef Eigen::Matrix<double, Eigen::Dynamic, Eigen::Dynamic, Flags> Mat;
    const int n = c.n; Mat M(n, n); for (int i = 0; i < n; i++) for (int j = 0; j < n; j++) M(i, j) = c.a(i, j);
    std::string rj = replay_json(c, seed, tier, "double", cfg);
    Eigen::VectorXd b(n), y(n); for (int i = 0; i < n; i++) b[i] = c.b[i];
    {   Spectra::DenseSymShiftSolve<double, Uplo, Flags> op(M); std::string got = "ok";
        try { op.set_shift(c.shift); } catch (const std::invalid_argument&) { got = "throw std::invalid_argument"; } catch (...) { got = "throw other"; }
        out.corr("dense_guard " + str(ref.info), got); out.count("oracle_wrapper_dense");
        if ((got == "ok") != (ref.info == 0) || got == "throw other") out.fail("wrapper-status", "DenseSymShiftSolve::set_shift: " + got + " although BKLDLT::info() = " + str(ref.info), rj);
        if (got == "ok") { op.perform_op(b.data(), y.data()); std::vector<double> yy(y.data(), y.data() + n); if (!same_bits(yy, ref.x)) out.fail("wrapper-solve", "DenseSymShiftSolve::perform_op differs from BKLDLT::solve", rj); }
    }
    {   Eigen::MatrixXd B = Eigen::MatrixXd::Identity(n, n);
        Spectra::SymShiftInvert<double, Eigen::Dense, Eigen::Dense, Uplo, Eigen::Lower, Flags, Eigen::ColMajor> op(M, B); std::string got = "ok";
        try { op.set_shift(c.shift); } catch (const std::invalid_argument&) { got = "throw std::invalid_argument"; } catch (...) { got = "throw other"; }
        out.corr("symshift_guard " + str(ref.info), got); out.count("oracle_wrapper_symshift");
        if ((got == "ok") != (ref.info == 0) || got == "throw other") out.fail("wrapper-status", "SymShiftInvert::set_shift: " + got + " although BKLDLT::info() = " + str(ref.info), rj);
        if (got == "ok") { op.perform_op(b.data(), y.data()); std::vector<double> yy(y.data(), y.data() + n); if (!same_bits(yy, ref.x)) out.fail("wrapper-solve", "SymShiftInvert::perform_op (B = I) differs from BKLDLT::solve", rj); }
    }
    {   // ---- history on ONE DenseSymShiftSolve object (part "whist")
        typedef Spectra::DenseSymShiftSolve<double, Uplo, Flags> Op;
        Op op(M);
        const double alpha = (1.0 + std::sqrt(17.0)) / 8.0;
        const double s_case = c.shift, s_ok = -(1.0 + 2.0 * max_row_sum(c));      // A - s_ok I strictly diagonally dominant, positive definite
        std::string rq = "whist " + str(n) + " " + str(Uplo == Eigen::Upper ? 2 : 1) + " " + str(Flags == Eigen::RowMajor ? 1 : 0) + " " + str(dbits(alpha)), rs;
        for (int i = 0; i < n * n; i++) rq += " " + str(dbits(M.data()[i]));
        int stepno = 0; bool last_ok = false; double cur = 0;
        auto rjw = [&](const char* ev) { return "{\"harness\":\"c10\",\"seed\":" + str(seed) + ",\"idx\":" + str(c.idx) + ",\"tier\":\"" + tier + "\",\"part\":\"whist\",\"scalar\":\"double\",\"cfg\":" + str(cfg) + ",\"n\":" + str(n) + ",\"step\":" + str(stepno) + ",\"event\":\"" + ev + "\"}"; };
        auto add = [&](const std::string& s) { rs += (rs.empty() ? "" : " | ") + s; };
        // what a fresh factorization says about this shift
        auto fresh_info = [&](double sigma) { Spectra::BKLDLT<double> f; f.compute(M, Uplo, sigma); return (int) f.info(); };
        // shadow of the wrapper's private m_solver: ONE BKLDLT object that receives the same compute() calls in the same order
        Spectra::BKLDLT<double> shadow; bool shadow_consistent = true;
        auto event = [&](char ev, double sigma) {           // 'T' set_shift, 'E' SymEigsShiftSolver constructor
            stepno++; std::string got = "ok";
            try {
                if (ev == 'T') op.set_shift(sigma);
                else { Spectra::SymEigsShiftSolver<Op> eigs(op, 1, 2, sigma); (void) eigs; }
            } catch (const std::invalid_argument&) { got = "throw std::invalid_argument"; } catch (...) { got = "throw other"; }
            { shadow.compute(M, Uplo, sigma); Spectra::BKLDLT<double> f; f.compute(M, Uplo, sigma); shadow_consistent = snap(shadow).same(snap(f));
              if (!shadow_consistent) out.fail("reuse-differs-from-fresh", "DenseSymShiftSolve history, event #" + str(stepno) + ": the wrapper's BKLDLT member, factorizing for sigma = " + str(sigma) + " after earlier shifts, holds members that differ from a fresh factorization (m_perm / m_permc / packed data); n=" + str(n), rjw("set_shift")); }
            const int fi = fresh_info(sigma); const bool must_throw = fi != 0 || (c.expect_singular && sigma == s_case);
            const std::string evn = ev == 'T' ? "set_shift" : "SymEigsShiftSolver(op, 1, 2, sigma)";
            out.count(std::string("whist_") + (ev == 'T' ? "set_shift" : "eigs_ctor") + (must_throw ? "_singular" : "_regular"));
            if (got == "throw other") out.fail("wrapper-history-status", "DenseSymShiftSolve history, event #" + str(stepno) + " " + evn + ": unexpected exception type", rjw(evn.c_str()));
            else if (must_throw && got == "ok")
                out.fail("wrapper-history-status", "DenseSymShiftSolve history, event #" + str(stepno) + ": " + evn + " with sigma = " + str(sigma) + " returned normally although A - sigma I has an exactly zero pivot (fresh BKLDLT::info() = " + str(fi) + "); n=" + str(n), rjw(evn.c_str()));
            else if (!must_throw && got != "ok")
                out.fail("wrapper-history-status", "DenseSymShiftSolve history, event #" + str(stepno) + ": " + evn + " with sigma = " + str(sigma) + " threw although a fresh BKLDLT reports Successful; n=" + str(n), rjw(evn.c_str()));
            rq += std::string(" ") + ev + " " + str(dbits(sigma)); add(got);
            last_ok = got == "ok"; cur = sigma;
        };
        auto perform = [&]() {                               // only after a set_shift that returned normally
            if (!last_ok || !shadow_consistent) return;      // inconsistent members: already reported, solving with them may read out of bounds
            stepno++; op.perform_op(b.data(), y.data()); std::vector<double> yy(y.data(), y.data() + n);
            Spectra::BKLDLT<double> f; f.compute(M, Uplo, cur); Eigen::VectorXd xf = f.solve(b); std::vector<double> xx(xf.data(), xf.data() + n);
            bool fin = true, finf = true; for (double v : yy) if (!std::isfinite(v)) fin = false; for (double v : xx) if (!std::isfinite(v)) finf = false;
            out.count("whist_perform_op");
            if (!fin && (finf || (int) f.info() != 0)) out.fail("wrapper-nonfinite", "DenseSymShiftSolve history, event #" + str(stepno) + ": perform_op returns non-finite values after set_shift(" + str(cur) + ") returned normally; n=" + str(n), rjw("perform_op"));
            else if (!same_bits(yy, xx)) out.fail("wrapper-solve", "DenseSymShiftSolve history, event #" + str(stepno) + ": perform_op after set_shift(" + str(cur) + ") differs from BKLDLT::solve on a fresh factorization; n=" + str(n), rjw("perform_op"));
            if (fin) { LD ratio = resid_ratio<double>(c, cur, yy); g_max["whist_resid_ratio"] = std::max(g_max["whist_resid_ratio"], ratio);
                if (!(ratio <= C_RES)) out.fail("residual", "DenseSymShiftSolve history, event #" + str(stepno) + ": perform_op after set_shift(" + str(cur) + ") has residual " + str((double) ratio) + " n eps (|A-sI||x|+|b|); n=" + str(n), rjw("perform_op")); }
            rq += " P"; for (int i = 0; i < n; i++) rq += " " + str(dbits(b[i]));
            std::string a = "X"; for (double v : yy) a += " " + fb(v); add(a);
        };
        event('T', s_case); event('T', s_case); perform();
        event('T', s_ok); perform();
        event('T', s_case);
        if (n >= 2) { event('E', s_case); perform(); }
        if (n * n <= 1800) { out.corr(rq, rs); out.count("corr_whist"); }
    }
}



// ------------------------------------------------------------------ structured right-hand sides (part "rhs")
struct Rhs { std::vector<double> re, im; std::string fam; };

template <class S> static LD resid_ratio_b(const Case& c, double shift, const std::vector<S>& xs, const Rhs& rh) {
    typedef typename Tr<S>::W W; typedef typename Tr<S>::R R; const int n = c.n; const LD eps = (LD) std::numeric_limits<R>::epsilon();
    Eigen::Matrix<W, Eigen::Dynamic, Eigen::Dynamic> A(n, n); Eigen::Matrix<W, Eigen::Dynamic, 1> x(n), b(n);
    for (int i = 0; i < n; i++) for (int j = 0; j < n; j++) { S v = Tr<S>::mk(c.a(i, j), c.ai(i, j)); A(i, j) = W(v); if (i == j) A(i, j) -= W((LD) (R) shift); }
    for (int i = 0; i < n; i++) { x[i] = W(xs[i]); b[i] = W(Tr<S>::mk(rh.re[i], rh.im[i])); if (!(std::abs(x[i]) <= std::numeric_limits<LD>::max())) return -1; }
    LD res = (A * x - b).norm(), bound = n * eps * (A.norm() * x.norm() + b.norm());
    return bound > 0 ? res / bound : (res == 0 ? 0 : 1e30L);
}

// the list of right-hand sides for a factorization with pivot structure perm / permc (as reported by the real object)
static std::vector<Rhs> gen_rhs(const Case& c, const std::vector<long>& perm, const std::vector<std::pair<long, long>>& permc, Rng& r, bool cplx) {
    const int n = c.n; std::vector<Rhs> L;
    auto nzv = [&]() { double v = r.coin(0.25) ? (double) r.range(1, 3) * (r.coin() ? 1 : -1) : r.sym(); return v == 0 ? 1.0 : v; };
    auto zero = [&](bool neg) { return neg ? -0.0 : 0.0; };
    auto mk = [&](const char* fam) { Rhs h; h.re.assign(n, 0.0); h.im.assign(n, 0.0); h.fam = fam; return h; };
    auto dense = [&](const char* fam) { Rhs h = mk(fam); for (int i = 0; i < n; i++) { h.re[i] = nzv(); h.im[i] = cplx ? (r.coin(0.2) ? 0.0 : r.sym()) : 0.0; } return h; };
    auto setz = [&](Rhs& h, int i, bool neg) { h.re[i] = zero(neg); h.im[i] = cplx ? zero(r.coin(0.3)) : 0.0; };
    auto unperm = [&](Rhs h) { for (long k = (long) permc.size() - 1; k >= 0; k--) { std::swap(h.re[permc[k].first], h.re[permc[k].second]); std::swap(h.im[permc[k].first], h.im[permc[k].second]); } return h; };   // h given in permuted coordinates: b with P b = h
    // blocks
    std::vector<int> b2, b1; for (int i = 0; i < n;) { if (perm[i] >= 0) { b1.push_back(i); i++; } else { b2.push_back(i); i += 2; } }
    // (1) unit vectors
    { std::vector<int> js; if (n <= 14) for (int j = 0; j < n; j++) js.push_back(j); else { for (int t = 0; t < 12; t++) js.push_back(r.range(0, n - 1)); js.push_back(0); js.push_back(n - 1); }
      for (int j : js) { Rhs h = mk("unit"); h.re[j] = 1.0; L.push_back(h); }
      if (n >= 1) { Rhs h = mk("unit-scaled"); int j = r.range(0, n - 1); h.re[j] = -nzv(); if (cplx) h.im[j] = r.sym(); L.push_back(h); } }
    // (2) relative to the 2x2 blocks (first, last, up to 3 others)
    { std::vector<int> sel; if (!b2.empty()) { sel.push_back(b2.front()); if (b2.size() > 1) sel.push_back(b2.back()); for (int t = 0; t < 3 && b2.size() > 2; t++) sel.push_back(b2[r.range(1, (int) b2.size() - 2)]); }
      for (int i : sel) {
          { Rhs h = mk("perm-unit-second"); h.re[i + 1] = 1.0; L.push_back(unperm(h)); }
          { Rhs h = mk("perm-unit-first"); h.re[i] = 1.0; L.push_back(unperm(h)); }
          { Rhs h = dense("blk-first-zero"); setz(h, i, r.coin(0.3)); L.push_back(unperm(h)); }
          { Rhs h = dense("blk-second-zero"); setz(h, i + 1, r.coin(0.3)); L.push_back(unperm(h)); }
          { Rhs h = dense("blk-both-zero"); setz(h, i, r.coin(0.3)); setz(h, i + 1, r.coin(0.3)); L.push_back(unperm(h)); }
          { Rhs h = mk("blk-first-zero-tail"); for (int t = i + 1; t < n; t++) { h.re[t] = nzv(); if (cplx) h.im[t] = r.sym(); } L.push_back(unperm(h)); }
          if (cplx) { Rhs h = dense("blk-first-imag-only"); h.re[i] = 0.0; h.im[i] = nzv(); L.push_back(unperm(h)); }
      }
      if (!b1.empty()) for (int t = 0; t < 2; t++) { int i = b1[r.range(0, (int) b1.size() - 1)]; Rhs h = dense("pivot1-zero"); setz(h, i, t == 1); L.push_back(unperm(h)); } }
    // (3) sparse
    for (int t = 0; t < 3 && n >= 1; t++) { Rhs h = mk("sparse"); int k = r.range(1, 3); for (int q = 0; q < k; q++) { int j = r.range(0, n - 1); h.re[j] = nzv(); if (cplx) h.im[j] = r.coin(0.5) ? 0.0 : r.sym(); } L.push_back(h); }
    // (4) zero vectors and signed zeros
    { L.push_back(mk("zero")); Rhs h = mk("neg-zero"); for (int i = 0; i < n; i++) { h.re[i] = -0.0; if (cplx) h.im[i] = r.coin() ? -0.0 : 0.0; } L.push_back(h);
      Rhs g = mk("mixed-zero"); for (int i = 0; i < n; i++) setz(g, i, r.coin()); if (n >= 1) g.re[r.range(0, n - 1)] = nzv(); L.push_back(g); }
    // (5) leading / trailing zero runs, original and permuted coordinates
    if (n >= 2) for (int t = 0; t < 4; t++) { Rhs h = dense(t < 2 ? "lead-zero" : "trail-zero"); int m = r.range(1, n - 1); bool neg = r.coin(0.2);
        for (int i = 0; i < m; i++) setz(h, t < 2 ? i : n - 1 - i, neg); L.push_back((t % 2) ? unperm(h) : h); }
    // (6) control
    { Rhs h = mk("dense"); h.re = c.b; if (cplx) h.im = c.bim; L.push_back(h); }
    return L;
}

template <int Uplo, int Flags> static void wrapper_rhs(const Case& c, const std::vector<Rhs>& L, const std::vector<std::vector<double>>& xs, int cfg, uint64_t seed, const std::string& tier, Out& out) {
    typedef Eigen::Matrix<double, Eigen::Dynamic, Eigen::Dynamic, Flags> Mat;
    const int n = c.n; Mat M(n, n); for (int i = 0; i < n; i++) for (int j = 0; j < n; j++) M(i, j) = c.a(i, j);
    Spectra::DenseSymShiftSolve<double, Uplo, Flags> op(M);
    try { op.set_shift(c.shift); } catch (...) { return; }         // graded by wrappers()
    const double alpha = (1.0 + std::sqrt(17.0)) / 8.0;
    std::string rq = "whist " + str(n) + " " + str(Uplo == Eigen::Upper ? 2 : 1) + " " + str(Flags == Eigen::RowMajor ? 1 : 0) + " " + str(dbits(alpha)), rs = "ok";
    for (int i = 0; i < n * n; i++) rq += " " + str(dbits(M.data()[i]));
    rq += " T " + str(dbits(c.shift));
    Eigen::VectorXd b(n), y(n);
    for (size_t k = 0; k < L.size(); k++) {
        for (int i = 0; i < n; i++) b[i] = L[k].re[i];
        op.perform_op(b.data(), y.data()); std::vector<double> yy(y.data(), y.data() + n);
        out.count("rhs_wrapper_perform_op");
        if (!same_bits(yy, xs[k]))
            out.fail("wrapper-solve", "DenseSymShiftSolve::perform_op differs from BKLDLT::solve for a right-hand side of family " + L[k].fam + " (#" + str(k) + "); n=" + str(n),
                     "{\"harness\":\"c10\",\"seed\":" + str(seed) + ",\"idx\":" + str(c.idx) + ",\"tier\":\"" + tier + "\",\"part\":\"rhs\",\"scalar\":\"double\",\"cfg\":" + str(cfg) + ",\"n\":" + str(n) + ",\"family\":\"" + L[k].fam + "\",\"k\":" + str(k) + ",\"event\":\"perform_op\"}");
        rq += " P"; for (int i = 0; i < n; i++) rq += " " + str(dbits(b[i]));
        rs += " | X"; for (double v : yy) rs += " " + fb(v);
    }
    if (n <= 12) { out.corr(rq, rs); out.count("corr_rhs_whist"); }
}

template <class S> static void rhs_part(const Case& c, uint64_t seed, const std::string& tier, Out& out) {
    typedef typename Tr<S>::R R;
    const std::string sc = Tr<S>::name(); const int n = c.n; if (n < 1) return;
    Rng r(seed, 13, (uint64_t) c.idx);
    const int cfgA = (int) r.below(4); const bool garbA = r.coin(0.3); const int cfgB = (cfgA ^ 1) ^ (r.coin() ? 2 : 0);     // the other triangle
    Spectra::BKLDLT<S> fA, fB; std::vector<S> memA, memB;
    compute_on<S>(fA, c, cfgA, garbA, c.shift, memA); compute_on<S>(fB, c, cfgB, true, c.shift, memB);
    Snap<S> sA = snap(fA), sB = snap(fB);
    if (sA.info != 0 || sB.info != 0) { out.count("rhs_skipped_not_successful"); return; }
    auto rj = [&](const std::string& fam, size_t k) { return "{\"harness\":\"c10\",\"seed\":" + str(seed) + ",\"idx\":" + str(c.idx) + ",\"tier\":\"" + tier + "\",\"part\":\"rhs\",\"scalar\":\"" + sc + "\",\"cfg\":" + str(cfgA) + ",\"kind\":\"" + KN[c.kind] + "\",\"n\":" + str(n) + ",\"family\":\"" + fam + "\",\"k\":" + str(k) + "}"; };
    // pivot structure of THIS factorization
    bool has1 = false, has2 = false; for (int i = 0; i < n;) { if (sA.perm[i] >= 0) { has1 = true; i++; } else { has2 = true; out.count(i == 0 ? "rhs_2x2_block_first" : i + 2 == n ? "rhs_2x2_block_last" : "rhs_2x2_block_middle"); i += 2; } }
    out.count(has1 && has2 ? "rhs_fact_mixed_1x1_2x2" : has2 ? "rhs_fact_2x2_only" : "rhs_fact_1x1_only"); out.count("rhs_fact_" + sc);
    std::vector<Rhs> L = gen_rhs(c, sA.perm, sA.permc, r, Tr<S>::cplx);
    typedef Eigen::Matrix<S, Eigen::Dynamic, 1> Vec;
    const double alpha = (1.0 + std::sqrt(17.0)) / 8.0;
    std::string rq = std::string("hist ") + Enc<S>::tag() + " " + Enc<S>::real(alpha) + " C " + str(n) + " " + str((cfgA & 1) ? 2 : 1) + " " + str((cfgA & 2) ? 1 : 0) + " " + Enc<S>::real(c.shift);
    for (const S& v : memA) rq += " " + Enc<S>::in(v);
    std::string rs = "C " + str(sA.info) + " 1 P"; for (long p : sA.perm) rs += " " + str(p);
    { std::string a; for (auto& ab : sA.permc) a += (a.empty() ? "" : " ") + str(ab.first) + ":" + str(ab.second); rs += " Q " + a + "."; }
    rs += " D"; for (const S& v : sA.data) rs += " " + Enc<S>::out(v);
    long budget = 6000 - (long) n * n; bool svd_done = false, wellcond = false;
    std::vector<std::vector<double>> xs_d; std::vector<Rhs> Lw;
    for (size_t k = 0; k < L.size(); k++) {
        const Rhs& h = L[k];
        Vec b(n); for (int i = 0; i < n; i++) b[i] = Tr<S>::mk(h.re[i], h.im[i]);
        // coverage: zeros relative to the blocks, in permuted coordinates
        { Vec z = b; for (auto& ab : sA.permc) std::swap(z[ab.first], z[ab.second]);
          for (int i = 0; i < n;) { if (sA.perm[i] >= 0) { if (z[i] == S(0)) out.count("rhs_zero_on_1x1_row"); i++; }
              else { const bool z1 = z[i] == S(0), z2 = z[i + 1] == S(0); if (z1 && !z2) out.count(i + 2 < n ? "rhs_2x2_first_zero_second_nonzero_nontrailing" : "rhs_2x2_first_zero_second_nonzero_trailing"); if (!z1 && z2) out.count("rhs_2x2_second_zero_first_nonzero"); if (z1 && z2) out.count("rhs_2x2_both_zero"); i += 2; } } }
        Vec xa = fA.solve(b), xb = fB.solve(b); std::vector<S> xA(xa.data(), xa.data() + n), xB(xb.data(), xb.data() + n);
        out.count("rhs_solves_" + sc); out.count("rhs_fam_" + h.fam);
        if (!same_bits(xA, xB)) out.fail("uplo-order-disagree", sc + ": solve(b) from the " + ((cfgA & 1) ? "Upper" : "Lower") + " and from the " + ((cfgB & 1) ? "Upper" : "Lower") + "-triangle factorization of the same matrix differ for a right-hand side of family " + h.fam + " (#" + str(k) + "); kind " + KN[c.kind] + " n=" + str(n), rj(h.fam, k));
        LD ratio = resid_ratio_b<S>(c, c.shift, xA, h);
        if (ratio < 0) {
            out.count("rhs_nonfinite_solution_" + sc);
            if (!svd_done) { typedef typename Tr<S>::W W; Eigen::Matrix<W, Eigen::Dynamic, Eigen::Dynamic> A(n, n);
                for (int i = 0; i < n; i++) for (int j = 0; j < n; j++) { S v = Tr<S>::mk(c.a(i, j), c.ai(i, j)); A(i, j) = W(v); if (i == j) A(i, j) -= W((LD) (R) c.shift); }
                Eigen::JacobiSVD<Eigen::Matrix<W, Eigen::Dynamic, Eigen::Dynamic>> svd(A); LD smax = svd.singularValues()[0], smin = svd.singularValues()[n - 1];
                svd_done = true; wellcond = smin > C_SING * n * (LD) std::numeric_limits<R>::epsilon() * smax; }
            if (wellcond) out.fail("nonfinite-solution", sc + ": Successful but solve(b) is not finite on a well-conditioned matrix for a right-hand side of family " + h.fam + " (#" + str(k) + "), kind " + KN[c.kind] + " n=" + str(n), rj(h.fam, k));
        } else {
            g_max["rhs_resid_ratio_" + sc] = std::max(g_max["rhs_resid_ratio_" + sc], ratio);
            if (!(ratio <= C_RES)) out.fail("residual", sc + ": right-hand side of family " + h.fam + " (#" + str(k) + "): residual is " + str((double) ratio) + " n eps (|A-sI||x|+|b|) > " + str((double) C_RES) + " n eps (...), kind " + KN[c.kind] + " n=" + str(n) + " shift " + str(c.shift), rj(h.fam, k));
        }
        if (budget >= n) { budget -= n; rq += " S"; for (int i = 0; i < n; i++) rq += " " + Enc<S>::in(b[i]); rs += " | S 1 X"; for (const S& v : xA) rs += " " + Enc<S>::out(v); out.count("corr_rhs_solves_" + sc); }
        if (std::is_same<S, double>::value) { std::vector<double> xd(n); for (int i = 0; i < n; i++) xd[i] = (double) std::real(xA[i]); xs_d.push_back(xd); Lw.push_back(h); }
    }
    if ((long) n * n <= 6000 - n) { out.corr(rq, rs); out.count("corr_rhs_" + sc); }
    if (std::is_same<S, double>::value && n <= 24) {
        switch (cfgA) { case 0: wrapper_rhs<Eigen::Lower, Eigen::ColMajor>(c, Lw, xs_d, cfgA, seed, tier, out); break; case 1: wrapper_rhs<Eigen::Upper, Eigen::ColMajor>(c, Lw, xs_d, cfgA, seed, tier, out); break;
                        case 2: wrapper_rhs<Eigen::Lower, Eigen::RowMajor>(c, Lw, xs_d, cfgA, seed, tier, out); break; default: wrapper_rhs<Eigen::Upper, Eigen::RowMajor>(c, Lw, xs_d, cfgA, seed, tier, out); }
    }
}

static void one_case(const Case& c, uint64_t seed, const std::string& tier, Out& out, bool corr) {
    Rng r(seed, 11, (uint64_t) c.idx);
    int cfg = (int) r.below(4); bool garb = r.coin(0.5);
    Result<double> kept;
    oracle<double>(c, seed, tier, out, &kept, cfg, garb);
    Result<float> keptf;
    oracle<float>(c, seed, tier, out, &keptf, cfg, garb);
    Result<CD> keptc;
    oracle<CD>(c, seed, tier, out, &keptc, cfg, garb);
    {   Case cr = c; std::fill(cr.im.begin(), cr.im.end(), 0.0); if (c.kind % 3 == 0) oracle<CD>(cr, seed, tier, out); }   // complex type, real data
    out.count(std::string("kind_") + KN[c.kind]); out.count("n_" + str(c.n < 7 ? c.n : c.n <= 20 ? 20 : 80) + (c.n < 7 ? "" : "_or_less"));
    // branch tags from m_perm
    for (long i = 0; i < c.n;) {
        long p = kept.perm[i];
        if (p >= 0) { out.count(p == i ? "pivot_1x1_nointerchange" : "pivot_1x1_interchange"); i++; }
        else { long rr = -kept.perm[i + 1] - 1; out.count(rr == i + 1 ? "pivot_2x2_nointerchange" : "pivot_2x2_interchange"); i += 2; }
    }
    if (c.variant >= 0 && c.n >= 1) {   // special matrices: was the intended pivot pattern / tie outcome reached (double and float factorizations)
        auto first = [&](const std::vector<long>& pm) { return c.n < 2 ? std::string("n1") : pm[0] >= 0 ? (pm[0] == 0 ? std::string("1x1_nointerchange") : std::string("1x1_interchange")) : std::string("2x2"); };
        if (!c.want_bs.empty()) { std::vector<int> got; for (long i = 0; i < c.n;) { if (kept.perm[i] >= 0) { got.push_back(1); i++; } else { got.push_back(2); i += 2; } }
            out.count(std::string("special_pattern_v") + str(c.variant) + (c.permuted ? "_permuted" : "") + (got == c.want_bs ? "_as_intended" : "_other")); }
        if (c.tie_w >= 0) { const bool fprec = (((c.idx - SPECIAL_BASE) / 8) % 2) == 1;
            out.count("tie_v" + str(c.variant) + (fprec ? "_float_w" : "_double_w") + str(c.tie_w) + "_first_pivot_" + first(fprec ? keptf.perm : kept.perm)); }
    }
    Result<double> plain = run_cfg<double>(c, cfg, false);
    switch (cfg) { case 0: wrappers<Eigen::Lower, Eigen::ColMajor>(c, plain, seed, tier, out, cfg); break; case 1: wrappers<Eigen::Upper, Eigen::ColMajor>(c, plain, seed, tier, out, cfg); break;
                   case 2: wrappers<Eigen::Lower, Eigen::RowMajor>(c, plain, seed, tier, out, cfg); break; default: wrappers<Eigen::Upper, Eigen::RowMajor>(c, plain, seed, tier, out, cfg); }
    switch ((int) (c.idx % 3)) { case 0: history<double>(c, seed, tier, out); break; case 1: history<float>(c, seed, tier, out); break; default: history<CD>(c, seed, tier, out); }
    // structured right-hand sides: one scalar type per ordinary case, all three on the special matrices
    {   const bool all = c.idx >= SPECIAL_BASE; const int w = (int) ((c.idx + 1) % 3);
        if (all || w == 0) rhs_part<double>(c, seed, tier, out); if (all || w == 1) rhs_part<float>(c, seed, tier, out); if (all || w == 2) rhs_part<CD>(c, seed, tier, out); }
    if (!corr) return;
    // ---- correspondence request: exactly the memory the class was given
    const double alpha = (1.0 + std::sqrt(17.0)) / 8.0;
    std::string rq = "bkldlt " + str(c.n) + " " + str((cfg & 1) ? 2 : 1) + " " + str((cfg & 2) ? 1 : 0) + " " + str(dbits(alpha)) + " " + str(dbits(c.shift));
    for (double v : kept.mem) rq += " " + str(dbits(v));
    for (double v : c.b) rq += " " + str(dbits(v));
    std::string rs = str(kept.info) + " 1 P";
    for (long p : kept.perm) rs += " " + str(p);
    rs += " D"; for (double v : kept.data) rs += " " + fb(v);
    rs += " X"; if (kept.info == 0) for (double v : kept.x) rs += " " + fb(v); else rs += " -";
    out.corr(rq, rs);
    {   // single precision: the same model at Float32
        const float alphaf = (float) ((1.0 + std::sqrt(17.0)) / 8.0);
        auto fb32 = [](float x) { return std::isnan(x) ? std::string("nan") : str(fbits(x)); };
        std::string q = "bkldlt32 " + str(c.n) + " " + str((cfg & 1) ? 2 : 1) + " " + str((cfg & 2) ? 1 : 0) + " " + str(fbits(alphaf)) + " " + str(fbits((float) c.shift));
        for (float v : keptf.mem) q += " " + str(fbits(v));
        for (double v : c.b) q += " " + str(fbits((float) v));
        std::string a = str(keptf.info) + " 1 P";
        for (long p : keptf.perm) a += " " + str(p);
        a += " D"; for (float v : keptf.data) a += " " + fb32(v);
        a += " X"; if (keptf.info == 0) for (float v : keptf.x) a += " " + fb32(v); else a += " -";
        out.corr(q, a); }
    {   // complex Hermitian: Model/BKLDLTC.lean at Float (std::complex<double> as re im pairs), same configuration
        auto fc = [](CD z) { return fb(z.real()) + " " + fb(z.imag()); };
        std::string q = "bkldltc " + str(c.n) + " " + str((cfg & 1) ? 2 : 1) + " " + str((cfg & 2) ? 1 : 0) + " " + str(dbits(alpha)) + " " + str(dbits(c.shift));
        for (CD v : keptc.mem) q += " " + str(dbits(v.real())) + " " + str(dbits(v.imag()));
        for (int i = 0; i < c.n; i++) q += " " + str(dbits(c.b[i])) + " " + str(dbits(c.bim[i]));
        std::string a = str(keptc.info) + " 1 P";
        for (long p : keptc.perm) a += " " + str(p);
        a += " D"; for (CD v : keptc.data) a += " " + fc(v);
        a += " X"; if (keptc.info == 0) for (CD v : keptc.x) a += " " + fc(v); else a += " -";
        out.corr(q, a); out.count("corr_complex");
        for (long i = 0; i < c.n;) {
            long p = keptc.perm[i];
            if (p >= 0) { out.count(p == i ? "cplx_pivot_1x1_nointerchange" : "cplx_pivot_1x1_interchange"); i++; }
            else { long rr = -keptc.perm[i + 1] - 1; out.count(rr == i + 1 ? "cplx_pivot_2x2_nointerchange" : "cplx_pivot_2x2_interchange"); i += 2; }
        } }
    {   auto pc = SpectraVerifAccess::permc_from(kept.perm); std::string q = "permc " + str(c.n), a;
        for (long p : kept.perm) q += " " + str(p);
        for (auto& ab : pc) a += (a.empty() ? "" : " ") + str(ab.first) + ":" + str(ab.second);
        out.corr(q, a + "."); }
    // translated scalar kernels, incl. ties |e11| = |e21| and zeros
    for (int t = 0; t < 4; t++) {
        double e11 = r.sym(), e21 = r.sym(), e22 = r.sym(), b1 = r.sym(), b2 = r.sym();
        int w = r.range(0, 7); if (w == 0) e21 = e11; if (w == 1) e21 = -e11; if (w == 2) e11 = 0; if (w == 3) e21 = 0; if (w == 4) { e11 = 0; e22 = 0; } if (w == 5) e22 = e21 * e21 / e11;
        double x1 = b1, x2 = b2; SpectraVerifAccess::solve2<double>(e11, e21, e22, x1, x2);
        out.corr("solve2 " + str(dbits(e11)) + " " + str(dbits(e21)) + " " + str(dbits(e22)) + " " + str(dbits(b1)) + " " + str(dbits(b2)), fb(x1) + " " + fb(x2));
        double i11 = e11, i21 = e21, i22 = e22; SpectraVerifAccess::inv2<double>(i11, i21, i22);
        out.corr("inv2 " + str(dbits(e11)) + " " + str(dbits(e21)) + " " + str(dbits(e22)), fb(i11) + " " + fb(i21) + " " + fb(i22));
        // oracle for the kernels: E x = b in long double when well conditioned
        LD det = (LD) e11 * e22 - (LD) e21 * e21; LD sz = std::fabs((LD) e11 * e22) + (LD) e21 * e21;
        if (std::fabs(det) > 1e-3L * sz && sz > 0) {
            LD r1 = (LD) e11 * x1 + (LD) e21 * x2 - b1, r2 = (LD) e21 * x1 + (LD) e22 * x2 - b2;
            LD scl = (std::fabs((LD) e11) + std::fabs((LD) e21) + std::fabs((LD) e22)) * (std::fabs((LD) x1) + std::fabs((LD) x2)) + std::fabs((LD) b1) + std::fabs((LD) b2);
            out.count("oracle_solve2");
            if (std::fabs(r1) + std::fabs(r2) > 1e4L * 2.3e-16L * scl) out.fail("solve2-residual", "solve_inplace_2x2 residual too large", "{\"harness\":\"c10\",\"seed\":" + str(seed) + ",\"idx\":" + str(c.idx) + ",\"tier\":\"" + tier + "\",\"kernel\":\"solve2\"}");
        }
    }
}

int main(int argc, char** argv) {
    Args a(argc, argv); Out out(a.out);
    if (!a.replay.empty()) {
        std::ifstream f(a.replay); std::string t((std::istreambuf_iterator<char>(f)), {});
        auto num = [&](const char* key, long dflt) { auto p = t.find(std::string("\"") + key + "\":"); return p == std::string::npos ? dflt : std::atol(t.c_str() + p + std::strlen(key) + 3); };
        long idx = num("idx", 0); uint64_t seed = (uint64_t) num("seed", (long) a.seed); bool th = t.find("\"tier\":\"thorough\"") != std::string::npos;
        Case c = gen_case(seed, idx, th); one_case(c, seed, th ? "thorough" : "quick", out, true); out.finish(); return 0;
    }
    const long ncase = a.thorough() ? 12000 : 1500;
    for (long idx = 0; idx < ncase; idx++) {
        Case c = gen_case(a.seed, idx, a.thorough());
        { std::ofstream lc(a.out + "/lastcase.txt"); lc << replay_json(c, a.seed, a.tier, "all", -1) << "\n"; }
        one_case(c, a.seed, a.tier, out, true);
        if (out.nfail) out.oracle.flush();
    }
    const long nspecial = a.thorough() ? 2400 : 320;
    for (long j = 0; j < nspecial; j++) {
        Case c = gen_case(a.seed, SPECIAL_BASE + j, a.thorough());
        { std::ofstream lc(a.out + "/lastcase.txt"); lc << replay_json(c, a.seed, a.tier, "all", -1) << "\n"; }
        one_case(c, a.seed, a.tier, out, true);
        out.count("special_variant_" + str(j % 8));
        if (out.nfail) out.oracle.flush();
    }
    const long ndominant = a.thorough() ? 1500 : 200;
    for (long j = 0; j < ndominant; j++) {
        Case c = gen_case(a.seed, DOMINANT_BASE + j, a.thorough());
        { std::ofstream lc(a.out + "/lastcase.txt"); lc << replay_json(c, a.seed, a.tier, "all", -1) << "\n"; }
        one_case(c, a.seed, a.tier, out, true);
        out.count("dominant_cases");
        if (out.nfail) out.oracle.flush();
    }
    for (auto& kv : g_max) out.counters["max_milli_" + kv.first] = (long) std::min((LD) 1e15L, kv.second * 1000);
    out.finish();
    return 0;
}
