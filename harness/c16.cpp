// C16 harness: the real PartialSVDSolver / SVDTallMatOp / SVDWideMatOp
//  (a) correspondence: histories of compute/singular_values/matrix_U/matrix_V on the real class (state read through
//      SpectraVerifAccess) against the Lean state machine Model/SVD.lean (inner solver results recorded and replayed);
//      perform_op of both operator classes against the model's explicit loops;
//  (b) oracle: the property's predicates on the real outputs against a long double one-sided Jacobi SVD.
//  stream 6 (+ fixed witnesses, stream 7): runs that END partially converged: prescribed spectra with tight clusters next to well
//      separated values, leading singular vector (nearly) orthogonal to the solver's fixed start vector, maxit 1..12, ncv barely above ncomp.
// Eigen assertions are turned into exceptions so that an out-of-range block (stale cache) is an observable outcome, not an abort.
#include <stdexcept>
struct EigenAssertError : std::logic_error { using std::logic_error::logic_error; };
#define eigen_assert(x) do { if (!(x)) throw EigenAssertError(#x); } while (false)
#include "common.h"
#include <Eigen/Core>
#include <Eigen/SparseCore>
#include <Eigen/QR>
#include <Eigen/Eigenvalues>
struct SpectraVerifAccess;
#include <Spectra/contrib/PartialSVDSolver.h>
using namespace vh;
using namespace Spectra;
typedef Eigen::MatrixXd Mat; typedef Eigen::VectorXd Vec;
typedef Eigen::Matrix<double, Eigen::Dynamic, Eigen::Dynamic, Eigen::RowMajor> RMat;
typedef Eigen::SparseMatrix<double> SpMat; typedef Eigen::SparseMatrix<double, Eigen::RowMajor> RSpMat;
typedef long double LD;
typedef Eigen::Matrix<LD, Eigen::Dynamic, Eigen::Dynamic> LMat;

struct SpectraVerifAccess {
    template <class S> static auto eigs(S& s) -> decltype(*s.m_eigs)& { return *s.m_eigs; }
    template <class S> static long nconv(S& s) { return (long) s.m_nconv; }
    template <class S> static long ecols(S& s) { return (long) s.m_evecs.cols(); }
    template <class S> static Mat evecs(S& s) { return s.m_evecs; }
    template <class S> static long mm(S& s) { return (long) s.m_m; }
    template <class S> static long nn(S& s) { return (long) s.m_n; }
    template <class E> static Vec ritz_val(E& e) { return e.m_ritz_val; }
    template <class E> static std::vector<int> ritz_conv(E& e) { std::vector<int> r; for (long i = 0; i < e.m_ritz_conv.size(); i++) r.push_back(e.m_ritz_conv[i] ? 1 : 0); return r; }
    template <class E> static Mat facH(E& e) { return e.m_fac.matrix_H(); }
    template <class E> static long nev(E& e) { return (long) e.m_nev; }
    template <class E> static long ncv(E& e) { return (long) e.m_ncv; }
    template <class E> static long dim(E& e) { return (long) e.m_n; }
};
typedef SpectraVerifAccess AX;
// Lean's Float.toBits canonicalises NaN: print every NaN as the canonical quiet NaN
static inline uint64_t cbits(double x) { return std::isnan(x) ? 0x7FF8000000000000ull : vh::dbits(x); }

// ---------------------------------------------------------------- reference SVD: one-sided Jacobi in long double
static std::vector<LD> jacobi_svals(const Mat& A0) {
    LMat G = (A0.rows() >= A0.cols()) ? LMat(A0.cast<LD>()) : LMat(A0.transpose().cast<LD>());
    const long n = G.cols();
    for (int sweep = 0; sweep < 80; sweep++) {
        bool rotated = false;
        for (long p = 0; p < n; p++) for (long q = p + 1; q < n; q++) {
            LD a = G.col(p).squaredNorm(), b = G.col(q).squaredNorm(), c = G.col(p).dot(G.col(q));
            if (c == 0 || std::fabs(c) <= 1e-19L * std::sqrt(a * b)) continue;
            rotated = true;
            LD zeta = (b - a) / (2 * c), t = (zeta >= 0 ? 1 : -1) / (std::fabs(zeta) + std::sqrt(1 + zeta * zeta));
            LD cs = 1 / std::sqrt(1 + t * t), sn = cs * t;
            for (long i = 0; i < G.rows(); i++) { LD x = G(i, p), y = G(i, q); G(i, p) = cs * x - sn * y; G(i, q) = sn * x + cs * y; }
        }
        if (!rotated) break;
    }
    std::vector<LD> s; for (long j = 0; j < n; j++) s.push_back(G.col(j).norm());
    std::sort(s.begin(), s.end(), [](LD x, LD y) { return x > y; });
    return s;
}

// ---------------------------------------------------------------- matrix variants
template <class MT> struct Conv;
template <> struct Conv<Mat> { static Mat make(const Mat& A) { return A; } static const char* name() { return "dense-col"; } };
template <> struct Conv<RMat> { static RMat make(const Mat& A) { return A; } static const char* name() { return "dense-row"; } };
template <> struct Conv<SpMat> { static SpMat make(const Mat& A) { SpMat S = A.sparseView(); S.makeCompressed(); return S; } static const char* name() { return "sparse-col"; } };
template <> struct Conv<RSpMat> { static RSpMat make(const Mat& A) { RSpMat S = A.sparseView(); S.makeCompressed(); return S; } static const char* name() { return "sparse-row"; } };

static std::string bits_of(const Mat& M) { std::string s; for (long j = 0; j < M.cols(); j++) for (long i = 0; i < M.rows(); i++) { s += " "; s += str(cbits(M(i, j))); } return s; }
static std::string bits_of(const Vec& v) { std::string s; for (long i = 0; i < v.size(); i++) { s += " "; s += str(cbits(v[i])); } return s; }

// explicit left-to-right products, the loops of Lin.Mat.mulVec / SVD.tmulVec in the model (first term, then += in index order)
static Vec naive_mul(const Mat& A, const Vec& x) { Vec y(A.rows()); for (long i = 0; i < A.rows(); i++) { double acc = 0.0; for (long j = 0; j < A.cols(); j++) { double t = A(i, j) * x[j]; acc = (j == 0) ? t : acc + t; } y[i] = acc; } return y; }
static Vec naive_tmul(const Mat& A, const Vec& x) { Vec y(A.cols()); for (long j = 0; j < A.cols(); j++) { double acc = 0.0; for (long i = 0; i < A.rows(); i++) { double t = A(i, j) * x[i]; acc = (i == 0) ? t : acc + t; } y[j] = acc; } return y; }
// componentwise agreement of an Eigen product with the explicit loop: |f - g| <= 8 (d + 2) eps (|B| |x|)_i  (+ tiny absolute floor)
static bool prod_close(const Vec& f, const Vec& g, const Vec& absbound, long d) {
    if (f.size() != g.size()) return false;
    for (long i = 0; i < f.size(); i++) {
        if (!std::isfinite(g[i])) continue;           // a non-finite loop result is compared through the canonical NaN column only
        if (!std::isfinite(f[i])) return false;        // ... but the library must not return a non-finite entry where the explicit loop is finite
        if (!(std::fabs(f[i] - g[i]) <= 8.0 * (double) (d + 2) * 2.220446049250313e-16 * absbound[i] + 1e-300)) return false;
    }
    return true;
}
static bool has_nan(const Vec& v) { for (long i = 0; i < v.size(); i++) if (std::isnan(v[i])) return true; return false; }
static std::string nan_col(long n) { std::string s; for (long i = 0; i < n; i++) s += " 9221120237041090560"; return s; }

// ---------------------------------------------------------------- generators
struct Gen { Mat A; std::string kind; int rankdef = 0; };
static Mat rand_orth(Rng& r, int n) { Mat X(n, n); for (int i = 0; i < n; i++) for (int j = 0; j < n; j++) X(i, j) = r.sym(); Eigen::HouseholderQR<Mat> qr(X); Mat Q = qr.householderQ(); return Q; }
static Gen gen_matrix(Rng& r, int m, int n, int kindsel) {
    Gen g; g.A = Mat::Zero(m, n); int d = std::min(m, n);
    switch (kindsel) {
    case 0: g.kind = "random"; for (int i = 0; i < m; i++) for (int j = 0; j < n; j++) g.A(i, j) = r.sym(); break;
    case 1: g.kind = "smallint-sparse"; for (int i = 0; i < m; i++) for (int j = 0; j < n; j++) g.A(i, j) = r.coin(0.45) ? (double) r.range(-3, 3) : 0.0;
            for (int i = 0; i < d; i++) g.A(i, i) += (double) (i + 2); break;     // no zero row/column pattern trouble: still arbitrary
    case 2: { g.kind = "graded"; Mat U = rand_orth(r, m), V = rand_orth(r, n); double decades = r.pick(std::vector<double>{1.0, 2.0, 3.0});
            for (int k = 0; k < d; k++) { double s = std::pow(10.0, -decades * k / std::max(1, d - 1)) * (1.0 + 0.3 * r.unit()); g.A += s * U.col(k) * V.col(k).transpose(); } break; }
    case 3: { g.kind = "rankdef-int"; g.rankdef = 1; int rk = r.range(1, std::max(1, d - 1)); Mat B(m, rk), C(rk, n);
            for (int i = 0; i < m; i++) for (int k = 0; k < rk; k++) B(i, k) = (double) r.range(-2, 2);
            for (int k = 0; k < rk; k++) for (int j = 0; j < n; j++) C(k, j) = (double) r.range(-2, 2);
            g.A = B * C; break; }
    case 4: { g.kind = "rankdef-real"; g.rankdef = 1; int rk = r.range(1, std::max(1, d - 1)); Mat B(m, rk), C(rk, n);
            for (int i = 0; i < m; i++) for (int k = 0; k < rk; k++) B(i, k) = r.sym();
            for (int k = 0; k < rk; k++) for (int j = 0; j < n; j++) C(k, j) = r.sym();
            g.A = B * C; break; }
    default: { g.kind = "rankdef-dupcols"; g.rankdef = 1; for (int i = 0; i < m; i++) for (int j = 0; j < n; j++) g.A(i, j) = (j % 2 == 0 || j == 0) ? r.sym() : 0.0;
            for (int j = 1; j < n; j++) if (j % 2 == 1) g.A.col(j) = g.A.col(j - 1);
            if (m <= n) { for (int i = 1; i < m; i += 2) g.A.row(i) = g.A.row(i - 1); } break; }
    }
    return g;
}

struct OpSpec { char op; long k; long maxit; double tol; };
static std::string ops_text(const std::vector<OpSpec>& ops) { std::string s; for (auto& o : ops) { if (!s.empty()) s += "; "; if (o.op == 'C') { std::ostringstream t; t << "C " << o.maxit << " " << o.tol; s += t.str(); } else if (o.op == 'S') s += "S"; else s += std::string(1, o.op) + " " + str(o.k); } return s; }

struct CaseId { uint64_t seed; int stream; long idx; std::string tier; };
static int g_abs_regime = 0;  // eps*sqrt(d) > 100 (tol + 1e-13) sigma_k^2: the inner solver's ABSOLUTE breakdown threshold eps*sqrt(n) on the residual of A'A is coarser than the requested relative accuracy of the smallest requested eigenvalue sigma_k^2
static int g_init_orth = 0;   // 10 eps (sigma_1/sigma_2)^2 > tol + 1e-13: Arnoldi::init starts from B*r (close to the dominant eigenvector when it is well separated) and does not re-orthogonalise the first residual, so v2 has an O(eps*theta_1/theta_2) component along v1
static int g_gram_tiny = 0;   // ||A||^2 < eps^(2/3): the scale below which the inner solver's convergence test and breakdown thresholds are absolute
static std::string replay_json(const CaseId& c, const std::string& variant, long m, long n, long ncomp, long ncv, const std::vector<OpSpec>& ops, int stale, int rankdef, const std::string& kind, long opno) {
    std::ostringstream o; o << "{\"harness\":\"c16\",\"seed\":" << c.seed << ",\"stream\":" << c.stream << ",\"idx\":" << c.idx << ",\"tier\":\"" << c.tier << "\",\"variant\":\"" << variant
      << "\",\"m\":" << m << ",\"n\":" << n << ",\"ncomp\":" << ncomp << ",\"ncv\":" << ncv << ",\"matrix_kind\":\"" << kind << "\",\"rank_deficient\":" << rankdef
      << ",\"abs_breakdown_threshold_regime\":" << g_abs_regime << ",\"init_orth_loss_regime\":" << g_init_orth << ",\"gram_norm_below_eps23\":" << g_gram_tiny << ",\"cache_filled_before_last_compute\":" << stale << ",\"failing_op_index\":" << opno << ",\"ops\":\"" << jesc(ops_text(ops)) << "\"}";
    return o.str();
}

static LD maxabs(const LMat& M) { return M.size() ? M.cwiseAbs().maxCoeff() : 0; }

// every value handed back as converged (also when fewer than ncomp converged) is a singular value of A: a Ritz pair (theta, x) of B = A'A
// (or AA') accepted at tolerance tol has ||B x - theta x|| < tol*theta, so an eigenvalue sigma^2 of B lies within tol*theta of theta = s^2 and
// |sigma - s| <= tol*s^2/(sigma + s) <= tol*s <= tol*||A||.  Graded with the constant of the positional check: (100 tol + 1e-9) ||A||, values above 1e-4 ||A||.
static bool genuine_values(const Vec& s, const std::vector<LD>& sref, LD nA, double tol, long ret, long ncomp, Out& out, std::string& what) {
    for (long i = 0; i < s.size(); i++) {
        if (!((LD) s[i] > 1e-4L * nA)) continue;
        LD dist = 1e300L; long at = -1; for (size_t j = 0; j < sref.size(); j++) { LD dd = std::fabs((LD) s[i] - sref[j]); if (dd < dist) { dist = dd; at = (long) j; } }
        out.count("oracle_value_genuine");
        if (!(dist <= (100.0L * tol + 1e-9L) * nA)) {
            std::ostringstream w; w << "returned singular value " << i << " = " << s[i] << " (of " << ret << " reported converged, ncomp=" << ncomp << ") is not a singular value of A: nearest reference value " << (at >= 0 ? (double) sref[at] : 0.0) << " is " << (double) dist << " away (||A||=" << (double) nA << ", tol=" << tol << ")";
            what = w.str(); return false;
        }
    }
    return true;
}

// run one history on the real class of matrix type MT; writes one correspondence line and evaluates the oracle
template <class MT>
static void run_history(const CaseId& cid, const Gen& g, long ncomp, long ncv, const std::vector<OpSpec>& ops, Out& out, bool do_corr, int vals) {
    const bool values_oracle = (vals & 1) != 0, genuine_oracle = (vals & 3) != 0;
    const Mat& A = g.A; const long m = A.rows(), n = A.cols(), d = std::min(m, n);
    const std::string variant = Conv<MT>::name();
    MT Am = Conv<MT>::make(A);
    std::vector<LD> sref = jacobi_svals(A); const LD nA = sref.empty() ? 0 : sref[0];
    g_gram_tiny = (nA * nA < 3.7e-11L) ? 1 : 0;
    { std::ofstream lc(out.dir + "/lastcase.txt"); lc << replay_json(cid, variant, m, n, ncomp, ncv, ops, 0, g.rankdef, g.kind, -1); }
    PartialSVDSolver<MT> svd(Am, ncomp, ncv);
    auto& eg = AX::eigs(svd);
    const long ncv_eff = AX::ncv(eg);
    std::string req = "svd " + variant + " " + str(m) + " " + str(n) + " " + str(ncomp) + " " + str(ncv) + bits_of(A);
    std::string resp;
    bool have = false; bool filled = false; bool stale = false; long last_ret = -1; long last_maxit = 0; double last_tol = 0; int ncompute = 0;
    auto tail = [&]() { return std::string(have ? "nconv=" + str(AX::nconv(svd)) : "nconv=?") + " ec=" + str(AX::ecols(svd)); };
    auto addresp = [&](const std::string& s) { if (!resp.empty()) resp += " ; "; resp += s; };
    LD sigk = nA; for (long i = 0; i < ncomp && i < (long) sref.size(); i++) if (sref[i] > 1e-4L * nA) sigk = std::min(sigk, sref[i]);
    const LD gapratio = (sref.size() >= 2 && sref[1] > 0) ? (sref[0] / sref[1]) : (LD) 1e300;
    auto rj = [&](long opno) { g_init_orth = (10.0L * 2.220446049250313e-16L * gapratio * gapratio > (LD) last_tol + 1e-13L) ? 1 : 0; g_abs_regime = (2.220446049250313e-16L * std::sqrt((LD) d) > 100.0L * ((LD) last_tol + 1e-13L) * sigk * sigk) ? 1 : 0; return replay_json(cid, variant, m, n, ncomp, ncv, ops, stale ? 1 : 0, g.rankdef, g.kind, opno); };
    for (size_t oi = 0; oi < ops.size(); oi++) {
        const OpSpec& o = ops[oi];
        if (o.op == 'C') {
            int exn = 0; long ret = -1; std::string ex;
            try { ret = svd.compute(o.maxit, o.tol); }
            catch (const std::invalid_argument&) { exn = 1; ex = "std::invalid_argument"; }
            catch (const EigenAssertError& e) { exn = 3; ex = std::string("eigen-assert ") + e.what(); }
            catch (const std::runtime_error&) { exn = 2; ex = "std::runtime_error"; }
            catch (const std::logic_error&) { exn = 2; ex = "std::logic_error"; }
            out.count("op_compute"); ncompute++;
            if (exn == 3) { out.fail("svd-compute-assert", "Eigen assertion inside compute(): " + ex, rj(oi)); return; }
            // record what the inner solver holds now
            Vec rv = AX::ritz_val(eg); std::vector<int> fl = AX::ritz_conv(eg); Mat ev = eg.eigenvectors();
            req += " C " + str(o.maxit) + " " + str(cbits(o.tol)) + " " + str(exn);
            for (long i = 0; i < ncomp; i++) req += " " + str(cbits(i < rv.size() ? rv[i] : 0.0));
            for (long i = 0; i < ncomp; i++) req += std::string(" ") + ((i < (long) fl.size() && fl[i]) ? "1" : "0");
            // the Ritz values the selection rule did NOT pick: eigenvalues of the final projected matrix H (harness-side solver) minus the
            // stored first nev ones.  They only steer the model's selection (LargestAlge over all ncv values must pick the stored head):
            // a value within 1e-8*||H|| of the stored range is replaced by the stored minimum (no decision hinges on a near-tie).
            {
                std::vector<double> others;
                if (exn == 0) {
                    Mat H = AX::facH(eg); bool fin = H.allFinite() && rv.head(ncomp).allFinite();
                    if (fin && H.rows() == ncv_eff && H.cols() == ncv_eff) {
                        Mat Hs = 0.5 * (H + H.transpose()); Eigen::SelfAdjointEigenSolver<Mat> es(Hs, Eigen::EigenvaluesOnly);
                        std::vector<double> all(es.eigenvalues().data(), es.eigenvalues().data() + ncv_eff);
                        for (long i = 0; i < ncomp; i++) { long best = -1; double bd = 0; for (size_t q = 0; q < all.size(); q++) { double dd = std::fabs(all[q] - rv[i]); if (best < 0 || dd < bd) { best = (long) q; bd = dd; } } if (best >= 0) all.erase(all.begin() + best); }
                        double hmin = rv.head(ncomp).minCoeff(), hmax = rv.head(ncomp).maxCoeff(), margin = 1e-8 * Hs.cwiseAbs().maxCoeff();
                        for (double o2 : all) others.push_back((o2 < hmin - margin || o2 > hmax + margin) ? o2 : hmin);
                        out.count("selection_tail_recorded");
                    }
                }
                req += " " + str(others.size()); for (double o2 : others) req += " " + str(cbits(o2));
            }
            req += " " + str(ev.cols()) + bits_of(ev);
            if (exn == 0) {
                have = true; if (filled) stale = true; last_ret = ret; last_maxit = o.maxit; last_tol = o.tol;
                addresp("ret=" + str(ret) + " " + tail());
                out.count(ret == ncomp ? "compute_all_converged" : (ret == 0 ? "compute_none_converged" : "compute_partly_converged"));
                // a converged pair BEHIND an unconverged one (the flag-selected columns are not the leading ones)
                { bool gap = false, hole = false; for (long i = 0; i < ncomp && i < (long) fl.size(); i++) { if (!fl[i]) gap = true; else if (gap) hole = true; } if (hole) out.count("compute_partly_converged_with_hole"); }
                // counts: return value = m_nconv = eigenvalues().size() = eigenvectors().cols() <= ncomp
                long ne = eg.eigenvalues().size();
                if (!(ret == AX::nconv(svd) && ret == ne && ret == ev.cols() && ret <= ncomp && ret >= 0))
                    out.fail("svd-counts", "compute() returned " + str(ret) + " but m_nconv=" + str(AX::nconv(svd)) + ", eigenvalues().size()=" + str(ne) + ", eigenvectors().cols()=" + str(ev.cols()), rj(oi));
                out.count("oracle_counts");
            } else { addresp("exn=" + ex + " " + tail()); out.count("compute_threw_" + ex); { std::ofstream ef(out.dir + "/compute_exceptions.txt", std::ios::app); ef << rj(oi) << "\n"; } }
        } else if (o.op == 'S') {
            Vec s = svd.singular_values(); out.count("op_singular_values");
            req += " S"; addresp("len=" + str(s.size()) + bits_of(s));
            if (have) {
                out.count("oracle_values");
                if (s.size() != last_ret) out.fail("svd-counts", "singular_values() has " + str(s.size()) + " entries, compute() returned " + str(last_ret), rj(oi));
                bool fin = true, nonneg = true, ord = true; std::string w_gen;
                for (long i = 0; i < s.size(); i++) { if (!std::isfinite(s[i])) fin = false; if (!(s[i] >= 0)) nonneg = false; if (i > 0 && !(s[i] <= s[i - 1])) ord = false; }
                if (!fin || !nonneg) { std::ostringstream w; w << "singular value not finite / not non-negative:"; Vec lam = eg.eigenvalues(); for (long i = 0; i < s.size(); i++) w << " sqrt(" << lam[i] << ")=" << s[i]; out.fail("svd-nan", w.str(), rj(oi)); }
                else if (!ord) out.fail("svd-order", "singular values not non-increasing", rj(oi));
                else if (genuine_oracle && !genuine_values(s, sref, nA, last_tol, last_ret, ncomp, out, w_gen)) out.fail("svd-value", w_gen, rj(oi));
                else if (genuine_oracle && !values_oracle && last_ret == ncomp) {
                    // informational only (streams 6/7 grade genuineness, not position): all ncomp pairs passed the solver's test, yet a larger singular value of A
                    // is absent (second copy of a cluster / hidden leading vector not yet picked up by the single-vector Krylov space)
                    bool missed = false; for (long i = 0; i < s.size() && i < (long) sref.size(); i++) if (sref[i] - (LD) s[i] > 1e-3L * nA) missed = true;
                    out.count(missed ? "all_converged_genuine_but_a_larger_value_absent" : "all_converged_are_the_largest");
                }
                else if (values_oracle && last_ret == ncomp) {
                    // all requested values converged: the i-th value is the i-th largest singular value, to 100*tol*||A|| + 1e-9*||A||
                    // (only positions whose reference value is above 1e-4||A|| and separated from its neighbours by more than 1e-6||A||)
                    for (long i = 0; i < s.size(); i++) {
                        if (!(sref[i] > 1e-4L * nA)) continue;
                        bool sep = (i == 0 || sref[i - 1] - sref[i] > 1e-6L * nA) && (i + 1 >= (long) sref.size() || sref[i] - sref[i + 1] > 1e-6L * nA);
                        if (!sep) { out.count("values_skipped_cluster"); continue; }
                        out.count("oracle_value_match");
                        LD err = std::fabs((LD) s[i] - sref[i]);
                        if (!(err <= (100.0L * last_tol + 1e-9L) * nA)) { std::ostringstream w; w << "singular value " << i << " = " << s[i] << " differs from reference " << (double) sref[i] << " by " << (double) err << " (||A||=" << (double) nA << ", tol=" << last_tol << ")"; out.fail("svd-value", w.str(), rj(oi)); }
                    }
                }
            }
        } else {
            const bool isU = o.op == 'U';
            if (!have) { out.count("op_factor_skipped_before_first_successful_compute"); continue; }   // m_nconv is uninitialised until compute() returns: calling would be UB
            out.count(isU ? "op_matrix_U" : "op_matrix_V");
            req += std::string(" ") + o.op + " " + str(o.k);
            Mat F; bool asserted = false; std::string aw;
            try { F = isU ? svd.matrix_U(o.k) : svd.matrix_V(o.k); } catch (const EigenAssertError& e) { asserted = true; aw = e.what(); }
            if (have && last_ret >= 1 && !filled) filled = true;      // the cache holds >= 1 column from now on
            else if (have && AX::ecols(svd) >= 1) filled = true;
            if (asserted) {
                addresp("assert " + tail());
                out.fail(stale ? "svd-stale-cache" : "svd-assert", std::string("matrix_") + o.op + "(" + str(o.k) + ") hit an Eigen assertion (out-of-range block; undefined behaviour under NDEBUG): m_nconv=" + str(AX::nconv(svd)) + ", cached columns=" + str(AX::ecols(svd)) + " [" + aw.substr(0, 80) + "]", rj(oi));
                continue;
            }
            {
                const bool tallA = m > n; const bool computed = (isU == tallA);
                std::string body = "rows=" + str(F.rows()) + " cols=" + str(F.cols());
                if (!computed) {
                    for (long j = 0; j < F.cols(); j++) { Vec c = F.col(j); body += has_nan(c) ? nan_col(c.size()) : bits_of(c); }
                } else {
                    // the computed side is an Eigen product B * W, W = scaled_evecs(k): print the explicit-loop product of the
                    // SAME operands (bit-comparable with the model) and require the returned matrix to agree with it componentwise
                    Mat E = AX::evecs(svd); Vec sv = svd.singular_values(); bool ok = (E.cols() >= F.cols() && sv.size() >= F.cols());
                    Mat Aabs = A.cwiseAbs();
                    for (long j = 0; j < F.cols() && ok; j++) {
                        // scaled_evecs(): col / sigma_j for sigma_j > 0, the zero column otherwise (sigma = singular_values(), clamped)
                        Vec w = E.col(j); const double sj = sv[j]; if (sj > 0.0) { for (long i = 0; i < w.size(); i++) w[i] = w[i] / sj; } else w.setZero();
                        Vec g = isU ? naive_mul(A, w) : naive_tmul(A, w);
                        Vec wb = w.cwiseAbs(); Vec bnd = isU ? Vec(Aabs * wb) : Vec(Aabs.transpose() * wb);
                        Vec f = F.col(j);
                        if (has_nan(g) || has_nan(w)) body += nan_col(g.size());
                        else { body += bits_of(g); if (!prod_close(f, g, bnd, isU ? n : m)) ok = false; }
                    }
                    body += ok ? " prod=ok" : " prod=BAD"; out.count(ok ? "product_checks_ok" : "product_checks_bad");
                }
                addresp(body + " " + tail());
            }
            if (!have) continue;
            out.count("oracle_factor_counts");
            const long want_cols = std::min(o.k, last_ret), want_rows = isU ? m : n;
            if (F.cols() != want_cols || F.rows() != want_rows) { out.fail("svd-counts", std::string("matrix_") + o.op + "(" + str(o.k) + ") is " + str(F.rows()) + "x" + str(F.cols()) + ", expected " + str(want_rows) + "x" + str(want_cols), rj(oi)); continue; }
            // finiteness of the factors (rank-deficient input: the column of a zero singular value must not be NaN/inf)
            out.count("oracle_factor_finite");
            if (F.size() > 0 && !F.allFinite()) { out.fail("svd-nan", std::string("matrix_") + o.op + "(" + str(o.k) + ") contains non-finite entries (division by a zero / NaN singular value)", rj(oi)); continue; }
            // latest-compute: a fresh object given only the most recent compute() arguments must return the same factor
            // (init() uses a fixed seed, so the inner solver is deterministic: bit-for-bit)
            if (ncompute >= 2) {
                out.count("oracle_latest");
                MT Af = Conv<MT>::make(A); PartialSVDSolver<MT> fresh(Af, ncomp, ncv); fresh.compute(last_maxit, last_tol);
                Mat Ff;
                try { Ff = isU ? fresh.matrix_U(o.k) : fresh.matrix_V(o.k); }
                catch (const EigenAssertError& e) { out.fail("svd-assert", std::string("a FRESH solver given the latest compute() arguments hit an Eigen assertion in matrix_") + o.op + "(" + str(o.k) + ") (undefined behaviour under NDEBUG): nconv=" + str(AX::nconv(fresh)) + ", cached columns=" + str(AX::ecols(fresh)) + " [" + std::string(e.what()).substr(0, 80) + "]", rj(oi)); continue; }
                bool same = Ff.rows() == F.rows() && Ff.cols() == F.cols();
                double md = 0; if (same) for (long j = 0; j < F.cols(); j++) for (long i = 0; i < F.rows(); i++) { if (cbits(F(i, j)) != cbits(Ff(i, j))) same = false; md = std::max(md, std::fabs(F(i, j) - Ff(i, j))); }
                if (!same) { std::ostringstream w; w << "matrix_" << o.op << "(" << o.k << ") after compute #" << ncompute << " differs from what a fresh solver returns for the same (latest) compute arguments: max |diff| = " << md << (stale ? " (eigenvector cache was filled before the latest compute)" : ""); out.fail(stale ? "svd-stale-cache" : "svd-latest", w.str(), rj(oi)); continue; }
            }
            // (until the fix d08c57f the identities below were skipped when the cache predated the last compute(): they failed as a consequence of F4)
            // factor identities on the columns whose singular value exceeds 1e-4 ||A||
            Vec s = svd.singular_values(); long kk = 0; while (kk < F.cols() && kk < s.size() && std::isfinite(s[kk]) && (LD) s[kk] > 1e-4L * nA) kk++;
            if (kk == 0) continue;
            Mat U, V;
            try { U = svd.matrix_U(kk); V = svd.matrix_V(kk); }
            catch (const EigenAssertError& e) { out.fail(stale ? "svd-stale-cache" : "svd-assert", "matrix_U(" + str(kk) + ") / matrix_V(" + str(kk) + ") hit an Eigen assertion (undefined behaviour under NDEBUG): m_nconv=" + str(AX::nconv(svd)) + ", cached columns=" + str(AX::ecols(svd)) + " [" + std::string(e.what()).substr(0, 80) + "]", rj(oi)); continue; }
            if (U.cols() != kk || V.cols() != kk) continue;
            out.count("oracle_identities");
            LMat Ul = U.cast<LD>(), Vl = V.cast<LD>(), Al = A.cast<LD>(); LMat Sl = LMat::Zero(kk, kk); for (long i = 0; i < kk; i++) Sl(i, i) = s[i];
            LD kappa = nA / (LD) s[kk - 1]; LD tt = (LD) last_tol + 1e-13L;
            LD eU = maxabs(Ul.transpose() * Ul - LMat::Identity(kk, kk)), eV = maxabs(Vl.transpose() * Vl - LMat::Identity(kk, kk));
            LD eAV = maxabs(Al * Vl - Ul * Sl), eAtU = maxabs(Al.transpose() * Ul - Vl * Sl);
            LD bOrth = 100.0L * tt * kappa * kappa, bRes = 100.0L * tt * kappa * nA;
            if (!(eU <= bOrth) || !(eV <= bOrth) || !(eAV <= bRes) || !(eAtU <= bRes)) {
                std::ostringstream w; w << "factor identities violated for k=" << kk << ": |U'U-I|=" << (double) eU << " |V'V-I|=" << (double) eV << " (bound " << (double) bOrth << ") |AV-US|=" << (double) eAV << " |A'U-VS|=" << (double) eAtU << " (bound " << (double) bRes << "), tol=" << last_tol << " ||A||=" << (double) nA << " cond=" << (double) kappa;
                out.fail("svd-factors", w.str(), rj(oi));
            }
        }
    }
    (void) ncv_eff;
    if (do_corr) out.corr(req, resp);
}

// ---------------------------------------------------------------- case streams
static std::vector<OpSpec> gen_ops(Rng& r, long ncomp, bool allow_recompute) {
    std::vector<OpSpec> ops;
    const std::vector<long> maxits = {1000, 1000, 1000, 300, 3, 2, 1, 0};
    const std::vector<double> tols = {1e-10, 1e-10, 1e-12, 1e-8, 1e-6, 1e-3};
    int ncomp_calls = allow_recompute ? r.pick(std::vector<int>{1, 1, 2, 2, 3}) : 1;
    for (int c = 0; c < ncomp_calls; c++) {
        OpSpec o{'C', 0, c == 0 ? r.pick(std::vector<long>{1000, 1000, 1000, 300, 2, 1}) : r.pick(maxits), r.pick(tols)}; ops.push_back(o);
        int nacc = r.range(1, 4);
        for (int a = 0; a < nacc; a++) {
            int w = r.range(0, 4);
            if (w == 0) ops.push_back(OpSpec{'S', 0, 0, 0});
            else ops.push_back(OpSpec{w % 2 ? 'U' : 'V', (long) r.range(0, (int) ncomp + 2), 0, 0});
        }
        if (c == 0 || r.coin(0.5)) ops.push_back(OpSpec{'S', 0, 0, 0});
    }
    return ops;
}

template <class F> static void with_variant(int v, F f) { }
static void run_variant(int v, const CaseId& cid, const Gen& g, long ncomp, long ncv, const std::vector<OpSpec>& ops, Out& out, bool corr, int vals) {
    switch (v) {
    case 0: run_history<Mat>(cid, g, ncomp, ncv, ops, out, corr, vals); break;
    case 1: run_history<RMat>(cid, g, ncomp, ncv, ops, out, corr, vals); break;
    case 2: run_history<SpMat>(cid, g, ncomp, ncv, ops, out, corr, vals); break;
    default: run_history<RSpMat>(cid, g, ncomp, ncv, ops, out, corr, vals); break;
    }
}

static void shape(Rng& r, int maxd, int& m, int& n) {
    int a = r.range(2, r.coin(0.7) ? std::min(maxd, 9) : maxd), b = a + r.range(1, r.coin(0.7) ? 4 : std::max(4, maxd / 2));
    int sh = r.range(0, 2);
    if (sh == 0) { m = b; n = a; } else if (sh == 1) { m = a; n = b; } else { m = n = std::max(a, 2); }
}

// stream 1: random histories
static void case_history(const CaseId& cid, Out& out) {
    Rng r(cid.seed, 161, cid.idx); const bool th = cid.tier == "thorough";
    int m, n; shape(r, th ? 40 : 14, m, n); int d = std::min(m, n);
    int kind = r.pick(std::vector<int>{0, 0, 1, 2, 2, 3, 4}); Gen g = gen_matrix(r, m, n, kind);
    long ncomp = r.range(1, std::max(1, std::min(d - 1, 6))); long ncv = r.coin(0.3) ? d : r.range((int) ncomp + 1, d);
    int variant = r.range(0, 3);
    std::vector<OpSpec> ops = gen_ops(r, ncomp, true);
    out.count(std::string("shape_") + (m > n ? "tall" : (m < n ? "wide" : "square"))); out.count("kind_" + g.kind); out.count(std::string("variant_") + str(variant));
    run_variant(variant, cid, g, ncomp, ncv, ops, out, true, (!g.rankdef && kind != 1) ? 1 : 0);
}

// stream 2: operator classes
template <class MT> static void op_case(const Mat& A, const Vec& x, bool tall, Out& out) {
    MT Am = Conv<MT>::make(A); Vec y(x.size()); long dim;
    if (tall) { SVDTallMatOp<double, MT> op(Am); op.perform_op(x.data(), y.data()); dim = op.rows(); if (op.cols() != dim) out.fail("svd-op", "rows() != cols()", "{\"harness\":\"c16\"}"); }
    else { SVDWideMatOp<double, MT> op(Am); op.perform_op(x.data(), y.data()); dim = op.rows(); if (op.cols() != dim) out.fail("svd-op", "rows() != cols()", "{\"harness\":\"c16\"}"); }
    // explicit-loop result of the same product (bit-comparable with the model); the real result must agree with it componentwise
    Vec g = tall ? naive_tmul(A, naive_mul(A, x)) : naive_mul(A, naive_tmul(A, x));
    Mat Aabs = A.cwiseAbs(); Vec xb = x.cwiseAbs(); Vec bnd = tall ? Vec(Aabs.transpose() * (Aabs * xb)) : Vec(Aabs * (Aabs.transpose() * xb));
    bool pok = prod_close(y, g, bnd, A.rows() + A.cols());
    out.corr(std::string("op ") + (tall ? "T " : "W ") + Conv<MT>::name() + " " + str(A.rows()) + " " + str(A.cols()) + bits_of(A) + bits_of(x), "dim=" + str(dim) + bits_of(g) + (pok ? " prod=ok" : " prod=BAD"));
    // oracle: y = A'A x resp. AA' x in long double, to 8 * n * eps * ||A||^2 ||x|| entrywise (generous)
    LMat Al = A.cast<LD>(); Eigen::Matrix<LD, Eigen::Dynamic, 1> xl = x.cast<LD>(), yl = tall ? (Al.transpose() * (Al * xl)).eval() : (Al * (Al.transpose() * xl)).eval();
    LD sc = Al.cwiseAbs().maxCoeff(); sc = sc * sc * (LD) A.rows() * (LD) A.cols() * (xl.size() ? xl.cwiseAbs().maxCoeff() : 0);
    LD err = 0; for (long i = 0; i < y.size(); i++) err = std::max(err, std::fabs((LD) y[i] - yl[i]));
    out.count("oracle_op");
    if (!(err <= 64 * 2.3e-16L * sc + 1e-300L)) { std::ostringstream w; w << "perform_op deviates from the exact product by " << (double) err; out.fail("svd-op", w.str(), "{\"harness\":\"c16\",\"op\":\"perform_op\"}"); }
}
static void case_op(const CaseId& cid, Out& out) {
    Rng r(cid.seed, 162, cid.idx); const bool th = cid.tier == "thorough";
    int m, n; shape(r, th ? 60 : 20, m, n); bool tall = m > n; if (m == n) tall = r.coin();
    // the operator classes are shape-agnostic (the solver picks by shape); x has cols() entries for Tall, rows() for Wide
    Gen g = gen_matrix(r, m, n, r.pick(std::vector<int>{0, 1, 2, 3}));
    Vec x(tall ? n : m); for (long i = 0; i < x.size(); i++) x[i] = r.coin(0.1) ? 0.0 : r.sym();
    int v = r.range(0, 3); out.count(std::string("opcase_") + (tall ? "tall" : "wide") + "_v" + str(v));
    { std::ofstream lc(out.dir + "/lastcase.txt"); lc << "{\"harness\":\"c16\",\"seed\":" << cid.seed << ",\"stream\":2,\"idx\":" << cid.idx << "}"; }
    switch (v) { case 0: op_case<Mat>(g.A, x, tall, out); break; case 1: op_case<RMat>(g.A, x, tall, out); break; case 2: op_case<SpMat>(g.A, x, tall, out); break; default: op_case<RSpMat>(g.A, x, tall, out); }
}

// stream 3: rank-deficient inputs, requesting as many values as the rank or more: finiteness / non-negativity / order / counts
static void case_rankdef(const CaseId& cid, Out& out) {
    Rng r(cid.seed, 163, cid.idx); const bool th = cid.tier == "thorough";
    int m, n; shape(r, th ? 30 : 12, m, n); int d = std::min(m, n); if (d < 3) { m += 2; n += 2; d += 2; }
    Gen g = gen_matrix(r, m, n, r.pick(std::vector<int>{3, 3, 4, 5}));
    if (r.coin(0.3)) g.A *= r.pick(std::vector<double>{1e-3, 1e3, 1e-8, 1e6});
    long ncomp = r.range(std::max(1, d / 2), d - 1); long ncv = r.coin(0.5) ? d : r.range((int) ncomp + 1, d);
    std::vector<OpSpec> ops = {OpSpec{'C', 0, r.pick(std::vector<long>{1000, 1000, 50, 5}), r.pick(std::vector<double>{1e-10, 1e-10, 1e-6, 1e-14})}, OpSpec{'S', 0, 0, 0}, OpSpec{'U', ncomp, 0, 0}, OpSpec{'V', ncomp, 0, 0}};
    out.count("rankdef_cases"); out.count("kind_" + g.kind);
    run_variant(r.range(0, 3), cid, g, ncomp, ncv, ops, out, cid.idx % 4 == 0, 0);
}

// stream 4: fixed witnesses of the cache defect F4 (repaired by d08c57f: these histories must now be silent): compute; matrix_V; compute with other maxit/tol; matrix_V
static void case_f4(const CaseId& cid, Out& out) {
    Rng r(12345, 164, cid.idx / 4);     // independent of VERIF_SEED: fixed inputs
    int shp = (int) (cid.idx % 4);
    int m = shp == 0 ? 9 : (shp == 1 ? 5 : (shp == 2 ? 7 : 12)), n = shp == 0 ? 5 : (shp == 1 ? 9 : (shp == 2 ? 7 : 6));
    Gen g = gen_matrix(r, m, n, 0);
    long ncomp = 3, ncv = 5;
    std::vector<OpSpec> ops;
    if (cid.idx % 2 == 0) ops = {OpSpec{'C', 0, 1000, 1e-10}, OpSpec{'V', 3, 0, 0}, OpSpec{'U', 3, 0, 0}, OpSpec{'C', 0, 1000, 1e-2}, OpSpec{'S', 0, 0, 0}, OpSpec{'V', 3, 0, 0}, OpSpec{'U', 3, 0, 0}};
    else ops = {OpSpec{'C', 0, 1, 1e-14}, OpSpec{'U', 3, 0, 0}, OpSpec{'C', 0, 1000, 1e-10}, OpSpec{'S', 0, 0, 0}, OpSpec{'U', 3, 0, 0}, OpSpec{'V', 2, 0, 0}};
    out.count("f4_witness_cases");
    run_variant((int) (cid.idx % 4), cid, g, ncomp, ncv, ops, out, true, 0);
}

// stream 5: full-rank matrices over many scales (the operator is A'A: its norm is ||A||^2)
static void case_scaled(const CaseId& cid, Out& out) {
    Rng r(cid.seed, 165, cid.idx); const bool th = cid.tier == "thorough";
    int m, n; shape(r, th ? 30 : 12, m, n); int d = std::min(m, n);
    Gen g = gen_matrix(r, m, n, r.pick(std::vector<int>{0, 0, 2}));
    double sc = r.pick(std::vector<double>{1e-8, 1e-7, 1e-6, 1e-5, 1e-3, 1e3, 1e6, 1e8}); g.A *= sc; g.kind += "-scaled";
    long ncomp = r.range(1, std::max(1, std::min(d - 1, 5))); long ncv = r.coin(0.4) ? d : r.range((int) ncomp + 1, d);
    std::vector<OpSpec> ops = {OpSpec{'C', 0, 1000, r.pick(std::vector<double>{1e-10, 1e-8, 1e-12})}, OpSpec{'S', 0, 0, 0}, OpSpec{'U', ncomp, 0, 0}, OpSpec{'V', ncomp, 0, 0}};
    std::ostringstream k; k << "scaled_cases_" << sc; out.count(k.str());
    run_variant(r.range(0, 3), cid, g, ncomp, ncv, ops, out, cid.idx % 4 == 0, 1);
}

// stream 6: runs that END partially converged (NotConverging): prescribed singular spectra with a tight cluster (relative gap 1e-9..1e-6) next to
// well separated values, optionally the leading singular vector (nearly) orthogonal to the start vector, small iteration budget, ncv barely above ncomp.
// PartialSVDSolver::compute() calls m_eigs->init(): the start vector is SimpleRandom<double>(0).random_vec(dim), dim = n (tall: operator A'A) or
// m (wide/square: operator AA'), and Arnoldi::init() begins the factorization with v1 = B r / ||B r||.  The eigenvector w_1 of B is invisible
// to the Krylov space exactly when w_1'r = 0 (then w_1'B^j r = 0 for every j), so A = P S W' (tall) resp. W S P' (wide/square) is built with the
// first column of the operator-side orthogonal factor W orthogonal to r up to delta in {0, 1e-8 .. 1e-3}.
static Vec solver_start_vector(long dim) { Spectra::SimpleRandom<double> rng(0); Vec r0 = rng.random_vec(dim); return r0; }
struct ClusterCase { Gen g; long ncomp = 1; std::string fam; double gap = 0, delta = -1, lead_on_start = 0; };
static ClusterCase gen_cluster(Rng& r, int m, int n, int fam) {
    ClusterCase c; const int d = std::min(m, n), big = std::max(m, n); const bool tall = m > n;
    const double gap = std::pow(10.0, -(6.0 + 3.0 * r.unit()));                      // relative gap of the cluster: 1e-9 .. 1e-6
    std::vector<double> head; bool hide = false;
    switch (fam) {
    case 0: c.fam = "top-pair"; head = {1.0, 1.0 - gap, 0.85}; c.ncomp = 3; break;                                 // two leading values resolved late, the third converges first
    case 1: c.fam = "hidden-lead"; head = {1.0, 0.9, 0.8, 0.8 * (1.0 - gap)}; c.ncomp = 2; hide = true; break;     // sigma_1 invisible at first; the pair below keeps the iteration going
    case 2: c.fam = "second-pair"; head = {1.0, 0.9, 0.9 * (1.0 - gap), 0.72}; c.ncomp = r.pick(std::vector<long>{3, 4}); hide = r.coin(0.3); break;
    case 3: c.fam = "top-triple"; head = {1.0, 1.0 - gap, 1.0 - 2.5 * gap, 0.8}; c.ncomp = r.pick(std::vector<long>{3, 4}); break;
    case 4: c.fam = "hidden-lead-pair"; head = {1.0, 0.95, 0.95 * (1.0 - gap), 0.8}; c.ncomp = r.pick(std::vector<long>{2, 3}); hide = true; break;
    default: c.fam = "hidden-lead-plain"; head = {1.0, 0.9, 0.8}; c.ncomp = r.pick(std::vector<long>{2, 2, 3}); hide = true; break;
    }
    c.gap = gap;
    std::vector<double> sv = head;
    { const double t0 = r.pick(std::vector<double>{0.75, 0.7, 0.65}), t1 = r.pick(std::vector<double>{0.3, 0.15, 0.05}); const int nt = d - (int) head.size();
      for (int i = 0; i < nt; i++) sv.push_back(t0 - (t0 - t1) * (double) i / (double) std::max(1, nt - 1) * (1.0 - 0.2 * r.unit() / (double) std::max(1, nt))); }
    sv.resize(d); std::sort(sv.begin(), sv.end(), [](double x, double y) { return x > y; });
    // operator-side orthogonal factor W (d x d): first column orthogonal to the start vector up to delta
    Mat Mw(d, d); for (int i = 0; i < d; i++) for (int j = 0; j < d; j++) Mw(i, j) = r.sym();
    Vec r0 = solver_start_vector(d); Vec rh = r0 / r0.norm();
    if (hide) {
        c.delta = r.pick(std::vector<double>{0.0, 0.0, 1e-8, 1e-7, 1e-6, 1e-5, 1e-4, 1e-3});
        Vec x = Mw.col(0); x -= x.dot(rh) * rh; x -= x.dot(rh) * rh; x.normalize(); x += c.delta * rh; x.normalize(); Mw.col(0) = x;
    }
    Eigen::HouseholderQR<Mat> qw(Mw); Mat W = qw.householderQ();
    c.lead_on_start = std::fabs(W.col(0).dot(rh));
    Mat P = rand_orth(r, big).leftCols(d);
    const double sc = r.pick(std::vector<double>{1.0, 1.0, 10.0, 0.1, 100.0, 1000.0});
    Vec S(d); for (int i = 0; i < d; i++) S[i] = sc * sv[i];
    c.g.A = tall ? Mat(P * S.asDiagonal() * W.transpose()) : Mat(W * S.asDiagonal() * P.transpose());
    c.g.kind = "cluster-" + c.fam; c.g.rankdef = 0;
    return c;
}
static void case_cluster(const CaseId& cid, Out& out) {
    Rng r(cid.seed, 166, cid.idx); const bool th = cid.tier == "thorough";
    const int sh = (int) (cid.idx % 3), fam = (int) ((cid.idx / 3) % 6);
    int d = r.range(10, th ? 40 : 30), e = r.range(1, 12), m, n;
    if (sh == 0) { m = d + e; n = d; } else if (sh == 1) { m = d; n = d + e; } else { m = n = d; }
    ClusterCase c = gen_cluster(r, m, n, fam);
    long ncomp = c.ncomp; long ncv = std::min<long>(d, ncomp + r.pick(std::vector<long>{1, 2, 2, 3, 3, ncomp}));
    int variant = r.range(0, 3);
    // history: several compute() calls with small budgets on the same object, each followed by the accessors
    std::vector<OpSpec> ops; int nc = r.range(3, 6);
    const std::vector<double> tols = {1e-10, 1e-10, 1e-8, 1e-8, 1e-6, 1e-12};
    for (int q = 0; q < nc; q++) {
        ops.push_back(OpSpec{'C', 0, (long) r.range(1, 12), r.pick(tols)});
        ops.push_back(OpSpec{'S', 0, 0, 0});
        const bool ufirst = r.coin(); const long k1 = r.coin(0.8) ? ncomp : (long) r.range(1, (int) ncomp + 1), k2 = r.coin(0.8) ? ncomp : (long) r.range(1, (int) ncomp + 1);
        ops.push_back(OpSpec{ufirst ? 'U' : 'V', k1, 0, 0}); ops.push_back(OpSpec{ufirst ? 'V' : 'U', k2, 0, 0});
    }
    out.count("cluster_cases"); out.count("cluster_family_" + c.fam); out.count(std::string("cluster_shape_") + (m > n ? "tall" : (m < n ? "wide" : "square"))); out.count(std::string("cluster_variant_") + (variant == 0 ? "dense-col" : variant == 1 ? "dense-row" : variant == 2 ? "sparse-col" : "sparse-row"));
    out.count("cluster_ncv_minus_ncomp_" + str(ncv - ncomp));
    if (c.delta >= 0) { std::ostringstream k; k << "cluster_lead_orth_delta_" << c.delta; out.count(k.str()); if (c.lead_on_start <= 2.0 * c.delta + 1e-12) out.count("cluster_lead_orth_verified"); }
    run_variant(variant, cid, c.g, ncomp, ncv, ops, out, cid.idx % 2 == 0, 2);
}

// stream 7: fixed witnesses (independent of VERIF_SEED and tier) of partial convergence with a hole / of a Ritz reordering at the last restart
// (the repaired defect c774a83: stale convergence flags when maxit is exhausted): deterministic sin-matrices, every maxit in 1..12
static Mat sin_matrix(int n, double a, double b) { Mat M(n, n); for (int i = 0; i < n; i++) for (int j = 0; j < n; j++) M(i, j) = std::sin(a + 3.0 * i + b * j * j + 0.37 * i * j); return M; }
static void case_partial_witness(const CaseId& cid, Out& out) {
    const int which = (int) (cid.idx % 2), sh = (int) ((cid.idx / 2) % 3); const int d = 30, big = 40;
    Mat Q1 = Eigen::HouseholderQR<Mat>(sin_matrix(big, 1.0, 7.0)).householderQ(); Mat P = (sh == 2) ? Mat(Eigen::HouseholderQR<Mat>(sin_matrix(d, 1.0, 7.0)).householderQ()) : Mat(Q1.leftCols(d));
    Mat M = sin_matrix(d, 2.0, 5.0); Vec S(d); long ncomp, ncv;
    if (which == 0) { S[0] = 10; S[1] = 9.9999999; S[2] = 8.5; for (int i = 3; i < d; i++) S[i] = 7.5 - 0.2 * i; ncomp = 3; ncv = 6; }
    else { Vec r0 = solver_start_vector(d); r0.normalize(); Vec x = M.col(0); x -= x.dot(r0) * r0; M.col(0) = x.normalized();
           S[0] = 10; S[1] = 9; S[2] = 8; S[3] = 7.9999999; for (int i = 4; i < d; i++) S[i] = 7.5 - 0.2 * i; ncomp = 2; ncv = 5; }
    Mat W = Eigen::HouseholderQR<Mat>(M).householderQ();
    Gen g; g.kind = which == 0 ? "witness-top-pair" : "witness-hidden-lead"; g.A = (sh == 0) ? Mat(P * S.asDiagonal() * W.transpose()) : Mat(W * S.asDiagonal() * P.transpose());
    std::vector<OpSpec> ops; for (long mi = 1; mi <= 12; mi++) { ops.push_back(OpSpec{'C', 0, mi, 1e-10}); ops.push_back(OpSpec{'S', 0, 0, 0}); ops.push_back(OpSpec{'U', ncomp, 0, 0}); ops.push_back(OpSpec{'V', ncomp, 0, 0}); }
    out.count("partial_witness_cases");
    run_variant((int) ((cid.idx / 6) % 4), cid, g, ncomp, ncv, ops, out, cid.idx < 2, 2);
}

static void dispatch(const CaseId& c, Out& out) {
    switch (c.stream) { case 1: case_history(c, out); break; case 2: case_op(c, out); break; case 3: case_rankdef(c, out); break; case 4: case_f4(c, out); break; case 5: case_scaled(c, out); break; case 6: case_cluster(c, out); break; case 7: case_partial_witness(c, out); break; default: break; }
}

static long json_num(const std::string& t, const std::string& key, long dflt) { auto p = t.find("\"" + key + "\":"); if (p == std::string::npos) return dflt; return std::atol(t.c_str() + p + key.size() + 3); }

int main(int argc, char** argv) {
    Args a(argc, argv); Out out(a.out);
    if (!a.replay.empty()) {
        std::ifstream f(a.replay); std::string t((std::istreambuf_iterator<char>(f)), {});
        CaseId c{(uint64_t) json_num(t, "seed", (long) a.seed), (int) json_num(t, "stream", 1), json_num(t, "idx", 0), a.tier};
        auto p = t.find("\"tier\":\""); if (p != std::string::npos) { auto q = t.find('"', p + 8); c.tier = t.substr(p + 8, q - p - 8); }
        dispatch(c, out); out.finish(); return out.nfail ? 1 : 0;
    }
    const bool th = a.thorough();
    long n4 = 8, n1 = th ? 9000 : 260, n2 = th ? 3000 : 300, n3 = th ? 12000 : 400, n5 = th ? 5000 : 200, n6 = th ? 3000 : 240, n7 = 6;
    for (long i = 0; i < n4; i++) dispatch(CaseId{a.seed, 4, i, a.tier}, out);
    // fixed witnesses (independent of VERIF_SEED and tier) of F5 (NaN on rank-deficient input; repaired by a913b0d: must now be silent) and of the recorded finding F12 (small norm)
    { const long f5[] = {283, 273}; for (long i : f5) dispatch(CaseId{1, 3, i, "quick"}, out);
      const long f12[] = {19, 4}; for (long i : f12) dispatch(CaseId{1, 5, i, "quick"}, out); out.count("fixed_witness_cases", 4); }
    for (long i = 0; i < n1; i++) dispatch(CaseId{a.seed, 1, i, a.tier}, out);
    for (long i = 0; i < n2; i++) dispatch(CaseId{a.seed, 2, i, a.tier}, out);
    for (long i = 0; i < n3; i++) dispatch(CaseId{a.seed, 3, i, a.tier}, out);
    for (long i = 0; i < n5; i++) dispatch(CaseId{a.seed, 5, i, a.tier}, out);
    for (long i = 0; i < n7; i++) dispatch(CaseId{a.seed, 7, i, a.tier}, out);
    for (long i = 0; i < n6; i++) dispatch(CaseId{a.seed, 6, i, a.tier}, out);
    out.finish();
    return 0;
}
