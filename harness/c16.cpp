// C16 harness: the real PartialSVDSolver / SVDTallMatOp / SVDWideMatOp
//  (a) correspondence: histories of compute/singular_values/matrix_U/matrix_V on the real class (state read through
//      SpectraVerifAccess) against the Lean state machine Model/SVD.lean (inner solver results recorded and replayed);
//      perform_op of both operator classes against the model's explicit loops;
//  (b) oracle: the property's predicates on the real outputs against a long double one-sided Jacobi SVD.
//  stream 6 (+ fixed witnesses, stream 7): runs that END partially converged: prescribed spectra with tight clusters next to well
//      separated values, leading singular vector (nearly) orthogonal to the solver's fixed start vector, maxit 1..12, ncv barely above ncomp.
//  views (blind spot "arguments are always owning, contiguous matrices"): in streams 1,3,5,6,8,9 a share of the cases hands the matrix to the
//      constructor as a block of a larger matrix / a Map with an outer stride / the transposed expression of the other storage order / a named
//      Ref that holds an evaluated expression (dense), or uncompressed / with explicit zeros / as an inner panel of a larger sparse matrix (sparse),
//      NaN canaries around the view and in the unused slots; every answer must be bitwise what the OWNING matrix of the same type gives
//      (explicit zeros: up to the sign of zero), the handle must point into the caller's storage, the storage must be unchanged; stream 10 passes
//      the view EXPRESSIONS directly to the constructor and adds sparse matrices with StorageIndex = long.
//      NOT legal (and not tested): an argument that Eigen::Ref<const MatrixType> can only bind by evaluating it into the temporary Ref made at
//      the call site (a row-major object for MatrixType = column-major, A.transpose() of the same storage order, 2*A, a Map with an inner
//      stride, another StorageIndex): the solver copies the Ref's pointer and the temporary dies with the constructor call.
//  stream 8: accessor sequences (k1 < k2 > k3, k > nconv, k = 0, U/V/S in any order, twice per object) with NO hidden accessor calls by the harness:
//      every answer = what a fresh object answers to that single call; all answers of one compute() agree on their common leading columns; the
//      factor identities hold for every (k_u, k_v) pair that was requested.   stream 9: configuration sweep (guards at their boundaries).
// Eigen assertions are turned into exceptions so that an out-of-range block (stale cache) is an observable outcome, not an abort.
#include <stdexcept>
#include <memory>
struct EigenAssertError : std::logic_error { using std::logic_error::logic_error; };
#define eigen_assert(x) do { if (!(x)) throw EigenAssertError(#x); } while (false)
#include "common.h"
#include <Eigen/Core>
#include <Eigen/SparseCore>
#include <Eigen/QR>
#include <Eigen/Eigenvalues>
struct SpectraVerifAccess;
#include <Spectra/contrib/PartialSVDSolver.h>
using namespace vh;
using namespace Spectra;
typedef Eigen::MatrixXd Mat; typedef Eigen::VectorXd Vec;
typedef Eigen::Matrix<double, Eigen::Dynamic, Eigen::Dynamic, Eigen::RowMajor> RMat;
typedef Eigen::SparseMatrix<double> SpMat; typedef Eigen::SparseMatrix<double, Eigen::RowMajor> RSpMat;
typedef Eigen::SparseMatrix<double, Eigen::ColMajor, long> SpMatL; typedef Eigen::SparseMatrix<double, Eigen::RowMajor, long> RSpMatL;
typedef long double LD;
typedef Eigen::Matrix<LD, Eigen::Dynamic, Eigen::Dynamic> LMat;

struct SpectraVerifAccess {
    template <class S> static auto eigs(S& s) -> decltype(*s.m_eigs)& { return *s.m_eigs; }
    template <class S> static long nconv(S& s) { return (long) s.m_nconv; }
    template <class S> static long ecols(S& s) { return (long) s.m_evecs.cols(); }
    template <class S> static Mat evecs(S& s) { return s.m_evecs; }
    template <class S> static long mm(S& s) { return (long) s.m_m; }
    template <class S> static long nn(S& s) { return (long) s.m_n; }
    template <class S> static auto matref(S& s) -> decltype((s.m_mat)) { return s.m_mat; }
    template <class E> static Vec ritz_val(E& e) { return e.m_ritz_val; }
    template <class E> static std::vector<int> ritz_conv(E& e) { std::vector<int> r; for (long i = 0; i < e.m_ritz_conv.size(); i++) r.push_back(e.m_ritz_conv[i] ? 1 : 0); return r; }
    template <class E> static Mat facH(E& e) { return e.m_fac.matrix_H(); }
    template <class E> static long nev(E& e) { return (long) e.m_nev; }
    template <class E> static long ncv(E& e) { return (long) e.m_ncv; }
    template <class E> static long dim(E& e) { return (long) e.m_n; }
};
typedef SpectraVerifAccess AX;
// Lean's Float.toBits canonicalises NaN: print every NaN as the canonical quiet NaN
static inline uint64_t cbits(double x) { return std::isnan(x) ? 0x7FF8000000000000ull : vh::dbits(x); }

// ---------------------------------------------------------------- reference SVD: one-sided Jacobi in long double
static std::vector<LD> jacobi_svals(const Mat& A0) {
    LMat G = (A0.rows() >= A0.cols()) ? LMat(A0.cast<LD>()) : LMat(A0.transpose().cast<LD>());
    const long n = G.cols();
    for (int sweep = 0; sweep < 80; sweep++) {
        bool rotated = false;
        for (long p = 0; p < n; p++) for (long q = p + 1; q < n; q++) {
            LD a = G.col(p).squaredNorm(), b = G.col(q).squaredNorm(), c = G.col(p).dot(G.col(q));
            if (c == 0 || std::fabs(c) <= 1e-19L * std::sqrt(a * b)) continue;
            rotated = true;
            LD zeta = (b - a) / (2 * c), t = (zeta >= 0 ? 1 : -1) / (std::fabs(zeta) + std::sqrt(1 + zeta * zeta));
            LD cs = 1 / std::sqrt(1 + t * t), sn = cs * t;
            for (long i = 0; i < G.rows(); i++) { LD x = G(i, p), y = G(i, q); G(i, p) = cs * x - sn * y; G(i, q) = sn * x + cs * y; }
        }
        if (!rotated) break;
    }
    std::vector<LD> s; for (long j = 0; j < n; j++) s.push_back(G.col(j).norm());
    std::sort(s.begin(), s.end(), [](LD x, LD y) { return x > y; });
    return s;
}

// ---------------------------------------------------------------- matrix variants
template <class MT> struct Conv;
template <> struct Conv<Mat> { static Mat make(const Mat& A) { return A; } static const char* name() { return "dense-col"; } };
template <> struct Conv<RMat> { static RMat make(const Mat& A) { return A; } static const char* name() { return "dense-row"; } };
template <> struct Conv<SpMat> { static SpMat make(const Mat& A) { SpMat S = A.sparseView(); S.makeCompressed(); return S; } static const char* name() { return "sparse-col"; } };
template <> struct Conv<RSpMat> { static RSpMat make(const Mat& A) { RSpMat S = A.sparseView(); S.makeCompressed(); return S; } static const char* name() { return "sparse-row"; } };

template <> struct Conv<SpMatL> { static SpMatL make(const Mat& A) { SpMatL S = A.sparseView(); S.makeCompressed(); return S; } static const char* name() { return "sparse-col-long"; } };
template <> struct Conv<RSpMatL> { static RSpMatL make(const Mat& A) { RSpMatL S = A.sparseView(); S.makeCompressed(); return S; } static const char* name() { return "sparse-row-long"; } };

// ---------------------------------------------------------------- how the matrix is handed to the solver: the owning object (view 0) or a view with canaries
// ref(): what the constructor is given; direct(): the solver's handle points into THIS storage; intact(): the storage is bit for bit what it was
static const double CANARY = std::numeric_limits<double>::quiet_NaN();
static void snap_add(std::vector<std::vector<unsigned char>>& sn, const void* p, size_t n) { const unsigned char* c = (const unsigned char*) p; sn.push_back(n ? std::vector<unsigned char>(c, c + n) : std::vector<unsigned char>()); }
static bool snap_same(const std::vector<unsigned char>& sn, const void* p, size_t n) { return sn.size() == n && (n == 0 || std::memcmp(sn.data(), p, n) == 0); }
template <class DM> struct DenseHolder {
    typedef Eigen::Ref<const DM> RefT;
    typedef Eigen::Matrix<double, Eigen::Dynamic, Eigen::Dynamic, DM::IsRowMajor ? Eigen::ColMajor : Eigen::RowMajor> Other;
    int view; DM own, big, tsrc; Other oth; std::vector<double> buf; std::unique_ptr<RefT> r; const double* expect = nullptr; long expect_os = 0; bool evaluated = false;
    std::vector<std::vector<unsigned char>> sn;
    DenseHolder(const Mat& A, int v, Rng& q) : view(v) {
        const long m = A.rows(), n = A.cols();
        switch (v) {
        case 1: { const long p = q.range(0, 3), c = q.range(0, 3), t = q.range(1, 3), u = q.range(0, 3);        // block of a larger matrix: outer stride > inner size
                  big = DM::Constant(m + p + t, n + c + u, CANARY); big.block(p, c, m, n) = A; r.reset(new RefT(big.block(p, c, m, n))); expect = &big(p, c); expect_os = big.outerStride(); break; }
        case 2: { const long inner = DM::IsRowMajor ? n : m, outer = DM::IsRowMajor ? m : n, ld = inner + q.range(1, 5), off = q.range(0, 4);
                  buf.assign((size_t) (off + ld * outer + 3), CANARY);
                  for (long i = 0; i < m; i++) for (long j = 0; j < n; j++) buf[(size_t) (off + (DM::IsRowMajor ? i * ld + j : i + j * ld))] = A(i, j);
                  Eigen::Map<const DM, 0, Eigen::OuterStride<>> mp(buf.data() + off, m, n, Eigen::OuterStride<>(ld)); r.reset(new RefT(mp)); expect = buf.data() + off; expect_os = ld; break; }
        case 3: { oth = A.transpose(); r.reset(new RefT(oth.transpose())); expect = oth.data(); expect_os = oth.outerStride(); break; }      // transposed expression of the OTHER storage order: binds directly
        case 4: { tsrc = A.transpose(); r.reset(new RefT(tsrc.transpose())); expect = r->data(); expect_os = r->outerStride(); evaluated = (r->data() != tsrc.data()); break; }   // same storage order: evaluated into the NAMED Ref, which this holder keeps alive
        default: own = A; r.reset(new RefT(own)); expect = own.data(); expect_os = own.outerStride();
        }
        snap_add(sn, own.data(), sizeof(double) * own.size()); snap_add(sn, big.data(), sizeof(double) * big.size()); snap_add(sn, tsrc.data(), sizeof(double) * tsrc.size());
        snap_add(sn, oth.data(), sizeof(double) * oth.size()); snap_add(sn, buf.data(), sizeof(double) * buf.size()); snap_add(sn, r->data(), view == 4 ? sizeof(double) * (size_t) (m * n) : 0);
    }
    const RefT& ref() const { return *r; }
    std::string suffix() const { const char* nm[] = {"", "+block", "+map", "+tr", "+evalref"}; return nm[view]; }
    bool signed_zero_only() const { return false; }
    bool direct(const RefT& h) const { return h.data() == expect && h.outerStride() == expect_os && h.rows() == r->rows() && h.cols() == r->cols(); }
    bool intact() const { return snap_same(sn[0], own.data(), sizeof(double) * own.size()) && snap_same(sn[1], big.data(), sizeof(double) * big.size()) && snap_same(sn[2], tsrc.data(), sizeof(double) * tsrc.size())
        && snap_same(sn[3], oth.data(), sizeof(double) * oth.size()) && snap_same(sn[4], buf.data(), sizeof(double) * buf.size()) && snap_same(sn[5], r->data(), sn[5].size()); }
};
template <class SM> struct SparseHolder {
    typedef Eigen::Ref<const SM> RefT; typedef typename SM::StorageIndex SI;
    int view; SM P; std::unique_ptr<RefT> r; long pre = 0; bool unc = false, xz = false, sub = false; long spare = 0, explicit_zeros = 0;
    std::vector<std::vector<unsigned char>> sn;
    SparseHolder(const Mat& A, int v, Rng& q) : view(v) {
        const long m = A.rows(), n = A.cols(), outer = SM::IsRowMajor ? m : n, inner = SM::IsRowMajor ? n : m;
        unc = (v == 1 || v == 3); xz = (v == 2 || v == 3); sub = (v == 4); if (sub) unc = q.coin();
        long post = 0; if (sub) { pre = q.range(0, 2); post = q.range(pre == 0 ? 1 : 0, 2); }
        const long tot = outer + pre + post;
        P = SM::IsRowMajor ? SM(tot, inner) : SM(inner, tot);
        Eigen::VectorXi sizes(tot); for (long o = 0; o < tot; o++) sizes[o] = (int) (inner + (unc ? q.range(1, 3) : 0));
        P.reserve(sizes);
        for (long o = 0; o < tot; o++) for (long i = 0; i < inner; i++) {
            const bool inside = (o >= pre && o < pre + outer);
            double val = CANARY;                                                   // the outer vectors around an inner panel hold NaN in every position
            if (inside) { val = SM::IsRowMajor ? A(o - pre, i) : A(i, o - pre); if (val == 0.0) { if (!(xz && q.coin(0.4))) continue; explicit_zeros++; } }
            if (SM::IsRowMajor) P.insert(o, i) = val; else P.insert(i, o) = val;
        }
        if (!unc) P.makeCompressed();
        else for (long o = 0; o < tot; o++) for (long p = (long) P.outerIndexPtr()[o] + (long) P.innerNonZeroPtr()[o]; p < (long) P.outerIndexPtr()[o + 1]; p++) { P.valuePtr()[p] = CANARY; P.innerIndexPtr()[p] = (SI) 0; spare++; }   // unused slots of the uncompressed format
        if (sub) { if constexpr (SM::IsRowMajor) r.reset(new RefT(P.middleRows(pre, m))); else r.reset(new RefT(P.middleCols(pre, n))); }
        else r.reset(new RefT(P));
        const size_t cap = (size_t) P.outerIndexPtr()[tot];
        snap_add(sn, P.valuePtr(), sizeof(double) * cap); snap_add(sn, P.innerIndexPtr(), sizeof(SI) * cap); snap_add(sn, P.outerIndexPtr(), sizeof(SI) * (size_t) (tot + 1));
        snap_add(sn, P.innerNonZeroPtr(), P.innerNonZeroPtr() ? sizeof(SI) * (size_t) tot : 0);
    }
    const RefT& ref() const { return *r; }
    std::string suffix() const { const char* nm[] = {"", "+unc", "+xz", "+unc+xz", "+sub"}; return std::string(nm[view]) + (sub && unc ? "+unc" : ""); }
    bool signed_zero_only() const { return xz; }          // explicit zeros add terms 0*x to the sums: only the sign of a zero can differ
    bool direct(const RefT& h) const {
        return h.valuePtr() == P.valuePtr() && h.innerIndexPtr() == P.innerIndexPtr() && h.outerIndexPtr() == P.outerIndexPtr() + pre
            && h.innerNonZeroPtr() == (P.innerNonZeroPtr() ? P.innerNonZeroPtr() + pre : nullptr) && h.rows() == r->rows() && h.cols() == r->cols() && h.isCompressed() == !unc;
    }
    bool intact() const { const long tot = P.outerSize(); const size_t cap = (size_t) P.outerIndexPtr()[tot];
        return snap_same(sn[0], P.valuePtr(), sizeof(double) * cap) && snap_same(sn[1], P.innerIndexPtr(), sizeof(SI) * cap) && snap_same(sn[2], P.outerIndexPtr(), sizeof(SI) * (size_t) (tot + 1))
            && snap_same(sn[3], P.innerNonZeroPtr(), P.innerNonZeroPtr() ? sizeof(SI) * (size_t) tot : 0) && (P.innerNonZeroPtr() != nullptr) == unc; }
};
template <class MT> struct HolderOf { typedef SparseHolder<MT> type; };
template <> struct HolderOf<Mat> { typedef DenseHolder<Mat> type; };
template <> struct HolderOf<RMat> { typedef DenseHolder<RMat> type; };
static const int NVIEWS = 5;

// bitwise equality of two answers (NaN canonical); zsign: +0 and -0 count as equal
static bool same_answer(const Mat& F, const Mat& G, bool zsign, double* maxdiff = nullptr) {
    if (F.rows() != G.rows() || F.cols() != G.cols()) return false;
    bool same = true; double md = 0;
    for (long j = 0; j < F.cols(); j++) for (long i = 0; i < F.rows(); i++) {
        if (cbits(F(i, j)) != cbits(G(i, j)) && !(zsign && F(i, j) == 0.0 && G(i, j) == 0.0)) same = false;
        md = std::max(md, std::fabs(F(i, j) - G(i, j)));
    }
    if (maxdiff) *maxdiff = md;
    return same;
}

static std::string bits_of(const Mat& M) { std::string s; for (long j = 0; j < M.cols(); j++) for (long i = 0; i < M.rows(); i++) { s += " "; s += str(cbits(M(i, j))); } return s; }
static std::string bits_of(const Vec& v) { std::string s; for (long i = 0; i < v.size(); i++) { s += " "; s += str(cbits(v[i])); } return s; }

// explicit left-to-right products, the loops of Lin.Mat.mulVec / SVD.tmulVec in the model (first term, then += in index order)
static Vec naive_mul(const Mat& A, const Vec& x) { Vec y(A.rows()); for (long i = 0; i < A.rows(); i++) { double acc = 0.0; for (long j = 0; j < A.cols(); j++) { double t = A(i, j) * x[j]; acc = (j == 0) ? t : acc + t; } y[i] = acc; } return y; }
static Vec naive_tmul(const Mat& A, const Vec& x) { Vec y(A.cols()); for (long j = 0; j < A.cols(); j++) { double acc = 0.0; for (long i = 0; i < A.rows(); i++) { double t = A(i, j) * x[i]; acc = (i == 0) ? t : acc + t; } y[j] = acc; } return y; }
// componentwise agreement of an Eigen product with the explicit loop: |f - g| <= 8 (d + 2) eps (|B| |x|)_i  (+ tiny absolute floor)
static bool prod_close(const Vec& f, const Vec& g, const Vec& absbound, long d) {
    if (f.size() != g.size()) return false;
    for (long i = 0; i < f.size(); i++) {
        if (!std::isfinite(g[i])) continue;           // a non-finite loop result is compared through the canonical NaN column only
        if (!std::isfinite(f[i])) return false;        // ... but the library must not return a non-finite entry where the explicit loop is finite
        if (!(std::fabs(f[i] - g[i]) <= 8.0 * (double) (d + 2) * 2.220446049250313e-16 * absbound[i] + 1e-300)) return false;
    }
    return true;
}
static bool has_nan(const Vec& v) { for (long i = 0; i < v.size(); i++) if (std::isnan(v[i])) return true; return false; }
static std::string nan_col(long n) { std::string s; for (long i = 0; i < n; i++) s += " 9221120237041090560"; return s; }

// ---------------------------------------------------------------- generators
struct Gen { Mat A; std::string kind; int rankdef = 0; };
static Mat rand_orth(Rng& r, int n) { Mat X(n, n); for (int i = 0; i < n; i++) for (int j = 0; j < n; j++) X(i, j) = r.sym(); Eigen::HouseholderQR<Mat> qr(X); Mat Q = qr.householderQ(); return Q; }
static Gen gen_matrix(Rng& r, int m, int n, int kindsel) {
    Gen g; g.A = Mat::Zero(m, n); int d = std::min(m, n);
    switch (kindsel) {
    case 0: g.kind = "random"; for (int i = 0; i < m; i++) for (int j = 0; j < n; j++) g.A(i, j) = r.sym(); break;
    case 1: g.kind = "smallint-sparse"; for (int i = 0; i < m; i++) for (int j = 0; j < n; j++) g.A(i, j) = r.coin(0.45) ? (double) r.range(-3, 3) : 0.0;
            for (int i = 0; i < d; i++) g.A(i, i) += (double) (i + 2); break;     // no zero row/column pattern trouble: still arbitrary
    case 2: { g.kind = "graded"; Mat U = rand_orth(r, m), V = rand_orth(r, n); double decades = r.pick(std::vector<double>{1.0, 2.0, 3.0});
            for (int k = 0; k < d; k++) { double s = std::pow(10.0, -decades * k / std::max(1, d - 1)) * (1.0 + 0.3 * r.unit()); g.A += s * U.col(k) * V.col(k).transpose(); } break; }
    case 3: { g.kind = "rankdef-int"; g.rankdef = 1; int rk = r.range(1, std::max(1, d - 1)); Mat B(m, rk), C(rk, n);
            for (int i = 0; i < m; i++) for (int k = 0; k < rk; k++) B(i, k) = (double) r.range(-2, 2);
            for (int k = 0; k < rk; k++) for (int j = 0; j < n; j++) C(k, j) = (double) r.range(-2, 2);
            g.A = B * C; break; }
    case 4: { g.kind = "rankdef-real"; g.rankdef = 1; int rk = r.range(1, std::max(1, d - 1)); Mat B(m, rk), C(rk, n);
            for (int i = 0; i < m; i++) for (int k = 0; k < rk; k++) B(i, k) = r.sym();
            for (int k = 0; k < rk; k++) for (int j = 0; j < n; j++) C(k, j) = r.sym();
            g.A = B * C; break; }
    default: { g.kind = "rankdef-dupcols"; g.rankdef = 1; for (int i = 0; i < m; i++) for (int j = 0; j < n; j++) g.A(i, j) = (j % 2 == 0 || j == 0) ? r.sym() : 0.0;
            for (int j = 1; j < n; j++) if (j % 2 == 1) g.A.col(j) = g.A.col(j - 1);
            if (m <= n) { for (int i = 1; i < m; i += 2) g.A.row(i) = g.A.row(i - 1); } break; }
    }
    return g;
}

struct OpSpec { char op; long k; long maxit; double tol; };
static std::string ops_text(const std::vector<OpSpec>& ops) { std::string s; for (auto& o : ops) { if (!s.empty()) s += "; "; if (o.op == 'C') { std::ostringstream t; t << "C " << o.maxit << " " << o.tol; s += t.str(); } else if (o.op == 'S') s += "S"; else s += std::string(1, o.op) + " " + str(o.k); } return s; }

struct CaseId { uint64_t seed; int stream; long idx; std::string tier; };
static int g_abs_regime = 0;  // eps*sqrt(d) > 100 (tol + 1e-13) sigma_k^2: the inner solver's ABSOLUTE breakdown threshold eps*sqrt(n) on the residual of A'A is coarser than the requested relative accuracy of the smallest requested eigenvalue sigma_k^2
static int g_init_orth = 0;   // 10 eps (sigma_1/sigma_2)^2 > tol + 1e-13: Arnoldi::init starts from B*r (close to the dominant eigenvector when it is well separated) and does not re-orthogonalise the first residual, so v2 has an O(eps*theta_1/theta_2) component along v1
static int g_gram_tiny = 0;
static int g_view = 0;        // how the matrix was handed to the constructor (0: the owning object; see DenseHolder / SparseHolder)   // ||A||^2 < eps^(2/3): the scale below which the inner solver's convergence test and breakdown thresholds are absolute
static std::string replay_json(const CaseId& c, const std::string& variant, long m, long n, long ncomp, long ncv, const std::vector<OpSpec>& ops, int stale, int rankdef, const std::string& kind, long opno) {
    std::ostringstream o; o << "{\"harness\":\"c16\",\"seed\":" << c.seed << ",\"stream\":" << c.stream << ",\"idx\":" << c.idx << ",\"tier\":\"" << c.tier << "\",\"variant\":\"" << variant
      << "\",\"m\":" << m << ",\"n\":" << n << ",\"ncomp\":" << ncomp << ",\"ncv\":" << ncv << ",\"matrix_kind\":\"" << kind << "\",\"rank_deficient\":" << rankdef
      << ",\"abs_breakdown_threshold_regime\":" << g_abs_regime << ",\"init_orth_loss_regime\":" << g_init_orth << ",\"gram_norm_below_eps23\":" << g_gram_tiny << ",\"view\":" << g_view << ",\"cache_filled_before_last_compute\":" << stale << ",\"failing_op_index\":" << opno << ",\"ops\":\"" << jesc(ops_text(ops)) << "\"}";
    return o.str();
}

static LD maxabs(const LMat& M) { return M.size() ? M.cwiseAbs().maxCoeff() : 0; }

// every value handed back as converged (also when fewer than ncomp converged) is a singular value of A: a Ritz pair (theta, x) of B = A'A
// (or AA') accepted at tolerance tol has ||B x - theta x|| < tol*theta, so an eigenvalue sigma^2 of B lies within tol*theta of theta = s^2 and
// |sigma - s| <= tol*s^2/(sigma + s) <= tol*s <= tol*||A||.  Graded with the constant of the positional check: (100 tol + 1e-9) ||A||, values above 1e-4 ||A||.
static bool genuine_values(const Vec& s, const std::vector<LD>& sref, LD nA, double tol, long ret, long ncomp, Out& out, std::string& what) {
    for (long i = 0; i < s.size(); i++) {
        if (!((LD) s[i] > 1e-4L * nA)) continue;
        LD dist = 1e300L; long at = -1; for (size_t j = 0; j < sref.size(); j++) { LD dd = std::fabs((LD) s[i] - sref[j]); if (dd < dist) { dist = dd; at = (long) j; } }
        out.count("oracle_value_genuine");
        if (!(dist <= (100.0L * tol + 1e-9L) * nA)) {
            std::ostringstream w; w << "returned singular value " << i << " = " << s[i] << " (of " << ret << " reported converged, ncomp=" << ncomp << ") is not a singular value of A: nearest reference value " << (at >= 0 ? (double) sref[at] : 0.0) << " is " << (double) dist << " away (||A||=" << (double) nA << ", tol=" << tol << ")";
            what = w.str(); return false;
        }
    }
    return true;
}

// factor identities on the leading kk columns of one returned U and one returned V (kk <= both column counts, s[kk-1] > 1e-4 ||A||):
// |U'U - I|, |V'V - I| <= 100 (tol + 1e-13) cond^2, |AV - US|, |A'U - VS| <= 100 (tol + 1e-13) cond ||A||, cond = ||A|| / s[kk-1]
static bool grade_pair(const Mat& A, const Mat& U, const Mat& V, const Vec& s, long kk, LD nA, double tol, std::string& what) {
    LMat Ul = U.leftCols(kk).cast<LD>(), Vl = V.leftCols(kk).cast<LD>(), Al = A.cast<LD>(); LMat Sl = LMat::Zero(kk, kk); for (long i = 0; i < kk; i++) Sl(i, i) = s[i];
    LD kappa = nA / (LD) s[kk - 1]; LD tt = (LD) tol + 1e-13L;
    LD eU = maxabs(Ul.transpose() * Ul - LMat::Identity(kk, kk)), eV = maxabs(Vl.transpose() * Vl - LMat::Identity(kk, kk));
    LD eAV = maxabs(Al * Vl - Ul * Sl), eAtU = maxabs(Al.transpose() * Ul - Vl * Sl);
    LD bOrth = 100.0L * tt * kappa * kappa, bRes = 100.0L * tt * kappa * nA;
    if (!(eU <= bOrth) || !(eV <= bOrth) || !(eAV <= bRes) || !(eAtU <= bRes)) {
        std::ostringstream w; w << "factor identities violated for k=" << kk << ": |U'U-I|=" << (double) eU << " |V'V-I|=" << (double) eV << " (bound " << (double) bOrth << ") |AV-US|=" << (double) eAV << " |A'U-VS|=" << (double) eAtU << " (bound " << (double) bRes << "), tol=" << tol << " ||A||=" << (double) nA << " cond=" << (double) kappa;
        what = w.str(); return false;
    }
    return true;
}
struct Seen { char side; long k; Mat F; };
// compute() on a reference object: the return value, or -1 and the exception's name
template <class S> static long compute_outcome(S& s, long maxit, double tol, std::string& ex) {
    try { ex.clear(); return (long) s.compute(maxit, tol); }
    catch (const std::invalid_argument&) { ex = "std::invalid_argument"; }
    catch (const EigenAssertError& e) { ex = std::string("eigen-assert ") + e.what(); }
    catch (const std::runtime_error&) { ex = "std::runtime_error"; }
    catch (const std::logic_error&) { ex = "std::logic_error"; }
    return -1;
}

// run one history on the real class of matrix type MT; writes one correspondence line and evaluates the oracle
template <class MT>
// vals: 1 positional value oracle, 2 genuineness only, 4 "pure": the harness makes NO accessor call of its own on the object under test
// view: how the matrix is handed to the constructor (0 = the owning object)
static void run_history(const CaseId& cid, const Gen& g, long ncomp, long ncv, const std::vector<OpSpec>& ops, Out& out, bool do_corr, int vals, int view = 0) {
    const bool values_oracle = (vals & 1) != 0, genuine_oracle = (vals & 3) != 0, pure = (vals & 4) != 0;
    const Mat& A = g.A; const long m = A.rows(), n = A.cols(), d = std::min(m, n);
    Rng vq(cid.seed, 180 + (uint64_t) cid.stream, (uint64_t) cid.idx);
    typename HolderOf<MT>::type H(A, view, vq);
    const std::string variant = std::string(Conv<MT>::name()) + H.suffix();
    g_view = view; const bool zsign = H.signed_zero_only();
    if (view) out.count("view_" + variant);
    std::vector<LD> sref = jacobi_svals(A); const LD nA = sref.empty() ? 0 : sref[0];
    g_gram_tiny = (nA * nA < 3.7e-11L) ? 1 : 0;
    { std::ofstream lc(out.dir + "/lastcase.txt"); lc << replay_json(cid, variant, m, n, ncomp, ncv, ops, 0, g.rankdef, g.kind, -1); }
    PartialSVDSolver<MT> svd(H.ref(), ncomp, ncv);
    auto& eg = AX::eigs(svd);
    // the handle the solver keeps must point INTO the caller's storage (not at a dead temporary), and nothing may ever be written there
    out.count("oracle_view_handle");
    if (!H.direct(AX::matref(svd))) out.fail("svd-view-handle", "the solver's matrix handle does not point into the storage of the object / view it was constructed from", replay_json(cid, variant, m, n, ncomp, ncv, ops, 0, g.rankdef, g.kind, -1));
    struct CanaryGuard { const typename HolderOf<MT>::type& H; Out& out; std::string rp; ~CanaryGuard() { out.count("oracle_view_storage_intact"); if (!H.intact()) out.fail("svd-view-canary", "the caller's matrix storage (matrix, surrounding canaries, unused slots, index arrays) was modified", rp); } }
        guard{H, out, replay_json(cid, variant, m, n, ncomp, ncv, ops, 0, g.rankdef, g.kind, -1)};
    std::vector<Seen> seen;     // every factor returned since the last compute()
    const long ncv_eff = AX::ncv(eg);
    std::string req = "svd " + variant + " " + str(m) + " " + str(n) + " " + str(ncomp) + " " + str(ncv) + bits_of(A);
    std::string resp;
    bool have = false; bool filled = false; bool stale = false; long last_ret = -1; long last_maxit = 0; double last_tol = 0; int ncompute = 0;
    auto tail = [&]() { return std::string(have ? "nconv=" + str(AX::nconv(svd)) : "nconv=?") + " ec=" + str(AX::ecols(svd)); };
    auto addresp = [&](const std::string& s) { if (!resp.empty()) resp += " ; "; resp += s; };
    LD sigk = nA; for (long i = 0; i < ncomp && i < (long) sref.size(); i++) if (sref[i] > 1e-4L * nA) sigk = std::min(sigk, sref[i]);
    const LD gapratio = (sref.size() >= 2 && sref[1] > 0) ? (sref[0] / sref[1]) : (LD) 1e300;
    auto rj = [&](long opno) { g_init_orth = (10.0L * 2.220446049250313e-16L * gapratio * gapratio > (LD) last_tol + 1e-13L) ? 1 : 0; g_abs_regime = (2.220446049250313e-16L * std::sqrt((LD) d) > 100.0L * ((LD) last_tol + 1e-13L) * sigk * sigk) ? 1 : 0; return replay_json(cid, variant, m, n, ncomp, ncv, ops, stale ? 1 : 0, g.rankdef, g.kind, opno); };
    for (size_t oi = 0; oi < ops.size(); oi++) {
        const OpSpec& o = ops[oi];
        if (o.op == 'C') {
            int exn = 0; long ret = -1; std::string ex;
            try { ret = svd.compute(o.maxit, o.tol); }
            catch (const std::invalid_argument&) { exn = 1; ex = "std::invalid_argument"; }
            catch (const EigenAssertError& e) { exn = 3; ex = std::string("eigen-assert ") + e.what(); }
            catch (const std::runtime_error&) { exn = 2; ex = "std::runtime_error"; }
            catch (const std::logic_error&) { exn = 2; ex = "std::logic_error"; }
            out.count("op_compute"); ncompute++; seen.clear();
            if (exn == 3) { out.fail("svd-compute-assert", "Eigen assertion inside compute(): " + ex, rj(oi)); return; }
            if (view != 0 || pure) {
                // the outcome of compute() itself: the same as on a fresh object built from the owning matrix
                out.count("oracle_compute_fresh");
                MT Af = Conv<MT>::make(A); PartialSVDSolver<MT> fresh(Af, ncomp, ncv); std::string fex; const long fret = compute_outcome(fresh, o.maxit, o.tol, fex);
                if (fret != ret || fex != ex) { const double lt = last_tol; last_tol = o.tol;
                    out.fail(view ? "svd-view" : "svd-latest", "compute(" + str(o.maxit) + ", " + str(o.tol) + ") " + (exn ? "threw " + ex : "returned " + str(ret)) + ", a fresh solver on the owning matrix " + (fret < 0 ? "threw " + fex : "returned " + str(fret)) + std::string(view ? " (matrix passed as " + variant + ")" : ""), rj(oi)); last_tol = lt; }
            }
            // record what the inner solver holds now
            Vec rv = AX::ritz_val(eg); std::vector<int> fl = AX::ritz_conv(eg); Mat ev = eg.eigenvectors();
            req += " C " + str(o.maxit) + " " + str(cbits(o.tol)) + " " + str(exn);
            for (long i = 0; i < ncomp; i++) req += " " + str(cbits(i < rv.size() ? rv[i] : 0.0));
            for (long i = 0; i < ncomp; i++) req += std::string(" ") + ((i < (long) fl.size() && fl[i]) ? "1" : "0");
            // the Ritz values the selection rule did NOT pick: eigenvalues of the final projected matrix H (harness-side solver) minus the
            // stored first nev ones.  They only steer the model's selection (LargestAlge over all ncv values must pick the stored head):
            // a value within 1e-8*||H|| of the stored range is replaced by the stored minimum (no decision hinges on a near-tie).
            {
                std::vector<double> others;
                if (exn == 0) {
                    Mat H = AX::facH(eg); bool fin = H.allFinite() && rv.head(ncomp).allFinite();
                    if (fin && H.rows() == ncv_eff && H.cols() == ncv_eff) {
                        Mat Hs = 0.5 * (H + H.transpose()); Eigen::SelfAdjointEigenSolver<Mat> es(Hs, Eigen::EigenvaluesOnly);
                        std::vector<double> all(es.eigenvalues().data(), es.eigenvalues().data() + ncv_eff);
                        for (long i = 0; i < ncomp; i++) { long best = -1; double bd = 0; for (size_t q = 0; q < all.size(); q++) { double dd = std::fabs(all[q] - rv[i]); if (best < 0 || dd < bd) { best = (long) q; bd = dd; } } if (best >= 0) all.erase(all.begin() + best); }
                        double hmin = rv.head(ncomp).minCoeff(), hmax = rv.head(ncomp).maxCoeff(), margin = 1e-8 * Hs.cwiseAbs().maxCoeff();
                        for (double o2 : all) others.push_back((o2 < hmin - margin || o2 > hmax + margin) ? o2 : hmin);
                        out.count("selection_tail_recorded");
                    }
                }
                req += " " + str(others.size()); for (double o2 : others) req += " " + str(cbits(o2));
            }
            req += " " + str(ev.cols()) + bits_of(ev);
            if (exn == 0) {
                have = true; if (filled) stale = true; last_ret = ret; last_maxit = o.maxit; last_tol = o.tol;
                addresp("ret=" + str(ret) + " " + tail());
                out.count(ret == ncomp ? "compute_all_converged" : (ret == 0 ? "compute_none_converged" : "compute_partly_converged"));
                // a converged pair BEHIND an unconverged one (the flag-selected columns are not the leading ones)
                { bool gap = false, hole = false; for (long i = 0; i < ncomp && i < (long) fl.size(); i++) { if (!fl[i]) gap = true; else if (gap) hole = true; } if (hole) out.count("compute_partly_converged_with_hole"); }
                // counts: return value = m_nconv = eigenvalues().size() = eigenvectors().cols() <= ncomp
                long ne = eg.eigenvalues().size();
                if (!(ret == AX::nconv(svd) && ret == ne && ret == ev.cols() && ret <= ncomp && ret >= 0))
                    out.fail("svd-counts", "compute() returned " + str(ret) + " but m_nconv=" + str(AX::nconv(svd)) + ", eigenvalues().size()=" + str(ne) + ", eigenvectors().cols()=" + str(ev.cols()), rj(oi));
                out.count("oracle_counts");
            } else { addresp("exn=" + ex + " " + tail()); out.count("compute_threw_" + ex); { std::ofstream ef(out.dir + "/compute_exceptions.txt", std::ios::app); ef << rj(oi) << "\n"; } }
        } else if (o.op == 'S') {
            Vec s = svd.singular_values(); out.count("op_singular_values");
            req += " S"; addresp("len=" + str(s.size()) + bits_of(s));
            if (have) {
                out.count("oracle_values");
                if (s.size() != last_ret) out.fail("svd-counts", "singular_values() has " + str(s.size()) + " entries, compute() returned " + str(last_ret), rj(oi));
                if (view != 0 || pure) {
                    // the same call on a FRESH object built from the OWNING matrix: independent of the view and of every earlier accessor call
                    out.count("oracle_values_fresh");
                    MT Af = Conv<MT>::make(A); PartialSVDSolver<MT> fresh(Af, ncomp, ncv); std::string fex;
                    if (compute_outcome(fresh, last_maxit, last_tol, fex) < 0) { out.fail("svd-fresh-throws", "a fresh solver on the owning matrix threw " + fex + " in compute() with the arguments of the latest successful compute()", rj(oi)); continue; }
                    Vec sf = fresh.singular_values();
                    if (!same_answer(s, sf, zsign)) out.fail(view ? "svd-view" : "svd-accessor-order", "singular_values() differs from what a fresh solver on the owning matrix returns for the same compute arguments" + std::string(view ? " (matrix passed as " + variant + ")" : ""), rj(oi));
                }
                bool fin = true, nonneg = true, ord = true; std::string w_gen;
                for (long i = 0; i < s.size(); i++) { if (!std::isfinite(s[i])) fin = false; if (!(s[i] >= 0)) nonneg = false; if (i > 0 && !(s[i] <= s[i - 1])) ord = false; }
                if (!fin || !nonneg) { std::ostringstream w; w << "singular value not finite / not non-negative:"; Vec lam = eg.eigenvalues(); for (long i = 0; i < s.size(); i++) w << " sqrt(" << lam[i] << ")=" << s[i]; out.fail("svd-nan", w.str(), rj(oi)); }
                else if (!ord) out.fail("svd-order", "singular values not non-increasing", rj(oi));
                else if (genuine_oracle && !genuine_values(s, sref, nA, last_tol, last_ret, ncomp, out, w_gen)) out.fail("svd-value", w_gen, rj(oi));
                else if (genuine_oracle && !values_oracle && last_ret == ncomp) {
                    // informational only (streams 6/7 grade genuineness, not position): all ncomp pairs passed the solver's test, yet a larger singular value of A
                    // is absent (second copy of a cluster / hidden leading vector not yet picked up by the single-vector Krylov space)
                    bool missed = false; for (long i = 0; i < s.size() && i < (long) sref.size(); i++) if (sref[i] - (LD) s[i] > 1e-3L * nA) missed = true;
                    out.count(missed ? "all_converged_genuine_but_a_larger_value_absent" : "all_converged_are_the_largest");
                }
                else if (values_oracle && last_ret == ncomp) {
                    // all requested values converged: the i-th value is the i-th largest singular value, to 100*tol*||A|| + 1e-9*||A||
                    // (only positions whose reference value is above 1e-4||A|| and separated from its neighbours by more than 1e-6||A||)
                    for (long i = 0; i < s.size(); i++) {
                        if (!(sref[i] > 1e-4L * nA)) continue;
                        bool sep = (i == 0 || sref[i - 1] - sref[i] > 1e-6L * nA) && (i + 1 >= (long) sref.size() || sref[i] - sref[i + 1] > 1e-6L * nA);
                        if (!sep) { out.count("values_skipped_cluster"); continue; }
                        out.count("oracle_value_match");
                        LD err = std::fabs((LD) s[i] - sref[i]);
                        if (!(err <= (100.0L * last_tol + 1e-9L) * nA)) { std::ostringstream w; w << "singular value " << i << " = " << s[i] << " differs from reference " << (double) sref[i] << " by " << (double) err << " (||A||=" << (double) nA << ", tol=" << last_tol << ")"; out.fail("svd-value", w.str(), rj(oi)); }
                    }
                }
            }
        } else {
            const bool isU = o.op == 'U';
            if (!have) { out.count("op_factor_skipped_before_first_successful_compute"); continue; }   // m_nconv is uninitialised until compute() returns: calling would be UB
            out.count(isU ? "op_matrix_U" : "op_matrix_V");
            req += std::string(" ") + o.op + " " + str(o.k);
            Mat F; bool asserted = false; std::string aw;
            try { F = isU ? svd.matrix_U(o.k) : svd.matrix_V(o.k); } catch (const EigenAssertError& e) { asserted = true; aw = e.what(); }
            if (have && last_ret >= 1 && !filled) filled = true;      // the cache holds >= 1 column from now on
            else if (have && AX::ecols(svd) >= 1) filled = true;
            if (asserted) {
                addresp("assert " + tail());
                out.fail(stale ? "svd-stale-cache" : "svd-assert", std::string("matrix_") + o.op + "(" + str(o.k) + ") hit an Eigen assertion (out-of-range block; undefined behaviour under NDEBUG): m_nconv=" + str(AX::nconv(svd)) + ", cached columns=" + str(AX::ecols(svd)) + " [" + aw.substr(0, 80) + "]", rj(oi));
                continue;
            }
            {
                const bool tallA = m > n; const bool computed = (isU == tallA);
                std::string body = "rows=" + str(F.rows()) + " cols=" + str(F.cols());
                if (!computed) {
                    for (long j = 0; j < F.cols(); j++) { Vec c = F.col(j); body += has_nan(c) ? nan_col(c.size()) : bits_of(c); }
                } else {
                    // the computed side is an Eigen product B * W, W = scaled_evecs(k): print the explicit-loop product of the
                    // SAME operands (bit-comparable with the model) and require the returned matrix to agree with it componentwise
                    Mat E = AX::evecs(svd); Vec sv = svd.singular_values(); bool ok = (E.cols() >= F.cols() && sv.size() >= F.cols());
                    Mat Aabs = A.cwiseAbs();
                    for (long j = 0; j < F.cols() && ok; j++) {
                        // scaled_evecs(): col / sigma_j for sigma_j > 0, the zero column otherwise (sigma = singular_values(), clamped)
                        Vec w = E.col(j); const double sj = sv[j]; if (sj > 0.0) { for (long i = 0; i < w.size(); i++) w[i] = w[i] / sj; } else w.setZero();
                        Vec g = isU ? naive_mul(A, w) : naive_tmul(A, w);
                        Vec wb = w.cwiseAbs(); Vec bnd = isU ? Vec(Aabs * wb) : Vec(Aabs.transpose() * wb);
                        Vec f = F.col(j);
                        if (has_nan(g) || has_nan(w)) body += nan_col(g.size());
                        else { body += bits_of(g); if (!prod_close(f, g, bnd, isU ? n : m)) ok = false; }
                    }
                    body += ok ? " prod=ok" : " prod=BAD"; out.count(ok ? "product_checks_ok" : "product_checks_bad");
                }
                addresp(body + " " + tail());
            }
            if (!have) continue;
            out.count("oracle_factor_counts");
            const long want_cols = std::min(o.k, last_ret), want_rows = isU ? m : n;
            if (F.cols() != want_cols || F.rows() != want_rows) { out.fail("svd-counts", std::string("matrix_") + o.op + "(" + str(o.k) + ") is " + str(F.rows()) + "x" + str(F.cols()) + ", expected " + str(want_rows) + "x" + str(want_cols), rj(oi)); continue; }
            // finiteness of the factors (rank-deficient input: the column of a zero singular value must not be NaN/inf)
            out.count("oracle_factor_finite");
            if (F.size() > 0 && !F.allFinite()) { out.fail("svd-nan", std::string("matrix_") + o.op + "(" + str(o.k) + ") contains non-finite entries (division by a zero / NaN singular value)", rj(oi)); continue; }
            // latest-compute / view / accessor order: a FRESH object on the OWNING matrix, given only the most recent compute() arguments and only THIS
            // accessor call, must return the same factor (init() uses a fixed seed, so the inner solver is deterministic: bit for bit; a view with
            // explicit zeros: up to the sign of zero)
            Vec s_fresh;
            if (ncompute >= 2 || view != 0 || pure) {
                out.count(ncompute >= 2 ? "oracle_latest" : "oracle_fresh_single_call");
                MT Af = Conv<MT>::make(A); PartialSVDSolver<MT> fresh(Af, ncomp, ncv); std::string fex;
                if (compute_outcome(fresh, last_maxit, last_tol, fex) < 0) { out.fail("svd-fresh-throws", "a fresh solver on the owning matrix threw " + fex + " in compute() with the arguments of the latest successful compute()", rj(oi)); continue; }
                s_fresh = fresh.singular_values();
                Mat Ff;
                try { Ff = isU ? fresh.matrix_U(o.k) : fresh.matrix_V(o.k); }
                catch (const EigenAssertError& e) { out.fail("svd-assert", std::string("a FRESH solver given the latest compute() arguments hit an Eigen assertion in matrix_") + o.op + "(" + str(o.k) + ") (undefined behaviour under NDEBUG): nconv=" + str(AX::nconv(fresh)) + ", cached columns=" + str(AX::ecols(fresh)) + " [" + std::string(e.what()).substr(0, 80) + "]", rj(oi)); continue; }
                double md = 0;
                if (!same_answer(F, Ff, zsign, &md)) {
                    std::ostringstream w; w << "matrix_" << o.op << "(" << o.k << ") after compute #" << ncompute << " differs from what a fresh solver on the owning matrix returns for the same (latest) compute arguments and this single call: max |diff| = " << md
                        << (stale ? " (eigenvector cache was filled before the latest compute)" : "") << (view ? " (matrix passed as " + variant + ")" : "") << "; accessor calls since the latest compute():";
                    for (const Seen& e : seen) w << " " << e.side << "(" << e.k << ")";
                    out.fail(stale ? "svd-stale-cache" : (ncompute >= 2 ? "svd-latest" : (view ? "svd-view" : "svd-accessor-order")), w.str(), rj(oi)); continue;
                }
            }
            // ONE decomposition: every answer since the latest compute() agrees with this one on the common leading columns
            // (cached side: leftCols of one matrix, bit for bit; computed side: the product B * (e_j / s_j) evaluated with another column count:
            //  bit for bit up to the sign of zero, else within the product rounding bound 16 (dim + 2) eps sum_l |B(i,l)| / s_j)
            const Vec s = pure ? s_fresh : Vec(svd.singular_values());
            {
                const bool computedSide = (isU == (m > n));
                for (const Seen& e : seen) if (e.side == o.op) {
                    const long c = std::min(F.cols(), e.F.cols()); if (c == 0) continue;
                    out.count("oracle_prefix");
                    if (same_answer(F.leftCols(c), e.F.leftCols(c), true)) { out.count("prefix_bitwise"); continue; }
                    bool ok = computedSide && (long) s.size() >= c; double worst = 0; long wj = -1;
                    for (long j = 0; j < c && ok; j++) for (long i = 0; i < F.rows(); i++) {
                        const double rs = isU ? A.row(i).cwiseAbs().sum() : A.col(i).cwiseAbs().sum(), df = std::fabs(F(i, j) - e.F(i, j));
                        if (df > worst) { worst = df; wj = j; }
                        if (!(s[j] > 0.0) || !(df <= 16.0 * (double) ((isU ? n : m) + 2) * 2.220446049250313e-16 * rs / s[j] + 1e-300)) ok = false;
                    }
                    if (ok) { out.count("prefix_within_product_rounding"); continue; }
                    std::ostringstream w; w << "matrix_" << o.op << "(" << o.k << ") and the earlier matrix_" << e.side << "(" << e.k << ") of the same compute() disagree on their " << c << " common leading columns (max |diff| = " << worst << " in column " << wj << "): the answers do not describe ONE decomposition";
                    out.fail("svd-accessor-consistency", w.str(), rj(oi)); break;
                }
            }
            // factor identities for every (k_u, k_v) pair requested since the latest compute(), on the matrices AS RETURNED
            {
                long lead = 0; while (lead < s.size() && std::isfinite(s[lead]) && (LD) s[lead] > 1e-4L * nA) lead++;
                for (const Seen& e : seen) if (e.side != o.op) {
                    const long kk = std::min(std::min(F.cols(), e.F.cols()), lead); if (kk == 0) continue;
                    out.count("oracle_pair_identities"); std::string w;
                    if (!grade_pair(A, isU ? F : e.F, isU ? e.F : F, s, kk, nA, last_tol, w)) { out.fail("svd-factors", "matrix_U(" + str(isU ? o.k : e.k) + ") with matrix_V(" + str(isU ? e.k : o.k) + ") as returned: " + w, rj(oi)); break; }
                }
            }
            seen.push_back(Seen{o.op, o.k, F});
            if (pure) continue;
            // (until the fix d08c57f the identities below were skipped when the cache predated the last compute(): they failed as a consequence of F4)
            // factor identities on the columns whose singular value exceeds 1e-4 ||A||
            long kk = 0; while (kk < F.cols() && kk < s.size() && std::isfinite(s[kk]) && (LD) s[kk] > 1e-4L * nA) kk++;
            if (kk == 0) continue;
            Mat U, V;
            try { U = svd.matrix_U(kk); V = svd.matrix_V(kk); }
            catch (const EigenAssertError& e) { out.fail(stale ? "svd-stale-cache" : "svd-assert", "matrix_U(" + str(kk) + ") / matrix_V(" + str(kk) + ") hit an Eigen assertion (undefined behaviour under NDEBUG): m_nconv=" + str(AX::nconv(svd)) + ", cached columns=" + str(AX::ecols(svd)) + " [" + std::string(e.what()).substr(0, 80) + "]", rj(oi)); continue; }
            if (U.cols() != kk || V.cols() != kk) continue;
            out.count("oracle_identities");
            { std::string w; if (!grade_pair(A, U, V, s, kk, nA, last_tol, w)) out.fail("svd-factors", w, rj(oi)); }
        }
    }
    (void) ncv_eff;
    if (do_corr) out.corr(req, resp);
}

// ---------------------------------------------------------------- case streams
static std::vector<OpSpec> gen_ops(Rng& r, long ncomp, bool allow_recompute) {
    std::vector<OpSpec> ops;
    const std::vector<long> maxits = {1000, 1000, 1000, 300, 3, 2, 1, 0};
    const std::vector<double> tols = {1e-10, 1e-10, 1e-12, 1e-8, 1e-6, 1e-3};
    int ncomp_calls = allow_recompute ? r.pick(std::vector<int>{1, 1, 2, 2, 3}) : 1;
    for (int c = 0; c < ncomp_calls; c++) {
        OpSpec o{'C', 0, c == 0 ? r.pick(std::vector<long>{1000, 1000, 1000, 300, 2, 1}) : r.pick(maxits), r.pick(tols)}; ops.push_back(o);
        int nacc = r.range(1, 4);
        for (int a = 0; a < nacc; a++) {
            int w = r.range(0, 4);
            if (w == 0) ops.push_back(OpSpec{'S', 0, 0, 0});
            else ops.push_back(OpSpec{w % 2 ? 'U' : 'V', (long) r.range(0, (int) ncomp + 2), 0, 0});
        }
        if (c == 0 || r.coin(0.5)) ops.push_back(OpSpec{'S', 0, 0, 0});
    }
    return ops;
}

template <class F> static void with_variant(int v, F f) { }
static void run_variant(int v, const CaseId& cid, const Gen& g, long ncomp, long ncv, const std::vector<OpSpec>& ops, Out& out, bool corr, int vals, int view = 0) {
    switch (v) {
    case 0: run_history<Mat>(cid, g, ncomp, ncv, ops, out, corr, vals, view); break;
    case 1: run_history<RMat>(cid, g, ncomp, ncv, ops, out, corr, vals, view); break;
    case 2: run_history<SpMat>(cid, g, ncomp, ncv, ops, out, corr, vals, view); break;
    default: run_history<RSpMat>(cid, g, ncomp, ncv, ops, out, corr, vals, view); break;
    }
}
// which view a case of an older stream uses: drawn from its OWN generator so that the inputs of streams 1-7 stay what they were
static int pick_view(const CaseId& cid, double p) { Rng q(cid.seed, 190 + (uint64_t) cid.stream, (uint64_t) cid.idx); return q.coin(p) ? q.range(1, NVIEWS - 1) : 0; }

static void shape(Rng& r, int maxd, int& m, int& n) {
    int a = r.range(2, r.coin(0.7) ? std::min(maxd, 9) : maxd), b = a + r.range(1, r.coin(0.7) ? 4 : std::max(4, maxd / 2));
    int sh = r.range(0, 2);
    if (sh == 0) { m = b; n = a; } else if (sh == 1) { m = a; n = b; } else { m = n = std::max(a, 2); }
}

// stream 1: random histories
static void case_history(const CaseId& cid, Out& out) {
    Rng r(cid.seed, 161, cid.idx); const bool th = cid.tier == "thorough";
    int m, n; shape(r, th ? 40 : 14, m, n); int d = std::min(m, n);
    int kind = r.pick(std::vector<int>{0, 0, 1, 2, 2, 3, 4}); Gen g = gen_matrix(r, m, n, kind);
    long ncomp = r.range(1, std::max(1, std::min(d - 1, 6))); long ncv = r.coin(0.3) ? d : r.range((int) ncomp + 1, d);
    int variant = r.range(0, 3);
    std::vector<OpSpec> ops = gen_ops(r, ncomp, true);
    out.count(std::string("shape_") + (m > n ? "tall" : (m < n ? "wide" : "square"))); out.count("kind_" + g.kind); out.count(std::string("variant_") + str(variant));
    run_variant(variant, cid, g, ncomp, ncv, ops, out, true, (!g.rankdef && kind != 1) ? 1 : 0, pick_view(cid, 0.35));
}

// stream 2: operator classes
template <class MT> static void op_case(const Mat& A, const Vec& x, bool tall, Out& out, int view, Rng& vq, const CaseId& cid) {
    MT Am = Conv<MT>::make(A); Vec y(x.size()); long dim;
    if (view) {
        // the same operator constructed from a view of the matrix: bit for bit the owning matrix's answer (explicit zeros: up to the sign of zero), storage untouched
        typename HolderOf<MT>::type H(A, view, vq); Vec yo(x.size()), yv(x.size());
        if (tall) { SVDTallMatOp<double, MT> o1(Am), o2(H.ref()); o1.perform_op(x.data(), yo.data()); o2.perform_op(x.data(), yv.data()); o2.perform_op(x.data(), yv.data()); }
        else { SVDWideMatOp<double, MT> o1(Am), o2(H.ref()); o1.perform_op(x.data(), yo.data()); o2.perform_op(x.data(), yv.data()); o2.perform_op(x.data(), yv.data()); }
        out.count("oracle_op_view"); out.count(std::string("opview_") + Conv<MT>::name() + H.suffix());
        if (!same_answer(yo, yv, H.signed_zero_only()) || !H.intact())
            out.fail("svd-op-view", std::string("perform_op through a view (") + Conv<MT>::name() + H.suffix() + ") differs from the owning matrix, or the caller's storage was modified", "{\"harness\":\"c16\",\"seed\":" + str(cid.seed) + ",\"stream\":2,\"idx\":" + str(cid.idx) + ",\"tier\":\"" + cid.tier + "\",\"op\":\"perform_op\",\"view\":" + str(view) + "}");
    }
    if (tall) { SVDTallMatOp<double, MT> op(Am); op.perform_op(x.data(), y.data()); dim = op.rows(); if (op.cols() != dim) out.fail("svd-op", "rows() != cols()", "{\"harness\":\"c16\"}"); }
    else { SVDWideMatOp<double, MT> op(Am); op.perform_op(x.data(), y.data()); dim = op.rows(); if (op.cols() != dim) out.fail("svd-op", "rows() != cols()", "{\"harness\":\"c16\"}"); }
    // explicit-loop result of the same product (bit-comparable with the model); the real result must agree with it componentwise
    Vec g = tall ? naive_tmul(A, naive_mul(A, x)) : naive_mul(A, naive_tmul(A, x));
    Mat Aabs = A.cwiseAbs(); Vec xb = x.cwiseAbs(); Vec bnd = tall ? Vec(Aabs.transpose() * (Aabs * xb)) : Vec(Aabs * (Aabs.transpose() * xb));
    bool pok = prod_close(y, g, bnd, A.rows() + A.cols());
    out.corr(std::string("op ") + (tall ? "T " : "W ") + Conv<MT>::name() + " " + str(A.rows()) + " " + str(A.cols()) + bits_of(A) + bits_of(x), "dim=" + str(dim) + bits_of(g) + (pok ? " prod=ok" : " prod=BAD"));
    // oracle: y = A'A x resp. AA' x in long double, to 8 * n * eps * ||A||^2 ||x|| entrywise (generous)
    LMat Al = A.cast<LD>(); Eigen::Matrix<LD, Eigen::Dynamic, 1> xl = x.cast<LD>(), yl = tall ? (Al.transpose() * (Al * xl)).eval() : (Al * (Al.transpose() * xl)).eval();
    LD sc = Al.cwiseAbs().maxCoeff(); sc = sc * sc * (LD) A.rows() * (LD) A.cols() * (xl.size() ? xl.cwiseAbs().maxCoeff() : 0);
    LD err = 0; for (long i = 0; i < y.size(); i++) err = std::max(err, std::fabs((LD) y[i] - yl[i]));
    out.count("oracle_op");
    if (!(err <= 64 * 2.3e-16L * sc + 1e-300L)) { std::ostringstream w; w << "perform_op deviates from the exact product by " << (double) err; out.fail("svd-op", w.str(), "{\"harness\":\"c16\",\"op\":\"perform_op\"}"); }
}
static void case_op(const CaseId& cid, Out& out) {
    Rng r(cid.seed, 162, cid.idx); const bool th = cid.tier == "thorough";
    int m, n; shape(r, th ? 60 : 20, m, n); bool tall = m > n; if (m == n) tall = r.coin();
    // the operator classes are shape-agnostic (the solver picks by shape); x has cols() entries for Tall, rows() for Wide
    Gen g = gen_matrix(r, m, n, r.pick(std::vector<int>{0, 1, 2, 3}));
    Vec x(tall ? n : m); for (long i = 0; i < x.size(); i++) x[i] = r.coin(0.1) ? 0.0 : r.sym();
    int v = r.range(0, 3); out.count(std::string("opcase_") + (tall ? "tall" : "wide") + "_v" + str(v));
    { std::ofstream lc(out.dir + "/lastcase.txt"); lc << "{\"harness\":\"c16\",\"seed\":" << cid.seed << ",\"stream\":2,\"idx\":" << cid.idx << "}"; }
    Rng vq(cid.seed, 172, cid.idx); const int view = vq.coin(0.5) ? vq.range(1, NVIEWS - 1) : 0;      // own generator: the inputs of this stream stay what they were
    switch (v) { case 0: op_case<Mat>(g.A, x, tall, out, view, vq, cid); break; case 1: op_case<RMat>(g.A, x, tall, out, view, vq, cid); break; case 2: op_case<SpMat>(g.A, x, tall, out, view, vq, cid); break; default: op_case<RSpMat>(g.A, x, tall, out, view, vq, cid); }
}

// stream 3: rank-deficient inputs, requesting as many values as the rank or more: finiteness / non-negativity / order / counts
static void case_rankdef(const CaseId& cid, Out& out) {
    Rng r(cid.seed, 163, cid.idx); const bool th = cid.tier == "thorough";
    int m, n; shape(r, th ? 30 : 12, m, n); int d = std::min(m, n); if (d < 3) { m += 2; n += 2; d += 2; }
    Gen g = gen_matrix(r, m, n, r.pick(std::vector<int>{3, 3, 4, 5}));
    if (r.coin(0.3)) g.A *= r.pick(std::vector<double>{1e-3, 1e3, 1e-8, 1e6});
    long ncomp = r.range(std::max(1, d / 2), d - 1); long ncv = r.coin(0.5) ? d : r.range((int) ncomp + 1, d);
    std::vector<OpSpec> ops = {OpSpec{'C', 0, r.pick(std::vector<long>{1000, 1000, 50, 5}), r.pick(std::vector<double>{1e-10, 1e-10, 1e-6, 1e-14})}, OpSpec{'S', 0, 0, 0}, OpSpec{'U', ncomp, 0, 0}, OpSpec{'V', ncomp, 0, 0}};
    out.count("rankdef_cases"); out.count("kind_" + g.kind);
    run_variant(r.range(0, 3), cid, g, ncomp, ncv, ops, out, cid.idx % 4 == 0, 0, pick_view(cid, 0.25));
}

// stream 4: fixed witnesses of the cache defect F4 (repaired by d08c57f: these histories must now be silent): compute; matrix_V; compute with other maxit/tol; matrix_V
static void case_f4(const CaseId& cid, Out& out) {
    Rng r(12345, 164, cid.idx / 4);     // independent of VERIF_SEED: fixed inputs
    int shp = (int) (cid.idx % 4);
    int m = shp == 0 ? 9 : (shp == 1 ? 5 : (shp == 2 ? 7 : 12)), n = shp == 0 ? 5 : (shp == 1 ? 9 : (shp == 2 ? 7 : 6));
    Gen g = gen_matrix(r, m, n, 0);
    long ncomp = 3, ncv = 5;
    std::vector<OpSpec> ops;
    if (cid.idx % 2 == 0) ops = {OpSpec{'C', 0, 1000, 1e-10}, OpSpec{'V', 3, 0, 0}, OpSpec{'U', 3, 0, 0}, OpSpec{'C', 0, 1000, 1e-2}, OpSpec{'S', 0, 0, 0}, OpSpec{'V', 3, 0, 0}, OpSpec{'U', 3, 0, 0}};
    else ops = {OpSpec{'C', 0, 1, 1e-14}, OpSpec{'U', 3, 0, 0}, OpSpec{'C', 0, 1000, 1e-10}, OpSpec{'S', 0, 0, 0}, OpSpec{'U', 3, 0, 0}, OpSpec{'V', 2, 0, 0}};
    out.count("f4_witness_cases");
    run_variant((int) (cid.idx % 4), cid, g, ncomp, ncv, ops, out, true, 0);
}

// stream 5: full-rank matrices over many scales (the operator is A'A: its norm is ||A||^2)
static void case_scaled(const CaseId& cid, Out& out) {
    Rng r(cid.seed, 165, cid.idx); const bool th = cid.tier == "thorough";
    int m, n; shape(r, th ? 30 : 12, m, n); int d = std::min(m, n);
    Gen g = gen_matrix(r, m, n, r.pick(std::vector<int>{0, 0, 2}));
    double sc = r.pick(std::vector<double>{1e-8, 1e-7, 1e-6, 1e-5, 1e-3, 1e3, 1e6, 1e8}); g.A *= sc; g.kind += "-scaled";
    long ncomp = r.range(1, std::max(1, std::min(d - 1, 5))); long ncv = r.coin(0.4) ? d : r.range((int) ncomp + 1, d);
    std::vector<OpSpec> ops = {OpSpec{'C', 0, 1000, r.pick(std::vector<double>{1e-10, 1e-8, 1e-12})}, OpSpec{'S', 0, 0, 0}, OpSpec{'U', ncomp, 0, 0}, OpSpec{'V', ncomp, 0, 0}};
    std::ostringstream k; k << "scaled_cases_" << sc; out.count(k.str());
    run_variant(r.range(0, 3), cid, g, ncomp, ncv, ops, out, cid.idx % 4 == 0, 1, pick_view(cid, 0.25));
}

// stream 6: runs that END partially converged (NotConverging): prescribed singular spectra with a tight cluster (relative gap 1e-9..1e-6) next to
// well separated values, optionally the leading singular vector (nearly) orthogonal to the start vector, small iteration budget, ncv barely above ncomp.
// PartialSVDSolver::compute() calls m_eigs->init(): the start vector is SimpleRandom<double>(0).random_vec(dim), dim = n (tall: operator A'A) or
// m (wide/square: operator AA'), and Arnoldi::init() begins the factorization with v1 = B r / ||B r||.  The eigenvector w_1 of B is invisible
// to the Krylov space exactly when w_1'r = 0 (then w_1'B^j r = 0 for every j), so A = P S W' (tall) resp. W S P' (wide/square) is built with the
// first column of the operator-side orthogonal factor W orthogonal to r up to delta in {0, 1e-8 .. 1e-3}.
static Vec solver_start_vector(long dim) { Spectra::SimpleRandom<double> rng(0); Vec r0 = rng.random_vec(dim); return r0; }
struct ClusterCase { Gen g; long ncomp = 1; std::string fam; double gap = 0, delta = -1, lead_on_start = 0; };
static ClusterCase gen_cluster(Rng& r, int m, int n, int fam) {
    ClusterCase c; const int d = std::min(m, n), big = std::max(m, n); const bool tall = m > n;
    const double gap = std::pow(10.0, -(6.0 + 3.0 * r.unit()));                      // relative gap of the cluster: 1e-9 .. 1e-6
    std::vector<double> head; bool hide = false;
    switch (fam) {
    case 0: c.fam = "top-pair"; head = {1.0, 1.0 - gap, 0.85}; c.ncomp = 3; break;                                 // two leading values resolved late, the third converges first
    case 1: c.fam = "hidden-lead"; head = {1.0, 0.9, 0.8, 0.8 * (1.0 - gap)}; c.ncomp = 2; hide = true; break;     // sigma_1 invisible at first; the pair below keeps the iteration going
    case 2: c.fam = "second-pair"; head = {1.0, 0.9, 0.9 * (1.0 - gap), 0.72}; c.ncomp = r.pick(std::vector<long>{3, 4}); hide = r.coin(0.3); break;
    case 3: c.fam = "top-triple"; head = {1.0, 1.0 - gap, 1.0 - 2.5 * gap, 0.8}; c.ncomp = r.pick(std::vector<long>{3, 4}); break;
    case 4: c.fam = "hidden-lead-pair"; head = {1.0, 0.95, 0.95 * (1.0 - gap), 0.8}; c.ncomp = r.pick(std::vector<long>{2, 3}); hide = true; break;
    default: c.fam = "hidden-lead-plain"; head = {1.0, 0.9, 0.8}; c.ncomp = r.pick(std::vector<long>{2, 2, 3}); hide = true; break;
    }
    c.gap = gap;
    std::vector<double> sv = head;
    { const double t0 = r.pick(std::vector<double>{0.75, 0.7, 0.65}), t1 = r.pick(std::vector<double>{0.3, 0.15, 0.05}); const int nt = d - (int) head.size();
      for (int i = 0; i < nt; i++) sv.push_back(t0 - (t0 - t1) * (double) i / (double) std::max(1, nt - 1) * (1.0 - 0.2 * r.unit() / (double) std::max(1, nt))); }
    sv.resize(d); std::sort(sv.begin(), sv.end(), [](double x, double y) { return x > y; });
    // operator-side orthogonal factor W (d x d): first column orthogonal to the start vector up to delta
    Mat Mw(d, d); for (int i = 0; i < d; i++) for (int j = 0; j < d; j++) Mw(i, j) = r.sym();
    Vec r0 = solver_start_vector(d); Vec rh = r0 / r0.norm();
    if (hide) {
        c.delta = r.pick(std::vector<double>{0.0, 0.0, 1e-8, 1e-7, 1e-6, 1e-5, 1e-4, 1e-3});
        Vec x = Mw.col(0); x -= x.dot(rh) * rh; x -= x.dot(rh) * rh; x.normalize(); x += c.delta * rh; x.normalize(); Mw.col(0) = x;
    }
    Eigen::HouseholderQR<Mat> qw(Mw); Mat W = qw.householderQ();
    c.lead_on_start = std::fabs(W.col(0).dot(rh));
    Mat P = rand_orth(r, big).leftCols(d);
    const double sc = r.pick(std::vector<double>{1.0, 1.0, 10.0, 0.1, 100.0, 1000.0});
    Vec S(d); for (int i = 0; i < d; i++) S[i] = sc * sv[i];
    c.g.A = tall ? Mat(P * S.asDiagonal() * W.transpose()) : Mat(W * S.asDiagonal() * P.transpose());
    c.g.kind = "cluster-" + c.fam; c.g.rankdef = 0;
    return c;
}
static void case_cluster(const CaseId& cid, Out& out) {
    Rng r(cid.seed, 166, cid.idx); const bool th = cid.tier == "thorough";
    const int sh = (int) (cid.idx % 3), fam = (int) ((cid.idx / 3) % 6);
    int d = r.range(10, th ? 40 : 30), e = r.range(1, 12), m, n;
    if (sh == 0) { m = d + e; n = d; } else if (sh == 1) { m = d; n = d + e; } else { m = n = d; }
    ClusterCase c = gen_cluster(r, m, n, fam);
    long ncomp = c.ncomp; long ncv = std::min<long>(d, ncomp + r.pick(std::vector<long>{1, 2, 2, 3, 3, ncomp}));
    int variant = r.range(0, 3);
    // history: several compute() calls with small budgets on the same object, each followed by the accessors
    std::vector<OpSpec> ops; int nc = r.range(3, 6);
    const std::vector<double> tols = {1e-10, 1e-10, 1e-8, 1e-8, 1e-6, 1e-12};
    for (int q = 0; q < nc; q++) {
        ops.push_back(OpSpec{'C', 0, (long) r.range(1, 12), r.pick(tols)});
        ops.push_back(OpSpec{'S', 0, 0, 0});
        const bool ufirst = r.coin(); const long k1 = r.coin(0.8) ? ncomp : (long) r.range(1, (int) ncomp + 1), k2 = r.coin(0.8) ? ncomp : (long) r.range(1, (int) ncomp + 1);
        ops.push_back(OpSpec{ufirst ? 'U' : 'V', k1, 0, 0}); ops.push_back(OpSpec{ufirst ? 'V' : 'U', k2, 0, 0});
    }
    out.count("cluster_cases"); out.count("cluster_family_" + c.fam); out.count(std::string("cluster_shape_") + (m > n ? "tall" : (m < n ? "wide" : "square"))); out.count(std::string("cluster_variant_") + (variant == 0 ? "dense-col" : variant == 1 ? "dense-row" : variant == 2 ? "sparse-col" : "sparse-row"));
    out.count("cluster_ncv_minus_ncomp_" + str(ncv - ncomp));
    if (c.delta >= 0) { std::ostringstream k; k << "cluster_lead_orth_delta_" << c.delta; out.count(k.str()); if (c.lead_on_start <= 2.0 * c.delta + 1e-12) out.count("cluster_lead_orth_verified"); }
    run_variant(variant, cid, c.g, ncomp, ncv, ops, out, cid.idx % 2 == 0, 2, pick_view(cid, 0.25));
}

// stream 7: fixed witnesses (independent of VERIF_SEED and tier) of partial convergence with a hole / of a Ritz reordering at the last restart
// (the repaired defect c774a83: stale convergence flags when maxit is exhausted): deterministic sin-matrices, every maxit in 1..12
static Mat sin_matrix(int n, double a, double b) { Mat M(n, n); for (int i = 0; i < n; i++) for (int j = 0; j < n; j++) M(i, j) = std::sin(a + 3.0 * i + b * j * j + 0.37 * i * j); return M; }
static void case_partial_witness(const CaseId& cid, Out& out) {
    const int which = (int) (cid.idx % 2), sh = (int) ((cid.idx / 2) % 3); const int d = 30, big = 40;
    Mat Q1 = Eigen::HouseholderQR<Mat>(sin_matrix(big, 1.0, 7.0)).householderQ(); Mat P = (sh == 2) ? Mat(Eigen::HouseholderQR<Mat>(sin_matrix(d, 1.0, 7.0)).householderQ()) : Mat(Q1.leftCols(d));
    Mat M = sin_matrix(d, 2.0, 5.0); Vec S(d); long ncomp, ncv;
    if (which == 0) { S[0] = 10; S[1] = 9.9999999; S[2] = 8.5; for (int i = 3; i < d; i++) S[i] = 7.5 - 0.2 * i; ncomp = 3; ncv = 6; }
    else { Vec r0 = solver_start_vector(d); r0.normalize(); Vec x = M.col(0); x -= x.dot(r0) * r0; M.col(0) = x.normalized();
           S[0] = 10; S[1] = 9; S[2] = 8; S[3] = 7.9999999; for (int i = 4; i < d; i++) S[i] = 7.5 - 0.2 * i; ncomp = 2; ncv = 5; }
    Mat W = Eigen::HouseholderQR<Mat>(M).householderQ();
    Gen g; g.kind = which == 0 ? "witness-top-pair" : "witness-hidden-lead"; g.A = (sh == 0) ? Mat(P * S.asDiagonal() * W.transpose()) : Mat(W * S.asDiagonal() * P.transpose());
    std::vector<OpSpec> ops; for (long mi = 1; mi <= 12; mi++) { ops.push_back(OpSpec{'C', 0, mi, 1e-10}); ops.push_back(OpSpec{'S', 0, 0, 0}); ops.push_back(OpSpec{'U', ncomp, 0, 0}); ops.push_back(OpSpec{'V', ncomp, 0, 0}); }
    out.count("partial_witness_cases");
    run_variant((int) ((cid.idx / 6) % 4), cid, g, ncomp, ncv, ops, out, cid.idx < 2, 2);
}

// stream 8: accessor sequences on ONE decomposition, no accessor call of the harness's own in between ("pure"): per compute() a sequence of
// matrix_U(k) / matrix_V(k) / singular_values() with k rising and falling (k1 < k2 > k3), k = 0, k above the converged count (ncomp + 1, ncomp + 2, 1000),
// the first call of an epoch being U or V with a small or a large k; two or three compute() per object (the later ones with other maxit / tol, some
// ending partly converged).  Graded by run_history: counts; every answer bitwise what a fresh object answers to that single call; common leading
// columns of all answers of one compute(); the factor identities for every (k_u, k_v) pair requested.  All of it also goes to the correspondence.
static void case_accseq(const CaseId& cid, Out& out) {
    Rng r(cid.seed, 168, cid.idx); const bool th = cid.tier == "thorough";
    int m, n; shape(r, th ? 24 : 12, m, n); if (std::min(m, n) < 3) { m += 2; n += 2; } const int d = std::min(m, n);
    Gen g = gen_matrix(r, m, n, r.pick(std::vector<int>{0, 0, 2, 3}));      // random, graded, and rank-deficient integer (zero singular values: zero columns on the computed side)
    const long ncomp = r.range(2, std::max(2, std::min(d - 1, 6))); const long ncv = r.coin(0.4) ? d : r.range((int) ncomp + 1, d);
    std::vector<OpSpec> ops; const int nc = r.range(2, 3);
    for (int c = 0; c < nc; c++) {
        ops.push_back(OpSpec{'C', 0, c == 0 ? r.pick(std::vector<long>{1000, 1000, 1000, 2}) : r.pick(std::vector<long>{1000, 1000, 3, 2, 1}), r.pick(std::vector<double>{1e-10, 1e-10, 1e-8, 1e-12, 1e-4})});
        const int len = r.range(5, 9); const int pattern = r.range(0, 3);
        std::vector<long> ks;
        for (int a = 0; a < len; a++) {
            long k;
            switch (pattern) {
            case 0: { const long up[] = {1, ncomp, 0, ncomp + 2, 2, 1000, ncomp - 1, 1, ncomp}; k = up[a % 9]; break; }             // small, large, zero, above, ...
            case 1: { const long dn[] = {ncomp, 1, ncomp + 1, 0, ncomp - 1, ncomp, 2, 1000, 1}; k = dn[a % 9]; break; }             // large first
            case 2: k = (a % 3 == 0) ? (long) r.range(0, 1) : (a % 3 == 1 ? ncomp + (long) r.range(0, 2) : (long) r.range(1, (int) ncomp)); break;   // k1 < k2 > k3 repeated
            default: k = (long) r.range(0, (int) ncomp + 2);
            }
            ks.push_back(k);
        }
        const int order = r.range(0, 3);      // which side goes first / how they alternate
        for (int a = 0; a < len; a++) {
            char side = (order == 0) ? (a % 2 ? 'V' : 'U') : (order == 1) ? (a % 2 ? 'U' : 'V') : (order == 2) ? (a < len / 2 ? 'U' : 'V') : (r.coin() ? 'U' : 'V');
            ops.push_back(OpSpec{side, ks[(size_t) a], 0, 0});
            if (r.coin(0.2)) ops.push_back(OpSpec{'S', 0, 0, 0});
        }
        ops.push_back(OpSpec{'S', 0, 0, 0});
    }
    const int variant = r.range(0, 3), view = r.coin(0.4) ? r.range(1, NVIEWS - 1) : 0;
    out.count("accseq_cases"); out.count(std::string("accseq_shape_") + (m > n ? "tall" : (m < n ? "wide" : "square"))); out.count("kind_" + g.kind); out.count("accseq_computes_" + str(nc));
    run_variant(variant, cid, g, ncomp, ncv, ops, out, true, 4 | ((!g.rankdef) ? 1 : 0), view);
}

// stream 9: configuration sweep: the guards at their boundaries.  Shapes 1 x n, n x 1, 1 x 1 (no legal (ncomp, ncv) exists: the constructor must throw
// std::invalid_argument), 2 x 2 (only ncomp = 1, ncv = 2), 2 x n, n x 2, small square / tall / wide; ncomp in {1, min(m,n) - 1} and the illegal 0, min(m,n);
// ncv in {ncomp + 1, min(m,n)} and the illegal ncomp, min(m,n) + 2; (maxit, tol) in {0, 1, 200} x {0, 1, 1e-10}.  Legal configurations run
// compute; S; U(ncomp); V(ncomp); U(1); V(0); S through run_history (the property's predicates on whatever is returned, and the correspondence).
static const int CFG_SHAPES[][2] = {{1, 5}, {5, 1}, {1, 1}, {2, 2}, {2, 3}, {3, 2}, {2, 7}, {7, 2}, {3, 3}, {5, 5}, {6, 4}, {4, 6}, {9, 5}, {5, 9}};
static const long CFG_MAXIT[] = {0, 1, 200}; static const double CFG_TOL[] = {0.0, 1.0, 1e-10};
template <class MT> static bool ctor_outcome(const Mat& A, long ncomp, long ncv, std::string& what) {
    MT Am = Conv<MT>::make(A);
    try { PartialSVDSolver<MT> s(Am, ncomp, ncv); what = "constructed"; return true; }
    catch (const std::invalid_argument&) { what = "std::invalid_argument"; return false; }
    catch (const EigenAssertError& e) { what = std::string("eigen-assert ") + e.what(); return false; }
    catch (const std::exception& e) { what = std::string("exception ") + e.what(); return false; }
}
static long config_count() { return (long) (sizeof(CFG_SHAPES) / sizeof(CFG_SHAPES[0])) * 4 * 4; }
static void case_config(const CaseId& cid, Out& out) {
    const long nsh = (long) (sizeof(CFG_SHAPES) / sizeof(CFG_SHAPES[0]));
    const long rep = cid.idx / (nsh * 16), w = cid.idx % (nsh * 16);
    const int m = CFG_SHAPES[w / 16][0], n = CFG_SHAPES[w / 16][1], d = std::min(m, n); const int ci = (int) ((w / 4) % 4), vi = (int) (w % 4);
    const long ncomp = ci == 0 ? 1 : (ci == 1 ? d - 1 : (ci == 2 ? 0 : d));
    const long ncv = vi == 0 ? ncomp + 1 : (vi == 1 ? d : (vi == 2 ? ncomp : d + 2));
    if ((ci == 1 && d - 1 == 1) || (vi == 1 && d == ncomp + 1)) { out.count("config_duplicates_skipped"); return; }     // the same configuration as ci = 0 / vi = 0
    Rng r(cid.seed, 169, (uint64_t) (w / 16) + 1000 * (uint64_t) rep);
    Gen g = gen_matrix(r, m, n, 0); g.kind = "config-random";
    const bool legal = (ncomp >= 1 && ncomp <= d - 1 && ncv > ncomp && ncv <= d);
    const int variant = (int) ((w + rep) % 4);
    { std::ofstream lc(out.dir + "/lastcase.txt"); lc << "{\"harness\":\"c16\",\"seed\":" << cid.seed << ",\"stream\":9,\"idx\":" << cid.idx << ",\"tier\":\"" << cid.tier << "\"}"; }
    std::string what; bool built;
    switch (variant) { case 0: built = ctor_outcome<Mat>(g.A, ncomp, ncv, what); break; case 1: built = ctor_outcome<RMat>(g.A, ncomp, ncv, what); break; case 2: built = ctor_outcome<SpMat>(g.A, ncomp, ncv, what); break; default: built = ctor_outcome<RSpMat>(g.A, ncomp, ncv, what); }
    out.count("oracle_config_ctor"); out.count(legal ? "config_legal" : "config_illegal"); out.count(std::string("config_shape_") + str(m) + "x" + str(n));
    if (built != legal || (!legal && what != "std::invalid_argument")) {
        std::ostringstream o; o << "{\"harness\":\"c16\",\"seed\":" << cid.seed << ",\"stream\":9,\"idx\":" << cid.idx << ",\"tier\":\"" << cid.tier << "\",\"m\":" << m << ",\"n\":" << n << ",\"ncomp\":" << ncomp << ",\"ncv\":" << ncv << ",\"variant\":" << variant << "}";
        out.fail("svd-config-ctor", "PartialSVDSolver(" + str(m) + "x" + str(n) + ", ncomp=" + str(ncomp) + ", ncv=" + str(ncv) + ") " + (legal ? "is a legal configuration (1 <= ncomp <= min(m,n)-1, ncomp < ncv <= min(m,n)) but the constructor ended with " : "is not a legal configuration but the constructor ended with ") + what, o.str());
    }
    if (!legal || !built) return;
    for (int mi = 0; mi < 3; mi++) for (int ti = 0; ti < 3; ti++) {
        std::vector<OpSpec> ops = {OpSpec{'C', 0, CFG_MAXIT[mi], CFG_TOL[ti]}, OpSpec{'S', 0, 0, 0}, OpSpec{'U', ncomp, 0, 0}, OpSpec{'V', ncomp, 0, 0}, OpSpec{'U', 1, 0, 0}, OpSpec{'V', 0, 0, 0}, OpSpec{'S', 0, 0, 0}};
        if ((mi + ti) % 2 == 0) { ops.push_back(OpSpec{'C', 0, CFG_MAXIT[(mi + 1) % 3], CFG_TOL[(ti + 2) % 3]}); ops.push_back(OpSpec{'V', ncomp + 1, 0, 0}); ops.push_back(OpSpec{'U', ncomp, 0, 0}); ops.push_back(OpSpec{'S', 0, 0, 0}); }
        std::ostringstream k; k << "config_maxit" << CFG_MAXIT[mi] << "_tol" << CFG_TOL[ti]; out.count(k.str());
        out.count(ncomp == 1 ? "config_ncomp_1" : "config_ncomp_dminus1"); out.count(ncv == d ? "config_ncv_full" : "config_ncv_ncomp_plus_1");
        const int view = ((w + mi + 2 * ti + rep) % 3 == 0) ? (int) (1 + (w + mi + ti) % (NVIEWS - 1)) : 0;
        run_variant(variant, cid, g, ncomp, ncv, ops, out, true, 1, view);
    }
}

// stream 10: view EXPRESSIONS handed directly to the constructor (the way a caller writes it: the Ref the constructor binds is a temporary that
// dies at once; legal exactly when the binding needs no evaluation) and sparse matrices with StorageIndex = long.  Every answer of
// compute(1000,1e-10); S; U(ncomp); V(ncomp); compute(2,1e-6); S; V(ncomp+1); U(1) is compared bit for bit with the OWNING matrix of the same
// storage order (long index: with the int-index matrix; explicit zeros: up to the sign of zero); handle and storage as in run_history.
struct Answers { std::vector<long> rets; std::vector<Mat> mats; std::string thrown; };
template <class MT, class Arg> static Answers direct_answers(const Arg& arg, long ncomp, long ncv, bool* direct, const std::function<bool(const Eigen::Ref<const MT>&)>& is_direct) {
    Answers a; PartialSVDSolver<MT> s(arg, ncomp, ncv);
    if (direct) *direct = is_direct(AX::matref(s));
    try {
        a.rets.push_back(s.compute(1000, 1e-10)); a.mats.push_back(s.singular_values()); a.mats.push_back(s.matrix_U(ncomp)); a.mats.push_back(s.matrix_V(ncomp));
        a.rets.push_back(s.compute(2, 1e-6)); a.mats.push_back(s.singular_values()); a.mats.push_back(s.matrix_V(ncomp + 1)); a.mats.push_back(s.matrix_U(1));
    } catch (const std::exception& e) { a.rets.push_back(-99); a.thrown = e.what(); }      // an exception is part of the answer (the owning matrix does not throw)
    return a;
}
// the caller changes the matrix behind the handle between two compute() calls: the second compute() and the accessors after it must describe the
// NEW matrix (bit for bit what a fresh solver on the new matrix returns): nothing but the handle, the sizes and the scratch vector is kept of the matrix
template <class MT, class Change> static void changed_behind(const Mat& A, const Mat& B, long ncomp, long ncv, Change change, const std::string& name, const CaseId& cid, Out& out) {
    MT M1 = Conv<MT>::make(A); PartialSVDSolver<MT> s(M1, ncomp, ncv);
    Answers a, b;
    try { s.compute(1000, 1e-10); (void) s.matrix_U(ncomp); (void) s.matrix_V(1);
          change(M1);
          a.rets.push_back(s.compute(1000, 1e-10)); a.mats.push_back(s.singular_values()); a.mats.push_back(s.matrix_V(ncomp)); a.mats.push_back(s.matrix_U(ncomp)); }
    catch (const std::exception& e) { a.rets.push_back(-99); a.thrown = e.what(); }
    MT M2 = Conv<MT>::make(B); PartialSVDSolver<MT> f(M2, ncomp, ncv);
    try { b.rets.push_back(f.compute(1000, 1e-10)); b.mats.push_back(f.singular_values()); b.mats.push_back(f.matrix_V(ncomp)); b.mats.push_back(f.matrix_U(ncomp)); }
    catch (const std::exception& e) { b.rets.push_back(-99); b.thrown = e.what(); }
    out.count("oracle_changed_behind_handle"); out.count("viewdirect_" + name);
    bool same = a.rets == b.rets && a.mats.size() == b.mats.size(); for (size_t i = 0; same && i < a.mats.size(); i++) same = same_answer(a.mats[i], b.mats[i], false);
    if (!same) { std::ostringstream o; o << "{\"harness\":\"c16\",\"seed\":" << cid.seed << ",\"stream\":10,\"idx\":" << cid.idx << ",\"tier\":\"" << cid.tier << "\",\"view_name\":\"" << name << "\"}";
        out.fail("svd-latest", name + ": after the caller changed the matrix behind the solver's handle, compute(); S; V; U do not describe the new matrix (differ from a fresh solver on it)" + (a.thrown.empty() ? "" : "; exception: " + a.thrown), o.str()); }
}
static void compare_answers(const Answers& a, const Answers& b, bool zsign, const std::string& name, const CaseId& cid, Out& out) {
    out.count("oracle_view_direct"); out.count("viewdirect_" + name);
    bool same = a.rets == b.rets && a.mats.size() == b.mats.size(); double md = 0; size_t at = 0;
    for (size_t i = 0; same && i < a.mats.size(); i++) { double d1 = 0; if (!same_answer(a.mats[i], b.mats[i], zsign, &d1)) { same = false; at = i; md = d1; } }
    if (!same) { std::ostringstream w; w << "matrix passed as " << name << ": answer #" << at << " of compute(1000,1e-10); S; U; V; compute(2,1e-6); S; V; U differs from the owning matrix (max |diff| = " << md << ")" << (a.thrown.empty() ? "" : "; exception: " + a.thrown) << (b.thrown.empty() ? "" : "; the owning matrix threw: " + b.thrown);
        std::ostringstream o; o << "{\"harness\":\"c16\",\"seed\":" << cid.seed << ",\"stream\":10,\"idx\":" << cid.idx << ",\"tier\":\"" << cid.tier << "\",\"view_name\":\"" << name << "\"}"; out.fail("svd-view", w.str(), o.str()); }
}
static void case_view_direct(const CaseId& cid, Out& out) {
    Rng r(cid.seed, 170, cid.idx); const bool th = cid.tier == "thorough";
    int m, n; shape(r, th ? 30 : 12, m, n); if (std::min(m, n) < 3) { m += 2; n += 2; } const int d = std::min(m, n);
    Gen g = gen_matrix(r, m, n, r.pick(std::vector<int>{0, 1, 1, 2}));
    const long ncomp = r.range(1, std::max(1, std::min(d - 1, 4))); const long ncv = r.coin(0.4) ? d : r.range((int) ncomp + 1, d);
    const Mat& A = g.A; const int which = (int) (cid.idx % 8);
    { std::ofstream lc(out.dir + "/lastcase.txt"); lc << "{\"harness\":\"c16\",\"seed\":" << cid.seed << ",\"stream\":10,\"idx\":" << cid.idx << ",\"tier\":\"" << cid.tier << "\"}"; }
    auto rp = [&](const std::string& nm) { std::ostringstream o; o << "{\"harness\":\"c16\",\"seed\":" << cid.seed << ",\"stream\":10,\"idx\":" << cid.idx << ",\"tier\":\"" << cid.tier << "\",\"view_name\":\"" << nm << "\"}"; return o.str(); };
    auto verdict = [&](bool direct, bool intact, const std::string& nm) {
        out.count("oracle_view_handle"); out.count("oracle_view_storage_intact");
        if (!direct) out.fail("svd-view-handle", "matrix passed as " + nm + ": the solver's handle does not point into the caller's storage", rp(nm));
        if (!intact) out.fail("svd-view-canary", "matrix passed as " + nm + ": the caller's storage was modified", rp(nm));
    };
    Rng q(cid.seed, 171, cid.idx);
    switch (which) {
    case 0: case 1: {   // dense column-major: block / Map / transposed row-major, the expression itself as the constructor argument
        Mat own = A; std::function<bool(const Eigen::Ref<const Mat>&)> any = [](const Eigen::Ref<const Mat>&) { return true; };
        Answers base = direct_answers<Mat>(own, ncomp, ncv, nullptr, any);
        { DenseHolder<Mat> H(A, 1, q); const double* e = H.expect; const long os = H.expect_os; bool dir = false;
          const long p = (e - H.big.data()) % H.big.outerStride(), c = (e - H.big.data()) / H.big.outerStride();
          Answers a = direct_answers<Mat>(H.big.block(p, c, m, n), ncomp, ncv, &dir, [&](const Eigen::Ref<const Mat>& h) { return h.data() == e && h.outerStride() == os; });
          compare_answers(a, base, false, "dense-col block expression", cid, out); verdict(dir, H.intact(), "dense-col block expression"); }
        { DenseHolder<Mat> H(A, 2, q); const double* e = H.expect; const long os = H.expect_os; bool dir = false;
          Eigen::Map<const Mat, 0, Eigen::OuterStride<>> mp(e, m, n, Eigen::OuterStride<>(os));
          Answers a = direct_answers<Mat>(mp, ncomp, ncv, &dir, [&](const Eigen::Ref<const Mat>& h) { return h.data() == e && h.outerStride() == os; });
          compare_answers(a, base, false, "dense-col Map<OuterStride>", cid, out); verdict(dir, H.intact(), "dense-col Map<OuterStride>"); }
        { RMat R = A.transpose(); bool dir = false; Mat keep = R;
          Answers a = direct_answers<Mat>(R.transpose(), ncomp, ncv, &dir, [&](const Eigen::Ref<const Mat>& h) { return h.data() == R.data(); });
          compare_answers(a, base, false, "dense-col transpose-of-row-major expression", cid, out); verdict(dir, same_answer(Mat(R), keep, false), "dense-col transpose-of-row-major expression"); }
        { Gen g2 = gen_matrix(q, m, n, 0); changed_behind<Mat>(A, g2.A, ncomp, ncv, [&](Mat& M) { M = g2.A; }, "dense-col matrix changed behind the handle", cid, out); }
        break; }
    case 2: case 3: {   // dense row-major
        RMat own = A; std::function<bool(const Eigen::Ref<const RMat>&)> any = [](const Eigen::Ref<const RMat>&) { return true; };
        Answers base = direct_answers<RMat>(own, ncomp, ncv, nullptr, any);
        { DenseHolder<RMat> H(A, 1, q); const double* e = H.expect; const long os = H.expect_os; bool dir = false;
          const long p = (e - H.big.data()) / H.big.outerStride(), c = (e - H.big.data()) % H.big.outerStride();
          Answers a = direct_answers<RMat>(H.big.block(p, c, m, n), ncomp, ncv, &dir, [&](const Eigen::Ref<const RMat>& h) { return h.data() == e && h.outerStride() == os; });
          compare_answers(a, base, false, "dense-row block expression", cid, out); verdict(dir, H.intact(), "dense-row block expression"); }
        { Mat C = A.transpose(); bool dir = false; Mat keep = C;
          Answers a = direct_answers<RMat>(C.transpose(), ncomp, ncv, &dir, [&](const Eigen::Ref<const RMat>& h) { return h.data() == C.data(); });
          compare_answers(a, base, false, "dense-row transpose-of-column-major expression", cid, out); verdict(dir, same_answer(C, keep, false), "dense-row transpose-of-column-major expression"); }
        break; }
    case 4: case 5: {   // sparse column-major: inner-panel expression, uncompressed lvalue, StorageIndex = long
        SpMat own = Conv<SpMat>::make(A); std::function<bool(const Eigen::Ref<const SpMat>&)> any = [](const Eigen::Ref<const SpMat>&) { return true; };
        Answers base = direct_answers<SpMat>(own, ncomp, ncv, nullptr, any);
        { SparseHolder<SpMat> H(A, 4, q); bool dir = false;
          Answers a = direct_answers<SpMat>(H.P.middleCols(H.pre, n), ncomp, ncv, &dir, [&](const Eigen::Ref<const SpMat>& h) { return H.direct(h); });
          compare_answers(a, base, false, "sparse-col middleCols expression", cid, out); verdict(dir, H.intact(), "sparse-col middleCols expression"); }
        { Mat B = A; for (long j = 0; j < B.cols(); j++) for (long i = 0; i < B.rows(); i++) if (B(i, j) != 0.0) B(i, j) = B(i, j) * (1.0 + 0.5 * q.unit()) + 0.25;      // same pattern, new values (written in place)
          changed_behind<SpMat>(A, B, ncomp, ncv, [&](SpMat& M) { for (long j = 0; j < M.outerSize(); j++) for (SpMat::InnerIterator it(M, j); it; ++it) it.valueRef() = B(it.row(), it.col()); }, "sparse-col values changed behind the handle", cid, out); }
        { SparseHolder<SpMatL> H(A, (int) q.range(0, 3), q); bool dir = false; std::function<bool(const Eigen::Ref<const SpMatL>&)> chk = [&](const Eigen::Ref<const SpMatL>& h) { return H.direct(h); };
          Answers a = direct_answers<SpMatL>(H.P, ncomp, ncv, &dir, chk);
          compare_answers(a, base, H.signed_zero_only(), "sparse-col StorageIndex=long" + H.suffix(), cid, out); verdict(dir, H.intact(), "sparse-col StorageIndex=long" + H.suffix()); }
        break; }
    default: {          // sparse row-major
        RSpMat own = Conv<RSpMat>::make(A); std::function<bool(const Eigen::Ref<const RSpMat>&)> any = [](const Eigen::Ref<const RSpMat>&) { return true; };
        Answers base = direct_answers<RSpMat>(own, ncomp, ncv, nullptr, any);
        { SparseHolder<RSpMat> H(A, 4, q); bool dir = false;
          Answers a = direct_answers<RSpMat>(H.P.middleRows(H.pre, m), ncomp, ncv, &dir, [&](const Eigen::Ref<const RSpMat>& h) { return H.direct(h); });
          compare_answers(a, base, false, "sparse-row middleRows expression", cid, out); verdict(dir, H.intact(), "sparse-row middleRows expression"); }
        { SparseHolder<RSpMatL> H(A, (int) q.range(0, 3), q); bool dir = false; std::function<bool(const Eigen::Ref<const RSpMatL>&)> chk = [&](const Eigen::Ref<const RSpMatL>& h) { return H.direct(h); };
          Answers a = direct_answers<RSpMatL>(H.P, ncomp, ncv, &dir, chk);
          compare_answers(a, base, H.signed_zero_only(), "sparse-row StorageIndex=long" + H.suffix(), cid, out); verdict(dir, H.intact(), "sparse-row StorageIndex=long" + H.suffix()); }
        break; }
    }
}

static void dispatch(const CaseId& c, Out& out) {
    switch (c.stream) { case 1: case_history(c, out); break; case 2: case_op(c, out); break; case 3: case_rankdef(c, out); break; case 4: case_f4(c, out); break; case 5: case_scaled(c, out); break; case 6: case_cluster(c, out); break; case 7: case_partial_witness(c, out); break; case 8: case_accseq(c, out); break; case 9: case_config(c, out); break; case 10: case_view_direct(c, out); break; default: break; }
}

static void dispatch_guarded(const CaseId& c, Out& out) {
    try { dispatch(c, out); }
    catch (const std::exception& e) {
        std::string last; { std::ifstream f(out.dir + "/lastcase.txt"); last.assign((std::istreambuf_iterator<char>(f)), {}); }
        if (last.empty() || last[0] != '{') { std::ostringstream o; o << "{\"harness\":\"c16\",\"seed\":" << c.seed << ",\"stream\":" << c.stream << ",\"idx\":" << c.idx << ",\"tier\":\"" << c.tier << "\"}"; last = o.str(); }
        out.fail("svd-uncaught-exception", std::string("an exception escaped the case: ") + e.what(), last);
    }
}
static long json_num(const std::string& t, const std::string& key, long dflt) { auto p = t.find("\"" + key + "\":"); if (p == std::string::npos) return dflt; return std::atol(t.c_str() + p + key.size() + 3); }

int main(int argc, char** argv) {
    Args a(argc, argv); Out out(a.out);
    if (!a.replay.empty()) {
        std::ifstream f(a.replay); std::string t((std::istreambuf_iterator<char>(f)), {});
        CaseId c{(uint64_t) json_num(t, "seed", (long) a.seed), (int) json_num(t, "stream", 1), json_num(t, "idx", 0), a.tier};
        auto p = t.find("\"tier\":\""); if (p != std::string::npos) { auto q = t.find('"', p + 8); c.tier = t.substr(p + 8, q - p - 8); }
        dispatch_guarded(c, out); out.finish(); return out.nfail ? 1 : 0;
    }
    const bool th = a.thorough();
    long n4 = 8, n1 = th ? 9000 : 260, n2 = th ? 3000 : 300, n3 = th ? 12000 : 400, n5 = th ? 5000 : 200, n6 = th ? 3000 : 240, n7 = 6;
    const long n8 = th ? 4000 : 220, n9 = config_count() * (th ? 6 : 1), n10 = th ? 1600 : 96;
    for (long i = 0; i < n4; i++) dispatch_guarded(CaseId{a.seed, 4, i, a.tier}, out);
    // fixed witnesses (independent of VERIF_SEED and tier) of F5 (NaN on rank-deficient input; repaired by a913b0d: must now be silent) and of the recorded finding F12 (small norm)
    { const long f5[] = {283, 273}; for (long i : f5) dispatch_guarded(CaseId{1, 3, i, "quick"}, out);
      const long f12[] = {19, 4}; for (long i : f12) dispatch_guarded(CaseId{1, 5, i, "quick"}, out); out.count("fixed_witness_cases", 4); }
    for (long i = 0; i < n1; i++) dispatch_guarded(CaseId{a.seed, 1, i, a.tier}, out);
    for (long i = 0; i < n2; i++) dispatch_guarded(CaseId{a.seed, 2, i, a.tier}, out);
    for (long i = 0; i < n3; i++) dispatch_guarded(CaseId{a.seed, 3, i, a.tier}, out);
    for (long i = 0; i < n5; i++) dispatch_guarded(CaseId{a.seed, 5, i, a.tier}, out);
    for (long i = 0; i < n7; i++) dispatch_guarded(CaseId{a.seed, 7, i, a.tier}, out);
    for (long i = 0; i < n6; i++) dispatch_guarded(CaseId{a.seed, 6, i, a.tier}, out);
    for (long i = 0; i < n8; i++) dispatch_guarded(CaseId{a.seed, 8, i, a.tier}, out);
    for (long i = 0; i < n9; i++) dispatch_guarded(CaseId{a.seed, 9, i, a.tier}, out);
    for (long i = 0; i < n10; i++) dispatch_guarded(CaseId{a.seed, 10, i, a.tier}, out);
    out.finish();
    return 0;
}
