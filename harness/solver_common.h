// Shared pieces of the solver-level harnesses (C01/C04/C05/C06/C14): instrumented operator classes whose arithmetic is an
// explicit scalar loop (mirrored line by line by the Lean model), structured matrix generators, history generation.
#pragma once
#include "common.h"
#include <Eigen/Core>
#include <Eigen/Dense>
#include <Spectra/SymEigsSolver.h>
#include <Spectra/SymEigsShiftSolver.h>
#include <Spectra/HermEigsSolver.h>
#include <Spectra/GenEigsSolver.h>
#include <Spectra/GenEigsRealShiftSolver.h>
#include <Spectra/GenEigsComplexShiftSolver.h>
#include <Spectra/SymGEigsSolver.h>
#include <Spectra/SymGEigsShiftSolver.h>
#include <Spectra/MatOp/DenseSymMatProd.h>
#include <Spectra/MatOp/DenseGenMatProd.h>
#include <Spectra/MatOp/DenseSymShiftSolve.h>
#include <Spectra/MatOp/DenseGenRealShiftSolve.h>
#include <Spectra/MatOp/DenseGenComplexShiftSolve.h>
#include <Spectra/MatOp/DenseCholesky.h>
#include <Spectra/MatOp/SparseRegularInverse.h>
#include <Spectra/MatOp/SymShiftInvert.h>
#include <Spectra/MatOp/DenseHermMatProd.h>

namespace sh {
using namespace vh;
typedef long double LD;
typedef Eigen::MatrixXd Mat;
typedef Eigen::VectorXd Vec;
typedef Eigen::Matrix<LD, Eigen::Dynamic, Eigen::Dynamic> MatL;
typedef Eigen::Matrix<LD, Eigen::Dynamic, 1> VecL;
using Spectra::SortRule;
using Spectra::CompInfo;

struct UserFault : public std::exception { long k; explicit UserFault(long k_) : k(k_) {} const char* what() const noexcept override { return "user operator fault"; } };
struct RawFault { long k; };   // a user error type that is NOT derived from std::exception (throw_kind = 1)

// FNV-1a over the bit patterns of every vector handed to the operator (input side): one number that pins the whole sequence
struct OpLog {
    long count = 0; uint64_t hash = 1469598103934665603ull; long throw_at = -1; bool alias_seen = false; long badlen = 0; int throw_kind = 0;
    [[noreturn]] void raise(long k) const { if (throw_kind == 1) throw RawFault{k}; throw UserFault(k); }
    void reset() { count = 0; hash = 1469598103934665603ull; }
    void feed(const double* x, long n) { for (long i = 0; i < n; i++) { uint64_t u = dbits(x[i]); for (int b = 0; b < 8; b++) { hash ^= (u >> (8 * b)) & 0xff; hash *= 1099511628211ull; } } }
    void enter(const double* x, const double* y, long n) {
        count++;
        if (x == y || (x < y + n && y < x + n)) alias_seen = true;
        feed(x, n);
        if (throw_at >= 0 && count == throw_at) raise(count);
    }
};

// y = M x, each row accumulated left to right from +0 (Arnoldi.rowMajorOp of the model)
struct LoopMatOp {
    using Scalar = double;
    const Mat* M; OpLog* log;
    LoopMatOp(const Mat& m, OpLog& l) : M(&m), log(&l) {}
    Eigen::Index rows() const { return M->rows(); }
    Eigen::Index cols() const { return M->cols(); }
    void perform_op(const double* x, double* y) const {
        const long n = M->rows(), m = M->cols();
        log->enter(x, y, m);
        for (long i = 0; i < n; i++) { double s = 0.0; for (long j = 0; j < m; j++) s += (*M)(i, j) * x[j]; y[i] = s; }   // 0 + t0 + t1 + ... (Arnoldi.rowMajorOp of the model)
    }
    void set_shift(const double&) {}                       // SymEigsShiftSolver / GenEigsRealShiftSolver: M is already (A - sigma I)^{-1}
};

// ---- matrix generators (symmetric): Q diag(d) Q' with prescribed spectrum, plus structured special cases ----
inline Mat rand_orth(Rng& r, int n) {
    Mat M(n, n); for (int i = 0; i < n; i++) for (int j = 0; j < n; j++) M(i, j) = r.sym();
    Eigen::HouseholderQR<Mat> qr(M); Mat Q = qr.householderQ(); return Q;
}
inline Mat sym_from_spectrum(Rng& r, const Vec& d) {
    const int n = (int) d.size(); Mat Q = rand_orth(r, n); Mat A = Q * d.asDiagonal() * Q.transpose(); return (0.5 * (A + A.transpose())).eval();
}
// kinds: 0 generic, 1 clustered, 2 repeated, 3 graded, 4 low rank, 5 block diagonal, 6 +- pairs (magnitude ties), 7 small integers
inline Mat gen_sym(Rng& r, int n, int kind, double scale, Vec* spectrum = nullptr) {
    Vec d(n);
    for (int i = 0; i < n; i++) d[i] = r.sym() * 10;
    Mat A;
    switch (kind) {
        case 1: for (int i = 0; i < n; i++) d[i] = (i < n / 2 ? 5.0 + 1e-8 * i : r.sym()); A = sym_from_spectrum(r, d); break;
        case 2: for (int i = 0; i < n; i++) d[i] = (double) (i % 3) + 1; A = sym_from_spectrum(r, d); break;
        case 3: for (int i = 0; i < n; i++) d[i] = std::pow(10.0, -8.0 + 16.0 * i / std::max(1, n - 1)) * (r.coin() ? 1 : -1); A = sym_from_spectrum(r, d); break;
        case 4: for (int i = 0; i < n; i++) d[i] = (i < 2 ? 3.0 + i : 0.0); A = sym_from_spectrum(r, d); break;
        case 5: { A = Mat::Zero(n, n); int h = n / 2; Vec d1 = d.head(h), d2 = d.tail(n - h); A.topLeftCorner(h, h) = sym_from_spectrum(r, d1); A.bottomRightCorner(n - h, n - h) = sym_from_spectrum(r, d2); break; }
        case 6: for (int i = 0; i < n; i++) d[i] = ((i % 2) ? -1.0 : 1.0) * (1.0 + (i / 2) * 0.5 + 1e-7 * r.sym()); A = sym_from_spectrum(r, d); break;
        case 7: { A = Mat::Zero(n, n); for (int i = 0; i < n; i++) for (int j = 0; j <= i; j++) { double v = (double) r.range(-2, 2); if (r.coin(0.4)) v = 0; A(i, j) = v; A(j, i) = v; } d.setZero(); break; }
        default: A = sym_from_spectrum(r, d);
    }
    A *= scale; if (spectrum) *spectrum = d * scale;
    return A;
}
inline Mat gen_general(Rng& r, int n, int kind, double scale) {
    Mat A(n, n);
    for (int i = 0; i < n; i++) for (int j = 0; j < n; j++) A(i, j) = r.sym();
    switch (kind) {
        case 1: { Mat S = A - A.transpose(); A = S; break; }                                  // skew
        case 2: A = rand_orth(r, n); break;                                                      // orthogonal
        case 3: { A.setZero(); for (int i = 0; i < n; i++) A((i + 1) % n, i) = 1; break; }       // cyclic permutation
        case 4: for (int i = 0; i < n; i++) for (int j = 0; j < i; j++) A(i, j) = 0; break;     // triangular
        case 5: { Vec u(n), v(n); for (int i = 0; i < n; i++) { u[i] = r.sym(); v[i] = r.sym(); } A = u * v.transpose(); break; }  // rank 1
        case 6: { Mat S = A + A.transpose(); A = S; break; }                                     // symmetric (normal)
        default: break;
    }
    return (A * scale).eval();
}

inline std::string mat_bits(const Mat& A) { std::string s; for (long i = 0; i < A.rows(); i++) for (long j = 0; j < A.cols(); j++) { s += " "; s += str(dbits(A(i, j))); } return s; }   // row-major
inline std::string vec_bits(const Vec& v) { std::string s; for (long i = 0; i < v.size(); i++) { s += " "; s += str(dbits(v[i])); } return s; }
inline const char* info_name(CompInfo i) { switch (i) { case CompInfo::Successful: return "Successful"; case CompInfo::NotComputed: return "NotComputed"; case CompInfo::NotConverging: return "NotConverging"; default: return "NumericalIssue"; } }

// one call of a history
struct Call { char kind; Vec v0; int sel = 0, sort = 3; long maxit = 0; double tol = 1e-10; long nvec = 0; };

}  // namespace sh
