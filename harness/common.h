// Common helpers for the correspondence / oracle harnesses (built against /repo/include on every run).
#pragma once
#include <cstdint>
#include <cstdio>
#include <cstdlib>
#include <cstring>
#include <string>
#include <vector>
#include <map>
#include <sstream>
#include <iostream>
#include <fstream>
#include <cmath>
#include <limits>
#include <complex>
#include <stdexcept>
#include <functional>
#include <algorithm>
#include <csignal>
#include <unistd.h>
#include <fcntl.h>

namespace vh {

// ---- one PRNG state per case: splitmix64 seeded from (VERIF_SEED, stream, case index) ----
struct Rng {
    uint64_t s;
    explicit Rng(uint64_t seed, uint64_t stream = 0, uint64_t idx = 0) : s(seed * 0x9E3779B97F4A7C15ull ^ (stream + 1) * 0xBF58476D1CE4E5B9ull ^ (idx + 1) * 0x94D049BB133111EBull) { next(); next(); }
    uint64_t next() { uint64_t z = (s += 0x9E3779B97F4A7C15ull); z = (z ^ (z >> 30)) * 0xBF58476D1CE4E5B9ull; z = (z ^ (z >> 27)) * 0x94D049BB133111EBull; return z ^ (z >> 31); }
    uint64_t below(uint64_t n) { return n ? next() % n : 0; }
    int range(int lo, int hi) { return lo + (int) below((uint64_t)(hi - lo + 1)); }  // inclusive
    double unit() { return (double) (next() >> 11) * (1.0 / 9007199254740992.0); }       // [0,1)
    double sym() { return 2.0 * unit() - 1.0; }
    bool coin(double p = 0.5) { return unit() < p; }
    template <class T> const T& pick(const std::vector<T>& v) { return v[below(v.size())]; }
};

inline uint64_t dbits(double x) { uint64_t u; std::memcpy(&u, &x, 8); return u; }
inline double bitsd(uint64_t u) { double x; std::memcpy(&x, &u, 8); return x; }
inline uint32_t fbits(float x) { uint32_t u; std::memcpy(&u, &x, 4); return u; }

inline std::string jesc(const std::string& s) {
    std::string o; for (char c : s) { if (c == '"' || c == '\\') { o += '\\'; o += c; } else if (c == '\n') o += "\\n"; else if ((unsigned char) c < 32) o += ' '; else o += c; } return o;
}

// ---- outputs of one harness run: <out>/requests.txt, impl.txt (one line per request), oracle.jsonl, stats.json ----
// ---- progress watchdog: every corr()/count()/fail() re-arms a 15-minute alarm.  A harness that makes no progress for that long is
// executing a case that does not terminate (cases take milliseconds to seconds); it is stopped with exit status 98 after appending
// the last request it had issued to <out>/lastcase.txt, and the check reports the abort with that position as the replay.
struct Watchdog {
    static char* last() { static char buf[700]; return buf; }
    static char* path() { static char buf[600]; return buf; }
    static void on_alarm(int) {
        int fd = open(path(), O_WRONLY | O_CREAT | O_APPEND, 0644);
        if (fd >= 0) { const char* m = "\nWATCHDOG: no progress for 900 s (a case that does not terminate); last request issued before it: ";
                       ssize_t r = write(fd, m, strlen(m)); r = write(fd, last(), strlen(last())); r = write(fd, "\n", 1); (void) r; close(fd); }
        const char* e = "WATCHDOG: no progress for 900 s, harness stopped\n"; ssize_t r2 = write(2, e, strlen(e)); (void) r2;
        _exit(98);
    }
    static void arm(const std::string& dir) { std::snprintf(path(), 600, "%s/lastcase.txt", dir.c_str()); std::signal(SIGALRM, on_alarm); alarm(900); }
    static void tick(const std::string* req = nullptr) { if (req) { std::strncpy(last(), req->c_str(), 690); last()[690] = 0; } alarm(900); }
};

struct Out {
    std::string dir;
    std::ofstream req, impl, oracle;
    std::map<std::string, long> counters;
    std::vector<std::string> samples;
    long nreq = 0, nfail = 0;
    explicit Out(const std::string& d) : dir(d), req(d + "/requests.txt"), impl(d + "/impl.txt"), oracle(d + "/oracle.jsonl") { Watchdog::arm(d); }
    // a correspondence case: request for the model driver + the implementation's canonical answer
    void corr(const std::string& request, const std::string& response) { Watchdog::tick(&request); req << request << "\n"; impl << response << "\n"; nreq++; if (samples.size() < 6 && request.size() < 400) samples.push_back(request + " -> " + response); }
    // an oracle (property predicate) failure on the implementation; `sig` identifies the kind for known-finding matching
    void fail(const std::string& sig, const std::string& what, const std::string& replay_json) {
        Watchdog::tick();
        oracle << "{\"sig\":\"" << jesc(sig) << "\",\"what\":\"" << jesc(what) << "\",\"replay\":" << replay_json << "}\n"; nfail++;
    }
    void count(const std::string& k, long by = 1) { Watchdog::tick(); counters[k] += by; }
    void finish() {
        std::ofstream st(dir + "/stats.json");
        st << "{\"requests\":" << nreq << ",\"oracle_failures\":" << nfail << ",\"counters\":{";
        bool first = true; for (auto& kv : counters) { if (!first) st << ","; first = false; st << "\"" << jesc(kv.first) << "\":" << kv.second; }
        st << "},\"samples\":["; first = true; for (auto& s : samples) { if (!first) st << ","; first = false; st << "\"" << jesc(s) << "\""; }
        st << "]}\n";
        req.flush(); impl.flush(); oracle.flush();
        alarm(0);
    }
};

struct Args {
    uint64_t seed = 1; std::string tier = "quick"; std::string out = "."; std::string replay;
    Args(int argc, char** argv) {
        for (int i = 1; i < argc; i++) {
            std::string a = argv[i];
            if (a == "--seed" && i + 1 < argc) seed = std::strtoull(argv[++i], nullptr, 10);
            else if (a == "--tier" && i + 1 < argc) tier = argv[++i];
            else if (a == "--out" && i + 1 < argc) out = argv[++i];
            else if (a == "--replay" && i + 1 < argc) replay = argv[++i];
        }
    }
    bool thorough() const { return tier == "thorough"; }
};

template <class T> std::string str(const T& x) { std::ostringstream o; o << x; return o.str(); }

}  // namespace vh
