// C17 harness: the REAL Spectra::LOBPCGSolver<double>
//  (a) correspondence: for every cut j = 0..J a fresh solver runs compute(j, tol); its observable state (info, eigenvalues(),
//      eigenvectors(), the public member m_evectors (`coef`), residuals(), the private iterate X via SpectraVerifAccess) is printed.  A statement-by-statement shadow of
//      compute() built from the class's own private methods (orthogonalizeInPlace, removeColumns, checkConvergence_getBlocksize,
//      sort_epairs, stack_*) runs next to it, must reproduce the real object bit for bit (field `sh=1`), and supplies what cannot
//      be seen from outside: the kernel outputs (orthonormalised blocks, raw Ritz data of the inner solvers) that are handed to the
//      Lean model, and the per-iteration list of removed columns.
//  (b) oracle: the property's own predicate on the real outputs against a dense generalized reference in long double.
//  Streams: the general stream (no / Jacobi preconditioner), a preconditioner stream (Jacobi, a poor diagonal SPD one, a poor
//  tridiagonal SPD one), a loose-tolerance stream (graded spectrum, columns lock at different iterations and unlock again: pins the
//  per-iteration list of removed columns), a near-convergence stress stream (Jacobi preconditioner, tolerance at the default and
//  near the attainable accuracy: the Gram matrix of [X R D] degenerates), crafted exits; histories of public calls on ONE object
//  (compute / setB / setPreconditioner / setConstraints / compute ...: fresh-twin bit equality + predicate for the CURRENT problem
//  after every compute, whole-history correspondence against the model object); indefinite and negative definite A (prescribed
//  spectra); a deterministic collapse family for the final B-orthonormality guard (a column of X of B-norm ~0).
#include "common.h"
#include <memory>
#include <Eigen/Core>
#include <Eigen/SparseCore>
#include <Eigen/Eigenvalues>
#include <Eigen/QR>
#include <Spectra/contrib/LOBPCGSolver.h>
using namespace vh;

typedef Eigen::MatrixXd Mat;
typedef Eigen::VectorXd Vec;
typedef Eigen::SparseMatrix<double> Sp;
typedef Spectra::LOBPCGSolver<double> Solver;
typedef Eigen::Matrix<long double, Eigen::Dynamic, Eigen::Dynamic> LMat;
typedef Eigen::Matrix<long double, Eigen::Dynamic, 1> LVec;

struct SpectraVerifAccess {
    static Sp& X(Solver& s) { return s.X; }
    static Sp A(Solver& s) { return Sp(s.A); }       // by value: whatever the member's type (value, reference, Eigen::Ref), this is the matrix the solver uses now
    static Sp& B(Solver& s) { return s.m_B; }
    static Sp& T(Solver& s) { return s.m_preconditioner; }
    static bool withT(Solver& s) { return s.flag_with_preconditioner; }
    static bool withB(Solver& s) { return s.flag_with_B; }
    static bool withY(Solver& s) { return s.flag_with_constraints; }
    static int n(Solver& s) { return s.m_n; }
    static int nev(Solver& s) { return s.m_nev; }
    static int orth(Solver& s, Sp& M, Sp& B, Sp& BM, bool has = false) { return s.orthogonalizeInPlace(M, B, BM, has); }
    static void removeColumns(Solver& s, Sp& m, std::vector<int>& c) { s.removeColumns(m, c); }
    static int check(Solver& s, Sp& r, double tol, std::vector<int>& c) { return s.checkConvergence_getBlocksize(r, tol, c); }
    static void sort(Solver& s, Vec& ev, Mat& evec) { s.sort_epairs(ev, evec, Spectra::SortRule::SmallestAlge); }
    static Mat stack4(Solver& s, Mat a, Mat b, Mat c, Mat d) { return s.stack_4_matricies(a, b, c, d); }
    static Mat stack9(Solver& s, Mat a, Mat b, Mat c, Mat d, Mat e, Mat f, Mat g, Mat h, Mat i) { return s.stack_9_matricies(a, b, c, d, e, f, g, h, i); }
};
typedef SpectraVerifAccess Acc;

// ---------------------------------------------------------------------------------------------------------------- trace
struct IterRec {
    std::vector<int> del; int bs = 0;
    int orthR = -1; Mat R;          // -1 not reached, 0 failed, 1 ok
    int orthD = -1; Mat D;          // -1 not applicable / not reached
    int rr = 3; Vec theta; Mat C;   // 0 ok, 1 not converged, 2 threw, 3 not reached, 4 Cholesky of the Gram matrix failed
    bool completed = false;
};
struct Trace {
    int orthX = 0; Mat X1; int eig0 = 0; Vec theta0; Mat C0;
    std::vector<IterRec> it;
    bool threw = false; std::string what;
    int guard = -1;                 // the B-orthonormality guard in front of m_info = Success: -1 not evaluated, 0 failed, 1 passed
};

// statement-by-statement shadow of LOBPCGSolver::compute (flag_with_constraints = false), on the object's own members
static void shadow_compute(Solver& s, int maxit, double tol_div_n, Trace& tr) {
    using namespace Spectra;
    const int m_n = Acc::n(s), m_nev = Acc::nev(s);
    Sp& X = Acc::X(s); const Sp A = Acc::A(s); Sp& m_B = Acc::B(s);
    s.m_info = Eigen::NoConvergence;
    double tolerance_L2 = tol_div_n * m_n;
    int BlockSize;
    int max_iter = std::min(m_n, maxit);
    Sp directions, AX, AR, BX, AD, ADD, DD, BDD, BD, XAD, RAD, DAD, XBD, RBD, BR, sparse_eVecX, sparse_eVecR, sparse_eVecD;
    Mat XAR, RAR, XBR, gramA, gramB, eVecX, eVecR, eVecD;
    std::vector<int> columnsToDelete;
    if (Acc::orth(s, X, m_B, BX) != Eigen::Success) { max_iter = 0; tr.orthX = 0; }
    else { tr.orthX = 1; tr.X1 = Mat(X); }
    AX = A * X;
    Eigen::EigenSolver<Mat> eigs(Mat(X.transpose() * AX));
    if (eigs.info() != Eigen::Success) { s.m_info = eigs.info(); max_iter = 0; tr.eig0 = 0; }
    else {
        tr.eig0 = 1;
        s.m_evalues = eigs.eigenvalues().real();
        s.m_evectors = eigs.eigenvectors().real();
        tr.theta0 = s.m_evalues; tr.C0 = s.m_evectors;
        Acc::sort(s, s.m_evalues, s.m_evectors);
        sparse_eVecX = s.m_evectors.sparseView();
        X = X * sparse_eVecX; AX = AX * sparse_eVecX; BX = BX * sparse_eVecX;
    }
    for (int iter_num = 0; iter_num < max_iter; iter_num++) {
        s.m_residuals.resize(m_n, m_nev);
        for (int i = 0; i < m_nev; i++) s.m_residuals.col(i) = AX.col(i) - s.m_evalues(i) * BX.col(i);
        BlockSize = Acc::check(s, s.m_residuals, tolerance_L2, columnsToDelete);
        tr.it.emplace_back(); IterRec& r = tr.it.back(); r.del = columnsToDelete; r.bs = BlockSize;
        if (BlockSize == 0) { s.m_info = Eigen::Success; break; }
        if (columnsToDelete.size() > 0) {
            Acc::removeColumns(s, s.m_residuals, columnsToDelete);
            if (iter_num > 0) { Acc::removeColumns(s, directions, columnsToDelete); Acc::removeColumns(s, AD, columnsToDelete); Acc::removeColumns(s, BD, columnsToDelete); }
            columnsToDelete.clear();
        }
        if (Acc::withT(s)) s.m_residuals = Acc::T(s) * s.m_residuals;
        if (Acc::orth(s, s.m_residuals, m_B, BR) != Eigen::Success) { r.orthR = 0; break; }
        r.orthR = 1; r.R = Mat(s.m_residuals);
        AR = A * s.m_residuals;
        if (iter_num > 0) {
            if (Acc::orth(s, directions, m_B, BD, true) != Eigen::Success) { r.orthD = 0; break; }
            r.orthD = 1; r.D = Mat(directions);
            AD = A * directions;
        }
        XAR = Mat(X.transpose() * AR); RAR = Mat(s.m_residuals.transpose() * AR); XBR = Mat(X.transpose() * BR);
        if (iter_num > 0) {
            XAD = X.transpose() * AD; RAD = s.m_residuals.transpose() * AD; DAD = directions.transpose() * AD;
            XBD = X.transpose() * BD; RBD = s.m_residuals.transpose() * BD;
            gramA = Acc::stack9(s, s.m_evalues.asDiagonal(), XAR, XAD, XAR.transpose(), RAR, RAD, XAD.transpose(), RAD.transpose(), DAD.transpose());
            gramB = Acc::stack9(s, Mat::Identity(m_nev, m_nev), XBR, XBD, XBR.transpose(), Mat::Identity(BlockSize, BlockSize), RBD, XBD.transpose(), RBD.transpose(), Mat::Identity(BlockSize, BlockSize));
        } else {
            gramA = Acc::stack4(s, s.m_evalues.asDiagonal(), XAR, XAR.transpose(), RAR);
            gramB = Acc::stack4(s, Mat::Identity(m_nev, m_nev), XBR, XBR.transpose(), Mat::Identity(BlockSize, BlockSize));
        }
        DenseSymMatProd<double> Aop(gramA);
        DenseCholesky<double> Bop(gramB);
        if (Bop.info() != CompInfo::Successful) { r.rr = 4; s.m_info = Eigen::NumericalIssue; break; }
        try {
            int ncv = (std::min)(10, int(gramA.rows()) - 1);
            if (ncv <= m_nev) ncv = (std::min)(int(gramA.rows()), 2 * m_nev);
            SymGEigsSolver<DenseSymMatProd<double>, DenseCholesky<double>, GEigsMode::Cholesky> geigs(Aop, Bop, m_nev, ncv);
            geigs.init();
            geigs.compute(SortRule::SmallestAlge);
            if (geigs.info() == CompInfo::Successful) {
                s.m_evalues = geigs.eigenvalues(); s.m_evectors = geigs.eigenvectors();
                r.rr = 0; r.theta = s.m_evalues; r.C = s.m_evectors;
                Acc::sort(s, s.m_evalues, s.m_evectors);
            } else { r.rr = 1; s.m_info = Eigen::NoConvergence; break; }
        } catch (std::exception& e) { r.rr = 2; tr.threw = true; tr.what = e.what(); return; }
        if (iter_num > 0) {
            eVecX = s.m_evectors.block(0, 0, m_nev, m_nev); eVecR = s.m_evectors.block(m_nev, 0, BlockSize, m_nev); eVecD = s.m_evectors.block(m_nev + BlockSize, 0, BlockSize, m_nev);
            sparse_eVecX = eVecX.sparseView(); sparse_eVecR = eVecR.sparseView(); sparse_eVecD = eVecD.sparseView();
            DD = s.m_residuals * sparse_eVecR; ADD = AR * sparse_eVecR; BDD = BR * sparse_eVecR;
            DD = DD + directions * sparse_eVecD; ADD = ADD + AD * sparse_eVecD; BDD = BDD + BD * sparse_eVecD;
        } else {
            eVecX = s.m_evectors.block(0, 0, m_nev, m_nev); eVecR = s.m_evectors.block(m_nev, 0, BlockSize, m_nev);
            sparse_eVecX = eVecX.sparseView(); sparse_eVecR = eVecR.sparseView();
            DD = s.m_residuals * sparse_eVecR; ADD = AR * sparse_eVecR; BDD = BR * sparse_eVecR;
        }
        X = X * sparse_eVecX + DD; AX = AX * sparse_eVecX + ADD; BX = BX * sparse_eVecX + BDD;
        directions = DD; AD = ADD; BD = BDD;
        r.completed = true;
    }
    s.m_residuals.resize(m_n, m_nev);
    for (int i = 0; i < m_nev; i++) s.m_residuals.col(i) = AX.col(i) - s.m_evalues(i) * BX.col(i);
    BlockSize = Acc::check(s, s.m_residuals, tolerance_L2, columnsToDelete);
    if (BlockSize == 0) {
        const Mat XBX = Mat(X.transpose() * BX);
        const double orth_err = (XBX - Mat::Identity(m_nev, m_nev)).cwiseAbs().maxCoeff();
        s.m_info = (orth_err < sqrt(Eigen::NumTraits<double>::epsilon())) ? Eigen::Success : Eigen::NumericalIssue;
        tr.guard = s.m_info == Eigen::Success ? 1 : 0;
    }
}

// ---------------------------------------------------------------------------------------------------------------- cases
struct Case {
    int n = 0, k = 0; bool withB = false, withT = false; double tol = 1e-7; int J = 0; std::string cls;
    Mat A, B, T, X0;
    std::vector<int> cuts;   // if non-empty: the cuts of the correspondence (instead of 0..J)
};
// preconditioner kinds: 0 none, 1 Jacobi diag(A)^-1, 2 a poor diagonal SPD one (unrelated to A, entries in [0.05, 5.05]),
// 3 a poor tridiagonal SPD one (diagonally dominant, unrelated to A)
static void set_precond(Case& c, int kind, Rng& g) {
    const int n = c.n; c.T = Mat::Identity(n, n); c.withT = kind != 0;
    if (kind == 1) for (int i = 0; i < n; i++) c.T(i, i) = 1.0 / c.A(i, i);
    if (kind == 2) for (int i = 0; i < n; i++) c.T(i, i) = 0.05 + 5.0 * std::fabs(g.sym());
    if (kind == 3) for (int i = 0; i < n; i++) { c.T(i, i) = 1.0 + 0.25 * g.sym(); if (i + 1 < n) c.T(i, i + 1) = c.T(i + 1, i) = 0.3; }
    if (kind == 1) c.cls += "+T"; if (kind == 2) c.cls += "+Tpoor"; if (kind == 3) c.cls += "+Ttri";
}
static uint64_t cb(double x) { return x == 0.0 ? 0ull : dbits(x); }   // signed zeros canonicalised
static void put_sparse(std::ostringstream& o, const Mat& M) {
    int nnz = 0; for (int i = 0; i < M.rows(); i++) for (int j = 0; j < M.cols(); j++) if (M(i, j) != 0.0) nnz++;
    o << " " << nnz;
    for (int i = 0; i < M.rows(); i++) for (int j = 0; j < M.cols(); j++) if (M(i, j) != 0.0) o << " " << i << " " << j << " " << dbits(M(i, j));
}
static void put_dense(std::ostringstream& o, const Mat& M) { for (int j = 0; j < M.cols(); j++) for (int i = 0; i < M.rows(); i++) o << " " << cb(M(i, j)); }
static void put_shape(std::ostringstream& o, const char* tag, const Mat& M) { o << " " << tag << "=" << M.rows() << "x" << M.cols(); put_dense(o, M); }

static Case gen_case(Rng& g, bool thorough, int idx, int tkind = 0) {
    Case c;
    static const int ks[] = {2, 3, 2, 4, 3, 5, 2, 3, 1, 6};
    c.k = ks[idx % 10];
    if (idx % 18 == 17) c.k = 10;
    int nmin = 5 * c.k + 1;
    c.n = nmin + g.range(0, thorough ? 40 : 14);
    c.withB = (idx & 1); c.withT = (idx & 2);
    int n = c.n, k = c.k;
    int pat = g.range(0, 3);
    c.cls = std::string(pat == 0 ? "tridiag" : pat == 1 ? "band3" : pat == 2 ? "laplace" : "arrow") + (c.withB ? "+B" : "");
    c.A = Mat::Zero(n, n);
    for (int i = 0; i < n; i++) {
        c.A(i, i) = (pat == 2) ? 2.0 + 0.5 * i : 1.0 + i + 0.25 * g.sym();
        if (i + 1 < n) c.A(i, i + 1) = c.A(i + 1, i) = (pat == 2) ? -1.0 : 0.3 * g.sym();
        if (pat == 1 && i + 3 < n) c.A(i, i + 3) = c.A(i + 3, i) = 0.2 * g.sym();
        if (pat == 3 && i > 0 && g.coin(0.4)) c.A(0, i) = c.A(i, 0) = 0.1 * g.sym();
    }
    c.B = Mat::Identity(n, n);
    if (c.withB) for (int i = 0; i < n; i++) { c.B(i, i) = 1.5 + 0.5 * g.sym(); if (i + 1 < n) c.B(i, i + 1) = c.B(i + 1, i) = 0.2 * g.sym(); }
    set_precond(c, tkind > 0 ? tkind : (c.withT ? 1 : 0), g);   // Jacobi draws nothing from g: the general stream is unchanged
    c.X0 = Mat(n, k); for (int j = 0; j < k; j++) for (int i = 0; i < n; i++) c.X0(i, j) = g.sym();
    static const double tols[] = {1e-7, 1e-5, 1e-9, 1e-3};
    c.tol = tols[g.range(0, 3)];
    c.J = thorough ? 14 : 7;
    return c;
}

// graded family (the generator of the observer's report): n = 60 (+ a few), A = diag(1, 3, 5, ...) + couplings 0.3 u at distance 1
// and 0.2 u at distance 7 (well separated smallest eigenvalues ~ 1, 3, 5, ..., columns converge at different speeds), B SPD
// tridiagonal (diag 2 + 0.5 u, off 0.4) or none, preconditioner kind tk, dense random X0
static Case gen_graded(Rng& g, int k, bool withB, int tk, double tolL2, int J) {
    Case c; c.k = k; c.n = 60 + g.range(0, 4); c.withB = withB; const int n = c.n;
    c.cls = std::string("graded") + (withB ? "+B" : "");
    c.A = Mat::Zero(n, n);
    for (int i = 0; i < n; i++) {
        c.A(i, i) = 2.0 * i + 1.0;
        if (i + 1 < n) c.A(i, i + 1) = c.A(i + 1, i) = 0.3 * g.sym();
        if (i + 7 < n) c.A(i, i + 7) = c.A(i + 7, i) = 0.2 * g.sym();
    }
    c.B = Mat::Identity(n, n);
    if (withB) for (int i = 0; i < n; i++) { c.B(i, i) = 2.0 + 0.5 * g.sym(); if (i + 1 < n) c.B(i, i + 1) = c.B(i + 1, i) = 0.4; }
    set_precond(c, tk, g);
    c.X0 = Mat(n, k); for (int i = 0; i < n; i++) for (int j = 0; j < k; j++) c.X0(i, j) = g.sym();
    c.tol = tolL2 / n; c.J = J;
    return c;
}

// SPD tridiagonal (strictly diagonally dominant): diag d0 + dv u, off-diagonal off u
static Mat gen_spd_tridiag(Rng& g, int n, double d0, double dv, double off) {
    Mat B = Mat::Zero(n, n);
    for (int i = 0; i < n; i++) { B(i, i) = d0 + dv * g.sym(); if (i + 1 < n) B(i, i + 1) = B(i + 1, i) = off * g.sym(); }
    return B;
}

// indefinite / negative definite A.  Prescribed spectrum: A = Q diag(lam) Q', Q a product of three random Householder
// reflectors (dense A); or sparse banded with a negative head.  kind = q % 4:
//  0 indef-spec   m <= k large negative eigenvalues (-L, -L + 3, ...; L = 8..14) well below a group around zero (spacing ~1.8, both
//                 signs; variant `pair`: a symmetric pair -y, +y among the wanted values), then a dense positive tail: the k
//                 algebraically smallest are NOT the k smallest in magnitude
//  1 negdef-spec  negative definite, both ends of the spectrum well separated (gaps 2..3), dense middle: the k smallest have the
//                 LARGEST magnitude, the k smallest in magnitude are the k largest
//  2 indef-band   diag = shift + step * i (shift < 0), off-diagonals -1 and 0.4 at distance 7 (the observer's family)
//  3 negdef-band  the negative of a positive definite band matrix: diag = -(1.5 + step * i), off-diagonals 0.5 and 0.2 at distance 5
static Case gen_indef(Rng& g, int q, bool thorough) {
    Case c; static const int ks[] = {2, 3, 3, 4, 2, 5};
    c.k = ks[(q / 4) % 6]; const int k = c.k; c.n = 5 * k + 5 + g.range(0, thorough ? 24 : 10); const int n = c.n;
    const int kind = q % 4; c.withB = (q / 4) % 2 == 1; const int tk = (q / 8) % 3;   // preconditioner: none / 1/(|a_ii| + 1) / poor diagonal SPD
    const bool pair = kind == 0 && (q / 16) % 2 == 1;
    c.cls = std::string(kind == 0 ? (pair ? "indef-pair" : "indef-spec") : kind == 1 ? "negdef-spec" : kind == 2 ? "indef-band" : "negdef-band") + (c.withB ? "+B" : "");
    c.A = Mat::Zero(n, n);
    if (kind == 2) {
        double shift = -(3.0 + 2.0 * k + 4.0 * g.unit()), step = 1.6 + g.unit();
        for (int i = 0; i < n; i++) { c.A(i, i) = shift + step * i; if (i + 1 < n) c.A(i, i + 1) = c.A(i + 1, i) = -1.0; if (i + 7 < n && i % 3 == 0) c.A(i, i + 7) = c.A(i + 7, i) = 0.4; }
    } else if (kind == 3) {
        double step = 1.5 + g.unit();
        for (int i = 0; i < n; i++) { c.A(i, i) = -(1.5 + step * i + 0.3 * g.unit()); if (i + 1 < n) c.A(i, i + 1) = c.A(i + 1, i) = 0.5 * g.sym(); if (i + 5 < n && i % 2 == 0) c.A(i, i + 5) = c.A(i + 5, i) = 0.2; }
    } else {
        Vec lam(n);
        if (kind == 1) {
            double x = 0; for (int i = 0; i < n; i++) { lam(i) = x; x += (i <= k || i >= n - k - 2) ? 2.0 + g.unit() : 0.3 + 0.4 * g.unit(); }
            double top = lam(n - 1) + 0.5 + 2.0 * g.unit(); for (int i = 0; i < n; i++) lam(i) -= top;
        } else {
            int m = 1 + g.range(0, k - 1);                      // m <= k large negative values
            double L = 8.0 + 6.0 * g.unit();
            for (int i = 0; i < m; i++) lam(i) = -L + 3.0 * i + 0.5 * g.unit();
            double x = -1.8 * (k + 1 - m) / 2.0;               // group around zero
            for (int i = m; i < n; i++) { lam(i) = x + 0.3 * g.sym(); x += (i < m + k + 1) ? 1.8 : 0.5; }
            if (pair && m + 1 < n) { double y = 0.7 + 0.2 * g.unit(); lam(m) = -y; lam(m + 1) = y; }
        }
        std::sort(lam.data(), lam.data() + n);
        Mat Q = Mat::Identity(n, n);
        for (int r = 0; r < 3; r++) { Vec v(n); for (int i = 0; i < n; i++) v(i) = g.sym(); v /= v.norm(); Q = Q - 2.0 * (Q * v) * v.transpose(); }
        Mat M = Q * lam.asDiagonal() * Q.transpose(); c.A = 0.5 * (M + M.transpose());
    }
    c.B = Mat::Identity(n, n); if (c.withB) c.B = gen_spd_tridiag(g, n, 1.5, 0.5, 0.2);
    c.T = Mat::Identity(n, n); c.withT = tk != 0;
    if (tk == 1) { for (int i = 0; i < n; i++) c.T(i, i) = 1.0 / (std::fabs(c.A(i, i)) + 1.0); c.cls += "+Tabs"; }
    if (tk == 2) { for (int i = 0; i < n; i++) c.T(i, i) = 0.05 + 5.0 * std::fabs(g.sym()); c.cls += "+Tpoor"; }
    c.X0 = Mat(n, k); for (int j = 0; j < k; j++) for (int i = 0; i < n; i++) c.X0(i, j) = g.sym();
    static const double tols[] = {1e-5, 1e-4, 1e-6};
    c.tol = tols[g.range(0, 2)]; c.J = thorough ? 10 : 5;
    return c;
}

// collapse family (deterministic in p, the same in every seed): A = diag(1, 3, 5, ...) + eps_p on the first off-diagonal (graded,
// well separated), B SPD tridiagonal or none, Jacobi preconditioner or none, X0 = [e_0 .. e_{k-1}] * M with a dense nonsingular
// k x k block M (a start block supported on the first k nodes).  A and B are tridiagonal, so A X and B X live in span(e_0..e_k) and
// every Galerkin residual is a multiple of e_k: the residual block of iteration 0 has rank ONE.  The LDLT of R'BR then meets a
// second pivot that is pure rounding: if it is negative, the complex square root in orthogonalizeInPlace is imaginary and `.real()`
// ZEROES that column of R, while the Gram matrix of the Rayleigh-Ritz step carries Identity for R'BR: a phantom direction with Ritz
// value 0 below the spectrum of a positive definite A; the step selects it and a column of X becomes ~0.
static Case gen_collapse(int p) {
    Case c; c.k = 2 + p % 3; const int k = c.k; c.n = 5 * k + 2 + p % 5; const int n = c.n;
    const int band = (k >= 3 && (p / 8) % 3 == 2) ? 2 : 1;                      // band 2: residuals live in span(e_k, e_{k+1}): rank two, k >= 3 columns
    c.withB = (p / 2) % 2 == 1; c.cls = std::string("collapse") + (band == 2 ? "-band2" : "") + (c.withB ? "+B" : "");
    Rng g(977, 26, p);                                     // fixed constants: not a function of VERIF_SEED
    const double eps = 0.2 + 0.013 * (p % 16);
    c.A = Mat::Zero(n, n);
    for (int i = 0; i < n; i++) {
        c.A(i, i) = 2.0 * i + 1.0; if (i + 1 < n) c.A(i, i + 1) = c.A(i + 1, i) = eps * (1.0 + 0.3 * g.sym());
        if (band == 2 && i + 2 < n) c.A(i, i + 2) = c.A(i + 2, i) = 0.5 * eps * (1.0 + 0.3 * g.sym());
    }
    c.B = Mat::Identity(n, n); if (c.withB) c.B = gen_spd_tridiag(g, n, 2.0, 0.5, 0.4);
    set_precond(c, (p / 4) % 2, g);
    c.X0 = Mat::Zero(n, k); for (int j = 0; j < k; j++) for (int i = 0; i < k; i++) c.X0(i, j) = g.sym() + (i == j ? 2.0 : 0.0);
    c.tol = 0.0; c.J = 3;
    return c;
}

struct Obs { bool threw = false; std::string what; int info = -1; Vec evals; Mat evecs, coef, resid, X; };
static Solver* make(const Case& c) {
    Sp As = c.A.sparseView(), Xs = c.X0.sparseView();
    Solver* s = new Solver(As, Xs);
    if (c.withB) { Sp Bs = c.B.sparseView(); s->setB(Bs); }
    if (c.withT) { Sp Ts = c.T.sparseView(); s->setPreconditioner(Ts); }
    return s;
}
static Obs observe(Solver& s) { Obs o; o.info = s.info(); o.evals = s.eigenvalues(); o.evecs = s.eigenvectors(); o.coef = s.m_evectors; o.resid = s.residuals(); o.X = Mat(Acc::X(s)); return o; }
static Obs run_real(const Case& c, int maxit, double tol) {
    std::unique_ptr<Solver> s(make(c)); bool threw = false; std::string what;
    try { s->compute(maxit, tol); } catch (std::exception& e) { threw = true; what = e.what(); }
    Obs o = observe(*s); o.threw = threw; o.what = what; return o;
}
static bool same_bits(const Mat& a, const Mat& b) {
    if (a.rows() != b.rows() || a.cols() != b.cols()) return false;
    for (int j = 0; j < a.cols(); j++) for (int i = 0; i < a.rows(); i++) if (cb(a(i, j)) != cb(b(i, j))) return false;
    return true;
}
static bool same_obs(const Obs& a, const Obs& b) {
    return a.threw == b.threw && a.info == b.info && same_bits(a.evals, b.evals) && same_bits(a.evecs, b.evecs) && same_bits(a.coef, b.coef) && same_bits(a.resid, b.resid) && same_bits(a.X, b.X);
}

static std::string case_json(const Case& c, int maxit, const std::string& extra = "") {
    std::ostringstream o;
    o << "{\"n\":" << c.n << ",\"k\":" << c.k << ",\"withB\":" << (c.withB ? 1 : 0) << ",\"withT\":" << (c.withT ? 1 : 0) << ",\"maxit\":" << maxit
      << ",\"tol_bits\":" << dbits(c.tol) << ",\"class\":\"" << c.cls << "\"" << extra << ",\"A\":[";
    bool f = true; for (int i = 0; i < c.n; i++) for (int j = 0; j < c.n; j++) if (c.A(i, j) != 0.0) { o << (f ? "" : ",") << i << "," << j << "," << dbits(c.A(i, j)); f = false; }
    o << "],\"B\":["; f = true; if (c.withB) for (int i = 0; i < c.n; i++) for (int j = 0; j < c.n; j++) if (c.B(i, j) != 0.0) { o << (f ? "" : ",") << i << "," << j << "," << dbits(c.B(i, j)); f = false; }
    o << "],\"T\":["; f = true; if (c.withT) for (int i = 0; i < c.n; i++) { o << (f ? "" : ",") << dbits(c.T(i, i)); f = false; }
    o << "],\"Toff\":["; f = true; if (c.withT) for (int i = 0; i < c.n; i++) for (int j = 0; j < c.n; j++) if (i != j && c.T(i, j) != 0.0) { o << (f ? "" : ",") << i << "," << j << "," << dbits(c.T(i, j)); f = false; }
    o << "],\"X0\":["; f = true; for (int j = 0; j < c.k; j++) for (int i = 0; i < c.n; i++) { o << (f ? "" : ",") << dbits(c.X0(i, j)); f = false; }
    o << "]}";
    return o.str();
}

// ---- minimal replay reader: numbers after "key": and arrays of integers
static bool jnum(const std::string& t, const std::string& key, double& out) {
    auto p = t.find("\"" + key + "\":"); if (p == std::string::npos) return false;
    out = std::strtod(t.c_str() + p + key.size() + 3, nullptr); return true;
}
static std::vector<uint64_t> jarr(const std::string& t, const std::string& key) {
    std::vector<uint64_t> v; auto p = t.find("\"" + key + "\":["); if (p == std::string::npos) return v;
    const char* s = t.c_str() + p + key.size() + 4;
    while (*s && *s != ']') { char* e; uint64_t x = std::strtoull(s, &e, 10); if (e == s) break; v.push_back(x); s = e; if (*s == ',') s++; }
    return v;
}
static bool case_from_json(const std::string& t, Case& c, int& maxit) {
    double x;
    if (!jnum(t, "n", x)) return false; c.n = (int) x;
    if (!jnum(t, "k", x)) return false; c.k = (int) x;
    jnum(t, "withB", x); c.withB = x != 0; jnum(t, "withT", x); c.withT = x != 0; jnum(t, "maxit", x); maxit = (int) x;
    auto p = t.find("\"tol_bits\":"); c.tol = bitsd(std::strtoull(t.c_str() + p + 11, nullptr, 10));
    c.cls = "replay"; int n = c.n;
    c.A = Mat::Zero(n, n); c.B = Mat::Identity(n, n); c.T = Mat::Identity(n, n); c.X0 = Mat::Zero(n, c.k);
    auto a = jarr(t, "A"); for (size_t i = 0; i + 2 < a.size(); i += 3) c.A(a[i], a[i + 1]) = bitsd(a[i + 2]);
    auto b = jarr(t, "B"); if (c.withB) { c.B.setZero(); for (size_t i = 0; i + 2 < b.size(); i += 3) c.B(b[i], b[i + 1]) = bitsd(b[i + 2]); }
    auto tt = jarr(t, "T"); if (c.withT) for (size_t i = 0; i < tt.size() && (int) i < n; i++) c.T(i, i) = bitsd(tt[i]);
    auto to = jarr(t, "Toff"); if (c.withT) for (size_t i = 0; i + 2 < to.size(); i += 3) c.T(to[i], to[i + 1]) = bitsd(to[i + 2]);
    auto x0 = jarr(t, "X0"); for (size_t i = 0; i < x0.size() && (int) i < n * c.k; i++) c.X0(i % n, i / n) = bitsd(x0[i]);
    return true;
}

// ---------------------------------------------------------------------------------------------------------------- oracle
static long double maxabs(const LMat& m) { long double r = 0; for (int j = 0; j < m.cols(); j++) for (int i = 0; i < m.rows(); i++) { long double a = fabsl(m(i, j)); if (!(a <= r)) r = a; } return r; }
static bool finite_all(const Mat& m) { for (int j = 0; j < m.cols(); j++) for (int i = 0; i < m.rows(); i++) if (!std::isfinite(m(i, j))) return false; return true; }

// property predicate on one finished compute() of the real class: `c` describes the CURRENT problem of the object (A, the B and
// T last set, tolerance of this call), `o` what the object hands out, `rj(extra)` the replay of the run.  `cp` prefixes the counters.
// Y (optional): constraints set with setConstraints(): the reference is then the pencil restricted to {x : Y'Bx = 0}.
// Constants: see checks/c17.py META.
typedef std::function<std::string(const std::string&)> RJ;
static void judge(const Case& c, int maxit, const Obs& o, Out& out, const RJ& rj, const std::string& cp = "oracle_", const Mat* Y = nullptr) {
    const int n = c.n, k = c.k;
    const bool main_stream = cp == "oracle_";
    auto case_json = [&](const Case&, int, const std::string& extra = "") { return rj(extra); };   // every failure below carries the replay of the caller
    out.count(cp + "runs");
    if (o.threw) {
        out.count(cp + "threw");
        std::string reason = o.what.find("ncv") != std::string::npos ? "ncv" : "other";
        out.fail("compute-throws", "LOBPCGSolver::compute(" + str(maxit) + ", tol) with n=" + str(n) + ", k=" + str(k) + " (5k<n, full-rank X0) throws: " + o.what,
                 case_json(c, maxit, ",\"reason\":\"" + reason + "\",\"pred\":\"throws\""));
        return;
    }
    if (o.info == 0 && !(finite_all(o.evals) && finite_all(o.evecs) && finite_all(o.resid) && finite_all(o.X)))
        out.fail("non-finite", "info = Success with a non-finite value in eigenvalues/eigenvectors/residuals/X", case_json(c, maxit, ",\"pred\":\"finite\""));
    if (o.info != 0 && !(finite_all(o.evals) && finite_all(o.resid) && finite_all(o.X))) out.count("nonfinite_but_not_success");
    long double tolL2 = (long double) c.tol * n;
    LMat A = c.A.cast<long double>(), B = c.B.cast<long double>();
    if (o.info == 0) {
        out.count(cp + "success");
        // dense generalized reference: L^-1 A L^-T in long double via double Cholesky refinement is unnecessary at these sizes: use Eigen's solver in long double
        LVec lam;
        if (Y && Y->cols() > 0) {
            // constraints: Z = basis of {x : (BY)'x = 0} (last n - m columns of the Householder Q of BY), reference pencil (Z'AZ, Z'BZ)
            LMat BY = B * Y->cast<long double>(); const int m = (int) BY.cols();
            Eigen::HouseholderQR<LMat> qr(BY); LMat Q = qr.householderQ(); LMat Z = Q.rightCols(n - m);
            Eigen::GeneralizedSelfAdjointEigenSolver<LMat> gz(Z.transpose() * A * Z, Z.transpose() * B * Z); lam = gz.eigenvalues();
        } else { Eigen::GeneralizedSelfAdjointEigenSolver<LMat> ges(A, B); lam = ges.eigenvalues(); }
        Eigen::SelfAdjointEigenSolver<LMat> eb(B); long double bmin = eb.eigenvalues()(0);
        LMat X = o.X.cast<long double>(); LVec th = o.evals.cast<long double>();
        // (a) ascending
        for (int i = 0; i + 1 < k; i++) if (!(th(i) <= th(i + 1))) { out.fail("not-ascending", "eigenvalues() not ascending at " + str(i), case_json(c, maxit, ",\"pred\":\"ascending\"")); break; }
        // (b) the k smallest: |theta_i - lambda_i| <= 4 tolL2/sqrt(lambda_min(B)) + 1e-9 (1+|lambda_i|), applied when that bound
        //     resolves the spectrum (bound < a quarter of the smallest gap among lambda_0..lambda_k).  With a looser tolerance a
        //     residual below tol*n does not determine WHICH eigenvalue a Ritz value approximates; then only what a small residual of
        //     a B-orthonormal block implies is required: every theta_i is within the bound of SOME eigenvalue of the pencil, and
        //     theta_i >= lambda_i - bound (Cauchy interlacing).
        {
            long double gap = 1e300L; for (int i = 0; i < k && i + 1 < lam.size(); i++) gap = std::min(gap, lam(i + 1) - lam(i));
            long double b0 = 4 * tolL2 / sqrtl(bmin);
            bool resolves = b0 < 0.25L * gap;
            out.count(cp + (resolves ? "smallest_strong" : "smallest_weak"));
            for (int i = 0; i < k && i < th.size(); i++) {
                long double bound = b0 + 1e-9L * (1 + fabsl(lam(i)));
                if (resolves) {
                    if (!(fabsl(th(i) - lam(i)) <= bound)) { out.fail("not-smallest", "eigenvalue " + str(i) + " = " + str((double) th(i)) + " but reference " + str((double) lam(i)) + " (bound " + str((double) bound) + ")", case_json(c, maxit, ",\"pred\":\"smallest\"")); break; }
                } else {
                    long double dist = 1e300L; for (int q = 0; q < lam.size(); q++) dist = std::min(dist, fabsl(th(i) - lam(q)));
                    long double bq = b0 + 1e-9L * (1 + fabsl(th(i)));
                    if (!(dist <= bq) || !(th(i) >= lam(i) - bq)) { out.fail("not-an-eigenvalue", "eigenvalue " + str(i) + " = " + str((double) th(i)) + ": distance " + str((double) dist) + " to the spectrum of the pencil, lambda_i = " + str((double) lam(i)) + " (bound " + str((double) bq) + ")", case_json(c, maxit, ",\"pred\":\"spectrum\"")); break; }
                }
            }
        }
        // (c) internal X is B-orthonormal: max |X'BX - I| <= 1e-8
        if (X.rows() == n && X.cols() == k) {
            long double e = maxabs(X.transpose() * B * X - LMat::Identity(k, k));
            if (main_stream) { int d0 = e > 0 ? (int) std::floor(std::log10((double) e)) : -99; out.count("xbx_err_1e" + str(d0 < -16 ? -16 : d0)); }
            // graded: 1e-8 is the stated bound of the property clause; beyond 1e-4 the block is not an orthonormal basis in any useful sense
            int dec = e > 0 ? (int) std::floor(std::log10((double) e)) : -99;
            if (!(e <= 1e-4L)) out.fail("X-far-from-B-orthonormal", "internal X: max|X'BX - I| = " + str((double) e), case_json(c, maxit, ",\"pred\":\"xbx-gross\""));
            else if (!(e <= 1e-8L)) out.fail("X-not-B-orthonormal", "info = Success but the internal iterate has max|X'BX - I| = " + str((double) e) + " (n=" + str(n) + ", k=" + str(k) + "): B-orthonormality is lost in one Rayleigh-Ritz step and never repaired (the Gram matrix assumes X'BX = I)", case_json(c, maxit, ",\"pred\":\"xbx\",\"decade\":" + str(dec)));
        } else out.fail("X-shape", "internal X is " + str(X.rows()) + "x" + str(X.cols()), case_json(c, maxit, ",\"pred\":\"xshape\""));
        // (c') constraints: the returned block is B-orthogonal to Y: max |Y'BX| <= 1e-8 max(1, |Y|)
        if (Y && Y->cols() > 0 && X.rows() == n) {
            LMat Yl = Y->cast<long double>(); long double e = maxabs(Yl.transpose() * B * X);
            if (!(e <= 1e-8L * std::max<long double>(1, maxabs(Yl)))) out.fail("constraints-violated", "info = Success but max|Y'BX| = " + str((double) e) + " for the constraint block Y", case_json(c, maxit, ",\"pred\":\"ybx\""));
        }
        // (d) eigenvectors() is n x k with E'BE = I
        if (o.evecs.rows() != n || o.evecs.cols() != k)
            out.fail("eigenvectors-not-n-by-k", "eigenvectors() is " + str(o.evecs.rows()) + "x" + str(o.evecs.cols()) + " for n=" + str(n) + ", k=" + str(k) + " (the Ritz coefficient matrix of the last Rayleigh-Ritz step, not the iterate X)",
                     case_json(c, maxit, ",\"accessor\":\"eigenvectors\",\"pred\":\"shape\""));
        else {
            LMat E = o.evecs.cast<long double>(); long double e = maxabs(E.transpose() * B * E - LMat::Identity(k, k));
            int dece = e > 0 ? (int) std::floor(std::log10((double) e)) : -99;   // graded like the internal X (same matrix since the repair of F10)
            if (!(e <= 1e-4L)) out.fail("eigenvectors-far-from-B-orthonormal", "eigenvectors(): max|E'BE - I| = " + str((double) e), case_json(c, maxit, ",\"accessor\":\"eigenvectors\",\"pred\":\"ebe-gross\""));
            else if (!(e <= 1e-8L)) out.fail("eigenvectors-not-B-orthonormal", "eigenvectors(): max|E'BE - I| = " + str((double) e), case_json(c, maxit, ",\"accessor\":\"eigenvectors\",\"pred\":\"ebe\",\"decade\":" + str(dece)));
        }
        // (e) residuals() = A X - B X diag(theta) for the internal X: max abs error <= 1e-9 (|A| + |theta| |B|) |X|
        if (o.resid.rows() == n && o.resid.cols() == k && X.rows() == n && X.cols() == k) {
            LMat Rr = A * X - B * X * th.asDiagonal();
            long double scale = (maxabs(A) + maxabs(th) * maxabs(B)) * std::max<long double>(1, maxabs(X)) * n;
            long double e = maxabs(Rr - o.resid.cast<long double>());
            if (!(e <= 1e-9L * scale)) out.fail("residual-identity", "residuals() differs from A X - B X diag(eigenvalues) by " + str((double) e), case_json(c, maxit, ",\"pred\":\"resid\""));
            // (f) every column norm below the code's threshold tol_div_n * n
            for (int j = 0; j < k; j++) { long double nr = o.resid.col(j).cast<long double>().norm(); if (!(nr < tolL2 * (1 + 1e-12L))) { out.fail("success-above-tol", "info = Success but residual column " + str(j) + " has norm " + str((double) nr) + " >= " + str((double) tolL2), case_json(c, maxit, ",\"pred\":\"tol\"")); break; } }
        } else out.fail("residuals-shape", "residuals() is " + str(o.resid.rows()) + "x" + str(o.resid.cols()), case_json(c, maxit, ",\"pred\":\"rshape\""));
    } else {
        out.count(cp + "notsuccess_info" + str(o.info));
    }
}

static void oracle(const Case& c, int maxit, Out& out) {
    Obs o = run_real(c, maxit, c.tol);
    judge(c, maxit, o, out, [&](const std::string& e) { return case_json(c, maxit, e); });
}

// the caller's matrices after construction / after the setters: the solver works on the problem it was GIVEN.  The caller overwrites its
// A (and B, T) in place, or lets them go out of scope, before compute(); the result must be bit-identical to a twin whose caller keeps
// them untouched (a solver that only keeps a reference / Ref to the caller's storage computes on the wrong matrix, or on freed memory)
static void oracle_lifetime(const Case& c, int maxit, Out& out) {
    std::unique_ptr<Solver> twin(make(c)); bool tthrew = false; try { twin->compute(maxit, c.tol); } catch (std::exception&) { tthrew = true; }
    Obs ot = observe(*twin); ot.threw = tthrew;
    std::unique_ptr<Sp> As(new Sp(c.A.sparseView())), Xs(new Sp(c.X0.sparseView())), Bs(new Sp(c.B.sparseView())), Ts(new Sp(c.T.sparseView()));
    std::unique_ptr<Solver> s(new Solver(*As, *Xs));
    if (c.withB) s->setB(*Bs);
    if (c.withT) s->setPreconditioner(*Ts);
    // in place, no reallocation: every stored coefficient is changed
    for (Sp* M : {As.get(), Xs.get(), Bs.get(), Ts.get()}) { double* v = M->valuePtr(); for (Eigen::Index i = 0; i < M->nonZeros(); i++) v[i] = 2.5 * v[i] + 3.0; }
    if ((c.n + c.k) % 2) { As.reset(); Bs.reset(); Ts.reset(); Xs.reset(); }     // ... or the caller's objects are gone altogether
    bool threw = false; try { s->compute(maxit, c.tol); } catch (std::exception&) { threw = true; }
    Obs o = observe(*s); o.threw = threw;
    out.count("oracle_lifetime_runs");
    if (!same_obs(o, ot))
        out.fail("caller-storage", "LOBPCGSolver: the result of compute() changes when the caller overwrites (or destroys) its own A / B / preconditioner / X objects after handing them to the constructor and the setters (n=" + str(c.n) + ", k=" + str(c.k) + "): the solver does not work on the problem it was given",
                 case_json(c, maxit, ",\"scenario\":\"caller-lifetime\",\"pred\":\"caller-storage\""));
}

// a second compute() on the same object with a tolerance it cannot reach in one iteration: the status must say so
static void oracle_second(const Case& c, int maxit, Out& out) {
    std::unique_ptr<Solver> s(make(c));
    try { s->compute(maxit, c.tol); } catch (std::exception&) { return; }
    if (s->info() != 0) return;
    out.count("oracle_second_runs");
    double tol2 = c.tol * 1e-6;
    try { s->compute(1, tol2); } catch (std::exception&) { return; }
    Mat r = s->residuals(); long double tolL2 = (long double) tol2 * c.n; bool all = true; long double worst = 0;
    for (int j = 0; j < r.cols(); j++) { long double nr = r.col(j).cast<long double>().norm(); if (!(nr < tolL2)) all = false; worst = std::max(worst, nr); }
    if (s->info() == 0 && !all)
        out.fail("stale-success", "second compute(1, " + str(tol2) + ") on a solver whose first compute() succeeded: info() = Success although the largest residual column norm is " + str((double) worst) + " >= tol*n = " + str((double) tolL2) + " (m_info is never reset)",
                 case_json(c, maxit, ",\"scenario\":\"second-compute\",\"pred\":\"stale\""));
}

// ---------------------------------------------------------------------------------------------------------------- correspondence
// the recorded kernel outputs of one compute(): `OX … E0 … IT …`
static void put_trace(std::ostringstream& q, const Trace& tr) {
    q << " OX " << tr.orthX; if (tr.orthX) put_dense(q, tr.X1);
    q << " E0 " << tr.eig0; if (tr.eig0) { put_dense(q, tr.theta0); put_dense(q, tr.C0); }
    int nrec = 0; for (auto& r : tr.it) if (r.orthR >= 0) nrec++;
    q << " IT " << nrec;
    for (auto& r : tr.it) {
        if (r.orthR < 0) continue;
        q << " R " << r.orthR << " " << r.bs; if (r.orthR == 1) put_dense(q, r.R);
        q << " D " << r.orthD; if (r.orthD == 1) put_dense(q, r.D);
        q << " RR " << r.rr; if (r.rr == 0) { q << " " << r.C.rows(); put_dense(q, r.theta); put_dense(q, r.C); }
    }
}
// the observable state after one compute() of the real object (+ `sh`: the shadow reproduced it bit for bit) and the branch counters
static void put_answer(std::ostringstream& a, const Obs& real, const Trace& tr, bool eq, Out& out) {
    // a column that had passed the norm test and is back in the active block one iteration later (soft locking)
    for (size_t i = 0; i + 1 < tr.it.size(); i++) for (int d : tr.it[i].del) if (std::find(tr.it[i + 1].del.begin(), tr.it[i + 1].del.end(), d) == tr.it[i + 1].del.end()) { out.count("iter_with_unlocked_column"); break; }
    int done = 0; for (auto& r : tr.it) if (r.completed) done++;
    a << "threw=" << (real.threw ? 1 : 0) << " info=" << real.info << " iters=" << done << " dels=";
    for (auto& r : tr.it) { a << "["; for (size_t i = 0; i < r.del.size(); i++) a << (i ? "," : "") << r.del[i]; a << "]"; }
    put_shape(a, "evals", real.evals); put_shape(a, "evecs", real.evecs); put_shape(a, "coef", real.coef); put_shape(a, "resid", real.resid); put_shape(a, "X", real.X);
    a << " sh=" << (eq ? 1 : 0);
    if (!eq) out.count("shadow_differs");
    if (tr.guard == 0) out.count("final_guard_failed"); if (tr.guard == 1) out.count("final_guard_passed");
    if (real.threw) out.count("exit_threw"); else out.count("info_" + str(real.info));
    for (auto& r : tr.it) { if (r.orthR == 0) out.count("exit_orthR_failed"); if (r.orthD == 0) out.count("exit_orthD_failed"); if (r.rr == 1) out.count("exit_rr_notconverged"); if (r.rr == 4) out.count("exit_gram_failed"); if (!r.del.empty() && r.bs > 0) out.count("iter_with_removed_columns"); }
}
static void corr_case(const Case& c, Out& out) {
    std::vector<int> cuts = c.cuts; if (cuts.empty()) for (int j = 0; j <= c.J; j++) cuts.push_back(j);
    const double gthr = sqrt(Eigen::NumTraits<double>::epsilon());   // the threshold of the B-orthonormality guard, as the code computes it
    for (int j : cuts) {
        Obs real = run_real(c, j, c.tol);
        std::unique_ptr<Solver> sh(make(c)); Trace tr;
        shadow_compute(*sh, j, c.tol, tr);
        Obs so = observe(*sh); so.threw = tr.threw;
        bool eq = same_obs(real, so);
        std::ostringstream q;
        q << "lobpcg " << c.n << " " << c.k << " " << j << " " << dbits(c.tol) << " G " << dbits(gthr) << " A"; put_sparse(q, c.A);
        q << " B " << (c.withB ? 1 : 0); if (c.withB) put_sparse(q, c.B);
        q << " T " << (c.withT ? 1 : 0); if (c.withT) put_sparse(q, c.T);
        q << " X0"; put_dense(q, c.X0);
        put_trace(q, tr);
        std::ostringstream a; put_answer(a, real, tr, eq, out);
        out.corr(q.str(), a.str());
        out.count("cuts");
    }
    out.count("class_" + c.cls); out.count("k_" + str(c.k));
}

// ---------------------------------------------------------------------------------------------------------------- histories
// One LOBPCGSolver object: construction from (A, X0) [+ setB / setPreconditioner as the Case says], then a script of public calls.
// kind 1 setB(M), 2 setPreconditioner(M), 3 setConstraints(M), 4 compute(maxit, tol).
struct HOp { int kind = 0; Mat M; int maxit = 0; double tol = 0; };
struct Hist { Case c; std::vector<HOp> ops; };
static std::string hist_json(const Hist& h, size_t upto, const std::string& extra) {
    std::ostringstream o; o << extra << ",\"step\":" << upto << ",\"hist\":[";
    bool f = true; auto put = [&](uint64_t x) { o << (f ? "" : ",") << x; f = false; };
    for (size_t i = 0; i <= upto && i < h.ops.size(); i++) {
        const HOp& op = h.ops[i]; put(op.kind);
        if (op.kind == 1 || op.kind == 2) {
            uint64_t nnz = 0; for (int r = 0; r < op.M.rows(); r++) for (int cc = 0; cc < op.M.cols(); cc++) if (op.M(r, cc) != 0.0) nnz++;
            put(nnz); for (int r = 0; r < op.M.rows(); r++) for (int cc = 0; cc < op.M.cols(); cc++) if (op.M(r, cc) != 0.0) { put(r); put(cc); put(dbits(op.M(r, cc))); }
        } else if (op.kind == 3) { put(op.M.cols()); for (int cc = 0; cc < op.M.cols(); cc++) for (int r = 0; r < op.M.rows(); r++) put(dbits(op.M(r, cc))); }
        else { put(op.maxit); put(dbits(op.tol)); }
    }
    o << "]";
    int lastmaxit = 0; for (size_t i = 0; i <= upto && i < h.ops.size(); i++) if (h.ops[i].kind == 4) lastmaxit = h.ops[i].maxit;
    return case_json(h.c, lastmaxit, o.str());
}
static bool hist_from_json(const std::string& t, Hist& h) {
    auto v = jarr(t, "hist"); if (v.empty()) return false;
    const int n = h.c.n; size_t i = 0;
    while (i < v.size()) {
        HOp op; op.kind = (int) v[i++];
        if (op.kind == 1 || op.kind == 2) {
            if (i >= v.size()) return false;
            op.M = Mat::Zero(n, n); uint64_t nnz = v[i++]; if (i + 3 * nnz > v.size()) return false;
            for (uint64_t e = 0; e < nnz; e++, i += 3) { if (v[i] >= (uint64_t) n || v[i + 1] >= (uint64_t) n) return false; op.M(v[i], v[i + 1]) = bitsd(v[i + 2]); }
        } else if (op.kind == 3) {
            if (i >= v.size()) return false;
            int m = (int) v[i++]; if (m < 0 || m > n || i + (size_t) n * m > v.size()) return false;
            op.M = Mat::Zero(n, m); for (int cc = 0; cc < m; cc++) for (int r = 0; r < n; r++) op.M(r, cc) = bitsd(v[i++]);
        } else if (op.kind == 4) { if (i + 2 > v.size()) return false; op.maxit = (int) v[i++]; op.tol = bitsd(v[i++]); }
        else return false;
        h.ops.push_back(op);
    }
    return true;
}
static std::string hist_text(const Hist& h, size_t upto) {
    std::string t = "LOBPCGSolver(A, X0)"; if (h.c.withB) t += "; setB(B0)"; if (h.c.withT) t += "; setPreconditioner(T0)";
    for (size_t i = 0; i <= upto && i < h.ops.size(); i++) {
        const HOp& op = h.ops[i];
        t += op.kind == 1 ? "; setB(B" + str(i) + ")" : op.kind == 2 ? "; setPreconditioner(T" + str(i) + ")" : op.kind == 3 ? "; setConstraints(Y)" : "; compute(" + str(op.maxit) + ", " + str(op.tol) + ")";
    }
    return t;
}

// The whole history on ONE real object.  After every compute():
//  (1) twin: a FRESH object constructed from (A, the block X the object held when compute() was entered) with the B / T / Y last
//      set and the same compute() must hand out the same state bit for bit (compute() reads A, X, m_B, m_preconditioner, m_Y and the
//      three flags, nothing else: neither an earlier status nor earlier results);
//  (2) the property predicate `judge` for the CURRENT problem (A, current B, constraints Y);
//  (3) correspondence (if `corr`, no constraints): a shadow object goes through the same history with shadow_compute; one request
//      line for the whole history, answered by the model's object (`Obj`: members B, T, St; every compute() starts from the state the
//      previous call left).
static void run_hist(const Hist& h, Out& out, bool corr) {
    const Case& c = h.c; const int n = c.n;
    const double gthr = sqrt(Eigen::NumTraits<double>::epsilon());
    std::unique_ptr<Solver> s(make(c)), sh;
    for (auto& op : h.ops) if (op.kind == 3) corr = false;
    if (corr) sh.reset(make(c));
    Case cur = c; Mat Y; bool withY = false;
    std::ostringstream q, a; int ncomp = 0;
    q << "hist " << c.n << " " << c.k << " G " << dbits(gthr) << " A"; put_sparse(q, c.A);
    q << " B " << (c.withB ? 1 : 0); if (c.withB) put_sparse(q, c.B);
    q << " T " << (c.withT ? 1 : 0); if (c.withT) put_sparse(q, c.T);
    q << " X0"; put_dense(q, c.X0);
    q << " OPS";
    out.count("hist_histories");
    for (size_t oi = 0; oi < h.ops.size(); oi++) {
        const HOp& op = h.ops[oi];
        if (op.kind == 1) { Sp Ms = op.M.sparseView(); s->setB(Ms); if (sh) sh->setB(Ms); cur.B = op.M; cur.withB = true; q << " SB"; put_sparse(q, op.M); out.count("hist_setB"); continue; }
        if (op.kind == 2) { Sp Ms = op.M.sparseView(); s->setPreconditioner(Ms); if (sh) sh->setPreconditioner(Ms); cur.T = op.M; cur.withT = true; q << " ST"; put_sparse(q, op.M); out.count("hist_setPreconditioner"); continue; }
        if (op.kind == 3) { Sp Ms = op.M.sparseView(); s->setConstraints(Ms); Y = op.M; withY = true; out.count("hist_setConstraints"); continue; }
        // ---- compute
        cur.tol = op.tol;
        const Sp Xin = Acc::X(*s), Ain = Acc::A(*s);
        const int info_before = s->info();
        bool threw = false; std::string what;
        try { s->compute(op.maxit, op.tol); } catch (std::exception& e) { threw = true; what = e.what(); }
        Obs o = observe(*s); o.threw = threw; o.what = what;
        out.count("hist_computes"); out.count("hist_compute_after_info" + str(info_before)); ncomp++;
        auto rj = [&](const std::string& e) { return hist_json(h, oi, e); };
        // (1) fresh twin
        {
            Solver f(Ain, Xin);
            if (cur.withB) { Sp Bs = cur.B.sparseView(); f.setB(Bs); }
            if (cur.withT) { Sp Ts = cur.T.sparseView(); f.setPreconditioner(Ts); }
            if (withY) { Sp Ys = Y.sparseView(); f.setConstraints(Ys); }
            bool ft = false; try { f.compute(op.maxit, op.tol); } catch (std::exception&) { ft = true; }
            Obs of = observe(f); of.threw = ft;
            out.count("hist_twin_compared");
            if (!same_obs(o, of))
                out.fail("reuse-differs-from-fresh", "after " + hist_text(h, oi) + " the object reports info=" + str(o.info) + ", a fresh object built from (A, the block X held before this compute()) with the same B/T/Y and the same compute() reports info=" + str(of.info)
                         + (same_bits(o.evals, of.evals) ? "" : "; eigenvalues() differ") + (same_bits(o.X, of.X) ? "" : "; eigenvectors() differ") + (same_bits(o.resid, of.resid) ? "" : "; residuals() differ")
                         + ": compute() depends on something other than A, X, B, T, Y and its arguments", rj(",\"pred\":\"fresh\""));
        }
        // (2) the property for the current problem
        judge(cur, op.maxit, o, out, rj, "oracle_hist_", withY ? &Y : nullptr);
        if (withY && !threw && o.info == 0) out.count("oracle_hist_success_constrained");
        // (3) correspondence
        if (sh) {
            Trace tr; shadow_compute(*sh, op.maxit, op.tol, tr);
            Obs so = observe(*sh); so.threw = tr.threw;
            bool eq = same_obs(o, so);
            q << " C " << op.maxit << " " << dbits(op.tol); put_trace(q, tr);
            if (ncomp > 1) a << " ;; ";
            put_answer(a, o, tr, eq, out);
            if (tr.threw || threw) { sh.reset(); }   // an exception left compute(): the two objects are no longer comparable statement by statement
        }
        if (threw) break;
    }
    if (corr && ncomp > 0) { out.corr(q.str(), a.str()); out.count("hist_corr_lines"); }
    out.count("class_" + c.cls);
}

// history scripts (variant v = q % 7), on a small general-stream problem (k = 2..4):
//  0  no B:  compute; setB(B'); compute (same tolerance)                      -- the pencil changes under a converged block
//  1  B:     compute; setPreconditioner(Jacobi); compute (10 x looser)
//  2  T:     compute; setB(B'); setPreconditioner(poor diagonal); compute (100 x tighter)
//  3         compute(3) (unfinished); setB(B'); compute; compute(2) (nothing changed, converged block)
//  4         compute; setConstraints(random Y); compute                        -- cannot converge: the status must say so
//  5         compute(2) (unfinished); setConstraints(Y = eigenvectors 0..m-1 of the pencil); compute  -- deflation: next k values
//  6  B:     compute; setB(B'); compute(n / 3); setB(B''); setPreconditioner(Jacobi); compute (other maxit)
static Hist gen_hist(Rng& g, bool thorough, int q) {
    Hist h; const int v = q % 7;
    static const int idx_of[7][2] = {{0, 4}, {1, 3}, {2, 6}, {4, 1}, {0, 1}, {4, 3}, {1, 5}};   // gen_case index: k = ks[idx % 10], B = idx & 1, T = idx & 2
    int idx = idx_of[v][(q / 7) % 2];
    h.c = gen_case(g, false, idx); Case& c = h.c; const int n = c.n;
    if (c.tol < 1e-8) c.tol = 1e-7; if (c.tol > 1e-4) c.tol = 1e-5;
    c.cls = "hist" + str(v);
    auto C = [&](int maxit, double tol) { HOp o; o.kind = 4; o.maxit = maxit; o.tol = tol; h.ops.push_back(o); };
    auto S = [&](int kind, const Mat& M) { HOp o; o.kind = kind; o.M = M; h.ops.push_back(o); };
    Mat B2 = gen_spd_tridiag(g, n, 2.5, 0.8, 0.3), B3 = gen_spd_tridiag(g, n, 1.2, 0.2, 0.15);
    Mat TJ = Mat::Zero(n, n), TP = Mat::Zero(n, n); for (int i = 0; i < n; i++) { TJ(i, i) = 1.0 / c.A(i, i); TP(i, i) = 0.05 + 5.0 * std::fabs(g.sym()); }
    if (v == 0) { C(n, c.tol); S(1, B2); C(n, c.tol); }
    if (v == 1) { C(n, c.tol); S(2, TJ); C(n, 10 * c.tol); }
    if (v == 2) { C(n, c.tol); S(1, B2); S(2, TP); C(n, c.tol / 100); }
    if (v == 3) { C(3, c.tol); S(1, B2); C(n, c.tol); C(2, c.tol); }
    if (v == 4) { Mat Y(n, 1); for (int i = 0; i < n; i++) Y(i, 0) = g.sym(); C(n, c.tol); S(3, Y); C(n, c.tol); }
    if (v == 5) {
        int m = 1 + (q / 7) % 2;
        Eigen::GeneralizedSelfAdjointEigenSolver<Mat> ges(c.A, c.B); Mat Y = ges.eigenvectors().leftCols(m);
        C(2, c.tol); S(3, Y); C(n, c.tol);
    }
    if (v == 6) { C(n, c.tol); S(1, B2); C(n / 3, c.tol); S(1, B3); S(2, TJ); C(n - 1, c.tol); }
    return h;
}

int main(int argc, char** argv) {
    Args a(argc, argv); Out out(a.out);
    if (!a.replay.empty()) {
        std::ifstream f(a.replay); std::string t((std::istreambuf_iterator<char>(f)), {});
        t.erase(std::remove_if(t.begin(), t.end(), [](unsigned char ch) { return std::isspace(ch); }), t.end());   // json.dump(indent=1) inserts blanks
        auto p = t.find("\"replay\""); if (p != std::string::npos) t = t.substr(p);
        Case c; int maxit = 0;
        if (!case_from_json(t, c, maxit)) { std::cerr << "cannot parse replay\n"; return 2; }
        c.J = std::min(maxit, 12);
        { Hist h; h.c = c; if (hist_from_json(t, h)) { h.c.cls = "replay-hist"; run_hist(h, out, true); out.finish(); return out.nfail ? 1 : 0; } }
        if (std::getenv("C17_TRACE")) {   // diagnostic: B-orthonormality of the internal iterate and residual norms at every cut
            LMat B = c.B.cast<long double>();
            for (int j = 0; j <= maxit; j++) { Obs o = run_real(c, j, c.tol); LMat X = o.X.cast<long double>();
                std::cerr << "cut " << j << " info " << o.info << " threw " << o.threw << " xbx " << (double) maxabs(X.transpose() * B * X - LMat::Identity(c.k, c.k)) << " evecs " << o.evecs.rows() << "x" << o.evecs.cols() << " rnorm";
                for (int q = 0; q < o.resid.cols(); q++) std::cerr << " " << o.resid.col(q).norm(); std::cerr << "\n"; }
        }
        oracle(c, maxit, out); oracle_second(c, maxit, out); oracle_lifetime(c, maxit, out); corr_case(c, out);
        out.finish(); return out.nfail ? 1 : 0;
    }
    int ncases = a.thorough() ? 360 : 36;
    for (int idx = 0; idx < ncases; idx++) {
        Rng g(a.seed, 17, idx);
        Case c = gen_case(g, a.thorough(), idx);
        { std::ofstream lc(a.out + "/lastcase.txt"); lc << case_json(c, c.n); }
        corr_case(c, out);
        oracle(c, c.n, out);              // max_iter = min(n, maxit): the longest run the code allows
        if (idx % 3 == 0) oracle_second(c, c.n, out);
        if (idx % 2 == 0) oracle_lifetime(c, c.n, out);
    }
    // ---- preconditioner stream: Jacobi, a poor diagonal SPD and a poor tridiagonal SPD preconditioner (correspondence + oracle)
    for (int q = 0; q < (a.thorough() ? 72 : 9); q++) {
        Rng g(a.seed, 21, q);
        Case c = gen_case(g, a.thorough(), 10 * q + (q % 8), 1 + q % 3); c.cls += "/precond";
        { std::ofstream lc(a.out + "/lastcase.txt"); lc << case_json(c, c.n); }
        corr_case(c, out); oracle(c, c.n, out);
    }
    // ---- loose tolerance stream: tol*n in {6, 3, 1.8} on the graded family, k = 3..6: columns pass the norm test in the
    //      first iterations, at different times, and some come back above it (soft locking; tol*n = 6 and 3 twice as often).  The model pins the list of removed
    //      columns of every iteration; the oracle requires every final residual column below tol*n on Success.
    for (int q = 0; q < (a.thorough() ? 160 : 16); q++) {
        Rng g(a.seed, 22, q);
        static const double tls[] = {6.0, 3.0, 6.0, 3.0, 1.8};
        Case c = gen_graded(g, 3 + q % 4, (q & 1) != 0, (q % 4 == 3) ? 1 : (q % 16 == 6) ? 2 : 0, tls[g.range(0, 4)], 12); c.cls += "/loose";
        { std::ofstream lc(a.out + "/lastcase.txt"); lc << case_json(c, c.n); }
        if (q < 60) corr_case(c, out);
        oracle(c, c.n, out);
        out.count("class_" + c.cls + "/oracle");
    }
    // ---- near-convergence stress on the graded family with the Jacobi preconditioner, k = 4..6: the run is continued until the
    //      residuals sit at the attainable accuracy (tol_div_n in {1e-12, 1e-13}), or stopped at the default tol_div_n = 1e-7.
    //      There the directions D are rounding noise, D'BD and the Gram matrix of [X R D] degenerate.  Oracle on every case; the
    //      correspondence replays the whole run (one cut at maxit = n) for the first two cases and for up to three more whose run
    //      ends in the Gram-matrix exit or with a failed B-orthonormality guard.
    {
        int ntight = a.thorough() ? 160 : 24, ndef = a.thorough() ? 1200 : 12, ncorr = 0;
        for (int q = 0; q < ntight + ndef; q++) {
            Rng g(a.seed, 23, q); bool tight = q < ntight;
            double tdn = tight ? ((q & 2) ? 1e-12 : 1e-13) : 1e-7;
            Case c = gen_graded(g, tight ? 4 + q % 3 : 5 + q % 2, (q & 1) != 0, 1, 1.0, 0); c.tol = tdn; c.cls += tight ? "/stress-tight" : "/stress-default";
            { std::ofstream lc(a.out + "/lastcase.txt"); lc << case_json(c, c.n); }
            oracle(c, c.n, out);
            out.count("class_" + c.cls + "/oracle");
            if (!tight) continue;
            std::unique_ptr<Solver> sh(make(c)); Trace tr; shadow_compute(*sh, c.n, c.tol, tr);
            bool special = tr.guard == 0 || (!tr.it.empty() && tr.it.back().rr == 4);
            if (q < 2 || (special && ncorr < 3)) { if (q >= 2) ncorr++; c.cuts = {c.n}; corr_case(c, out); }
        }
    }
    // ---- histories on ONE solver object: compute / setters with new arguments / compute again (twin + predicate on every compute;
    //      correspondence of the whole history for the first ones without constraints)
    for (int q = 0; q < (a.thorough() ? 140 : 14); q++) {
        Rng g(a.seed, 25, q); Hist h = gen_hist(g, a.thorough(), q);
        { std::ofstream lc(a.out + "/lastcase.txt"); lc << hist_json(h, h.ops.size() - 1, ""); }
        run_hist(h, out, q < (a.thorough() ? 42 : 7));
    }
    // ---- indefinite and negative definite A (prescribed spectra with large negative eigenvalues; banded with a negative head),
    //      with / without B, with / without preconditioner: the k returned values must be the k ALGEBRAICALLY smallest
    for (int q = 0; q < (a.thorough() ? 240 : 24); q++) {
        Rng g(a.seed, 27, q); Case c = gen_indef(g, q, a.thorough());
        { std::ofstream lc(a.out + "/lastcase.txt"); lc << case_json(c, c.n); }
        if (q < (a.thorough() ? 48 : 6)) corr_case(c, out);
        oracle(c, c.n, out);
        out.count("class_" + c.cls + "/oracle");
    }
    // ---- collapsed block in front of the final guard: see gen_collapse.  The tolerance is placed so that every column fails the test
    //      in iteration 0 (rank-one residual block) and passes it after the first Rayleigh-Ritz step; the shadow tells which members of
    //      the family end with all residual columns below the tolerance AND a failed guard whose SIGNED maximum is below the threshold
    //      (a column of X of B-norm ~0, diagonal entry -1 of X'BX - I).  Oracle + correspondence on those (at most 3).
    {
        int hits = 0; std::vector<std::string> seen;
        for (int p = 0; p < 400 && hits < 4; p++) {
            Case c = gen_collapse(p);
            if (std::find(seen.begin(), seen.end(), c.cls) != seen.end()) continue;   // one member per configuration (B / preconditioner / band)
            Obs o0 = run_real(c, 0, 0.0); if (o0.threw || o0.resid.cols() != c.k) continue;
            double mn = 1e300; for (int j = 0; j < c.k; j++) mn = std::min(mn, o0.resid.col(j).norm());
            c.tol = 0.5 * mn / c.n;
            std::unique_ptr<Solver> sh(make(c)); Trace tr; shadow_compute(*sh, c.n, c.tol, tr);
            out.count("collapse_tried");
            if (tr.threw || tr.guard != 0) continue;
            Mat X = Mat(Acc::X(*sh)); Mat E = X.transpose() * (c.withB ? Mat(c.B * X) : X) - Mat::Identity(c.k, c.k);
            if (!(E.maxCoeff() < 1e-9 && E.minCoeff() < -0.5)) continue;       // signed maximum tiny, some diagonal entry near -1
            hits++; seen.push_back(c.cls); out.count("collapse_signed_guard_cases");
            { std::ofstream lc(a.out + "/lastcase.txt"); lc << case_json(c, c.n); }
            c.cuts = {0, 1, 2, c.n}; corr_case(c, out); oracle(c, c.n, out);
        }
    }
    // ---- sort_epairs on the real class (std::map keyed by the eigenvalue: equal keys collapse) vs the model's sortEpairs
    {
        Mat Ad = Mat::Identity(3, 3); Mat Xd = Mat::Ones(3, 1); Sp As = Ad.sparseView(), Xs = Xd.sparseView(); Solver s(As, Xs);
        int ns = a.thorough() ? 2000 : 300;
        for (int q = 0; q < ns; q++) {
            Rng g(a.seed, 20, q); int m = g.range(1, 7); bool ties = g.coin(0.5);
            Vec th(m); Mat C(m, m);
            for (int i = 0; i < m; i++) th(i) = ties ? (double) g.range(0, 3) : g.sym();
            for (int j = 0; j < m; j++) for (int i = 0; i < m; i++) C(i, j) = (double) g.range(-9, 9);
            std::ostringstream rq; rq << "sortep " << m; put_dense(rq, th); put_dense(rq, C);
            s.m_evalues = th; s.m_evectors = C; Acc::sort(s, s.m_evalues, s.m_evectors);
            std::ostringstream an; put_shape(an, "evals", s.m_evalues); put_shape(an, "evecs", s.m_evectors);
            out.corr(rq.str(), an.str().substr(1)); out.count(ties ? "sortep_ties" : "sortep_distinct");
        }
    }
    // ---- crafted exits (the same in every seed except for the random parts)
    {   // exact invariant start block and tol = 0: the residual block is exactly zero, `sqrt(0) < 0` is false, the LDLT of R'BR meets a
        // zero pivot: orthogonalizeInPlace fails, m_info = NumericalIssue, break
        Case c; c.n = 11; c.k = 2; c.cls = "exact-start-tol0"; c.tol = 0.0; c.J = 3;
        c.A = Mat::Zero(c.n, c.n); for (int i = 0; i < c.n; i++) c.A(i, i) = 1.0 + i;
        c.B = Mat::Identity(c.n, c.n); c.T = Mat::Identity(c.n, c.n); c.X0 = Mat::Zero(c.n, c.k); c.X0(0, 0) = 1.0; c.X0(1, 1) = 1.0;
        corr_case(c, out); oracle(c, c.n, out);
    }
    {   // the B-orthonormality guard in front of m_info = Success must FAIL (correspondence only: B is indefinite, outside the property):
        // B = diag(1, ..., 1, -1, ..., -1) makes a pivot of the LDLT of X'BX negative, its complex square root is imaginary and
        // `.real()` of the scaled factor zeroes a column of X; with a huge tolerance every residual column passes in iteration 0
        Rng g(a.seed, 24, 0);
        Case c; c.n = 12; c.k = 2; c.cls = "guard-fails-indefinite-B"; c.tol = 1e6; c.J = 2; c.withB = true;
        c.A = Mat::Zero(c.n, c.n); for (int i = 0; i < c.n; i++) { c.A(i, i) = 1.0 + i; if (i + 1 < c.n) c.A(i, i + 1) = c.A(i + 1, i) = 0.3 * g.sym(); }
        c.B = Mat::Identity(c.n, c.n); for (int i = 2; i < c.n; i++) c.B(i, i) = -1.0;
        c.T = Mat::Identity(c.n, c.n); c.X0 = Mat(c.n, c.k); for (int j = 0; j < c.k; j++) for (int i = 0; i < c.n; i++) c.X0(i, j) = g.sym();
        c.X0(0, 0) = 4.0; c.X0(1, 1) = 0.01;   // x0'Bx0 > 0; the second pivot is negative
        corr_case(c, out);
    }
    for (int q = 0; q < (a.thorough() ? 12 : 4); q++) {
        // tolerance placed between the two largest initial residual norms: exactly one unconverged column in iteration 0
        Rng g(a.seed, 18, q); Case c = gen_case(g, a.thorough(), 1 + (q % 2) + 10 * q);   // k in {3, 2}
        c.cls += "/one-left"; c.J = 3;
        Obs o = run_real(c, 0, 0.0); std::vector<double> nr; for (int j = 0; j < o.resid.cols(); j++) nr.push_back(o.resid.col(j).norm());
        std::sort(nr.begin(), nr.end()); if (nr.size() < 2) continue;
        c.tol = 0.5 * (nr[nr.size() - 1] + nr[nr.size() - 2]) / c.n;
        { std::ofstream lc(a.out + "/lastcase.txt"); lc << case_json(c, c.n); }
        corr_case(c, out); oracle(c, c.n, out);
    }
    for (int q = 0; q < (a.thorough() ? 8 : 2); q++) {
        // tol = 0: convergence is impossible, the loop runs until min(n, maxit) or until an inner solver gives up (correspondence only)
        Rng g(a.seed, 19, q); Case c = gen_case(g, false, 2 * q); c.cls += "/tol0"; c.tol = 0.0; c.J = c.n;
        { std::ofstream lc(a.out + "/lastcase.txt"); lc << case_json(c, c.n); }
        corr_case(c, out);
    }
    out.finish();
    return 0;
}
