// C19 harness: real SimpleRandom / next_long_rand vs (a) the Lean model (correspondence), (b) the property's own oracle:
// exact Park-Miller step in 128-bit arithmetic, closed state space, draws in [-0.5, 0.5], library seed forms.
#include "common.h"
#include <Spectra/Util/SimpleRandom.h>
#include <Eigen/Core>
#include <Spectra/SymEigsSolver.h>
#include <Spectra/GenEigsSolver.h>
#include <Spectra/MatOp/DenseSymMatProd.h>
#include <Spectra/MatOp/DenseGenMatProd.h>
#include <thread>
#include <atomic>
using namespace vh;

static const long P = 2147483647L;
static inline long pm_ref(long s) { return (long) (((unsigned __int128) 16807u * (unsigned __int128) s) % (unsigned __int128) P); }

template <class T> static bool draw_ok(long s, std::string& why) {
    long st = s; T v = Spectra::RandomScalar<T>::run(st);
    if (!(v >= T(-0.5) && v <= T(0.5))) { why = "draw out of [-0.5,0.5]"; return false; }
    if (st != Spectra::next_long_rand(s)) { why = "draw does not advance state by one step"; return false; }
    return true;
}
template <class T> static bool cdraw_ok(long s, std::string& why) {
    long st = s; std::complex<T> v = Spectra::RandomScalar<std::complex<T>>::run(st);
    long s1 = s; T a = Spectra::RandomScalar<T>::run(s1); T b = Spectra::RandomScalar<T>::run(s1);
    if (!(v.real() == a && v.imag() == b && st == s1)) { why = "complex draw is not two consecutive real draws"; return false; }
    if (!(v.real() >= T(-0.5) && v.real() <= T(0.5) && v.imag() >= T(-0.5) && v.imag() <= T(0.5))) { why = "complex draw out of range"; return false; }
    return true;
}

static void check_state(long s, Out& out) {
    long r = Spectra::next_long_rand(s);
    if (r != pm_ref(s)) out.fail("rng-step", "next_long_rand(" + str(s) + ") = " + str(r) + " != 16807*s mod (2^31-1) = " + str(pm_ref(s)), "{\"op\":\"rand_next\",\"s\":" + str(s) + "}");
    if (r < 1 || r > P - 1) out.fail("rng-degenerate", "state " + str(s) + " -> degenerate " + str(r), "{\"op\":\"rand_next\",\"s\":" + str(s) + "}");
    std::string why;
    if (!draw_ok<double>(s, why) || !draw_ok<float>(s, why) || !draw_ok<long double>(s, why) ||
        !cdraw_ok<double>(s, why) || !cdraw_ok<float>(s, why))
        out.fail("rng-draw", why + " at state " + str(s), "{\"op\":\"rand_draw\",\"s\":" + str(s) + "}");
}

static void check_repro(Out& out, int only_n = 0) {
    // ---- reproducibility of default-initialised solvers inside one process (seed purity at the call sites): the same default
    // solve performed twice must be bit-identical, also when the Krylov sequence breaks down and restart vectors are drawn
    // (diag(1,2,3 repeated): an invariant subspace is hit after 3 steps, so expand_basis draws from the generator) ----
    {
        auto sym_run = [](const Eigen::MatrixXd& A, int nev, int ncv, Eigen::VectorXd& ev, Eigen::MatrixXd& X) {
            Spectra::DenseSymMatProd<double> op(A); Spectra::SymEigsSolver<Spectra::DenseSymMatProd<double>> e(op, nev, ncv); e.init(); e.compute(Spectra::SortRule::LargestAlge, 50, 1e-10);
            ev = e.eigenvalues(); X = e.eigenvectors(); };
        auto gen_run = [](const Eigen::MatrixXd& A, int nev, int ncv, Eigen::VectorXcd& ev, Eigen::MatrixXcd& X) {
            Spectra::DenseGenMatProd<double> op(A); Spectra::GenEigsSolver<Spectra::DenseGenMatProd<double>> e(op, nev, ncv); e.init(); e.compute(Spectra::SortRule::LargestMagn, 50, 1e-10);
            ev = e.eigenvalues(); X = e.eigenvectors(); };
        for (int n : {9, 12, 15}) for (int rep = 0; rep < 2; rep++) { if (only_n && n != only_n) continue;
            Eigen::MatrixXd A = Eigen::MatrixXd::Zero(n, n); for (int i = 0; i < n; i++) A(i, i) = 1 + (i % 3);
            if (rep == 1) { A(0, 1) = A(1, 0) = 0.25; }
            Eigen::VectorXd e1, e2; Eigen::MatrixXd X1, X2; sym_run(A, 3, 8, e1, X1); sym_run(A, 3, 8, e2, X2);
            bool same = e1.size() == e2.size() && X1.cols() == X2.cols() && (e1.size() == 0 || std::memcmp(e1.data(), e2.data(), 8 * e1.size()) == 0) && (X1.size() == 0 || std::memcmp(X1.data(), X2.data(), 8 * X1.size()) == 0);
            if (!same) out.fail("rng-not-reproducible", "two identical default-initialised SymEigsSolver runs in one process differ (n=" + str(n) + ", breakdown matrix)", "{\"op\":\"repro_sym\",\"s\":" + str(n) + "}");
            Eigen::VectorXcd g1, g2; Eigen::MatrixXcd Y1, Y2; gen_run(A, 2, 7, g1, Y1); gen_run(A, 2, 7, g2, Y2);
            bool sameg = g1.size() == g2.size() && Y1.cols() == Y2.cols() && (g1.size() == 0 || std::memcmp(g1.data(), g2.data(), 16 * g1.size()) == 0) && (Y1.size() == 0 || std::memcmp(Y1.data(), Y2.data(), 16 * Y1.size()) == 0);
            if (!sameg) out.fail("rng-not-reproducible", "two identical default-initialised GenEigsSolver runs in one process differ (n=" + str(n) + ", breakdown matrix)", "{\"op\":\"repro_gen\",\"s\":" + str(n) + "}");
            out.count("oracle_reproducibility", 2);
            // the SAME solver object, default init() twice: the second default start vector must be the first one again
            // (the generator of init() is seeded per call, not kept across calls)
            {   Spectra::DenseSymMatProd<double> op(A); Spectra::SymEigsSolver<Spectra::DenseSymMatProd<double>> e(op, 3, 8);
                e.init(); e.compute(Spectra::SortRule::LargestAlge, 50, 1e-10); Eigen::VectorXd a1 = e.eigenvalues(); Eigen::MatrixXd Z1 = e.eigenvectors(); long it1 = e.num_iterations(), op1 = e.num_operations();
                e.init(); e.compute(Spectra::SortRule::LargestAlge, 50, 1e-10); Eigen::VectorXd a2 = e.eigenvalues(); Eigen::MatrixXd Z2 = e.eigenvectors(); long it2 = e.num_iterations(), op2 = e.num_operations();
                bool same2 = it1 == it2 && op1 == op2 && a1.size() == a2.size() && Z1.cols() == Z2.cols() && (a1.size() == 0 || std::memcmp(a1.data(), a2.data(), 8 * a1.size()) == 0) && (Z1.size() == 0 || std::memcmp(Z1.data(), Z2.data(), 8 * Z1.size()) == 0);
                if (!same2) out.fail("rng-not-reproducible", "init(); compute() twice on ONE SymEigsSolver object differ (n=" + str(n) + "; iterations " + str(it1) + " vs " + str(it2) + ", operations " + str(op1) + " vs " + str(op2) + "): the default start vector depends on earlier calls", "{\"op\":\"repro_sym\",\"s\":" + str(n) + "}");
                Spectra::DenseGenMatProd<double> gop(A); Spectra::GenEigsSolver<Spectra::DenseGenMatProd<double>> ge(gop, 2, 7);
                ge.init(); ge.compute(Spectra::SortRule::LargestMagn, 50, 1e-10); Eigen::VectorXcd b1 = ge.eigenvalues(); long git1 = ge.num_iterations(), gop1 = ge.num_operations();
                ge.init(); ge.compute(Spectra::SortRule::LargestMagn, 50, 1e-10); Eigen::VectorXcd b2 = ge.eigenvalues(); long git2 = ge.num_iterations(), gop2 = ge.num_operations();
                bool sameg2 = git1 == git2 && gop1 == gop2 && b1.size() == b2.size() && (b1.size() == 0 || std::memcmp(b1.data(), b2.data(), 16 * b1.size()) == 0);
                if (!sameg2) out.fail("rng-not-reproducible", "init(); compute() twice on ONE GenEigsSolver object differ (n=" + str(n) + ")", "{\"op\":\"repro_gen\",\"s\":" + str(n) + "}");
                out.count("oracle_reproducibility_same_object", 2); }
        }
    }
}

int main(int argc, char** argv) {
    Args a(argc, argv); Out out(a.out);
    if (!a.replay.empty()) {
        // replay file: {"op":..., "s":N}
        std::ifstream f(a.replay); std::string t((std::istreambuf_iterator<char>(f)), {});
        auto p = t.find("\"s\":"); long s = p == std::string::npos ? 1 : std::atol(t.c_str() + p + 4);
        if (t.find("rand_seed") != std::string::npos) { Spectra::SimpleRandom<double> r((unsigned long) s); (void) r; }
        if (t.find("repro_") != std::string::npos) check_repro(out, (int) s); else check_state(s, out);
        out.finish(); return out.nfail ? 1 : 0;
    }
    // ---- correspondence requests: boundary + random states, seeds ----
    std::vector<long> states = {1, 2, 3, 16807, 65535, 65536, 65537, 127773, 127774, 1043618065, P - 2, P - 1, P / 2, P / 2 + 1, 32767, 32768, 2147418112, 2147450879};
    Rng rng(a.seed, 19);
    int nrand = a.thorough() ? 200000 : 20000;
    for (int i = 0; i < nrand; i++) states.push_back(1 + (long) rng.below(P - 1));
    for (long s : states) {
        out.corr("rand_next " + str(s), str(Spectra::next_long_rand(s)));
        long st = s; double v = Spectra::RandomScalar<double>::run(st);
        out.corr("rand_draw " + str(s), str(st) + " " + str(dbits(v)));
        out.corr("rand_ub " + str(s), "1");   // the C++ is compiled with UBSan: reaching here means no UB was trapped
        check_state(s, out);
        out.count("states");
    }
    // seeds: the forms the library uses + generic
    struct Peek : Spectra::SimpleRandom<double> { using Spectra::SimpleRandom<double>::SimpleRandom; };
    auto seed_state = [](unsigned long sd) { Spectra::SimpleRandom<double> r(sd); double v = r.random(); (void) v;
        // recover the normalised state: one draw advanced it; compare through the first draw instead
        return v; };
    std::vector<unsigned long> seeds = {0};
    long imax = a.thorough() ? (1L << 20) : (1L << 12);
    for (long i = 0; i < imax; i++) for (int j = 0; j < 5; j++) seeds.push_back((unsigned long) (2 * i + 123 * j));
    if (!a.thorough()) for (int k = 0; k < 4000; k++) { long i = (long) rng.below(1L << 20); seeds.push_back((unsigned long) (2 * i + 123 * (long) rng.below(5))); }
    for (unsigned long sd : seeds) {
        // normalised state as the constructor computes it, observed through the first draw
        double v = seed_state(sd);
        unsigned long norm = sd ? (sd & 2147483647UL) : 1;    // documented normalisation (oracle side)
        if (norm < 1 || norm > (unsigned long) (P - 1)) out.fail("rng-seed-degenerate", "library seed " + str(sd) + " normalises to degenerate state " + str(norm), "{\"op\":\"rand_seed\",\"s\":" + str(sd) + "}");
        long st = (long) norm; double w = Spectra::RandomScalar<double>::run(st);
        if (dbits(v) != dbits(w)) out.fail("rng-seed-norm", "SimpleRandom(" + str(sd) + ") first draw differs from draw at documented normalised state", "{\"op\":\"rand_seed\",\"s\":" + str(sd) + "}");
        if (!(v >= -0.5 && v <= 0.5)) out.fail("rng-draw", "first draw of seed " + str(sd) + " out of range", "{\"op\":\"rand_seed\",\"s\":" + str(sd) + "}");
        out.count("seeds");
    }
    // ---- the generator OBJECT as a state machine: every public call advances the one state by exactly the draws it hands out
    // (random(), random_vec(Vector&), random_vec(len) mixed on one object must be ONE Park-Miller stream) ----
    {
        Rng r2(a.seed, 1919); int nseq = a.thorough() ? 20000 : 2000;
        for (int k = 0; k < nseq; k++) {
            unsigned long sd = (k % 4 == 0) ? 0UL : (unsigned long) (2 * (long) r2.below(1L << 20) + 123 * (long) r2.below(5));
            int l1 = (int) r2.below(6), l2 = (int) r2.below(6);
            Spectra::SimpleRandom<double> g(sd);
            std::vector<double> got;
            Eigen::VectorXd v(l1); g.random_vec(v); for (int i = 0; i < l1; i++) got.push_back(v[i]);
            got.push_back(g.random());
            Eigen::VectorXd w = g.random_vec((Eigen::Index) l2); for (int i = 0; i < l2; i++) got.push_back(w[i]);
            got.push_back(g.random());
            // oracle: one stream from the documented normalised state
            long st = (long) (sd ? (sd & 2147483647UL) : 1); bool ok = true;
            for (double x : got) { double e = Spectra::RandomScalar<double>::run(st); if (dbits(e) != dbits(x)) ok = false; }
            if (!ok) out.fail("rng-object-stream", "SimpleRandom(" + str(sd) + "): random_vec(v[" + str(l1) + "]); random(); random_vec(" + str(l2) + "); random() is not one Park-Miller stream (a call did not advance the state by the draws it handed out)", "{\"op\":\"rand_seq\",\"s\":" + str(sd) + "}");
            std::string resp; for (double x : got) { if (!resp.empty()) resp += " "; resp += str(dbits(x)); }
            out.corr("rand_seq " + str(sd) + " " + str(l1) + " " + str(l2), resp);
            out.count("object_sequences");
        }
        // complex generator object: 2 real draws per element
        for (int k = 0; k < 200; k++) {
            unsigned long sd = (unsigned long) (2 * (long) r2.below(1L << 20) + 123 * (long) r2.below(5));
            Spectra::SimpleRandom<std::complex<double>> g(sd); Eigen::VectorXcd v(3); g.random_vec(v); std::complex<double> z = g.random();
            long st = (long) (sd ? (sd & 2147483647UL) : 1); bool ok = true;
            for (int i = 0; i < 4; i++) { double re = Spectra::RandomScalar<double>::run(st), im = Spectra::RandomScalar<double>::run(st); std::complex<double> c = i < 3 ? v[i] : z; if (dbits(c.real()) != dbits(re) || dbits(c.imag()) != dbits(im)) ok = false; }
            if (!ok) out.fail("rng-object-stream", "SimpleRandom<complex>(" + str(sd) + "): random_vec(v[3]); random() is not one stream of (re, im) pairs", "{\"op\":\"rand_seq\",\"s\":" + str(sd) + "}");
            out.count("object_sequences_complex");
        }
    }
    check_repro(out);
    // model correspondence for seed normalisation (model side: Gen.Rand.seed_norm), sampled
    for (size_t k = 0; k < seeds.size(); k += (a.thorough() ? 97 : 7)) {
        unsigned long sd = seeds[k];
        // implementation value observed: state after construction = preimage of first draw; we print the state after one draw
        Spectra::SimpleRandom<double> r(sd); double v = r.random();
        out.corr("rand_seed_draw " + str(sd), str(dbits(v)));
    }
    // ---- thorough: ALL 2^31-2 states against 128-bit reference, 16 threads ----
    if (a.thorough()) {
        std::atomic<long> bad(-1); std::atomic<long> badf(-1);
        int nt = 16; std::vector<std::thread> th;
        for (int t = 0; t < nt; t++) th.emplace_back([&, t]() {
            for (long s = 1 + t; s <= P - 1; s += nt) {
                long r = Spectra::next_long_rand(s);
                if (r != pm_ref(s) || r < 1 || r > P - 1) { bad = s; }
                double d = double(r) / double(P) - 0.5; float f = float(r) / float(P) - 0.5f;
                if (!(d >= -0.5 && d <= 0.5 && f >= -0.5f && f <= 0.5f)) badf = s;
            }
        });
        for (auto& x : th) x.join();
        if (bad >= 0) check_state(bad, out);
        if (badf >= 0) out.fail("rng-draw", "range formula leaves [-0.5,0.5] at state " + str((long) badf), "{\"op\":\"rand_draw\",\"s\":" + str((long) badf) + "}");
        out.count("exhaustive_states", P - 1);
    }
    out.finish();
    return 0;
}
