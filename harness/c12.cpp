// C12 harness: exhaustive argument-validation sweep on the real constructors / init / compute,
// with a live-heap-block counter (global operator new/delete) to detect leaks of rejected calls.
#include <cstdlib>
#include <new>
#include <atomic>
static std::atomic<long> g_live(0);
void* operator new(std::size_t n) { void* p = std::malloc(n ? n : 1); if (!p) throw std::bad_alloc(); g_live++; return p; }
void* operator new[](std::size_t n) { void* p = std::malloc(n ? n : 1); if (!p) throw std::bad_alloc(); g_live++; return p; }
void operator delete(void* p) noexcept { if (p) { g_live--; std::free(p); } }
void operator delete[](void* p) noexcept { if (p) { g_live--; std::free(p); } }
void operator delete(void* p, std::size_t) noexcept { if (p) { g_live--; std::free(p); } }
void operator delete[](void* p, std::size_t) noexcept { if (p) { g_live--; std::free(p); } }

#include "common.h"
#include <Eigen/Core>
#include <Eigen/SparseCore>
#include <Spectra/SymEigsSolver.h>
#include <Spectra/SymEigsShiftSolver.h>
#include <Spectra/HermEigsSolver.h>
#include <Spectra/GenEigsSolver.h>
#include <Spectra/GenEigsRealShiftSolver.h>
#include <Spectra/GenEigsComplexShiftSolver.h>
#include <Spectra/SymGEigsSolver.h>
#include <Spectra/SymGEigsShiftSolver.h>
#include <Spectra/DavidsonSymEigsSolver.h>
#include <Spectra/contrib/PartialSVDSolver.h>
#include <Spectra/MatOp/DenseSymMatProd.h>
#include <Spectra/MatOp/DenseHermMatProd.h>
#include <Spectra/MatOp/DenseGenMatProd.h>
#include <Spectra/MatOp/SparseSymMatProd.h>
#include <Spectra/MatOp/SparseHermMatProd.h>
#include <Spectra/MatOp/SparseGenMatProd.h>
#include <Spectra/MatOp/DenseSymShiftSolve.h>
#include <Spectra/MatOp/SparseSymShiftSolve.h>
#include <Spectra/MatOp/DenseGenRealShiftSolve.h>
#include <Spectra/MatOp/SparseGenRealShiftSolve.h>
#include <Spectra/MatOp/DenseGenComplexShiftSolve.h>
#include <Spectra/MatOp/SparseGenComplexShiftSolve.h>
#include <Spectra/MatOp/DenseCholesky.h>
#include <Spectra/MatOp/SparseCholesky.h>
#include <Spectra/MatOp/SparseRegularInverse.h>
#include <Spectra/MatOp/SymShiftInvert.h>
using namespace vh;
using namespace Spectra;
typedef Eigen::MatrixXd Mat; typedef Eigen::VectorXd Vec; typedef Eigen::SparseMatrix<double> SpMat;
typedef Eigen::MatrixXcd CMat;

static Mat symmat(int n) { Mat A = Mat::Zero(n, n); for (int i = 0; i < n; i++) { A(i, i) = 2.0 + i; if (i + 1 < n) A(i, i + 1) = A(i + 1, i) = 0.5; } return A; }
static Mat spdmat(int n) { Mat B = Mat::Identity(n, n) * 3.0; for (int i = 0; i + 1 < n; i++) B(i, i + 1) = B(i + 1, i) = 0.25; return B; }
static Mat genmat(int n) { Mat A = symmat(n); if (n > 1) { A(0, n - 1) += 0.3; A(n - 1, 0) -= 0.2; } return A; }

struct Outcome { std::string s; long leaked; };
// run f (which constructs an object and lets it die); returns "ok" / "throw <type>" and the number of heap blocks still live afterwards
static const char* OUTCOME_NAMES[] = {"ok", "throw std::invalid_argument", "throw std::logic_error", "throw std::runtime_error", "throw std::bad_alloc", "throw std::exception", "throw unknown"};
template <class F> static Outcome attempt(F f) {
    long before = g_live.load(); int code = 0;
    try { f(); }
    catch (const std::invalid_argument&) { code = 1; }
    catch (const std::logic_error&) { code = 2; }
    catch (const std::runtime_error&) { code = 3; }
    catch (const std::bad_alloc&) { code = 4; }
    catch (const std::exception&) { code = 5; }
    catch (...) { code = 6; }
    long leaked = g_live.load() - before;     // measured before any string of the harness itself is allocated
    return {OUTCOME_NAMES[code], leaked};
}

static void judge(Out& out, const std::string& cls, int n, long nev, long ncv, bool want_ok, const Outcome& o, const std::string& extra = "") {
    std::string rj = "{\"op\":\"ctor\",\"class\":\"" + cls + "\",\"n\":" + str(n) + ",\"nev\":" + str(nev) + ",\"ncv\":" + str(ncv) + (extra.empty() ? "" : "," + extra) + "}";
    out.count("oracle_ctor");
    if (want_ok && o.s != "ok") out.fail("ctor-reject-valid", cls + " rejects documented-valid (n,nev,ncv)=(" + str(n) + "," + str(nev) + "," + str(ncv) + "): " + o.s, rj);
    if (!want_ok && o.s == "ok") out.fail("ctor-accept-invalid", cls + " accepts invalid (n,nev,ncv)=(" + str(n) + "," + str(nev) + "," + str(ncv) + ")", rj);
    if (!want_ok && o.s != "ok" && o.s != "throw std::invalid_argument") out.fail("ctor-wrong-exception", cls + " rejects with " + o.s + " instead of std::invalid_argument", rj);
    if (o.leaked != 0) out.fail(o.s == "ok" ? "ctor-leak-accepted" : "ctor-leak", cls + ": " + str(o.leaked) + " heap block(s) still live after " + (o.s == "ok" ? "construct+destroy" : "a rejected constructor") + " (n,nev,ncv)=(" + str(n) + "," + str(nev) + "," + str(ncv) + ")", rj);
}

static bool herm_ok(long n, long nev, long ncv) { return nev >= 1 && nev <= n - 1 && ncv > nev && ncv <= n; }
static bool gen_ok(long n, long nev, long ncv) { return nev >= 1 && nev <= n - 2 && ncv >= nev + 2 && ncv <= n; }


// ---------------------------------------------------------------- wrapper constructors: every shape, every template variant
typedef Eigen::Matrix<double, Eigen::Dynamic, Eigen::Dynamic, Eigen::RowMajor> MatR;
typedef Eigen::Matrix<float, Eigen::Dynamic, Eigen::Dynamic> MatF;
typedef Eigen::Matrix<std::complex<double>, Eigen::Dynamic, Eigen::Dynamic, Eigen::RowMajor> CMatR;
typedef Eigen::SparseMatrix<double, Eigen::RowMajor> SpMatR;
typedef Eigen::SparseMatrix<std::complex<double>> CSpMat;
typedef Eigen::SparseMatrix<std::complex<double>, Eigen::RowMajor> CSpMatR;
// r x c matrix; symmetric positive definite (diagonally dominant) when r == c
static Mat shapemat(int r, int c) { Mat A = Mat::Zero(r, c); for (int i = 0; i < r; i++) for (int j = 0; j < c; j++) A(i, j) = (i == j) ? 3.0 + i : 0.25 / (1 + std::abs(i - j)); return A; }
struct ShapeSet {     // one r x c matrix in every storage the wrappers' template variants need (built once, outside the measured region)
    int r, c; Mat d; MatR dr; MatF f; CMat cd; CMatR cdr; SpMat s; SpMatR sr; CSpMat cs; CSpMatR csr;
    ShapeSet(int r_, int c_) : r(r_), c(c_), d(shapemat(r_, c_)) {
        dr = d; f = d.cast<float>(); cd = d.cast<std::complex<double>>(); cdr = cd;
        s = d.sparseView(); s.makeCompressed(); sr = s; sr.makeCompressed(); cs = cd.sparseView(); cs.makeCompressed(); csr = cs; csr.makeCompressed(); }
};
static const int SHAPE_MAX = 5;        // rows and cols range over 0..SHAPE_MAX independently
enum WrapKind { WK_SQUARE = 0, WK_ANY = 1 };
static void judge_shape(Out& out, const std::string& cls, const std::string& variant, const std::string& shape_text, const std::string& shape_json,
                        bool want_ok, const Outcome& o) {
    out.count("oracle_wrapper");
    std::string rj = "{\"op\":\"wrapper\",\"class\":\"wrapper\",\"wrapper\":\"" + cls + "\",\"variant\":\"" + variant + "\"," + shape_json + "}";
    std::string who = cls + "<" + variant + ">";
    if (!want_ok && o.s == "ok") out.fail("wrapper-accept-invalid-shape", who + ": " + shape_text + " accepted (std::invalid_argument required)", rj);
    else if (!want_ok && o.s != "throw std::invalid_argument") out.fail("wrapper-wrong-exception", who + ": " + shape_text + " rejected with " + o.s + " instead of std::invalid_argument", rj);
    if (want_ok && o.s != "ok") out.fail("wrapper-reject-valid-shape", who + ": " + shape_text + " rejected (" + o.s + ") although it is in the documented domain", rj);
    if (o.leaked) out.fail("wrapper-leak", who + ": " + str(o.leaked) + " heap block(s) still live after " + (o.s == "ok" ? "construct+destroy" : "a rejected constructor") + ", " + shape_text, rj);
}
template <class Op, class M> static void wrap1(Out& out, const char* cls, const char* variant, WrapKind kind, int r, int c, const M& m) {
    Outcome o = attempt([&]() { Op op(m); (void) op; });
    judge_shape(out, cls, variant, "a " + str(r) + "x" + str(c) + " matrix", "\"rows\":" + str(r) + ",\"cols\":" + str(c), kind == WK_ANY || r == c, o);
    out.corr(std::string("wrap1 ") + cls + " " + variant + " " + str(r) + " " + str(c), o.s);
}
template <class Op, class MA, class MB> static void wrap2(Out& out, const char* cls, const char* variant, const ShapeSet& a, const ShapeSet& b, const MA& A, const MB& B) {
    Outcome o = attempt([&]() { Op op(A, B); (void) op; });
    judge_shape(out, cls, variant, "A " + str(a.r) + "x" + str(a.c) + ", B " + str(b.r) + "x" + str(b.c),
                "\"a_rows\":" + str(a.r) + ",\"a_cols\":" + str(a.c) + ",\"b_rows\":" + str(b.r) + ",\"b_cols\":" + str(b.c),
                a.r == a.c && b.r == a.r && b.c == a.r, o);
    out.corr(std::string("wrap2 ") + cls + " " + variant + " " + str(a.r) + " " + str(a.c) + " " + str(b.r) + " " + str(b.c), o.s);
}

int main(int argc, char** argv) {
    Args a(argc, argv); Out out(a.out);
    const int NMAX = 12;
    int only_n = -1; long only_nev = 0, only_ncv = 0; std::string only_cls;
    if (!a.replay.empty()) {
        std::ifstream f(a.replay); std::string t((std::istreambuf_iterator<char>(f)), {});
        auto gi = [&](const char* k, long d) { auto p = t.find(std::string("\"") + k + "\":"); return p == std::string::npos ? d : std::atol(t.c_str() + p + std::strlen(k) + 3); };
        only_n = (int) gi("n", -1); only_nev = gi("nev", 0); only_ncv = gi("ncv", 0);
        auto p = t.find("\"class\":");      // the replay file is re-serialised by the framework: `"class": "wrapper"` (blank after the colon)
        if (p != std::string::npos) { auto b = t.find('"', p + 8); if (b != std::string::npos) { auto e = t.find('"', b + 1); if (e != std::string::npos) only_cls = t.substr(b + 1, e - b - 1); } }
    }
    const bool section_replay = only_cls == "wrapper" || only_cls == "sigma" || only_cls == "geigs" || only_cls == "genop";
    for (int n = 1; n <= NMAX; n++) {
        if (section_replay) break;
        if (only_n >= 0 && n != only_n) continue;
        Mat A = symmat(n), B = spdmat(n), G = genmat(n); SpMat As = A.sparseView(), Bs = B.sparseView(), Gs = G.sparseView();
        CMat H = A.cast<std::complex<double>>(); if (n > 1) { H(0, 1) += std::complex<double>(0, 0.3); H(1, 0) -= std::complex<double>(0, 0.3); }
        for (long nev = -2; nev <= n + 3; nev++) for (long ncv = -2; ncv <= n + 3; ncv++) {
            if (only_n >= 0 && (nev != only_nev || ncv != only_ncv)) continue;
            auto sel = [&](const char* c) { return only_cls.empty() || only_cls == c; };
            // ---- symmetric family
            if (sel("SymEigsSolver")) { DenseSymMatProd<double> op(A); auto o = attempt([&]() { SymEigsSolver<DenseSymMatProd<double>> s(op, nev, ncv); });
                judge(out, "SymEigsSolver", n, nev, ncv, herm_ok(n, nev, ncv), o);
                out.corr("herm_ctor " + str(nev) + " " + str(ncv) + " " + str(n), o.s); }
            if (sel("SymEigsSolverSparse")) { SparseSymMatProd<double> op(As); auto o = attempt([&]() { SymEigsSolver<SparseSymMatProd<double>> s(op, nev, ncv); }); judge(out, "SymEigsSolverSparse", n, nev, ncv, herm_ok(n, nev, ncv), o); }
            if (sel("HermEigsSolver")) { DenseHermMatProd<std::complex<double>> op(H); auto o = attempt([&]() { HermEigsSolver<DenseHermMatProd<std::complex<double>>> s(op, nev, ncv); }); judge(out, "HermEigsSolver", n, nev, ncv, herm_ok(n, nev, ncv), o); }
            if (sel("SymEigsShiftSolver")) { auto o = attempt([&]() { DenseSymShiftSolve<double> op(A); SymEigsShiftSolver<DenseSymShiftSolve<double>> s(op, nev, ncv, 0.37); }); judge(out, "SymEigsShiftSolver", n, nev, ncv, herm_ok(n, nev, ncv), o); }
            // ---- general family
            if (sel("GenEigsSolver")) { DenseGenMatProd<double> op(G); auto o = attempt([&]() { GenEigsSolver<DenseGenMatProd<double>> s(op, nev, ncv); });
                judge(out, "GenEigsSolver", n, nev, ncv, gen_ok(n, nev, ncv), o);
                out.corr("gen_ctor " + str(nev) + " " + str(ncv) + " " + str(n) + " " + str(n), o.s); }
            if (sel("GenEigsRealShiftSolver")) { auto o = attempt([&]() { DenseGenRealShiftSolve<double> op(G); GenEigsRealShiftSolver<DenseGenRealShiftSolve<double>> s(op, nev, ncv, 0.37); }); judge(out, "GenEigsRealShiftSolver", n, nev, ncv, gen_ok(n, nev, ncv), o); }
            if (sel("GenEigsComplexShiftSolver")) { auto o = attempt([&]() { DenseGenComplexShiftSolve<double> op(G); GenEigsComplexShiftSolver<DenseGenComplexShiftSolve<double>> s(op, nev, ncv, 0.37, 0.21); }); judge(out, "GenEigsComplexShiftSolver", n, nev, ncv, gen_ok(n, nev, ncv), o); }
            // ---- generalized symmetric
            if (sel("SymGEigsCholesky")) { auto o = attempt([&]() { DenseSymMatProd<double> op(A); DenseCholesky<double> Bop(B); SymGEigsSolver<DenseSymMatProd<double>, DenseCholesky<double>, GEigsMode::Cholesky> s(op, Bop, nev, ncv); }); judge(out, "SymGEigsCholesky", n, nev, ncv, herm_ok(n, nev, ncv), o); }
            if (sel("SymGEigsRegInv")) { auto o = attempt([&]() { SparseSymMatProd<double> op(As); SparseRegularInverse<double> Bop(Bs); SymGEigsSolver<SparseSymMatProd<double>, SparseRegularInverse<double>, GEigsMode::RegularInverse> s(op, Bop, nev, ncv); }); judge(out, "SymGEigsRegInv", n, nev, ncv, herm_ok(n, nev, ncv), o); }
            using SI = SymShiftInvert<double, Eigen::Dense, Eigen::Dense>;
            if (sel("SymGEigsShiftInvert")) { auto o = attempt([&]() { SI op(A, B); DenseSymMatProd<double> Bop(B); SymGEigsShiftSolver<SI, DenseSymMatProd<double>, GEigsMode::ShiftInvert> s(op, Bop, nev, ncv, 0.37); }); judge(out, "SymGEigsShiftInvert", n, nev, ncv, herm_ok(n, nev, ncv), o); }
            if (sel("SymGEigsBuckling")) { auto o = attempt([&]() { SI op(B, A); DenseSymMatProd<double> Bop(B); SymGEigsShiftSolver<SI, DenseSymMatProd<double>, GEigsMode::Buckling> s(op, Bop, nev, ncv, 0.37); }); judge(out, "SymGEigsBuckling", n, nev, ncv, herm_ok(n, nev, ncv), o); }
            if (sel("SymGEigsCayley")) { auto o = attempt([&]() { SI op(A, B); DenseSymMatProd<double> Bop(B); SymGEigsShiftSolver<SI, DenseSymMatProd<double>, GEigsMode::Cayley> s(op, Bop, nev, ncv, 0.37); }); judge(out, "SymGEigsCayley", n, nev, ncv, herm_ok(n, nev, ncv), o); }
            // ---- Davidson: 1 <= nev <= n-1 (ncv plays no role: used as nvec_init to vary the other arguments)
            if (sel("DavidsonSymEigsSolver") && ncv == 0) { DenseSymMatProd<double> op(A); auto o = attempt([&]() { DavidsonSymEigsSolver<DenseSymMatProd<double>> s(op, nev); });
                judge(out, "DavidsonSymEigsSolver", n, nev, ncv, nev >= 1 && nev <= n - 1, o);
                out.corr("jd_ctor " + str(nev) + " " + str(n), o.s); }
        }
        // ---- partial SVD: herm rule with n = min(rows, cols); shapes rows x cols with min = n
        for (int shape = 0; shape < 3; shape++) {
            int rows = shape == 0 ? n : shape == 1 ? n + 2 : n, cols = shape == 0 ? n : shape == 1 ? n : n + 3;
            Mat M = Mat::Zero(rows, cols); for (int i = 0; i < rows; i++) for (int j = 0; j < cols; j++) M(i, j) = 1.0 / (1 + i + 2 * j) + (i == j ? 1.0 : 0.0);
            for (long nev = -2; nev <= n + 3; nev++) for (long ncv = -2; ncv <= n + 3; ncv++) {
                if (only_n >= 0 && (nev != only_nev || ncv != only_ncv)) continue;
                if (!(only_cls.empty() || only_cls == "PartialSVDSolver")) continue;
                auto o = attempt([&]() { PartialSVDSolver<Mat> s(M, nev, ncv); });
                judge(out, "PartialSVDSolver", n, nev, ncv, herm_ok(n, nev, ncv), o, "\"rows\":" + str(rows) + ",\"cols\":" + str(cols));
            }
        }
    }
    const bool full = a.replay.empty();
    if (full || only_cls == "wrapper") {
        // ---- every wrapper constructor of MatOp/ with EVERY shape rows, cols in 0..SHAPE_MAX (rows and cols independent), in every
        // template variant that is cheap to instantiate (scalar type, Uplo, storage order); observed: accept / exception type / live blocks.
        // Documented domain (oracle): square for the 13 symmetric / shift / Cholesky wrappers, any shape for the two general products.
        // proper shapes first, the degenerate ones (a zero dimension) last: the first failure reported is then the most readable one
        std::vector<ShapeSet> S; S.reserve((SHAPE_MAX + 1) * (SHAPE_MAX + 1));
        for (int pass = 0; pass < 2; pass++) for (int r = 0; r <= SHAPE_MAX; r++) for (int c = 0; c <= SHAPE_MAX; c++) if ((pass == 0) == (r > 0 && c > 0)) S.emplace_back(r, c);
        using cd = std::complex<double>;
        for (const ShapeSet& x : S) {
            const int r = x.r, c = x.c;
            wrap1<DenseSymMatProd<double>>(out, "DenseSymMatProd", "double,Lower,ColMajor", WK_SQUARE, r, c, x.d);
            wrap1<DenseSymMatProd<double, Eigen::Upper>>(out, "DenseSymMatProd", "double,Upper,ColMajor", WK_SQUARE, r, c, x.d);
            wrap1<DenseSymMatProd<double, Eigen::Lower, Eigen::RowMajor>>(out, "DenseSymMatProd", "double,Lower,RowMajor", WK_SQUARE, r, c, x.dr);
            wrap1<DenseSymMatProd<float>>(out, "DenseSymMatProd", "float,Lower,ColMajor", WK_SQUARE, r, c, x.f);
            wrap1<DenseHermMatProd<cd>>(out, "DenseHermMatProd", "complex,Lower,ColMajor", WK_SQUARE, r, c, x.cd);
            wrap1<DenseHermMatProd<cd, Eigen::Upper>>(out, "DenseHermMatProd", "complex,Upper,ColMajor", WK_SQUARE, r, c, x.cd);
            wrap1<DenseHermMatProd<cd, Eigen::Lower, Eigen::RowMajor>>(out, "DenseHermMatProd", "complex,Lower,RowMajor", WK_SQUARE, r, c, x.cdr);
            wrap1<DenseHermMatProd<double>>(out, "DenseHermMatProd", "double,Lower,ColMajor", WK_SQUARE, r, c, x.d);
            wrap1<SparseSymMatProd<double>>(out, "SparseSymMatProd", "double,Lower,ColMajor", WK_SQUARE, r, c, x.s);
            wrap1<SparseSymMatProd<double, Eigen::Upper>>(out, "SparseSymMatProd", "double,Upper,ColMajor", WK_SQUARE, r, c, x.s);
            wrap1<SparseSymMatProd<double, Eigen::Lower, Eigen::RowMajor>>(out, "SparseSymMatProd", "double,Lower,RowMajor", WK_SQUARE, r, c, x.sr);
            wrap1<SparseHermMatProd<cd>>(out, "SparseHermMatProd", "complex,Lower,ColMajor", WK_SQUARE, r, c, x.cs);
            wrap1<SparseHermMatProd<cd, Eigen::Upper>>(out, "SparseHermMatProd", "complex,Upper,ColMajor", WK_SQUARE, r, c, x.cs);
            wrap1<SparseHermMatProd<cd, Eigen::Lower, Eigen::RowMajor>>(out, "SparseHermMatProd", "complex,Lower,RowMajor", WK_SQUARE, r, c, x.csr);
            wrap1<DenseSymShiftSolve<double>>(out, "DenseSymShiftSolve", "double,Lower,ColMajor", WK_SQUARE, r, c, x.d);
            wrap1<DenseSymShiftSolve<double, Eigen::Upper>>(out, "DenseSymShiftSolve", "double,Upper,ColMajor", WK_SQUARE, r, c, x.d);
            wrap1<DenseSymShiftSolve<double, Eigen::Lower, Eigen::RowMajor>>(out, "DenseSymShiftSolve", "double,Lower,RowMajor", WK_SQUARE, r, c, x.dr);
            wrap1<SparseSymShiftSolve<double>>(out, "SparseSymShiftSolve", "double,Lower,ColMajor", WK_SQUARE, r, c, x.s);
            wrap1<SparseSymShiftSolve<double, Eigen::Upper>>(out, "SparseSymShiftSolve", "double,Upper,ColMajor", WK_SQUARE, r, c, x.s);
            wrap1<SparseSymShiftSolve<double, Eigen::Lower, Eigen::RowMajor>>(out, "SparseSymShiftSolve", "double,Lower,RowMajor", WK_SQUARE, r, c, x.sr);
            wrap1<DenseGenRealShiftSolve<double>>(out, "DenseGenRealShiftSolve", "double,ColMajor", WK_SQUARE, r, c, x.d);
            wrap1<DenseGenRealShiftSolve<double, Eigen::RowMajor>>(out, "DenseGenRealShiftSolve", "double,RowMajor", WK_SQUARE, r, c, x.dr);
            wrap1<SparseGenRealShiftSolve<double>>(out, "SparseGenRealShiftSolve", "double,ColMajor", WK_SQUARE, r, c, x.s);
            wrap1<SparseGenRealShiftSolve<double, Eigen::RowMajor>>(out, "SparseGenRealShiftSolve", "double,RowMajor", WK_SQUARE, r, c, x.sr);
            wrap1<DenseGenComplexShiftSolve<double>>(out, "DenseGenComplexShiftSolve", "double,ColMajor", WK_SQUARE, r, c, x.d);
            wrap1<DenseGenComplexShiftSolve<double, Eigen::RowMajor>>(out, "DenseGenComplexShiftSolve", "double,RowMajor", WK_SQUARE, r, c, x.dr);
            wrap1<SparseGenComplexShiftSolve<double>>(out, "SparseGenComplexShiftSolve", "double,ColMajor", WK_SQUARE, r, c, x.s);
            wrap1<SparseGenComplexShiftSolve<double, Eigen::RowMajor>>(out, "SparseGenComplexShiftSolve", "double,RowMajor", WK_SQUARE, r, c, x.sr);
            wrap1<DenseCholesky<double>>(out, "DenseCholesky", "double,Lower,ColMajor", WK_SQUARE, r, c, x.d);
            wrap1<DenseCholesky<double, Eigen::Upper>>(out, "DenseCholesky", "double,Upper,ColMajor", WK_SQUARE, r, c, x.d);
            wrap1<DenseCholesky<double, Eigen::Lower, Eigen::RowMajor>>(out, "DenseCholesky", "double,Lower,RowMajor", WK_SQUARE, r, c, x.dr);
            wrap1<SparseCholesky<double>>(out, "SparseCholesky", "double,Lower,ColMajor", WK_SQUARE, r, c, x.s);
            wrap1<SparseCholesky<double, Eigen::Upper>>(out, "SparseCholesky", "double,Upper,ColMajor", WK_SQUARE, r, c, x.s);
            wrap1<SparseCholesky<double, Eigen::Lower, Eigen::RowMajor>>(out, "SparseCholesky", "double,Lower,RowMajor", WK_SQUARE, r, c, x.sr);
            wrap1<SparseRegularInverse<double>>(out, "SparseRegularInverse", "double,Lower,ColMajor", WK_SQUARE, r, c, x.s);
            wrap1<SparseRegularInverse<double, Eigen::Upper>>(out, "SparseRegularInverse", "double,Upper,ColMajor", WK_SQUARE, r, c, x.s);
            wrap1<SparseRegularInverse<double, Eigen::Lower, Eigen::RowMajor>>(out, "SparseRegularInverse", "double,Lower,RowMajor", WK_SQUARE, r, c, x.sr);
            wrap1<DenseGenMatProd<double>>(out, "DenseGenMatProd", "double,ColMajor", WK_ANY, r, c, x.d);
            wrap1<DenseGenMatProd<double, Eigen::RowMajor>>(out, "DenseGenMatProd", "double,RowMajor", WK_ANY, r, c, x.dr);
            wrap1<SparseGenMatProd<double>>(out, "SparseGenMatProd", "double,ColMajor", WK_ANY, r, c, x.s);
            wrap1<SparseGenMatProd<double, Eigen::RowMajor>>(out, "SparseGenMatProd", "double,RowMajor", WK_ANY, r, c, x.sr);
        }
        // ---- the two-matrix wrapper: the shapes of A and of B vary INDEPENDENTLY (all (SHAPE_MAX+1)^4 pairs), all four dense/sparse
        // pairings, Uplo and storage-order variants.  Accepted iff A and B are square of the same order.
        using namespace Eigen;
        for (const ShapeSet& A : S) for (const ShapeSet& B : S) {
            wrap2<SymShiftInvert<double, Dense, Dense>>(out, "SymShiftInvert", "dense,dense,Lower,Lower,ColMajor,ColMajor", A, B, A.d, B.d);
            wrap2<SymShiftInvert<double, Dense, Sparse>>(out, "SymShiftInvert", "dense,sparse,Lower,Lower,ColMajor,ColMajor", A, B, A.d, B.s);
            wrap2<SymShiftInvert<double, Sparse, Dense>>(out, "SymShiftInvert", "sparse,dense,Lower,Lower,ColMajor,ColMajor", A, B, A.s, B.d);
            wrap2<SymShiftInvert<double, Sparse, Sparse>>(out, "SymShiftInvert", "sparse,sparse,Lower,Lower,ColMajor,ColMajor", A, B, A.s, B.s);
            wrap2<SymShiftInvert<double, Dense, Dense, Upper, Upper>>(out, "SymShiftInvert", "dense,dense,Upper,Upper,ColMajor,ColMajor", A, B, A.d, B.d);
            wrap2<SymShiftInvert<double, Dense, Dense, Lower, Lower, RowMajor, RowMajor>>(out, "SymShiftInvert", "dense,dense,Lower,Lower,RowMajor,RowMajor", A, B, A.dr, B.dr);
            wrap2<SymShiftInvert<double, Dense, Sparse, Lower, Upper, ColMajor, RowMajor>>(out, "SymShiftInvert", "dense,sparse,Lower,Upper,ColMajor,RowMajor", A, B, A.d, B.sr);
            wrap2<SymShiftInvert<double, Sparse, Sparse, Upper, Lower, RowMajor, ColMajor>>(out, "SymShiftInvert", "sparse,sparse,Upper,Lower,RowMajor,ColMajor", A, B, A.sr, B.s);
        }
    }
    if (full || only_cls == "geigs") {
        // ---- generalized solvers take TWO operators: every pair of sizes (na, nb) in 1..GN, every GEigsMode, (nev, ncv) in [0, max+1]^2.
        // Documented domain: na == nb and the symmetric range for that n.  Model: regenerated adapter constructor + HermEigsBase guard at the
        // size the adapter reports (Cholesky / RegularInverse: Bop.rows(); the shift modes: op.rows()).
        const int GN = 6;
        for (int na = 1; na <= GN; na++) for (int nb = 1; nb <= GN; nb++) {
            Mat A = symmat(na), Aspd = spdmat(na), B = spdmat(nb); SpMat As = A.sparseView(), Bs = B.sparseView();
            using SI = SymShiftInvert<double, Eigen::Dense, Eigen::Dense>;
            static const char* MODE[5] = {"Cholesky", "RegularInverse", "ShiftInvert", "Buckling", "Cayley"};
            for (int mode = 0; mode < 5; mode++) {
                bool reported = false;
                const long top = std::max(na, nb) + 1;
                for (long nev = 0; nev <= top; nev++) for (long ncv = 0; ncv <= top; ncv++) {
                    Outcome o;
                    if (mode == 0) o = attempt([&]() { DenseSymMatProd<double> op(A); DenseCholesky<double> Bop(B); SymGEigsSolver<DenseSymMatProd<double>, DenseCholesky<double>, GEigsMode::Cholesky> s(op, Bop, nev, ncv); });
                    else if (mode == 1) o = attempt([&]() { SparseSymMatProd<double> op(As); SparseRegularInverse<double> Bop(Bs); SymGEigsSolver<SparseSymMatProd<double>, SparseRegularInverse<double>, GEigsMode::RegularInverse> s(op, Bop, nev, ncv); });
                    else if (mode == 2) o = attempt([&]() { SI op(A, Aspd); DenseSymMatProd<double> Bop(B); SymGEigsShiftSolver<SI, DenseSymMatProd<double>, GEigsMode::ShiftInvert> s(op, Bop, nev, ncv, 0.37); });
                    else if (mode == 3) o = attempt([&]() { SI op(Aspd, A); DenseSymMatProd<double> Bop(B); SymGEigsShiftSolver<SI, DenseSymMatProd<double>, GEigsMode::Buckling> s(op, Bop, nev, ncv, 0.37); });
                    else o = attempt([&]() { SI op(A, Aspd); DenseSymMatProd<double> Bop(B); SymGEigsShiftSolver<SI, DenseSymMatProd<double>, GEigsMode::Cayley> s(op, Bop, nev, ncv, 0.37); });
                    out.count("oracle_geigs");
                    const std::string cls = std::string("SymGEigs") + MODE[mode];
                    const std::string rj = "{\"op\":\"geigs\",\"class\":\"geigs\",\"mode\":" + str(mode) + ",\"na\":" + str(na) + ",\"nb\":" + str(nb) + ",\"nev\":" + str(nev) + ",\"ncv\":" + str(ncv) +
                                           ",\"mismatched_operators\":" + str(na != nb ? 1 : 0) + "}";
                    const std::string args = "op " + str(na) + "x" + str(na) + ", Bop " + str(nb) + "x" + str(nb) + ", nev=" + str(nev) + ", ncv=" + str(ncv);
                    if (na == nb) {
                        const bool want = herm_ok(na, nev, ncv);
                        if (want && o.s != "ok") out.fail("ctor-reject-valid", cls + " rejects documented-valid " + args + ": " + o.s, rj);
                        if (!want && o.s == "ok") out.fail("ctor-accept-invalid", cls + " accepts invalid " + args, rj);
                    } else if (o.s == "ok") {
                        out.count("geigs_mismatch_accepted");
                        if (!reported) { reported = true; out.fail("ctor-accept-mismatched-operators", cls + " accepts operators of different sizes: " + args + " (std::invalid_argument required)", rj); }
                    }
                    if (o.s != "ok" && o.s != "throw std::invalid_argument") out.fail("ctor-wrong-exception", cls + " rejects " + args + " with " + o.s + " instead of std::invalid_argument", rj);
                    if (o.leaked) out.fail(o.s == "ok" ? "ctor-leak-accepted" : "ctor-leak", cls + ": " + str(o.leaked) + " heap block(s) still live, " + args, rj);
                    out.corr("geigs_ctor " + str(mode) + " " + str(nev) + " " + str(ncv) + " " + str(na) + " " + str(nb), o.s);
                }
            }
        }
    }
    if (full || only_cls == "genop") {
        // ---- a solver of the general family over a NON-SQUARE general product wrapper (the wrapper itself takes any shape): the solver
        // needs a square operator.  Model: regenerated GenEigsBase guard at n = op.rows(), cols = op.cols() (squareness check since the repair of F23).
        for (int r = 1; r <= SHAPE_MAX + 1; r++) for (int c = 1; c <= SHAPE_MAX + 1; c++) {
            if (r == c) continue;
            Mat M = shapemat(r, c); SpMat Ms = M.sparseView();
            for (int sp = 0; sp < 2; sp++) {
                bool reported = false;
                for (long nev = 0; nev <= r + 1; nev++) for (long ncv = 0; ncv <= r + 1; ncv++) {
                    Outcome o = sp == 0 ? attempt([&]() { DenseGenMatProd<double> op(M); GenEigsSolver<DenseGenMatProd<double>> s(op, nev, ncv); })
                                        : attempt([&]() { SparseGenMatProd<double> op(Ms); GenEigsSolver<SparseGenMatProd<double>> s(op, nev, ncv); });
                    out.count("oracle_genop");
                    const std::string cls = sp == 0 ? "GenEigsSolver<DenseGenMatProd>" : "GenEigsSolver<SparseGenMatProd>";
                    const std::string rj = "{\"op\":\"genop\",\"class\":\"genop\",\"sparse\":" + str(sp) + ",\"rows\":" + str(r) + ",\"cols\":" + str(c) + ",\"nev\":" + str(nev) + ",\"ncv\":" + str(ncv) + ",\"nonsquare_operator\":1}";
                    const std::string args = "a " + str(r) + "x" + str(c) + " operator, nev=" + str(nev) + ", ncv=" + str(ncv);
                    if (o.s == "ok") { out.count("genop_nonsquare_accepted"); if (!reported) { reported = true; out.fail("ctor-accept-nonsquare-operator", cls + " accepts " + args + " (std::invalid_argument required)", rj); } }
                    else if (o.s != "throw std::invalid_argument") out.fail("ctor-wrong-exception", cls + " rejects " + args + " with " + o.s, rj);
                    if (o.leaked) out.fail("ctor-leak", cls + ": " + str(o.leaked) + " heap block(s) still live, " + args, rj);
                    out.corr("gen_ctor " + str(nev) + " " + str(ncv) + " " + str(r) + " " + str(c), o.s);
                }
            }
        }
    }
    if (full || only_cls == "sigma") {
        // ---- sigma = 0 in buckling / Cayley mode; nonzero accepted; shift-invert accepts 0 unless singular
        const int n = 6; Mat A = symmat(n), B = spdmat(n);
        using SI = SymShiftInvert<double, Eigen::Dense, Eigen::Dense>;
        for (double sg : {0.0, -0.0, 0.37, -1.5, 1e-300}) {
            auto jj = [&](const char* mode, int modeval, bool want_ok, Outcome o) {
                out.count("oracle_sigma");
                std::string rj = std::string("{\"op\":\"sigma\",\"class\":\"sigma\",\"mode\":\"") + mode + "\",\"sigma_bits\":" + str(dbits(sg)) + "}";
                if (want_ok && o.s != "ok") out.fail("sigma-reject-valid", std::string(mode) + " rejects sigma=" + str(sg) + ": " + o.s, rj);
                if (!want_ok && o.s != "throw std::invalid_argument") out.fail("sigma-accept-zero", std::string(mode) + " with sigma=0: " + o.s, rj);
                if (o.leaked) out.fail("sigma-leak", std::string(mode) + " leaks " + str(o.leaked) + " block(s), sigma=" + str(sg), rj);
                out.corr("sigma_guard " + str(modeval) + " " + str(dbits(sg)), o.s);
            };
            jj("Buckling", 3, sg != 0.0, attempt([&]() { SI op(B, A); DenseSymMatProd<double> Bop(B); SymGEigsShiftSolver<SI, DenseSymMatProd<double>, GEigsMode::Buckling> s(op, Bop, 2, 5, sg); }));
            jj("Cayley", 4, sg != 0.0, attempt([&]() { SI op(A, B); DenseSymMatProd<double> Bop(B); SymGEigsShiftSolver<SI, DenseSymMatProd<double>, GEigsMode::Cayley> s(op, Bop, 2, 5, sg); }));
            jj("ShiftInvert", 2, true, attempt([&]() { SI op(A, B); DenseSymMatProd<double> Bop(B); SymGEigsShiftSolver<SI, DenseSymMatProd<double>, GEigsMode::ShiftInvert> s(op, Bop, 2, 5, sg); }));
        }
        // ---- init() with a zero vector -> invalid_argument, solver still usable afterwards; tiny nonzero vector accepted
        {   DenseSymMatProd<double> op(A); SymEigsSolver<DenseSymMatProd<double>> s(op, 2, 5); Vec z = Vec::Zero(n);
            auto o = attempt([&]() { s.init(z.data()); });
            out.count("oracle_zero_init");
            if (o.s != "throw std::invalid_argument") out.fail("init-zero-vector", "SymEigsSolver::init(zero vector): " + o.s, "{\"op\":\"init0\",\"class\":\"sigma\"}");
            if (o.leaked) out.fail("init-zero-leak", "SymEigsSolver::init(zero vector) leaks " + str(o.leaked) + " block(s)", "{\"op\":\"init0\",\"class\":\"sigma\"}");
            Vec t = Vec::Constant(n, 1e-100); auto o2 = attempt([&]() { s.init(t.data()); int k = (int) s.compute(SortRule::LargestAlge); (void) k; });
            if (o2.s != "ok") out.fail("init-tiny-vector", "SymEigsSolver::init(1e-100 vector) rejected: " + o2.s, "{\"op\":\"init0\",\"class\":\"sigma\"}"); }
        {   Mat G = genmat(n); DenseGenMatProd<double> op(G); GenEigsSolver<DenseGenMatProd<double>> s(op, 2, 5); Vec z = Vec::Zero(n);
            auto o = attempt([&]() { s.init(z.data()); });
            out.count("oracle_zero_init");
            if (o.s != "throw std::invalid_argument") out.fail("init-zero-vector", "GenEigsSolver::init(zero vector): " + o.s, "{\"op\":\"init0\",\"class\":\"sigma\"}");
            if (o.leaked) out.fail("init-zero-leak", "GenEigsSolver::init(zero vector) leaks", "{\"op\":\"init0\",\"class\":\"sigma\"}"); }
        // ---- unsupported rules at compute(): invalid_argument and nothing leaked (all nine values, selection and sorting)
        // every (nev, ncv) shape class of n = 6 incl. nev = 1 and the smallest legal ncv, with maxit = 0 and maxit > 0:
        // the rule whitelist must not depend on the configuration
        for (int nv = 1; nv <= 3; nv++) for (int extra = 1; extra <= 3; extra += 2) for (long mi : {0L, 50L}) for (int r = 0; r < 9; r++) {
            const int cvh = std::min(n, nv + extra), cvg = std::min(n, nv + 1 + extra); const std::string cfgj = ",\"nev\":" + str(nv) + ",\"extra\":" + str(extra) + ",\"maxit\":" + str(mi);
            {   DenseSymMatProd<double> op(A); SymEigsSolver<DenseSymMatProd<double>> s(op, nv, cvh); s.init();
                bool wsel = (r == 0 || r == 3 || r == 4 || r == 7 || r == 8), wsort = (r == 0 || r == 3 || r == 4 || r == 7);
                auto o1 = attempt([&]() { s.compute((SortRule) r, mi, 1e-8, SortRule::LargestAlge); }); out.count("oracle_rules");
                if ((o1.s == "ok") != wsel || (!wsel && o1.s != "throw std::invalid_argument")) out.fail("rule-dispatch", "SymEigsSolver selection rule " + str(r) + " (nev=" + str(nv) + ", ncv=nev+" + str(extra) + "(+1 gen), maxit=" + str(mi) + "): " + o1.s, "{\"op\":\"rule\",\"class\":\"sigma\",\"rule\":" + str(r) + cfgj + "}");
                s.init(); auto o2 = attempt([&]() { s.compute(SortRule::LargestAlge, mi, 1e-8, (SortRule) r); });
                if ((o2.s == "ok") != wsort || (!wsort && o2.s != "throw std::invalid_argument")) out.fail("rule-dispatch", "SymEigsSolver sorting rule " + str(r) + " (nev=" + str(nv) + ", ncv=nev+" + str(extra) + "(+1 gen), maxit=" + str(mi) + "): " + o2.s, "{\"op\":\"rule\",\"class\":\"sigma\",\"rule\":" + str(r) + cfgj + "}");
                if (o1.leaked || o2.leaked) out.fail("rule-leak", "SymEigsSolver::compute with rule " + str(r) + " leaks", "{\"op\":\"rule\",\"class\":\"sigma\",\"rule\":" + str(r) + cfgj + "}"); }
            {   Mat G = genmat(n); DenseGenMatProd<double> op(G); GenEigsSolver<DenseGenMatProd<double>> s(op, nv, cvg); s.init();
                bool w = (r == 0 || r == 1 || r == 2 || r == 4 || r == 5 || r == 6);
                auto o1 = attempt([&]() { s.compute((SortRule) r, mi, 1e-8, SortRule::LargestMagn); }); out.count("oracle_rules");
                if ((o1.s == "ok") != w || (!w && o1.s != "throw std::invalid_argument")) out.fail("rule-dispatch", "GenEigsSolver selection rule " + str(r) + " (nev=" + str(nv) + ", ncv=nev+" + str(extra) + "(+1 gen), maxit=" + str(mi) + "): " + o1.s, "{\"op\":\"rule\",\"class\":\"sigma\",\"rule\":" + str(r) + cfgj + "}");
                s.init(); auto o2 = attempt([&]() { s.compute(SortRule::LargestMagn, mi, 1e-8, (SortRule) r); });
                if ((o2.s == "ok") != w || (!w && o2.s != "throw std::invalid_argument")) out.fail("rule-dispatch", "GenEigsSolver sorting rule " + str(r) + " (nev=" + str(nv) + ", ncv=nev+" + str(extra) + "(+1 gen), maxit=" + str(mi) + "): " + o2.s, "{\"op\":\"rule\",\"class\":\"sigma\",\"rule\":" + str(r) + cfgj + "}");
                if (o1.leaked || o2.leaked) out.fail("rule-leak", "GenEigsSolver::compute with rule " + str(r) + " leaks", "{\"op\":\"rule\",\"class\":\"sigma\",\"rule\":" + str(r) + cfgj + "}"); }
        }
    }
    out.finish();
    return 0;
}
