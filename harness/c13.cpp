// C13 correspondence harness (built from /repo's working tree with ASan+UBSan, Eigen assertions ON, -DSPECTRA_VERIF):
//  A. EXHAUSTIVE enumeration of the REAL HermEigsBase::nev_adjusted / GenEigsBase::nev_adjusted through friend access
//     (m_ritz_est / m_ritz_val set directly on a constructed solver) vs Gen.Restart evaluated by the Lean driver;
//  B. the REAL restart() shift loops on injected Ritz values: Arnoldi::m_k observed at the "arnoldi.compress" hook vs the index program;
//     patterns for which the index program predicts a read at index ncv are run in a forked child (expected: Eigen index assertion);
//  C. operator-call traces (which buffer goes in, which comes out, how many calls, restart sizes, iteration count) of real
//     SymEigsSolver / GenEigsSolver runs vs the operator-call skeleton fed with the oracle outcomes observed in the run.
#include "common.h"
#include <Spectra/Util/VerifHooks.h>
#include <Spectra/SymEigsSolver.h>
#include <Spectra/GenEigsSolver.h>
#include <Spectra/GenEigsComplexShiftSolver.h>
#include <Spectra/MatOp/DenseSymMatProd.h>
#include <Spectra/MatOp/DenseGenMatProd.h>
#include <Spectra/MatOp/DenseGenComplexShiftSolve.h>
#include <unistd.h>
#include <fcntl.h>
#include <sys/wait.h>
using namespace vh;
using Eigen::Index;
typedef Eigen::MatrixXd Mat;
typedef Eigen::VectorXd Vec;
typedef std::complex<double> Cx;

struct SpectraVerifAccess {
    template <class S> static Index nev_adj(S& s, Index nconv) { return s.nev_adjusted(nconv); }
    template <class S> static void restart(S& s, Index k, Spectra::SortRule r) { s.restart(k, r); }
    template <class S> static auto ritz_val(S& s) -> decltype((s.m_ritz_val)) { return s.m_ritz_val; }
    template <class S> static auto ritz_est(S& s) -> decltype((s.m_ritz_est)) { return s.m_ritz_est; }
    template <class S> static Index nconv_flags(S& s) { return s.m_ritz_conv.count(); }
    template <class S> static auto fac(S& s) -> decltype((s.m_fac)) { return s.m_fac; }
    template <class F> static Index fac_k(const F& f) { return f.m_k; }
    template <class F> static const double* fac_V(const F& f) { return f.m_fac_V.data(); }
    template <class F> static Index fac_Vsize(const F& f) { return f.m_fac_V.size(); }
    template <class F> static const double* fac_f(const F& f) { return f.m_fac_f.data(); }
    static bool is_complex(const Cx& v) { return Spectra::GenEigsBase<Spectra::DenseGenMatProd<double>, Spectra::IdentityBOp>::is_complex(v); }
    static bool is_conj(const Cx& a, const Cx& b) { return Spectra::GenEigsBase<Spectra::DenseGenMatProd<double>, Spectra::IdentityBOp>::is_conj(a, b); }
};
typedef SpectraVerifAccess AX;

static const double NEAR0 = std::numeric_limits<double>::min() * 10.0;

// ------------------------------------------------------------------ pattern alphabet (must match Driver/C13.lean patVal)
static Cx pat_val(char c, double are, double aim) {
    switch (c) { case 'a': return Cx(are, aim); case 'c': return Cx(are, -aim); case 'b': return Cx(aim, are);
                 case 'd': return Cx(aim, -are); case 's': return Cx(are, 0.0); default: return Cx(1.5, 0.0); }
}
static void pairings(int n, std::string cur, std::vector<std::string>& out) {
    if ((int) cur.size() == n) { out.push_back(cur); return; }
    pairings(n, cur + "r", out);
    if ((int) cur.size() + 2 <= n) pairings(n, cur + "ac", out);
}
static void all_strings(int n, const std::string& alpha, std::string cur, std::vector<std::string>& out) {
    if ((int) cur.size() == n) { out.push_back(cur); return; }
    for (char c : alpha) all_strings(n, alpha, cur + c, out);
}
static uint64_t hash_step(uint64_t h, long v) { return (h * 31 + (uint64_t) (v + 1000)) % 4294967291ull; }

// ------------------------------------------------------------------ A. nev_adjusted enumeration
static void part_A(const Args& a, Out& out) {
    const int NC = a.thorough() ? 14 : 10, NCLINE = 10;
    struct ZV { double z, nz; };
    std::vector<ZV> zvs = {{0.0, 1.0}, {std::nextafter(NEAR0, 0.0), NEAR0}, {-std::nextafter(NEAR0, 0.0), -3.0e-307}};
    // Hermitian family
    for (int ncv = 2; ncv <= NC; ncv++) {
        Mat I = Mat::Identity(ncv, ncv); Spectra::DenseSymMatProd<double> op(I);
        for (int nev = 1; nev <= ncv - 1; nev++) {
            Spectra::SymEigsSolver<Spectra::DenseSymMatProd<double>> s(op, nev, ncv);
            auto& est = AX::ritz_est(s); est.resize(ncv);
            for (size_t vi = 0; vi < zvs.size(); vi++) {
                if (vi > 0 && ncv > 7) continue;
                for (unsigned long m = 0; m < (1ul << (ncv - nev)); m++) {
                    unsigned long zm = m << nev;
                    for (int i = 0; i < ncv; i++) est[i] = ((zm >> i) & 1) ? zvs[vi].z : zvs[vi].nz;
                    std::string resp;
                    for (int c = 0; c <= nev; c++) { resp += (c ? " " : "") + str(AX::nev_adj(s, c)); out.count("A_herm_evals"); }
                    out.corr("hnev " + str(nev) + " " + str(ncv) + " " + str(zm) + " " + str(dbits(zvs[vi].z)) + " " + str(dbits(zvs[vi].nz)), resp);
                    // the property's own predicate on the real function
                    for (int c = 0; c <= nev; c++) { Index k = AX::nev_adj(s, c);
                        if (!(k >= nev && k <= ncv - 1)) out.fail("restart-size-range", "HermEigsBase::nev_adjusted returned " + str(k) + " outside [nev, ncv-1]",
                            "{\"part\":\"A\",\"fam\":\"herm\",\"nev\":" + str(nev) + ",\"ncv\":" + str(ncv) + ",\"zmask\":" + str(zm) + ",\"nconv\":" + str(c) + "}"); }
                }
            }
        }
    }
    // general family
    const double are = 0.75, aim = 1.25;
    for (int ncv = 3; ncv <= NC; ncv++) {
        Mat I = Mat::Identity(ncv, ncv); Spectra::DenseGenMatProd<double> op(I);
        std::vector<std::string> pats; pairings(ncv, "", pats);
        if (ncv <= 5) all_strings(ncv, "racbs", "", pats);
        else { Rng rng(a.seed, 11, ncv); for (int t = 0; t < 40; t++) { std::string p; for (int i = 0; i < ncv; i++) p += "racbds"[rng.below(6)]; pats.push_back(p); } }
        for (int nev = 1; nev <= ncv - 2; nev++) {
            Spectra::GenEigsSolver<Spectra::DenseGenMatProd<double>> s(op, nev, ncv);
            auto& est = AX::ritz_est(s); est.resize(ncv);
            auto& val = AX::ritz_val(s); val.resize(ncv);
            for (const std::string& p : pats) {
                for (int i = 0; i < ncv; i++) val[i] = pat_val(p[i], are, aim);
                for (size_t vi = 0; vi < zvs.size(); vi++) {
                    if (vi > 0 && ncv > 6) continue;
                    if (ncv <= NCLINE) {
                        for (unsigned long m = 0; m < (1ul << (ncv - nev)); m++) {
                            unsigned long zm = m << nev;
                            for (int i = 0; i < ncv; i++) { double v = ((zm >> i) & 1) ? zvs[vi].z : zvs[vi].nz; est[i] = Cx(v, v); }
                            std::string resp;
                            for (int c = 0; c <= nev; c++) {
                                Index k = AX::nev_adj(s, c); out.count("A_gen_evals");
                                resp += (c ? " " : "") + str(k);
                                if (!(k >= nev && k <= ncv - 1))
                                    out.fail("restart-size-range", "GenEigsBase::nev_adjusted returned " + str(k) + " outside [nev, ncv-1]",
                                        "{\"part\":\"A\",\"fam\":\"gen\",\"nev\":" + str(nev) + ",\"ncv\":" + str(ncv) + ",\"zmask\":" + str(zm) + ",\"nconv\":" + str(c) + ",\"pat\":\"" + p + "\"}");
                            }
                            out.corr("gnev " + str(nev) + " " + str(ncv) + " " + str(zm) + " " + str(dbits(zvs[vi].z)) + " " + str(dbits(zvs[vi].nz)) + " " + p + " " + str(dbits(are)) + " " + str(dbits(aim)), resp);
                        }
                    } else {
                        // hashed group: all zero masks x all nconv (thorough, ncv 11..14)
                        uint64_t h = 7;
                        for (unsigned long m = 0; m < (1ul << (ncv - nev)); m++) {
                            for (int i = 0; i < ncv; i++) { double v = (i >= nev && ((m >> (i - nev)) & 1)) ? zvs[vi].z : zvs[vi].nz; est[i] = Cx(v, v); }
                            for (int c = 0; c <= nev; c++) {
                                Index k = AX::nev_adj(s, c); out.count("A_gen_evals");
                                h = hash_step(h, k);
                                if (!(k >= 1 && k <= ncv - 1)) out.fail("restart-size-range", "GenEigsBase::nev_adjusted returned " + str(k), "{\"part\":\"A\",\"fam\":\"gen\",\"nev\":" + str(nev) + ",\"ncv\":" + str(ncv) + ",\"pat\":\"" + p + "\"}");
                            }
                        }
                        out.corr("gnevh " + str(nev) + " " + str(ncv) + " " + str(dbits(zvs[vi].z)) + " " + str(dbits(zvs[vi].nz)) + " " + p + " " + str(dbits(are)) + " " + str(dbits(aim)), str(h));
                    }
                }
            }
        }
    }
}

// ------------------------------------------------------------------ observer
struct Obs : Spectra::verif::Observer {
    std::function<void(const char*, const void*)> f;
    void on(const char* tag, const void* obj) override { if (f) f(tag, obj); }
};

// run `body` in a forked child; returns exit status (0 ok), -sig if killed by a signal
static int forked(const std::function<void()>& body) {
    fflush(nullptr);
    pid_t p = fork();
    if (p == 0) { int fd = open("/dev/null", 1); if (fd >= 0) { dup2(fd, 2); dup2(fd, 1); } body(); _exit(0); }
    int st = 0; waitpid(p, &st, 0);
    if (WIFSIGNALED(st)) return -WTERMSIG(st);
    return WEXITSTATUS(st);
}

// ------------------------------------------------------------------ B. shift loops on injected Ritz values
static void part_B(const Args& a, Out& out) {
    const int NC = a.thorough() ? 9 : 7;
    const double are = 0.3, aim = 0.4;
    Obs obs; Spectra::verif::observer() = &obs;
    Rng rng(a.seed, 21, 0);
    for (int ncv = 3; ncv <= NC; ncv++) {
        int n = ncv + 2; int n_forked = 0; const int max_forked = a.thorough() ? 40 : 8;
        Mat A(n, n); for (int i = 0; i < n; i++) for (int j = 0; j < n; j++) A(i, j) = rng.sym();
        Spectra::DenseGenMatProd<double> op(A);
        Spectra::GenEigsSolver<Spectra::DenseGenMatProd<double>> s(op, 1, ncv);
        s.init(); s.compute(Spectra::SortRule::LargestMagn, 0);
        std::vector<std::string> pats; pairings(ncv, "", pats);
        if (ncv <= 5) all_strings(ncv, "racb", "", pats);
        else for (int t = 0; t < (a.thorough() ? 300 : 120); t++) { std::string p; for (int i = 0; i < ncv; i++) p += "racbd"[rng.below(5)]; pats.push_back(p); }
        for (const std::string& p : pats) for (int k = 1; k <= ncv; k++) {
            std::vector<Cx> v(ncv); for (int i = 0; i < ncv; i++) v[i] = pat_val(p[i], are, aim);
            // harness-side walk only to decide HOW to run the real code (in-process or in a child that may abort)
            bool will_oob = false; { int i = k; while (i < ncv) { if (AX::is_complex(v[i])) { if (i + 1 >= ncv) { will_oob = true; break; } if (AX::is_conj(v[i], v[i + 1])) i++; } i++; } }
            std::string req = "gshift " + str(ncv) + " " + str(k) + " " + p + " " + str(dbits(are)) + " " + str(dbits(aim));
            auto& val = AX::ritz_val(s);
            if (k >= ncv) { for (int i = 0; i < ncv; i++) val[i] = v[i]; AX::restart(s, k, Spectra::SortRule::LargestMagn); out.corr(req, "early"); out.count("B_gen_early"); continue; }
            if (will_oob) {
                // fork under ASan costs ~25 ms: confirm the predicted abort on a fixed-size sample only
                if (n_forked >= max_forked) { out.count("B_gen_oob_predicted_not_run"); continue; }
                n_forked++;
                { std::ofstream lc(a.out + "/lastcase.txt"); lc << req << " (forked child, abort expected)\n"; }
                int st = forked([&]() { for (int i = 0; i < ncv; i++) val[i] = v[i]; AX::restart(s, k, Spectra::SortRule::LargestMagn); });
                out.count(st != 0 ? "B_gen_oob_child_aborted" : "B_gen_oob_child_survived");
                if (st != 0) { out.corr(req, "stop=oob"); continue; }
                // the child survived (e.g. a bounds guard was added to restart): the call is safe, run it in-process and report m_k
            }
            Index mk = -1; obs.f = [&](const char* tag, const void*) { if (!strcmp(tag, "arnoldi.compress")) mk = AX::fac_k(AX::fac(s)); };
            { std::ofstream lc(a.out + "/lastcase.txt"); lc << req << "\n"; }
            for (int i = 0; i < ncv; i++) val[i] = v[i];
            std::string resp;
            try { AX::restart(s, k, Spectra::SortRule::LargestMagn); resp = "mk=" + str(mk) + " stop=none"; }
            catch (const std::exception& e) { resp = std::string("threw ") + e.what(); s.init(); s.compute(Spectra::SortRule::LargestMagn, 0); }
            obs.f = nullptr;
            out.corr(req, resp); out.count("B_gen_inproc");
            if (AX::fac_k(AX::fac(s)) != ncv) { s.init(); s.compute(Spectra::SortRule::LargestMagn, 0); }
        }
    }
    // Hermitian family: ncv - k single shifts, m_k = k
    for (int ncv = 2; ncv <= NC + 3; ncv++) {
        int n = ncv + 1;
        Mat A(n, n); for (int i = 0; i < n; i++) for (int j = 0; j <= i; j++) A(i, j) = A(j, i) = rng.sym();
        Spectra::DenseSymMatProd<double> op(A);
        Spectra::SymEigsSolver<Spectra::DenseSymMatProd<double>> s(op, 1, ncv);
        s.init(); s.compute(Spectra::SortRule::LargestMagn, 0);
        for (int k = 1; k <= ncv; k++) {
            std::string req = "hshift " + str(ncv) + " " + str(k);
            Index mk = -1; obs.f = [&](const char* tag, const void*) { if (!strcmp(tag, "arnoldi.compress")) mk = AX::fac_k(AX::fac(s)); };
            { std::ofstream lc(a.out + "/lastcase.txt"); lc << req << "\n"; }
            std::string resp;
            try { AX::restart(s, k, Spectra::SortRule::LargestMagn); resp = (k >= ncv) ? "early" : "mk=" + str(mk) + " from=" + str(k) + " to=" + str(ncv) + " stop=none"; }
            catch (const std::exception& e) { resp = std::string("threw ") + e.what(); }
            obs.f = nullptr; out.corr(req, resp); out.count("B_herm");
        }
    }
    Spectra::verif::observer() = nullptr;
}

// ------------------------------------------------------------------ C. operator-call traces of real runs
struct CallRec { const double* x; double* y; const double* V; const double* f; };
struct LogOp {   // explicit row-major product, logs every (x, y)
    using Scalar = double;
    const Mat& A; mutable std::vector<CallRec> log;
    std::function<std::pair<const double*, const double*>()> cur;   // current m_fac_V.data(), m_fac_f.data() (f is swapped by compress_V)
    explicit LogOp(const Mat& A_) : A(A_) {}
    Index rows() const { return A.rows(); } Index cols() const { return A.cols(); }
    void perform_op(const double* x, double* y) const {
        { std::pair<const double*, const double*> p(nullptr, nullptr); if (cur) p = cur(); log.push_back({x, y, p.first, p.second}); }
        const Index n = A.rows();
        for (Index i = 0; i < n; i++) { double s = 0; for (Index j = 0; j < n; j++) s += A(i, j) * x[j]; y[i] = s; }
    }
};

static Mat gen_matrix(Rng& rng, int n, int kind, bool sym) {
    Mat A = Mat::Zero(n, n);
    switch (kind) {
        case 0: for (int i = 0; i < n; i++) for (int j = 0; j < n; j++) A(i, j) = rng.sym(); break;                 // random
        case 1: for (int i = 0; i < n; i++) A(i, i) = 1.0 + (i % 3); break;                                       // few distinct eigenvalues (breakdowns)
        case 2: { Vec u(n), v(n); for (int i = 0; i < n; i++) { u[i] = rng.sym(); v[i] = rng.sym(); } A = u * (sym ? u : v).transpose(); if (n > 3) A(n - 1, n - 1) += 2.0; break; }  // low rank
        case 3: for (int i = 0; i < n; i++) A((i + 1) % n, i) = 1.0; break;                                        // cyclic permutation
        case 4: for (int i = 0; i < n; i++) A(i, i) = (i % 2 ? -1.0 : 1.0) * (1 + i / 2); break;                   // +-pairs: magnitude ties
        case 5: for (int i = 0; i + 1 < n; i += 2) { double c = std::cos(0.7 * (1 + i / 2)), s_ = std::sin(0.7 * (1 + i / 2)); A(i, i) = c; A(i, i + 1) = -s_; A(i + 1, i) = s_; A(i + 1, i + 1) = c; } if (n % 2) A(n - 1, n - 1) = 1; break;  // rotation blocks
        default: for (int i = 0; i < n; i++) for (int j = 0; j < n; j++) A(i, j) = (double) rng.range(-2, 2); break; // small integers
    }
    if (sym) A = (0.5 * (A + A.transpose())).eval();
    return A;
}

template <class Solver> static std::string classify(const LogOp& op, Solver& s, const double* user, int n, int ncv, size_t from, size_t to, unsigned long* bdmask, Out& out, const std::string& rep) {
    (void) s;
    std::string r; bool pend = false;
    for (size_t c = from; c < to; c++) {
        const double* x = op.log[c].x; double* y = op.log[c].y; const double* V = op.log[c].V; const double* f = op.log[c].f;
        auto name = [&](const double* p, bool is_out) -> std::string {
            if (p == user) return "U";
            if (p >= V && p < V + (long) n * ncv && (p - V) % n == 0) return "V" + str((long) ((p - V) / n));
            if (p == f) return "F";
            return is_out ? "W" : "T";
        };
        std::string xs = name(x, false), ys = name(y, true);
        // property predicate on the real call: distinct, non-overlapping length-n buffers
        if (x == y || (x < y + n && y < x + n)) out.fail("op-args-alias", "perform_op called with overlapping buffers " + xs + "," + ys, rep);
        if (xs == "T" && ys == "F") pend = true;
        else if (xs[0] == 'V' && bdmask) { long j = atol(xs.c_str() + 1); if (pend) *bdmask |= (1ul << j); pend = false; }
        r += (c > from ? "," : "") + xs + ">" + ys;
    }
    return r;
}

template <bool SYM> static void trace_case(const Args& a, Out& out, Rng& rng, long idx) {
    using OpT = LogOp;
    using Solver = typename std::conditional<SYM, Spectra::SymEigsSolver<OpT>, Spectra::GenEigsSolver<OpT>>::type;
    int n = rng.range(SYM ? 3 : 4, 12), kind = rng.range(0, 6);
    int nev = rng.range(1, SYM ? n - 1 : n - 2), ncv = rng.range(nev + (SYM ? 1 : 2), n);
    if (rng.coin(0.25)) ncv = nev + (SYM ? 1 : 2); else if (rng.coin(0.2)) ncv = n;
    int maxit = rng.pick(std::vector<int>{0, 1, 2, 3, 5, 8});
    double tol = rng.pick(std::vector<double>{1e-10, 1e-14, 1e-3, 0.0});
    Mat A = gen_matrix(rng, n, kind, SYM);
    std::vector<Spectra::SortRule> rules = SYM ? std::vector<Spectra::SortRule>{Spectra::SortRule::LargestMagn, Spectra::SortRule::LargestAlge, Spectra::SortRule::SmallestAlge, Spectra::SortRule::BothEnds, Spectra::SortRule::SmallestMagn}
                                               : std::vector<Spectra::SortRule>{Spectra::SortRule::LargestMagn, Spectra::SortRule::LargestReal, Spectra::SortRule::LargestImag, Spectra::SortRule::SmallestMagn, Spectra::SortRule::SmallestReal, Spectra::SortRule::SmallestImag};
    Spectra::SortRule rule = rng.pick(rules);
    Vec v0(n); for (int i = 0; i < n; i++) v0[i] = rng.sym(); if (rng.coin(0.2)) { v0.setZero(); v0[rng.below(n)] = 1.0; }
    std::string rep = "{\"part\":\"C\",\"sym\":" + str((int) SYM) + ",\"idx\":" + str(idx) + ",\"n\":" + str(n) + ",\"nev\":" + str(nev) + ",\"ncv\":" + str(ncv) + ",\"kind\":" + str(kind) + ",\"maxit\":" + str(maxit) + ",\"rule\":" + str((int) rule) + "}";
    { std::ofstream lc(a.out + "/lastcase.txt"); lc << rep << "\n"; }
    OpT op(A); Solver s(op, nev, ncv);
    op.cur = [&]() { return std::make_pair(AX::fac_V(AX::fac(s)), AX::fac_f(AX::fac(s))); };
    Obs obs; Spectra::verif::observer() = &obs;
    std::string secs; std::vector<size_t> marks; std::vector<Index> ks; bool bad = false;
    struct It { Index nconv; std::vector<double> data; size_t log_at; Index mk; Index k; };
    std::vector<It> its; size_t fac0_end = 0; bool first_fac = true;
    obs.f = [&](const char* tag, const void*) {
        if (!strcmp(tag, "arnoldi.compress")) {
            It it; it.nconv = AX::nconv_flags(s); it.log_at = op.log.size(); it.mk = AX::fac_k(AX::fac(s)); it.k = AX::nev_adj(s, it.nconv);
            auto& est = AX::ritz_est(s);
            for (int i = 0; i < ncv; i++) { Cx e(est[i]); it.data.push_back(e.real()); if (!SYM) it.data.push_back(e.imag()); }
            if (!SYM) { auto& val = AX::ritz_val(s); for (int i = 0; i < ncv; i++) { Cx v(val[i]); it.data.push_back(v.real()); it.data.push_back(v.imag()); } }
            its.push_back(it);
        } else if ((!strcmp(tag, "arnoldi.factorize") || !strcmp(tag, "lanczos.factorize")) && first_fac) { fac0_end = op.log.size(); first_fac = false; }
    };
    try {
        s.init(v0.data());
        Index nconv = s.compute(rule, maxit, tol);
        Spectra::verif::observer() = nullptr;
        // assemble the request: oracle outcomes of the run
        unsigned long bd0 = 0; std::string calls = classify(op, s, v0.data(), n, ncv, 0, 2, nullptr, out, rep);
        calls += "," + classify(op, s, v0.data(), n, ncv, 2, fac0_end, &bd0, out, rep);
        std::string req = std::string(SYM ? "hops " : "gops ") + str(nev) + " " + str(ncv) + " " + str(maxit) + " " + str(bd0) + " ;";
        std::string ksr;
        for (size_t t = 0; t < its.size(); t++) {
            size_t to = (t + 1 < its.size()) ? its[t + 1].log_at : op.log.size();
            unsigned long bd = 0; std::string cs = classify(op, s, v0.data(), n, ncv, its[t].log_at, to, &bd, out, rep);
            if (!cs.empty()) calls += "," + cs;
            req += " " + str(its[t].nconv) + " " + str(bd);
            for (double d : its[t].data) req += " " + str(dbits(d));
            req += " ;";
            ksr += (t ? "," : "") + str(its[t].k);
            if (its[t].mk != its[t].k) out.fail("restart-mk", "m_k after the shift loop = " + str(its[t].mk) + " differs from the restart size " + str(its[t].k), rep);
        }
        bool conv = s.info() == Spectra::CompInfo::Successful;
        if (conv && (long) its.size() < maxit) { req += " " + str(nev) + " 0"; for (int i = 0; i < (SYM ? ncv : 4 * ncv); i++) req += " 0"; req += " ;"; }   // the pass that left by `break`
        else if (conv) { /* converged exactly when the budget ran out: loop left by the bound */ }
        long iters = (long) s.num_iterations() - 1;
        bool left_by_break = conv && (long) its.size() < maxit;
        std::string resp = "ops=" + str(op.log.size()) + " iters=" + str(iters) + " conv=" + str(left_by_break ? 1 : 0) + " stop=none ks=" + ksr + " calls=" + calls;
        out.corr(req, resp); out.count(SYM ? "C_herm_traces" : "C_gen_traces"); out.count("C_restarts", its.size());
        if (bd0) out.count("C_breakdown_in_first_factorization");
        // property predicates on the real run
        long bound = 2 + 2L * ncv * (maxit + 1);
        if ((long) op.log.size() > bound) out.fail("work-bound", "operator applied " + str(op.log.size()) + " times > 2+2*ncv*(maxit+1) = " + str(bound), rep);
        if ((long) s.num_operations() != (long) op.log.size()) out.fail("opcount-mismatch", "num_operations() = " + str(s.num_operations()) + " but the operator was applied " + str(op.log.size()) + " times", rep);
        (void) nconv;
    } catch (const std::exception& e) {
        Spectra::verif::observer() = nullptr; out.count(std::string("C_exception:") + e.what()); bad = true;
    }
    (void) bad;
}

static void part_C(const Args& a, Out& out) {
    long N = a.thorough() ? 3000 : 500;
    for (long i = 0; i < N; i++) { Rng r1(a.seed, 31, i); trace_case<true>(a, out, r1, i); Rng r2(a.seed, 32, i); trace_case<false>(a, out, r2, i); }
}

// --replay of a part-A failing input: {"part":"A","fam":"herm"|"gen","nev":..,"ncv":..,"zmask":..,"nconv":..[,"pat":".."]}
static long jget(const std::string& t, const std::string& k, long d) {
    size_t p = t.find("\"" + k + "\":"); if (p == std::string::npos) return d;
    return std::strtol(t.c_str() + p + k.size() + 3, nullptr, 10);
}
static bool replay_A(const Args& a, Out& out) {
    std::ifstream f(a.replay); std::string t((std::istreambuf_iterator<char>(f)), {});
    size_t rp = t.find("\"replay\""); if (rp != std::string::npos) t = t.substr(rp);
    if (t.find("\"part\":\"A\"") == std::string::npos && t.find("\"part\": \"A\"") == std::string::npos) return false;
    int nev = (int) jget(t, "nev", 1), ncv = (int) jget(t, "ncv", 3), nconv = (int) jget(t, "nconv", 0); unsigned long zm = (unsigned long) jget(t, "zmask", 0);
    bool herm = t.find("herm") != std::string::npos;
    std::string rep = "{\"part\":\"A\",\"fam\":\"" + std::string(herm ? "herm" : "gen") + "\",\"nev\":" + str(nev) + ",\"ncv\":" + str(ncv) + ",\"zmask\":" + str(zm) + ",\"nconv\":" + str(nconv) + "}";
    Mat I = Mat::Identity(ncv, ncv); Index k;
    if (herm) { Spectra::DenseSymMatProd<double> op(I); Spectra::SymEigsSolver<Spectra::DenseSymMatProd<double>> s(op, nev, ncv); auto& est = AX::ritz_est(s); est.resize(ncv);
                for (int i = 0; i < ncv; i++) est[i] = ((zm >> i) & 1) ? 0.0 : 1.0; k = AX::nev_adj(s, nconv);
                if (!(k >= nev && k <= ncv - 1)) out.fail("restart-size-range", "HermEigsBase::nev_adjusted returned " + str(k) + " outside [nev, ncv-1]", rep); }
    else { std::string pat(ncv, 'r'); size_t pp = t.find("\"pat\":"); if (pp != std::string::npos) { size_t q = t.find('"', pp + 6); size_t q2 = t.find('"', q + 1); pat = t.substr(q + 1, q2 - q - 1); }
           Spectra::DenseGenMatProd<double> op(I); Spectra::GenEigsSolver<Spectra::DenseGenMatProd<double>> s(op, nev, ncv); auto& est = AX::ritz_est(s); est.resize(ncv); auto& val = AX::ritz_val(s); val.resize(ncv);
           for (int i = 0; i < ncv; i++) { double v = ((zm >> i) & 1) ? 0.0 : 1.0; est[i] = Cx(v, v); val[i] = pat_val(i < (int) pat.size() ? pat[i] : 'r', 0.75, 1.25); }
           k = AX::nev_adj(s, nconv);
           if (!(k >= nev && k <= ncv - 1)) out.fail("restart-size-range", "GenEigsBase::nev_adjusted returned " + str(k) + " outside [nev, ncv-1]", rep); }
    out.count("replayed_A");
    return true;
}

int main(int argc, char** argv) {
    Args a(argc, argv); Out out(a.out);
    if (!a.replay.empty() && replay_A(a, out)) { out.finish(); return 0; }
    part_A(a, out);
    part_B(a, out);
    part_C(a, out);
    { std::ofstream lc(a.out + "/lastcase.txt"); lc << "done\n"; }
    out.finish();
    return 0;
}
