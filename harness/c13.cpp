// C13 correspondence harness (built from /repo's working tree with ASan+UBSan, Eigen assertions ON, -DSPECTRA_VERIF):
//  A. EXHAUSTIVE enumeration of the REAL HermEigsBase::nev_adjusted / GenEigsBase::nev_adjusted through friend access
//     (m_ritz_est / m_ritz_val set directly on a constructed solver) vs Gen.Restart evaluated by the Lean driver;
//  B. the REAL restart() shift loops on injected Ritz values: Arnoldi::m_k observed at the "arnoldi.compress" hook vs the index program;
//     patterns for which the index program predicts a read at index ncv are run in a forked child (expected: Eigen index assertion);
//  C. operator-call traces (which buffer goes in, which comes out, how many calls, restart sizes, iteration count) of real
//     SymEigsSolver / GenEigsSolver runs vs the operator-call skeleton fed with the oracle outcomes observed in the run;
//  D. NESTED (re-entrant) use on one thread (oracle only): an operator whose perform_op(x, y) builds and runs another solver of the
//     SAME class template instantiation (GenEigsSolver<NestOp>, SymEigsSolver<NestOp>, GenEigsRealShiftSolver<NestOp>; inner problem
//     of equal size in one share, of different size in the other) and sets y = Op x + c*(inner eigenvalue)*x - still a fixed linear
//     map, because the inner problem is fixed.  Predicates on the real code: no vector of an inner call overlaps a vector of an
//     operator application that is still in progress; the outer y and x are not modified / freed by the nested solve; every outer
//     result (info, nconv, counts, eigenvalue bits) equals the NON-nested reference run of the same linear map bit for bit; no
//     sanitizer report / Eigen assertion.  Every nested case runs in a forked child, so a crash is one failing input with a replay.
#include "common.h"
#include <Spectra/Util/VerifHooks.h>
#include <Spectra/SymEigsSolver.h>
#include <Spectra/GenEigsSolver.h>
#include <Spectra/GenEigsComplexShiftSolver.h>
#include <Spectra/GenEigsRealShiftSolver.h>
#include <Spectra/MatOp/DenseSymMatProd.h>
#include <Spectra/MatOp/DenseGenMatProd.h>
#include <Spectra/MatOp/DenseGenComplexShiftSolve.h>
#include <unistd.h>
#include <fcntl.h>
#include <sys/wait.h>
#include <memory>
#include <Eigen/LU>
#if defined(__SANITIZE_ADDRESS__)
#include <sanitizer/asan_interface.h>
#define C13_REGION_BAD(p, n) (__asan_region_is_poisoned((void*) (p), (n)) != nullptr)
#else
#define C13_REGION_BAD(p, n) false
#endif
using namespace vh;
using Eigen::Index;
typedef Eigen::MatrixXd Mat;
typedef Eigen::VectorXd Vec;
typedef std::complex<double> Cx;

struct SpectraVerifAccess {
    template <class S> static Index nev_adj(S& s, Index nconv) { return s.nev_adjusted(nconv); }
    template <class S> static void restart(S& s, Index k, Spectra::SortRule r) { s.restart(k, r); }
    template <class S> static auto ritz_val(S& s) -> decltype((s.m_ritz_val)) { return s.m_ritz_val; }
    template <class S> static auto ritz_est(S& s) -> decltype((s.m_ritz_est)) { return s.m_ritz_est; }
    template <class S> static Index nconv_flags(S& s) { return s.m_ritz_conv.count(); }
    template <class S> static auto fac(S& s) -> decltype((s.m_fac)) { return s.m_fac; }
    template <class F> static Index fac_k(const F& f) { return f.m_k; }
    template <class F> static const double* fac_V(const F& f) { return f.m_fac_V.data(); }
    template <class F> static Index fac_Vsize(const F& f) { return f.m_fac_V.size(); }
    template <class F> static const double* fac_f(const F& f) { return f.m_fac_f.data(); }
    static bool is_complex(const Cx& v) { return Spectra::GenEigsBase<Spectra::DenseGenMatProd<double>, Spectra::IdentityBOp>::is_complex(v); }
    static bool is_conj(const Cx& a, const Cx& b) { return Spectra::GenEigsBase<Spectra::DenseGenMatProd<double>, Spectra::IdentityBOp>::is_conj(a, b); }
};
typedef SpectraVerifAccess AX;

static const double NEAR0 = std::numeric_limits<double>::min() * 10.0;

// ------------------------------------------------------------------ pattern alphabet (must match Driver/C13.lean patVal)
static Cx pat_val(char c, double are, double aim) {
    switch (c) { case 'a': return Cx(are, aim); case 'c': return Cx(are, -aim); case 'b': return Cx(aim, are);
                 case 'd': return Cx(aim, -are); case 's': return Cx(are, 0.0); default: return Cx(1.5, 0.0); }
}
static void pairings(int n, std::string cur, std::vector<std::string>& out) {
    if ((int) cur.size() == n) { out.push_back(cur); return; }
    pairings(n, cur + "r", out);
    if ((int) cur.size() + 2 <= n) pairings(n, cur + "ac", out);
}
static void all_strings(int n, const std::string& alpha, std::string cur, std::vector<std::string>& out) {
    if ((int) cur.size() == n) { out.push_back(cur); return; }
    for (char c : alpha) all_strings(n, alpha, cur + c, out);
}
static uint64_t hash_step(uint64_t h, long v) { return (h * 31 + (uint64_t) (v + 1000)) % 4294967291ull; }

// ------------------------------------------------------------------ A. nev_adjusted enumeration
static void part_A(const Args& a, Out& out) {
    const int NC = a.thorough() ? 14 : 10, NCLINE = 10;
    struct ZV { double z, nz; };
    std::vector<ZV> zvs = {{0.0, 1.0}, {std::nextafter(NEAR0, 0.0), NEAR0}, {-std::nextafter(NEAR0, 0.0), -3.0e-307}};
    // Hermitian family
    for (int ncv = 2; ncv <= NC; ncv++) {
        Mat I = Mat::Identity(ncv, ncv); Spectra::DenseSymMatProd<double> op(I);
        for (int nev = 1; nev <= ncv - 1; nev++) {
            Spectra::SymEigsSolver<Spectra::DenseSymMatProd<double>> s(op, nev, ncv);
            auto& est = AX::ritz_est(s); est.resize(ncv);
            for (size_t vi = 0; vi < zvs.size(); vi++) {
                if (vi > 0 && ncv > 7) continue;
                for (unsigned long m = 0; m < (1ul << (ncv - nev)); m++) {
                    unsigned long zm = m << nev;
                    for (int i = 0; i < ncv; i++) est[i] = ((zm >> i) & 1) ? zvs[vi].z : zvs[vi].nz;
                    std::string resp;
                    for (int c = 0; c <= nev; c++) { resp += (c ? " " : "") + str(AX::nev_adj(s, c)); out.count("A_herm_evals"); }
                    out.corr("hnev " + str(nev) + " " + str(ncv) + " " + str(zm) + " " + str(dbits(zvs[vi].z)) + " " + str(dbits(zvs[vi].nz)), resp);
                    // the property's own predicate on the real function
                    for (int c = 0; c <= nev; c++) { Index k = AX::nev_adj(s, c);
                        if (!(k >= nev && k <= ncv - 1)) out.fail("restart-size-range", "HermEigsBase::nev_adjusted returned " + str(k) + " outside [nev, ncv-1]",
                            "{\"part\":\"A\",\"fam\":\"herm\",\"nev\":" + str(nev) + ",\"ncv\":" + str(ncv) + ",\"zmask\":" + str(zm) + ",\"nconv\":" + str(c) + "}"); }
                }
            }
        }
    }
    // general family
    const double are = 0.75, aim = 1.25;
    for (int ncv = 3; ncv <= NC; ncv++) {
        Mat I = Mat::Identity(ncv, ncv); Spectra::DenseGenMatProd<double> op(I);
        std::vector<std::string> pats; pairings(ncv, "", pats);
        if (ncv <= 5) all_strings(ncv, "racbs", "", pats);
        else { Rng rng(a.seed, 11, ncv); for (int t = 0; t < 40; t++) { std::string p; for (int i = 0; i < ncv; i++) p += "racbds"[rng.below(6)]; pats.push_back(p); } }
        for (int nev = 1; nev <= ncv - 2; nev++) {
            Spectra::GenEigsSolver<Spectra::DenseGenMatProd<double>> s(op, nev, ncv);
            auto& est = AX::ritz_est(s); est.resize(ncv);
            auto& val = AX::ritz_val(s); val.resize(ncv);
            for (const std::string& p : pats) {
                for (int i = 0; i < ncv; i++) val[i] = pat_val(p[i], are, aim);
                for (size_t vi = 0; vi < zvs.size(); vi++) {
                    if (vi > 0 && ncv > 6) continue;
                    if (ncv <= NCLINE) {
                        for (unsigned long m = 0; m < (1ul << (ncv - nev)); m++) {
                            unsigned long zm = m << nev;
                            for (int i = 0; i < ncv; i++) { double v = ((zm >> i) & 1) ? zvs[vi].z : zvs[vi].nz; est[i] = Cx(v, v); }
                            std::string resp;
                            for (int c = 0; c <= nev; c++) {
                                Index k = AX::nev_adj(s, c); out.count("A_gen_evals");
                                resp += (c ? " " : "") + str(k);
                                if (!(k >= nev && k <= ncv - 1))
                                    out.fail("restart-size-range", "GenEigsBase::nev_adjusted returned " + str(k) + " outside [nev, ncv-1]",
                                        "{\"part\":\"A\",\"fam\":\"gen\",\"nev\":" + str(nev) + ",\"ncv\":" + str(ncv) + ",\"zmask\":" + str(zm) + ",\"nconv\":" + str(c) + ",\"pat\":\"" + p + "\"}");
                            }
                            out.corr("gnev " + str(nev) + " " + str(ncv) + " " + str(zm) + " " + str(dbits(zvs[vi].z)) + " " + str(dbits(zvs[vi].nz)) + " " + p + " " + str(dbits(are)) + " " + str(dbits(aim)), resp);
                        }
                    } else {
                        // hashed group: all zero masks x all nconv (thorough, ncv 11..14)
                        uint64_t h = 7;
                        for (unsigned long m = 0; m < (1ul << (ncv - nev)); m++) {
                            for (int i = 0; i < ncv; i++) { double v = (i >= nev && ((m >> (i - nev)) & 1)) ? zvs[vi].z : zvs[vi].nz; est[i] = Cx(v, v); }
                            for (int c = 0; c <= nev; c++) {
                                Index k = AX::nev_adj(s, c); out.count("A_gen_evals");
                                h = hash_step(h, k);
                                if (!(k >= 1 && k <= ncv - 1)) out.fail("restart-size-range", "GenEigsBase::nev_adjusted returned " + str(k), "{\"part\":\"A\",\"fam\":\"gen\",\"nev\":" + str(nev) + ",\"ncv\":" + str(ncv) + ",\"pat\":\"" + p + "\"}");
                            }
                        }
                        out.corr("gnevh " + str(nev) + " " + str(ncv) + " " + str(dbits(zvs[vi].z)) + " " + str(dbits(zvs[vi].nz)) + " " + p + " " + str(dbits(are)) + " " + str(dbits(aim)), str(h));
                    }
                }
            }
        }
    }
}

// ------------------------------------------------------------------ observer
struct Obs : Spectra::verif::Observer {
    std::function<void(const char*, const void*)> f;
    void on(const char* tag, const void* obj) override { if (f) f(tag, obj); }
};

// run `body` in a forked child; returns exit status (0 ok), -sig if killed by a signal
static int forked(const std::function<void()>& body) {
    fflush(nullptr);
    pid_t p = fork();
    if (p == 0) { int fd = open("/dev/null", 1); if (fd >= 0) { dup2(fd, 2); dup2(fd, 1); } alarm(300); body(); _exit(0); }   // alarm: a nested run that does not terminate ends as a crash of this case
    int st = 0; waitpid(p, &st, 0);
    if (WIFSIGNALED(st)) return -WTERMSIG(st);
    return WEXITSTATUS(st);
}

// ------------------------------------------------------------------ B. shift loops on injected Ritz values
static void part_B(const Args& a, Out& out) {
    const int NC = a.thorough() ? 9 : 7;
    const double are = 0.3, aim = 0.4;
    Obs obs; Spectra::verif::observer() = &obs;
    Rng rng(a.seed, 21, 0);
    for (int ncv = 3; ncv <= NC; ncv++) {
        int n = ncv + 2; int n_forked = 0; const int max_forked = a.thorough() ? 40 : 8;
        Mat A(n, n); for (int i = 0; i < n; i++) for (int j = 0; j < n; j++) A(i, j) = rng.sym();
        Spectra::DenseGenMatProd<double> op(A);
        Spectra::GenEigsSolver<Spectra::DenseGenMatProd<double>> s(op, 1, ncv);
        s.init(); s.compute(Spectra::SortRule::LargestMagn, 0);
        std::vector<std::string> pats; pairings(ncv, "", pats);
        if (ncv <= 5) all_strings(ncv, "racb", "", pats);
        else for (int t = 0; t < (a.thorough() ? 300 : 120); t++) { std::string p; for (int i = 0; i < ncv; i++) p += "racbd"[rng.below(5)]; pats.push_back(p); }
        for (const std::string& p : pats) for (int k = 1; k <= ncv; k++) {
            std::vector<Cx> v(ncv); for (int i = 0; i < ncv; i++) v[i] = pat_val(p[i], are, aim);
            // harness-side walk only to decide HOW to run the real code (in-process or in a child that may abort)
            bool will_oob = false; { int i = k; while (i < ncv) { if (AX::is_complex(v[i])) { if (i + 1 >= ncv) { will_oob = true; break; } if (AX::is_conj(v[i], v[i + 1])) i++; } i++; } }
            std::string req = "gshift " + str(ncv) + " " + str(k) + " " + p + " " + str(dbits(are)) + " " + str(dbits(aim));
            auto& val = AX::ritz_val(s);
            if (k >= ncv) { for (int i = 0; i < ncv; i++) val[i] = v[i]; AX::restart(s, k, Spectra::SortRule::LargestMagn); out.corr(req, "early"); out.count("B_gen_early"); continue; }
            if (will_oob) {
                // fork under ASan costs ~25 ms: confirm the predicted abort on a fixed-size sample only
                if (n_forked >= max_forked) { out.count("B_gen_oob_predicted_not_run"); continue; }
                n_forked++;
                { std::ofstream lc(a.out + "/lastcase.txt"); lc << req << " (forked child, abort expected)\n"; }
                int st = forked([&]() { for (int i = 0; i < ncv; i++) val[i] = v[i]; AX::restart(s, k, Spectra::SortRule::LargestMagn); });
                out.count(st != 0 ? "B_gen_oob_child_aborted" : "B_gen_oob_child_survived");
                if (st != 0) { out.corr(req, "stop=oob"); continue; }
                // the child survived (e.g. a bounds guard was added to restart): the call is safe, run it in-process and report m_k
            }
            Index mk = -1; obs.f = [&](const char* tag, const void*) { if (!strcmp(tag, "arnoldi.compress")) mk = AX::fac_k(AX::fac(s)); };
            { std::ofstream lc(a.out + "/lastcase.txt"); lc << req << "\n"; }
            for (int i = 0; i < ncv; i++) val[i] = v[i];
            std::string resp;
            try { AX::restart(s, k, Spectra::SortRule::LargestMagn); resp = "mk=" + str(mk) + " stop=none"; }
            catch (const std::exception& e) { resp = std::string("threw ") + e.what(); s.init(); s.compute(Spectra::SortRule::LargestMagn, 0); }
            obs.f = nullptr;
            out.corr(req, resp); out.count("B_gen_inproc");
            if (AX::fac_k(AX::fac(s)) != ncv) { s.init(); s.compute(Spectra::SortRule::LargestMagn, 0); }
        }
    }
    // Hermitian family: ncv - k single shifts, m_k = k
    for (int ncv = 2; ncv <= NC + 3; ncv++) {
        int n = ncv + 1;
        Mat A(n, n); for (int i = 0; i < n; i++) for (int j = 0; j <= i; j++) A(i, j) = A(j, i) = rng.sym();
        Spectra::DenseSymMatProd<double> op(A);
        Spectra::SymEigsSolver<Spectra::DenseSymMatProd<double>> s(op, 1, ncv);
        s.init(); s.compute(Spectra::SortRule::LargestMagn, 0);
        for (int k = 1; k <= ncv; k++) {
            std::string req = "hshift " + str(ncv) + " " + str(k);
            Index mk = -1; obs.f = [&](const char* tag, const void*) { if (!strcmp(tag, "arnoldi.compress")) mk = AX::fac_k(AX::fac(s)); };
            { std::ofstream lc(a.out + "/lastcase.txt"); lc << req << "\n"; }
            std::string resp;
            try { AX::restart(s, k, Spectra::SortRule::LargestMagn); resp = (k >= ncv) ? "early" : "mk=" + str(mk) + " from=" + str(k) + " to=" + str(ncv) + " stop=none"; }
            catch (const std::exception& e) { resp = std::string("threw ") + e.what(); }
            obs.f = nullptr; out.corr(req, resp); out.count("B_herm");
        }
    }
    Spectra::verif::observer() = nullptr;
}

// ------------------------------------------------------------------ C. operator-call traces of real runs
struct CallRec { const double* x; double* y; const double* V; const double* f; };
struct LogOp {   // explicit row-major product, logs every (x, y)
    using Scalar = double;
    const Mat& A; mutable std::vector<CallRec> log;
    std::function<std::pair<const double*, const double*>()> cur;   // current m_fac_V.data(), m_fac_f.data() (f is swapped by compress_V)
    explicit LogOp(const Mat& A_) : A(A_) {}
    Index rows() const { return A.rows(); } Index cols() const { return A.cols(); }
    void perform_op(const double* x, double* y) const {
        { std::pair<const double*, const double*> p(nullptr, nullptr); if (cur) p = cur(); log.push_back({x, y, p.first, p.second}); }
        const Index n = A.rows();
        for (Index i = 0; i < n; i++) { double s = 0; for (Index j = 0; j < n; j++) s += A(i, j) * x[j]; y[i] = s; }
    }
};

static Mat gen_matrix(Rng& rng, int n, int kind, bool sym) {
    Mat A = Mat::Zero(n, n);
    switch (kind) {
        case 0: for (int i = 0; i < n; i++) for (int j = 0; j < n; j++) A(i, j) = rng.sym(); break;                 // random
        case 1: for (int i = 0; i < n; i++) A(i, i) = 1.0 + (i % 3); break;                                       // few distinct eigenvalues (breakdowns)
        case 2: { Vec u(n), v(n); for (int i = 0; i < n; i++) { u[i] = rng.sym(); v[i] = rng.sym(); } A = u * (sym ? u : v).transpose(); if (n > 3) A(n - 1, n - 1) += 2.0; break; }  // low rank
        case 3: for (int i = 0; i < n; i++) A((i + 1) % n, i) = 1.0; break;                                        // cyclic permutation
        case 4: for (int i = 0; i < n; i++) A(i, i) = (i % 2 ? -1.0 : 1.0) * (1 + i / 2); break;                   // +-pairs: magnitude ties
        case 5: for (int i = 0; i + 1 < n; i += 2) { double c = std::cos(0.7 * (1 + i / 2)), s_ = std::sin(0.7 * (1 + i / 2)); A(i, i) = c; A(i, i + 1) = -s_; A(i + 1, i) = s_; A(i + 1, i + 1) = c; } if (n % 2) A(n - 1, n - 1) = 1; break;  // rotation blocks
        default: for (int i = 0; i < n; i++) for (int j = 0; j < n; j++) A(i, j) = (double) rng.range(-2, 2); break; // small integers
    }
    if (sym) A = (0.5 * (A + A.transpose())).eval();
    return A;
}

template <class Solver> static std::string classify(const LogOp& op, Solver& s, const double* user, int n, int ncv, size_t from, size_t to, unsigned long* bdmask, Out& out, const std::string& rep) {
    (void) s;
    std::string r; bool pend = false;
    for (size_t c = from; c < to; c++) {
        const double* x = op.log[c].x; double* y = op.log[c].y; const double* V = op.log[c].V; const double* f = op.log[c].f;
        auto name = [&](const double* p, bool is_out) -> std::string {
            if (p == user) return "U";
            if (p >= V && p < V + (long) n * ncv && (p - V) % n == 0) return "V" + str((long) ((p - V) / n));
            if (p == f) return "F";
            return is_out ? "W" : "T";
        };
        std::string xs = name(x, false), ys = name(y, true);
        // property predicate on the real call: distinct, non-overlapping length-n buffers
        if (x == y || (x < y + n && y < x + n)) out.fail("op-args-alias", "perform_op called with overlapping buffers " + xs + "," + ys, rep);
        if (xs == "T" && ys == "F") pend = true;
        else if (xs[0] == 'V' && bdmask) { long j = atol(xs.c_str() + 1); if (pend) *bdmask |= (1ul << j); pend = false; }
        r += (c > from ? "," : "") + xs + ">" + ys;
    }
    return r;
}

template <bool SYM> static void trace_case(const Args& a, Out& out, Rng& rng, long idx) {
    using OpT = LogOp;
    using Solver = typename std::conditional<SYM, Spectra::SymEigsSolver<OpT>, Spectra::GenEigsSolver<OpT>>::type;
    int n = rng.range(SYM ? 3 : 4, 12), kind = rng.range(0, 6);
    int nev = rng.range(1, SYM ? n - 1 : n - 2), ncv = rng.range(nev + (SYM ? 1 : 2), n);
    if (rng.coin(0.25)) ncv = nev + (SYM ? 1 : 2); else if (rng.coin(0.2)) ncv = n;
    int maxit = rng.pick(std::vector<int>{0, 1, 2, 3, 5, 8});
    double tol = rng.pick(std::vector<double>{1e-10, 1e-14, 1e-3, 0.0});
    Mat A = gen_matrix(rng, n, kind, SYM);
    std::vector<Spectra::SortRule> rules = SYM ? std::vector<Spectra::SortRule>{Spectra::SortRule::LargestMagn, Spectra::SortRule::LargestAlge, Spectra::SortRule::SmallestAlge, Spectra::SortRule::BothEnds, Spectra::SortRule::SmallestMagn}
                                               : std::vector<Spectra::SortRule>{Spectra::SortRule::LargestMagn, Spectra::SortRule::LargestReal, Spectra::SortRule::LargestImag, Spectra::SortRule::SmallestMagn, Spectra::SortRule::SmallestReal, Spectra::SortRule::SmallestImag};
    Spectra::SortRule rule = rng.pick(rules);
    Vec v0(n); for (int i = 0; i < n; i++) v0[i] = rng.sym(); if (rng.coin(0.2)) { v0.setZero(); v0[rng.below(n)] = 1.0; }
    std::string rep = "{\"part\":\"C\",\"sym\":" + str((int) SYM) + ",\"idx\":" + str(idx) + ",\"n\":" + str(n) + ",\"nev\":" + str(nev) + ",\"ncv\":" + str(ncv) + ",\"kind\":" + str(kind) + ",\"maxit\":" + str(maxit) + ",\"rule\":" + str((int) rule) + "}";
    { std::ofstream lc(a.out + "/lastcase.txt"); lc << rep << "\n"; }
    OpT op(A); Solver s(op, nev, ncv);
    op.cur = [&]() { return std::make_pair(AX::fac_V(AX::fac(s)), AX::fac_f(AX::fac(s))); };
    Obs obs; Spectra::verif::observer() = &obs;
    std::string secs; std::vector<size_t> marks; std::vector<Index> ks; bool bad = false;
    struct It { Index nconv; std::vector<double> data; size_t log_at; Index mk; Index k; };
    std::vector<It> its; size_t fac0_end = 0; bool first_fac = true;
    obs.f = [&](const char* tag, const void*) {
        if (!strcmp(tag, "arnoldi.compress")) {
            It it; it.nconv = AX::nconv_flags(s); it.log_at = op.log.size(); it.mk = AX::fac_k(AX::fac(s)); it.k = AX::nev_adj(s, it.nconv);
            auto& est = AX::ritz_est(s);
            for (int i = 0; i < ncv; i++) { Cx e(est[i]); it.data.push_back(e.real()); if (!SYM) it.data.push_back(e.imag()); }
            if (!SYM) { auto& val = AX::ritz_val(s); for (int i = 0; i < ncv; i++) { Cx v(val[i]); it.data.push_back(v.real()); it.data.push_back(v.imag()); } }
            its.push_back(it);
        } else if ((!strcmp(tag, "arnoldi.factorize") || !strcmp(tag, "lanczos.factorize")) && first_fac) { fac0_end = op.log.size(); first_fac = false; }
    };
    try {
        s.init(v0.data());
        Index nconv = s.compute(rule, maxit, tol);
        Spectra::verif::observer() = nullptr;
        // assemble the request: oracle outcomes of the run
        unsigned long bd0 = 0; std::string calls = classify(op, s, v0.data(), n, ncv, 0, 2, nullptr, out, rep);
        calls += "," + classify(op, s, v0.data(), n, ncv, 2, fac0_end, &bd0, out, rep);
        std::string req = std::string(SYM ? "hops " : "gops ") + str(nev) + " " + str(ncv) + " " + str(maxit) + " " + str(bd0) + " ;";
        std::string ksr;
        for (size_t t = 0; t < its.size(); t++) {
            size_t to = (t + 1 < its.size()) ? its[t + 1].log_at : op.log.size();
            unsigned long bd = 0; std::string cs = classify(op, s, v0.data(), n, ncv, its[t].log_at, to, &bd, out, rep);
            if (!cs.empty()) calls += "," + cs;
            req += " " + str(its[t].nconv) + " " + str(bd);
            for (double d : its[t].data) req += " " + str(dbits(d));
            req += " ;";
            ksr += (t ? "," : "") + str(its[t].k);
            if (its[t].mk != its[t].k) out.fail("restart-mk", "m_k after the shift loop = " + str(its[t].mk) + " differs from the restart size " + str(its[t].k), rep);
        }
        bool conv = s.info() == Spectra::CompInfo::Successful;
        if (conv && (long) its.size() < maxit) { req += " " + str(nev) + " 0"; for (int i = 0; i < (SYM ? ncv : 4 * ncv); i++) req += " 0"; req += " ;"; }   // the pass that left by `break`
        else if (conv) { /* converged exactly when the budget ran out: loop left by the bound */ }
        long iters = (long) s.num_iterations() - 1;
        bool left_by_break = conv && (long) its.size() < maxit;
        std::string resp = "ops=" + str(op.log.size()) + " iters=" + str(iters) + " conv=" + str(left_by_break ? 1 : 0) + " stop=none ks=" + ksr + " calls=" + calls;
        out.corr(req, resp); out.count(SYM ? "C_herm_traces" : "C_gen_traces"); out.count("C_restarts", its.size());
        if (bd0) out.count("C_breakdown_in_first_factorization");
        // property predicates on the real run
        long bound = 2 + 2L * ncv * (maxit + 1);
        if ((long) op.log.size() > bound) out.fail("work-bound", "operator applied " + str(op.log.size()) + " times > 2+2*ncv*(maxit+1) = " + str(bound), rep);
        if ((long) s.num_operations() != (long) op.log.size()) out.fail("opcount-mismatch", "num_operations() = " + str(s.num_operations()) + " but the operator was applied " + str(op.log.size()) + " times", rep);
        (void) nconv;
    } catch (const std::exception& e) {
        Spectra::verif::observer() = nullptr; out.count(std::string("C_exception:") + e.what()); bad = true;
    }
    (void) bad;
}

static void part_C(const Args& a, Out& out) {
    long N = a.thorough() ? 3000 : 500;
    for (long i = 0; i < N; i++) { Rng r1(a.seed, 31, i); trace_case<true>(a, out, r1, i); Rng r2(a.seed, 32, i); trace_case<false>(a, out, r2, i); }
}

// --replay of a part-A failing input: {"part":"A","fam":"herm"|"gen","nev":..,"ncv":..,"zmask":..,"nconv":..[,"pat":".."]}
static long jget(const std::string& t, const std::string& k, long d) {
    size_t p = t.find("\"" + k + "\":"); if (p == std::string::npos) return d;
    return std::strtol(t.c_str() + p + k.size() + 3, nullptr, 10);
}
// ------------------------------------------------------------------ D. nested (re-entrant) use of one solver instantiation
struct NestFrame { const double* x; const double* y; Index n; };
static std::vector<NestFrame> g_nest;          // operator applications in progress, outermost first
struct NestLog {
    long calls[2] = {0, 0}, inner_solves = 0, inner_nonconv = 0, notes = 0; FILE* sink = nullptr;
    void note(const std::string& sig, const std::string& what) {    // written at once: the process may be killed by the sanitizer next
        notes++; if (sink && notes <= 4) { fprintf(sink, "note %s %s\n", sig.c_str(), what.c_str()); fflush(sink); }
    }
};
static NestLog* g_nlog = nullptr;
static bool overlap(const double* a, Index na, const double* b, Index nb) { return a < b + nb && b < a + na; }   // same predicate as part C
static std::string pstr(const void* p) { std::ostringstream o; o << p; return o.str(); }

template <int KIND> struct NestOp;
template <int KIND> struct NestSolver;
template <> struct NestSolver<0> { typedef Spectra::GenEigsSolver<NestOp<0>> type; static const char* name() { return "GenEigsSolver"; } };
template <> struct NestSolver<1> { typedef Spectra::SymEigsSolver<NestOp<1>> type; static const char* name() { return "SymEigsSolver"; } };
template <> struct NestSolver<2> { typedef Spectra::GenEigsRealShiftSolver<NestOp<2>> type; static const char* name() { return "GenEigsRealShiftSolver"; } };
template <int KIND, class Op> static typename NestSolver<KIND>::type* nest_make(Op& op, int nev, int ncv, double sigma) {
    if constexpr (KIND == 2) return new typename NestSolver<KIND>::type(op, nev, ncv, sigma);
    else { (void) sigma; return new typename NestSolver<KIND>::type(op, nev, ncv); }
}
static double ev_real(const Cx& z) { return z.real(); }
static double ev_real(double z) { return z; }

// y = Op x + c * lam * x;  Op = A (KIND 0, 1) or (A - sigma I)^{-1} (KIND 2);  lam = eigenvalue returned by a nested solve of the
// fixed inner problem (inner != nullptr), or the constant `fixed_lam` (reference), or no second term at all (innermost operator)
template <int KIND> struct NestOp {
    using Scalar = double;
    Mat A; NestOp* inner = nullptr; bool use_fixed = false; double fixed_lam = 0.0, c = 0.0;
    int in_nev = 1, in_ncv = 3, in_maxit = 30; double in_sigma = 0.0;
    Eigen::PartialPivLU<Mat> lu;
    explicit NestOp(const Mat& A_) : A(A_) {}
    Index rows() const { return A.rows(); } Index cols() const { return A.cols(); }
    void set_shift(const double& sigma) { lu.compute(A - sigma * Mat::Identity(A.rows(), A.cols())); }
    double inner_solve() const {
        std::unique_ptr<typename NestSolver<KIND>::type> s(nest_make<KIND>(*inner, in_nev, in_ncv, in_sigma));
        s->init();
        Index nc = s->compute(Spectra::SortRule::LargestMagn, in_maxit, 1e-10);
        if (g_nlog) { g_nlog->inner_solves++; if (nc < 1) g_nlog->inner_nonconv++; }
        if (nc < 1) return 0.0;
        auto ev = s->eigenvalues();
        return ev_real(ev[0]);
    }
    void perform_op(const double* x, double* y) const {
        const Index n = A.rows(); const size_t depth = g_nest.size();
        if (g_nlog) {
            g_nlog->calls[depth ? 1 : 0]++;
            if (overlap(x, n, y, n)) g_nlog->note("op-args-alias", "perform_op(x, y) with overlapping x=" + pstr(x) + " y=" + pstr(y) + " n=" + str(n) + " at nesting depth " + str(depth));
            for (const NestFrame& fr : g_nest) {
                const char* w = overlap(y, n, fr.y, fr.n) ? "y_inner/y_outer" : overlap(y, n, fr.x, fr.n) ? "y_inner/x_outer" : overlap(x, n, fr.y, fr.n) ? "x_inner/y_outer" : overlap(x, n, fr.x, fr.n) ? "x_inner/x_outer" : nullptr;
                if (w) g_nlog->note("op-args-nested-alias", std::string("the operator of the inner solver was handed a vector that overlaps a vector of the outer operator application still in progress (") + w +
                                    "): x_inner=" + pstr(x) + " y_inner=" + pstr(y) + " n_inner=" + str(n) + " x_outer=" + pstr(fr.x) + " y_outer=" + pstr(fr.y) + " n_outer=" + str(fr.n));
            }
        }
        if (KIND == 2) { Vec xv = Eigen::Map<const Vec>(x, n); Vec r = lu.solve(xv); for (Index i = 0; i < n; i++) y[i] = r[i]; }
        else for (Index i = 0; i < n; i++) { double s = 0; for (Index j = 0; j < n; j++) s += A(i, j) * x[j]; y[i] = s; }
        double lam = fixed_lam;
        if (inner) {
            std::vector<double> y0(y, y + n), x0(x, x + n);
            g_nest.push_back({x, y, n});
            try { lam = inner_solve(); } catch (...) { g_nest.pop_back(); throw; }
            g_nest.pop_back();
            if (C13_REGION_BAD(y, n * sizeof(double)) || C13_REGION_BAD(x, n * sizeof(double))) {
                if (g_nlog) g_nlog->note("op-buffer-freed", "a vector handed to the outer operator (x=" + pstr(x) + " y=" + pstr(y) + " n=" + str(n) + ") was freed / reallocated by the nested solve while the outer application was in progress");
                return;   // do not touch it; the solver that owns it will (sanitizer report)
            }
            if (std::memcmp(y0.data(), y, n * sizeof(double)) || std::memcmp(x0.data(), x, n * sizeof(double))) {
                if (g_nlog) g_nlog->note("op-buffer-clobbered", "the nested solve modified a vector of the outer operator application in progress (x=" + pstr(x) + " y=" + pstr(y) + " n=" + str(n) + ")");
            }
        }
        if (inner || use_fixed) { const double sc = c * lam; for (Index i = 0; i < n; i++) y[i] += sc * x[i]; }
    }
};

struct NestCase { int kind, share, idx, n, m, nev, ncv, in_ncv, maxit; double c, sigma, in_sigma; Mat A, B; std::string rep; };
static NestCase nest_case(uint64_t seed, int kind, int share, int idx) {
    Rng rng(seed, 41 + kind * 2 + share, idx);
    NestCase q; q.kind = kind; q.share = share; q.idx = idx;
    q.n = rng.range(8, 18);
    q.m = q.n; if (share == 1) { do q.m = rng.range(6, 16); while (q.m == q.n); }
    q.nev = rng.range(1, 3); q.ncv = rng.range(q.nev + 2, std::min(q.n, q.nev + 7));
    q.in_ncv = rng.range(3, std::min(q.m, 7));
    if (share == 0 && idx % 3 == 0 && q.ncv <= q.m) q.in_ncv = q.ncv;     // identical shapes: sharing would be completely silent
    q.maxit = rng.pick(std::vector<int>{1, 4, 12});
    q.c = rng.pick(std::vector<double>{0.125, -0.25, 0.5}); q.sigma = 0.37; q.in_sigma = 0.41;
    const bool sym = kind == 1;
    q.A = gen_matrix(rng, q.n, rng.pick(std::vector<int>{0, 0, 6, 2}), sym); for (int i = 0; i < q.n; i++) q.A(i, i) += 0.5 * (i + 1);
    // inner problem with a well separated wanted eigenvalue (largest magnitude / nearest to the inner shift), so that the nested solves converge
    q.B = 0.02 * gen_matrix(rng, q.m, 0, sym); for (int i = 0; i < q.m; i++) q.B(i, i) += (kind == 2) ? 1.0 + i : 4.0 * std::pow(0.5, q.m - 1 - i);
    q.rep = "{\"part\":\"D\",\"seed\":" + str(seed) + ",\"kind\":" + str(kind) + ",\"solver\":\"" + std::string(kind == 0 ? NestSolver<0>::name() : kind == 1 ? NestSolver<1>::name() : NestSolver<2>::name()) +
            "<NestOp>\",\"share\":\"" + (share ? "different-size" : "equal-size") + "\",\"idx\":" + str(idx) + ",\"n_outer\":" + str(q.n) + ",\"n_inner\":" + str(q.m) + ",\"nev\":" + str(q.nev) +
            ",\"ncv\":" + str(q.ncv) + ",\"ncv_inner\":" + str(q.in_ncv) + ",\"maxit\":" + str(q.maxit) + ",\"c\":" + str(q.c) + "}";
    return q;
}
// one run of the outer solver with operator `op`; canonical result line
template <int KIND> static std::string nest_run(NestOp<KIND>& op, const NestCase& q) {
    try {
        std::unique_ptr<typename NestSolver<KIND>::type> s(nest_make<KIND>(op, q.nev, q.ncv, q.sigma));
        s->init();
        Index nc = s->compute(Spectra::SortRule::LargestMagn, q.maxit, 1e-10);
        std::string r = "info=" + str((int) s->info()) + " nconv=" + str(nc) + " ops=" + str(s->num_operations()) + " iters=" + str(s->num_iterations()) + " ev=";
        auto ev = s->eigenvalues();
        for (Index i = 0; i < ev.size(); i++) { Cx z(ev[i]); r += (i ? ";" : "") + str(dbits(z.real())) + "," + str(dbits(z.imag())); }
        return r;
    } catch (const std::exception& e) { return std::string("exception ") + e.what(); }
}
// all cases of one solver kind.  The non-nested reference runs are made in this process; the nested runs in a forked child that
// works through the cases in order and writes one record per case at once; if the child is killed in case j (sanitizer report, Eigen
// assertion), j is recorded as a failing input and a new child continues with j+1.
template <int KIND> static void nest_batch(const Args& a, Out& out, const std::vector<NestCase>& qs) {
    const size_t N = qs.size();
    std::vector<std::string> ref(N); std::vector<long> refcalls(N);
    for (size_t t = 0; t < N; t++) {
        const NestCase& q = qs[t];
        { std::ofstream lc(a.out + "/lastcase.txt"); lc << q.rep << " (non-nested reference run)\n"; }
        // the inner problem alone (top level, nothing nested): the value every nested solve must return
        NestOp<KIND> in0(q.B); NestOp<KIND> probe(q.A); probe.inner = &in0; probe.in_ncv = q.in_ncv; probe.in_sigma = q.in_sigma;
        g_nlog = nullptr; const double lam0 = probe.inner_solve();
        // reference: the same linear map without nesting
        NestOp<KIND> refop(q.A); refop.use_fixed = true; refop.fixed_lam = lam0; refop.c = q.c;
        NestLog rl; g_nlog = &rl; ref[t] = nest_run<KIND>(refop, q); g_nlog = nullptr; refcalls[t] = rl.calls[0];
    }
    struct Rec { bool begun = false; std::string res, note_sig, note_what; long c0 = 0, c1 = 0, isolves = 0, inonconv = 0, notes = 0; };
    std::vector<Rec> recs(N); std::vector<int> killed(N, 0);
    const std::string cf = a.out + "/nested_child.txt";
    size_t start = 0;
    while (start < N) {
        std::remove(cf.c_str());
        { std::ofstream lc(a.out + "/lastcase.txt"); lc << qs[start].rep << " (first case of a forked batch of nested runs)\n"; }
        int st = forked([&]() {
            FILE* f = fopen(cf.c_str(), "w");
            for (size_t t = start; t < N; t++) {
                const NestCase& q = qs[t];
                fprintf(f, "begin %zu\n", t); fflush(f);
                NestOp<KIND> in1(q.B); NestOp<KIND> op(q.A); op.inner = &in1; op.in_ncv = q.in_ncv; op.in_sigma = q.in_sigma; op.c = q.c;
                NestLog nl; nl.sink = f; g_nlog = &nl; g_nest.clear();
                std::string r = nest_run<KIND>(op, q);
                fprintf(f, "calls %ld %ld %ld %ld %ld\n", nl.calls[0], nl.calls[1], nl.inner_solves, nl.inner_nonconv, nl.notes);
                fprintf(f, "result %s\n", r.c_str()); fflush(f);
            }
            fclose(f);
        });
        long cur = -1;
        { std::ifstream f(cf); std::string ln;
          while (std::getline(f, ln)) {
              if (ln.compare(0, 6, "begin ") == 0) { cur = atol(ln.c_str() + 6); if (cur >= 0 && cur < (long) N) recs[cur].begun = true; else cur = -1; }
              else if (cur < 0) continue;
              else if (ln.compare(0, 5, "note ") == 0 && recs[cur].note_sig.empty()) { size_t sp = ln.find(' ', 5); recs[cur].note_sig = ln.substr(5, sp - 5); recs[cur].note_what = ln.substr(sp + 1); }
              else if (ln.compare(0, 6, "calls ") == 0) sscanf(ln.c_str() + 6, "%ld %ld %ld %ld %ld", &recs[cur].c0, &recs[cur].c1, &recs[cur].isolves, &recs[cur].inonconv, &recs[cur].notes);
              else if (ln.compare(0, 7, "result ") == 0) recs[cur].res = ln.substr(7);
          } }
        std::remove(cf.c_str());
        if (st == 0 && cur == (long) N - 1 && !recs[N - 1].res.empty()) break;
        // the child died: in case `cur` if that case has no result, otherwise before it could begin the next one
        size_t j = (cur >= 0 && recs[cur].res.empty()) ? (size_t) cur : (cur >= 0 ? (size_t) cur + 1 : start);
        if (j >= N) break;
        killed[j] = st != 0 ? st : 999; recs[j].begun = true;
        start = j + 1;
    }
    for (size_t t = 0; t < N; t++) {
        const NestCase& q = qs[t]; const Rec& r = recs[t]; const int st = killed[t];
        const std::string who = std::string(NestSolver<KIND>::name()) + "<NestOp> nested inside its own operator (n_outer=" + str(q.n) + ", n_inner=" + str(q.m) + "): ";
        out.count("D_nested_cases"); out.count(q.share ? "D_nested_different_size" : "D_nested_equal_size"); out.count(std::string("D_kind_") + NestSolver<KIND>::name());
        out.count("D_outer_op_calls", r.c0); out.count("D_inner_op_calls", r.c1); out.count("D_inner_solves", r.isolves); out.count("D_inner_not_converged", r.inonconv);
        if (q.in_ncv == q.ncv && q.m == q.n) out.count("D_identical_shapes");
        if (!r.note_sig.empty()) out.fail(r.note_sig, who + r.note_what + (st != 0 ? " [then the run was killed: status " + str(st) + "]" : ""), q.rep);
        else if (st != 0 || r.res.empty()) out.fail("nested-abort", who + "the run was killed (sanitizer report / Eigen assertion / signal), child status " + str(st) + "; the non-nested reference run of the same linear map gave `" + ref[t].substr(0, 120) + "`", q.rep);
        if (st != 0 || r.res.empty()) { out.count("D_child_aborted"); continue; }
        if (r.res != ref[t]) out.fail("nested-differs-from-reference", who + "result `" + r.res.substr(0, 200) + "` differs from the non-nested run of the same linear map `" + ref[t].substr(0, 200) + "`", q.rep);
        else out.count("D_bitwise_equal_to_reference");
        if (r.res.compare(0, 6, "info=0") == 0) out.count("D_outer_converged");
        if (r.res.compare(0, 9, "exception") == 0) out.count("D_outer_exception");
        long bound = 2 + 2L * q.ncv * (q.maxit + 1);
        if (r.c0 > bound) out.fail("work-bound", who + "outer operator applied " + str(r.c0) + " times > 2+2*ncv*(maxit+1) = " + str(bound), q.rep);
        if (r.c0 != refcalls[t]) out.fail("nested-differs-from-reference", who + "outer operator applied " + str(r.c0) + " times, " + str(refcalls[t]) + " times in the non-nested run", q.rep);
    }
}
static void nest_dispatch(const Args& a, Out& out, int kind, const std::vector<NestCase>& qs) {
    if (kind == 0) nest_batch<0>(a, out, qs); else if (kind == 1) nest_batch<1>(a, out, qs); else nest_batch<2>(a, out, qs);
}
static void part_D(const Args& a, Out& out) {
    Spectra::verif::observer() = nullptr;
    const int per = a.thorough() ? 40 : 6;      // per (kind, share)
    for (int kind = 0; kind < 3; kind++) {
        std::vector<NestCase> qs;
        for (int share = 0; share < 2; share++) for (int i = 0; i < per; i++) qs.push_back(nest_case(a.seed, kind, share, i));
        nest_dispatch(a, out, kind, qs);
    }
}
static bool replay_D(const Args& a, Out& out) {
    std::ifstream f(a.replay); std::string t((std::istreambuf_iterator<char>(f)), {});
    size_t rp = t.find("\"replay\""); if (rp != std::string::npos) t = t.substr(rp);
    if (t.find("\"part\":\"D\"") == std::string::npos && t.find("\"part\": \"D\"") == std::string::npos) return false;
    bool diff = t.find("different-size") != std::string::npos;
    const int kind = (int) jget(t, "kind", 0);
    nest_dispatch(a, out, kind, std::vector<NestCase>{nest_case((uint64_t) jget(t, "seed", (long) a.seed), kind, diff ? 1 : 0, (int) jget(t, "idx", 0))});
    out.count("replayed_D");
    return true;
}

static bool replay_A(const Args& a, Out& out) {
    std::ifstream f(a.replay); std::string t((std::istreambuf_iterator<char>(f)), {});
    size_t rp = t.find("\"replay\""); if (rp != std::string::npos) t = t.substr(rp);
    if (t.find("\"part\":\"A\"") == std::string::npos && t.find("\"part\": \"A\"") == std::string::npos) return false;
    int nev = (int) jget(t, "nev", 1), ncv = (int) jget(t, "ncv", 3), nconv = (int) jget(t, "nconv", 0); unsigned long zm = (unsigned long) jget(t, "zmask", 0);
    bool herm = t.find("herm") != std::string::npos;
    std::string rep = "{\"part\":\"A\",\"fam\":\"" + std::string(herm ? "herm" : "gen") + "\",\"nev\":" + str(nev) + ",\"ncv\":" + str(ncv) + ",\"zmask\":" + str(zm) + ",\"nconv\":" + str(nconv) + "}";
    Mat I = Mat::Identity(ncv, ncv); Index k;
    if (herm) { Spectra::DenseSymMatProd<double> op(I); Spectra::SymEigsSolver<Spectra::DenseSymMatProd<double>> s(op, nev, ncv); auto& est = AX::ritz_est(s); est.resize(ncv);
                for (int i = 0; i < ncv; i++) est[i] = ((zm >> i) & 1) ? 0.0 : 1.0; k = AX::nev_adj(s, nconv);
                if (!(k >= nev && k <= ncv - 1)) out.fail("restart-size-range", "HermEigsBase::nev_adjusted returned " + str(k) + " outside [nev, ncv-1]", rep); }
    else { std::string pat(ncv, 'r'); size_t pp = t.find("\"pat\":"); if (pp != std::string::npos) { size_t q = t.find('"', pp + 6); size_t q2 = t.find('"', q + 1); pat = t.substr(q + 1, q2 - q - 1); }
           Spectra::DenseGenMatProd<double> op(I); Spectra::GenEigsSolver<Spectra::DenseGenMatProd<double>> s(op, nev, ncv); auto& est = AX::ritz_est(s); est.resize(ncv); auto& val = AX::ritz_val(s); val.resize(ncv);
           for (int i = 0; i < ncv; i++) { double v = ((zm >> i) & 1) ? 0.0 : 1.0; est[i] = Cx(v, v); val[i] = pat_val(i < (int) pat.size() ? pat[i] : 'r', 0.75, 1.25); }
           k = AX::nev_adj(s, nconv);
           if (!(k >= nev && k <= ncv - 1)) out.fail("restart-size-range", "GenEigsBase::nev_adjusted returned " + str(k) + " outside [nev, ncv-1]", rep); }
    out.count("replayed_A");
    return true;
}

int main(int argc, char** argv) {
    Args a(argc, argv); Out out(a.out);
    if (!a.replay.empty() && (replay_A(a, out) || replay_D(a, out))) { out.finish(); return 0; }
    part_A(a, out);
    part_B(a, out);
    part_C(a, out);
    part_D(a, out);
    { std::ofstream lc(a.out + "/lastcase.txt"); lc << "done\n"; }
    out.finish();
    return 0;
}
