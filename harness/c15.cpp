// C15 harness: real DavidsonSymEigsSolver / JDSymEigsBase / SearchSpace / RitzPairs  vs  the Lean model (correspondence)
// plus the property's own oracle (true residuals from A, unit norms, orthonormality, order, return value, finiteness),
// all in long double on the implementation's outputs.
//
// Request kinds (one line each; floats as decimal uint64 bit patterns):
//   sizes n nev nvec_init nvec_max                      -> "throw" | "ok max init corr"      (constructor; exact)
//   run   n nev nvec_init nvec_max rule maxit tol g  A(n*n) G(n*g)
//         full compute()/compute_with_guess() with the model's OWN eigen-solver / orthogonalisation
//                                                        -> info ret niter nsz sizes.. nev evals..   (tolerance, see c15.py)
//   initspace n init rule diag(n)                       -> ["r" rows.. ] "v" key(diag[rows])..       (setup_initial_search_space; exact, rows only for n <= 16: std::sort is stable there)
//   dpr   n corr diag(n) theta(corr) R(n*corr)          -> correction entries, NaN canonicalised  (calculate_correction_vector; bit-exact)
//   step  n nev max init corr rule maxit tol  m B(n*m) W(n*m) th(m) Y(m*m)  A(n*n)  m2 B2(n*m2)  ok2 k2 th2(k2) Y2(k2*k2)
//         one trip round the REAL loop (state at the break of iteration maxit-2  ->  state at the break of iteration maxit-1),
//         the third-party kernels (HouseholderQR inside extend_basis, SelfAdjointEigenSolver) replayed from the recording
//                                                        -> restart m' info niter ret nfl flags.. leftsame lenok inspan blockok eigok | norms(m') | W'(n*m')
//         blockok = the columns the recorded HouseholderQR kernel appended are orthonormal AMONG THEMSELVES (unit norm, |q_i . q_j| <= 1e-8):
//         the Q factor of a Householder QR has this property for EVERY input block, rank deficient or not (a zero or non-unit column is not a Q factor)
//   recall n nev max init corr rule maxit tol  pinfo pniter  mb B(n*mb) mw W(n*mw)  kp th(kp) X(n*kp) R(n*kp)  nfl flags(nfl)  A(n*n)  g G(n*g)  ok2 k2 th2(k2) Y2(k2*k2)
//         a call with maxit in {0, 1} on a USED solver object: the model's computeWithGuess starts from the state the previous call on the same
//         object left behind (basis, cached products, Ritz values / vectors, flags, info, niter; also after a call that threw), g = 0 means
//         compute() (default space); SelfAdjointEigenSolver replayed from the recording (k2 = 0 when maxit = 0: the loop body never runs).
//         Since /repo 6587027 compute_with_guess resets m_ritz_pairs and m_info as well, so the answer must not depend on that state:
//         maxit = 0 gives NotComputed / 0 / no eigenvalue / no flag whatever the object held (was: the previous call's results, F21)
//                                                        -> info niter ret nfl flags.. nev evals(bits, exact).. eigok | norms | W'(n*m')
//
// Shapes of use (audited against five blind spots shared by harnesses of this framework; counters hist_*, view_*, acc_*, edge_*):
//   (1) HISTORIES on ONE solver object: every case replays its own call and then 3 more calls (other rule / maxit in {0,1,2,3,100} / tol,
//       compute() <-> compute_with_guess(), also after NotConverging and after a throwing call) on the same object; every result must be
//       BIT-IDENTICAL (accessors and all internal members) to a FRESH object given the same last call, and then satisfies the property
//       predicate of THAT call (mechanism tags computed from prefix runs of that call);
//   (2) the guess matrix passed as a block of a larger matrix, a Map with outer stride, a const Ref, a Map with inner stride (temporary inside
//       the Ref), with canaries around the view; the operator's matrix as a block / outer-stride Map (dense; strictly upper triangle poisoned:
//       Uplo = Lower never reads it) and as a Map / uncompressed matrix (sparse): bitwise equal to the owning-matrix run;
//   (3) eigenvalues() / eigenvectors() / info() / num_iterations() called three times in random orders after every call;
//   (4) the caller's guess matrix, rule, maxit, tol (after the call) and nev, nvec_init, nvec_max (after construction) live on the heap and are
//       overwritten and freed before the accessors are queried (ASan sees a member that kept a reference);
//   (5) edge share: nev in {1, n-1} x four rules x maxit in {0, 1, 100} x sizes {2-argument ctor, smallest legal (init = max = nev), init = nev
//       and max = nev + corr}, n in 4..8 (thorough ..14).
// Eigen assertions are turned into exceptions so that an assertion failure is a recorded outcome, not a dead harness.
#include <stdexcept>
#include <string>
#include <memory>
struct VhAssert : std::runtime_error { explicit VhAssert(const char* m) : std::runtime_error(m) {} };
#define eigen_assert(x) do { if (!(x)) throw VhAssert(#x); } while (0)
#include "common.h"
#include <Eigen/Core>
#include <Eigen/SparseCore>
#include <Eigen/QR>
#include <Eigen/SVD>
#include <Spectra/DavidsonSymEigsSolver.h>
#include <Spectra/MatOp/DenseSymMatProd.h>
#include <Spectra/MatOp/SparseSymMatProd.h>
using namespace vh;
using Spectra::SortRule;
typedef long double LD;
typedef Eigen::MatrixXd Mat;
typedef Eigen::VectorXd Vec;
typedef Eigen::Index Index;

struct SpectraVerifAccess {
    template <class S> static const Mat& basis(const S& s) { return s.m_search_space.m_basis_vectors; }
    template <class S> static const Mat& opbasis(const S& s) { return s.m_search_space.m_op_basis_product; }
    template <class S> static const Vec& values(const S& s) { return s.m_ritz_pairs.m_values; }
    template <class S> static const Mat& small(const S& s) { return s.m_ritz_pairs.m_small_vectors; }
    template <class S> static const Mat& vectors(const S& s) { return s.m_ritz_pairs.m_vectors; }
    template <class S> static const Mat& residues(const S& s) { return s.m_ritz_pairs.m_residues; }
    template <class S> static const Eigen::Array<bool, Eigen::Dynamic, 1>& flags(const S& s) { return s.m_ritz_pairs.m_root_converged; }
    template <class S> static Index maxsz(const S& s) { return s.m_max_search_space_size; }
    template <class S> static Index initsz(const S& s) { return s.m_initial_search_space_size; }
    template <class S> static Index corrsz(const S& s) { return s.m_correction_size; }
};
typedef SpectraVerifAccess AX;

static const char* RN[9] = {"LargestMagn", "LargestReal", "LargestImag", "LargestAlge", "SmallestMagn", "SmallestReal", "SmallestImag", "SmallestAlge", "BothEnds"};
static const char* CLS[12] = {"diagdom", "dense", "blockdiag", "decoupled", "diagonal", "clustered", "exactritz", "graded", "arrowhead", "bordered", "twin", "arrowblock"};
static const long STRUCT_BASE = 1000000;   // case indices >= STRUCT_BASE: the structured share (gen_struct_case)
static const long EDGE_BASE = 2000000;     // case indices >= EDGE_BASE: the edge share (gen_edge_case)
static const char* GK[4] = {"default", "orthonormal", "nonorthonormal", "dependent"};

struct Case {
    long idx = 0; int cls = 0; int n = 0; int nev = 1; bool two_arg = true; long nvec_init = 0, nvec_max = 0; int rule = 0; int maxit = 100; double tol = 1e-8;
    bool sparse = false; int gkind = 0; Mat A; Mat G; long mx = -1, in = -1, co = -1;   // sizes after the constructor
    bool structured = false; std::vector<int> hubs; int defn = 0;   // structured share: hub coordinates, definiteness (0 positive, 1 negative, 2 indefinite)
    bool edge = false; int wide_guess = 0;   // edge share (gen_edge_case); wide_guess > 0: corpus history that ends with a user space of that many (> max) columns
    int wide_mid = 0;                        // > 0: corpus history whose LAST BUT ONE call has a user space of that many (> max) columns (it throws: F20); the last call (maxit in {0, 1}) then runs on an object left by a throwing call
};

static std::string bits(const Mat& M) { std::string s; for (Index j = 0; j < M.cols(); j++) for (Index i = 0; i < M.rows(); i++) { s += ' '; s += str(dbits(M(i, j))); } return s; }
static std::string bitsv(const Vec& v) { std::string s; for (Index i = 0; i < v.size(); i++) { s += ' '; s += str(dbits(v[i])); } return s; }

static std::string replay_json(const Case& c, uint64_t seed, const std::string& tier, const std::string& extra = "") {
    std::ostringstream o;
    o << "{\"harness\":\"c15\",\"seed\":" << seed << ",\"tier\":\"" << tier << "\",\"idx\":" << c.idx << ",\"cls\":\"" << CLS[c.cls] << "\",\"n\":" << c.n << ",\"nev\":" << c.nev
      << ",\"two_arg_ctor\":" << (c.two_arg ? 1 : 0) << ",\"nvec_init\":" << c.nvec_init << ",\"nvec_max\":" << c.nvec_max << ",\"rule\":\"" << RN[c.rule] << "\",\"maxit\":" << c.maxit
      << ",\"tol\":" << c.tol << ",\"op\":\"" << (c.sparse ? "SparseSymMatProd" : "DenseSymMatProd") << "\",\"guess\":\"" << GK[c.gkind] << "\"" << extra << ",\"A_bits_colmajor\":[";
    bool f = true; for (Index j = 0; j < c.A.cols(); j++) for (Index i = 0; i < c.A.rows(); i++) { if (!f) o << ","; f = false; o << dbits(c.A(i, j)); }
    o << "],\"guess_bits_colmajor\":[";
    f = true; for (Index j = 0; j < c.G.cols(); j++) for (Index i = 0; i < c.G.rows(); i++) { if (!f) o << ","; f = false; o << dbits(c.G(i, j)); }
    o << "]}";
    return o.str();
}

// ------------------------------------------------------------------ generators
static Mat sym_random(Rng& r, int n, double off) { Mat A(n, n); for (int i = 0; i < n; i++) for (int j = 0; j <= i; j++) { double v = (i == j) ? r.sym() : off * r.sym(); A(i, j) = v; A(j, i) = v; } return A; }

// matrix of class `cls` (0..7), drawn from `r` (the draws of gen_case, in its order)
static Mat gen_matrix(Rng& r, int cls, int n, int rule) {
    Mat A = Mat::Zero(n, n);
    switch (cls) {
    case 0: { A = sym_random(r, n, 0.05); std::vector<int> p(n); for (int i = 0; i < n; i++) p[i] = i; for (int i = n - 1; i > 0; i--) std::swap(p[i], p[r.below(i + 1)]);
              for (int i = 0; i < n; i++) A(i, i) = (double) (p[i] + 1) * (r.coin() ? 1.0 : 1.0) + 0.1 * r.sym(); if (r.coin(0.3)) A = -A; break; }
    case 1: { A = sym_random(r, n, 1.0); break; }
    case 2: { int b = r.range(1, std::max(1, n / 2)); Mat B1 = sym_random(r, b, 1.0), B2 = sym_random(r, n - b, 0.3); for (int i = 0; i < n - b; i++) B2(i, i) += i; A.topLeftCorner(b, b) = B1; A.bottomRightCorner(n - b, n - b) = B2; break; }
    case 3: { A = sym_random(r, n, 0.2); for (int i = 0; i < n; i++) A(i, i) = i + 1 + 0.25 * r.sym();   // one exactly decoupled coordinate whose diagonal is extreme for the rule
              int k = (int) r.below(n); for (int i = 0; i < n; i++) if (i != k) { A(i, k) = 0; A(k, i) = 0; }
              double big = (double) (n + 3 + r.range(0, 3)); A(k, k) = (rule == 0 || rule == 3) ? big : (rule == 7 ? -big : 0.015625 * r.range(0, 1)); break; }
    case 4: { for (int i = 0; i < n; i++) A(i, i) = r.coin(0.2) ? (double) r.range(-3, 3) : 4 * r.sym(); break; }
    case 5: { A = sym_random(r, n, 0.02); for (int i = 0; i < n; i++) A(i, i) = (double) (i / 3) + 1e-3 * r.sym() * (r.coin() ? 1 : 0); break; }
    case 6: { // exact Ritz vectors: a 2x2 / 3x3 leading block decoupled from the rest, block holds the wanted end of the spectrum
              A = sym_random(r, n, 0.3); for (int i = 0; i < n; i++) A(i, i) = i + 1; int b = r.range(1, std::min(3, n - 2));
              std::vector<int> ids; for (int i = 0; i < b; i++) ids.push_back((rule == 0 || rule == 3) ? n - 1 - i : i);
              for (int id : ids) for (int j = 0; j < n; j++) { bool in = std::find(ids.begin(), ids.end(), j) != ids.end(); if (!in) { A(id, j) = 0; A(j, id) = 0; } }
              for (int id : ids) A(id, id) += (rule == 0 || rule == 3) ? 5.0 : (rule == 7 ? -5.0 : -A(id, id) + 0.01 * (id + 1)); break; }
    default: { A = sym_random(r, n, 1.0); for (int i = 0; i < n; i++) { double s = std::pow(10.0, -6.0 * i / n); A.row(i) *= s; A.col(i) *= s; } break; }
    }
    return A;
}

static Case gen_case(uint64_t seed, long idx, bool thorough) {
    Rng r(seed, 15, (uint64_t) idx); Case c; c.idx = idx;
    static const int rules[4] = {0, 3, 4, 7};
    c.cls = (int) r.below(8);
    int nmax = thorough ? 40 : 20;
    c.n = r.coin(0.6) ? r.range(4, 12) : r.range(4, nmax);
    int n = c.n;
    c.rule = rules[r.below(4)];
    c.sparse = r.coin(0.4);
    Mat A = gen_matrix(r, c.cls, n, c.rule);
    c.A = A;
    // nev and sizes
    c.nev = r.coin(0.7) ? r.range(1, std::max(1, n / 3)) : r.range(1, n - 1);
    c.two_arg = r.coin(0.5);
    if (c.two_arg) { c.nvec_init = 2 * c.nev; c.nvec_max = 10 * c.nev; }
    else { c.nvec_init = r.range(c.nev, std::max(c.nev, n / 2 + 1)); c.nvec_max = r.coin(0.5) ? r.range((int) c.nvec_init, n + 2) : r.range((int) c.nvec_init + 1, (int) c.nvec_init + 2 * c.nev + 1); }
    static const double tols[5] = {1e-5, 1e-6, 1e-7, 1e-8, 1e-10};
    c.tol = tols[r.below(5)];
    c.maxit = r.coin(0.15) ? r.range(1, 4) : 100;
    // initial space
    c.gkind = r.coin(0.55) ? 0 : (int) r.range(1, 3);
    c.G = Mat(n, 0);
    return c;
}

// user guess with g columns, built after the constructor so that g >= correction size
static Mat make_guess(Rng& r, int kind, int n, int g) {
    Mat G = Mat::NullaryExpr(n, g, [&](Index, Index) { return r.sym(); });
    if (kind == 1) { Eigen::HouseholderQR<Mat> qr(G); G = qr.householderQ() * Mat::Identity(n, g); }
    if (kind == 3 && g >= 2) { int a = (int) r.below(g), b = (a + 1 + (int) r.below(g - 1)) % g; G.col(b) = r.coin() ? Vec(G.col(a)) : Vec(2.0 * G.col(a)); }
    return G;
}


static LD rule_key(int rule, double x);

// ------------------------------------------------------------------ structured share: linearly dependent DPR correction blocks
// The default initial space of DavidsonSymEigsSolver is a set S of unit coordinate vectors.  When the coordinates of S are coupled to the
// rest of the matrix through a few "hub" coordinates only (arrowhead / bordered-diagonal matrix, or such a block of a block-diagonal
// matrix), the Ritz pairs of the first iteration are (a_ii, e_i) exactly, every residue lies in span{e_h : h a hub} and so does every DPR
// correction: with one hub the corrections are exactly PARALLEL, with b hubs and more than b corrections they are linearly dependent, and
// when two coordinates of S have the same diagonal entry and the same couplings ("twin") their corrections are exactly EQUAL.  Entries are
// small integers / dyadic fractions, so these relations hold bit for bit.  HouseholderQR inside extend_basis returns an orthonormal block
// for such rank-deficient input and the run must end with genuine pairs (or not Successful); the share cycles through
// {arrowhead, bordered, twin, arrowhead block + dense block} x {LargestMagn, LargestAlge, SmallestMagn, SmallestAlge} x {positive definite,
// negative definite, indefinite} (period 48) with nev >= 2, dense and sparse wrappers, default and user-supplied (coordinate) spaces.
static Case gen_struct_case(uint64_t seed, long i, bool thorough) {
    Rng r(seed, 1508, (uint64_t) i); Case c; c.idx = STRUCT_BASE + i; c.structured = true;
    static const int rules[4] = {0, 3, 4, 7};
    const int sk = (int) (i % 4); c.cls = 8 + sk;
    c.rule = rules[(i / 4) % 4];
    c.defn = (int) ((i / 16) % 3);
    const int n1 = r.coin(0.6) ? r.range(9, 16) : r.range(9, thorough ? 36 : 20);          // size of the arrowhead / bordered part
    const int n2 = (sk == 3) ? r.range(2, thorough ? 8 : 5) : 0;                            // dense block next to it
    const int n = n1 + n2; c.n = n;
    c.nev = r.range(2, std::max(2, std::min(4, n1 / 4)));
    c.sparse = r.coin(0.4);
    std::vector<int> p(n1); for (int k = 0; k < n1; k++) p[k] = k + 1; for (int k = n1 - 1; k > 0; k--) std::swap(p[k], p[r.below(k + 1)]);
    std::vector<int> val(n1); for (int k = 0; k < n1; k++) val[k] = (sk == 2) ? (p[k] + 1) / 2 : p[k];    // twin: every diagonal value occurs twice
    auto dg = [&](double v) { return c.defn == 0 ? v : c.defn == 1 ? -v : v - (double) (n1 / 2) - 0.25; };
    Mat A = Mat::Zero(n, n);
    for (int k = 0; k < n1; k++) A(k, k) = dg((double) val[k]);
    // hubs: with probability 0.8 outside the 3*nev coordinates the rule ranks first (the default initial space holds the first 2*nev)
    const int nb = (sk == 0 || sk == 3) ? 1 : r.range(1, 2) + ((thorough && r.coin(0.2)) ? 1 : 0);
    std::vector<int> ord(n1); for (int k = 0; k < n1; k++) ord[k] = k;
    std::stable_sort(ord.begin(), ord.end(), [&](int a, int b) { return rule_key(c.rule, A(a, a)) < rule_key(c.rule, A(b, b)); });
    const int prot = r.coin(0.8) ? std::min(n1 - nb, 3 * c.nev) : 0;
    std::vector<int> cand(ord.begin() + prot, ord.end());
    for (int k = (int) cand.size() - 1; k > 0; k--) std::swap(cand[k], cand[r.below(k + 1)]);
    c.hubs.assign(cand.begin(), cand.begin() + nb);
    auto is_hub = [&](int k) { return std::find(c.hubs.begin(), c.hubs.end(), k) != c.hubs.end(); };
    // couplings k/8, k = +-1..+-4, a function of (hub, diagonal VALUE): twins share their couplings
    for (int h : c.hubs) { std::vector<double> cpl(n1 + 2); for (auto& x : cpl) x = (r.coin() ? 1.0 : -1.0) * (double) r.range(1, 4) / 8.0;
        for (int k = 0; k < n1; k++) if (k != h && !(is_hub(k) && k < h)) { A(k, h) = cpl[val[k]]; A(h, k) = cpl[val[k]]; } }
    if (n2 > 0) {   // dense block with a mid-range diagonal (never the wanted end of the spectrum), decoupled from the arrowhead block
        double mid = (c.defn == 2) ? ((c.rule == 0 || c.rule == 4) ? (double) (n1 / 4) + 0.375 : 0.375) : (double) (n1 / 2) + 0.375; if (c.defn == 1) mid = -mid;
        for (int a = 0; a < n2; a++) for (int b = 0; b <= a; b++) { double v = (a == b) ? mid + a / 64.0 : 0.05 * r.sym(); A(n1 + a, n1 + b) = v; A(n1 + b, n1 + a) = v; } }
    c.A = A;
    c.two_arg = r.coin(0.65);
    if (c.two_arg) { c.nvec_init = 2 * c.nev; c.nvec_max = 10 * c.nev; }
    else { c.nvec_init = r.range(c.nev, 2 * c.nev + 1); c.nvec_max = r.range((int) c.nvec_init + c.nev, std::max((int) c.nvec_init + c.nev, n)); }
    static const double tols[5] = {1e-5, 1e-6, 1e-7, 1e-8, 1e-10};
    c.tol = tols[r.below(5)];
    c.maxit = r.coin(0.1) ? r.range(2, 4) : 100;
    { double u = r.unit(); c.gkind = u < 0.5 ? 0 : u < 0.75 ? 1 : u < 0.87 ? 2 : 3; }
    c.G = Mat(n, 0);
    return c;
}

// user space for the structured share: g signed unit coordinate vectors (orthonormal, exact), avoiding the hubs where possible - either
// the g coordinates the rule ranks first among the non-hubs or g random ones; kind 2 scales some columns by 2 or 1/2 (non-orthonormal),
// kind 3 repeats a column (dependent)
static Mat make_struct_guess(Rng& r, const Case& c, int g) {
    const int n = c.n; std::vector<int> idx;
    for (int k = 0; k < n; k++) if (std::find(c.hubs.begin(), c.hubs.end(), k) == c.hubs.end()) idx.push_back(k);
    if ((int) idx.size() < g) { idx.clear(); for (int k = 0; k < n; k++) idx.push_back(k); }
    if (r.coin()) std::stable_sort(idx.begin(), idx.end(), [&](int a, int b) { return rule_key(c.rule, c.A(a, a)) < rule_key(c.rule, c.A(b, b)); });
    else for (int k = (int) idx.size() - 1; k > 0; k--) std::swap(idx[k], idx[r.below(k + 1)]);
    Mat G = Mat::Zero(n, g);
    for (int j = 0; j < g; j++) G(idx[j], j) = r.coin() ? 1.0 : -1.0;
    if (c.gkind == 2) { int j0 = (int) r.below(g); for (int j = 0; j < g; j++) if (j == j0 || r.coin(0.3)) G.col(j) *= (r.coin() ? 2.0 : 0.5); }
    if (c.gkind == 3 && g >= 2) { int a = (int) r.below(g), b = (a + 1 + (int) r.below(g - 1)) % g; G.col(b) = r.coin() ? Vec(G.col(a)) : Vec(-2.0 * G.col(a)); }
    return G;
}

// ------------------------------------------------------------------ edge share: configuration-dependent guards
// period 72 = {LargestMagn, LargestAlge, SmallestMagn, SmallestAlge} x nev in {1, n-1} x maxit in {0, 1, 100} x sizes {2-argument constructor,
// smallest legal (nvec_init = nvec_max = nev), nvec_init = nev and nvec_max = nev + correction size}; small n so that the space reaches n
static Case gen_edge_case(uint64_t seed, long i, bool thorough) {
    Rng r(seed, 1530, (uint64_t) i); Case c; c.idx = EDGE_BASE + i; c.edge = true;
    static const int rules[4] = {0, 3, 4, 7};
    static const int maxits[3] = {0, 1, 100};
    c.rule = rules[i % 4];
    const int nevk = (int) ((i / 4) % 2), mk = (int) ((i / 8) % 3), sk = (int) ((i / 24) % 3);
    c.n = r.range(4, thorough ? 14 : 8); const int n = c.n;
    c.cls = (int) r.below(8);
    c.sparse = r.coin(0.4);
    c.A = gen_matrix(r, c.cls, n, c.rule);
    c.nev = nevk == 0 ? 1 : n - 1;
    c.maxit = maxits[mk];
    if (sk == 0) { c.two_arg = true; c.nvec_init = 2 * c.nev; c.nvec_max = 10 * c.nev; }
    else { c.two_arg = false; c.nvec_init = c.nev; const long co = (2 * c.nev <= n) ? c.nev : std::min<long>(n / 3, n - c.nev); c.nvec_max = sk == 1 ? c.nev : c.nev + co; }
    static const double tols[5] = {1e-5, 1e-6, 1e-7, 1e-8, 1e-10};
    c.tol = tols[r.below(5)];
    c.gkind = r.coin(0.6) ? 0 : 1;
    c.G = Mat(n, 0);
    return c;
}

struct Snap {   // state of a solver after compute*/compute_with_guess
    bool threw = false; std::string what; bool assert_fail = false;
    int info = 1; long ret = -1, niter = -1; Mat B, W, Y, X, R; Vec th; std::vector<int> flags; Vec evals; Mat evecs; bool acc_threw = false; std::string acc_what; Mat C; bool haveC = false; std::vector<long> init_rows;
};

static bool same_bits(const Mat& a, const Mat& b) { return a.rows() == b.rows() && a.cols() == b.cols() && (a.size() == 0 || std::memcmp(a.data(), b.data(), sizeof(double) * (size_t) a.size()) == 0); }
static bool same_bitsv(const Vec& a, const Vec& b) { return a.size() == b.size() && (a.size() == 0 || std::memcmp(a.data(), b.data(), sizeof(double) * (size_t) a.size()) == 0); }
// the members in which two snapshots differ bit for bit, comma separated ("" = identical): the public results first, then every internal member
static std::string snap_diff(const Snap& a, const Snap& b) {
    std::string d; auto add = [&](bool differs, const char* what) { if (differs) { if (!d.empty()) d += ","; d += what; } };
    add(a.threw != b.threw || a.what != b.what, "raised");
    add(a.info != b.info, "info()");
    add(a.ret != b.ret, "return value");
    add(a.niter != b.niter, "num_iterations()");
    add(a.acc_threw != b.acc_threw, "accessor raised");
    add(!same_bitsv(a.evals, b.evals), "eigenvalues()");
    add(!same_bits(a.evecs, b.evecs), "eigenvectors()");
    add(!same_bits(a.B, b.B), "m_search_space.m_basis_vectors");
    add(!same_bits(a.W, b.W), "m_search_space.m_op_basis_product");
    add(!same_bitsv(a.th, b.th), "m_ritz_pairs.m_values");
    add(!same_bits(a.Y, b.Y), "m_ritz_pairs.m_small_vectors");
    add(!same_bits(a.X, b.X), "m_ritz_pairs.m_vectors");
    add(!same_bits(a.R, b.R), "m_ritz_pairs.m_residues");
    add(a.flags != b.flags, "m_ritz_pairs.m_root_converged");
    return d;
}

template <class Op> using Solver = Spectra::DavidsonSymEigsSolver<Op>;

// constructor arguments live on the heap and are overwritten and freed as soon as the constructor has returned (blind spot 4)
template <class Op>
static std::unique_ptr<Solver<Op>> make_solver(Op& op, const Case& c) {
    std::unique_ptr<Solver<Op>> sp;
    std::unique_ptr<Index> pnev(new Index(c.nev)), pin(new Index(c.nvec_init)), pmx(new Index(c.nvec_max));
    if (c.two_arg) sp.reset(new Solver<Op>(op, *pnev)); else sp.reset(new Solver<Op>(op, *pnev, *pin, *pmx));
    *pnev = -77; *pin = -78; *pmx = -79; pnev.reset(); pin.reset(); pmx.reset();
    return sp;
}

template <class S>
static void take_state(const S& solver, Snap& s) {
    s.info = (int) solver.info(); s.niter = (long) solver.num_iterations();
    s.B = AX::basis(solver); s.W = AX::opbasis(solver); s.Y = AX::small(solver); s.X = AX::vectors(solver); s.R = AX::residues(solver); s.th = AX::values(solver);
    auto& f = AX::flags(solver); s.flags.clear(); for (Index i = 0; i < f.size(); i++) s.flags.push_back(f[i] ? 1 : 0);
}

template <class Op>
static Snap run_real(Op& op, const Case& c, int maxit) {
    Snap s;
    try {
        auto sp = make_solver(op, c);
        auto& solver = *sp;
        try {
            if (c.gkind == 0) s.ret = (long) solver.compute((SortRule) c.rule, maxit, c.tol);
            else s.ret = (long) solver.compute_with_guess(c.G, (SortRule) c.rule, maxit, c.tol);
        } catch (const VhAssert& e) { s.threw = true; s.assert_fail = true; s.what = e.what(); }
        catch (const std::exception& e) { s.threw = true; s.what = e.what(); }
        take_state(solver, s);
        try { if (s.th.size() >= AX::corrsz(solver) && s.R.cols() >= AX::corrsz(solver) && s.R.rows() == c.n) { s.C = solver.calculate_correction_vector(); s.haveC = true; } } catch (const std::exception&) {}
        try { Mat I0 = solver.setup_initial_search_space((SortRule) c.rule); for (Index k = 0; k < I0.cols(); k++) { long row = -1; for (Index i = 0; i < I0.rows(); i++) if (I0(i, k) == 1.0) row = (long) i; s.init_rows.push_back(row); } } catch (const std::exception&) {}
        try { s.evals = solver.eigenvalues(); s.evecs = solver.eigenvectors(); }
        catch (const std::exception& e) { s.acc_threw = true; s.acc_what = e.what(); }
    } catch (const std::exception& e) { s.threw = true; s.what = std::string("ctor: ") + e.what(); }
    return s;
}

static bool all_finite(const Mat& M) { for (Index j = 0; j < M.cols(); j++) for (Index i = 0; i < M.rows(); i++) if (!std::isfinite(M(i, j))) return false; return true; }

static LD rule_key(int rule, double x) { switch (rule) { case 0: return -std::fabs((LD) x); case 3: return -(LD) x; case 4: return std::fabs((LD) x); default: return (LD) x; } }

// ------------------------------------------------------------------ the property's oracle on one finished run
// out == nullptr: dry run (nothing written or counted); returns the number of failures.  `extra` = further replay keys (history position ...).
static int oracle(const Case& c, const Snap& s, Out* out, uint64_t seed, const std::string& tier, bool zero_denom, bool in_span, bool block_ok, const std::string& extra = "") {
    const int n = c.n; const int nev = c.nev; int nf = 0;
    auto fail = [&](const std::string& sig, const std::string& what, const std::string& rj) { nf++; if (out) out->fail(sig, what, rj); };
    // mechanism tags used by known-finding matching (computed, not assumed)
    LD gdev = 0; if (c.gkind != 0) { for (Index i = 0; i < c.G.cols(); i++) for (Index j = 0; j < c.G.cols(); j++) { LD d = 0; for (int k = 0; k < n; k++) d += (LD) c.G(k, i) * (LD) c.G(k, j); gdev = std::max(gdev, std::fabs(d - (i == j ? 1.0L : 0.0L))); } }
    // F20c mechanism: a user space of g < initial columns grows g, g + corr, g + 2 corr, ...; the first size beyond max triggers restart(), which takes
    // leftCols(initial) of the Ritz pairs computed at the LAST size s <= max: out of bounds iff s < initial (g + corr > max is the case s = g)
    bool restart_below_initial = false;
    if (c.gkind != 0 && c.co >= 1 && (long) c.G.cols() < c.in && (long) c.G.cols() <= c.mx) { long sz = (long) c.G.cols(); while (sz + c.co <= c.mx) sz += c.co; restart_below_initial = sz < c.in; }
    std::ostringstream ex; ex << ",\"guess_orthonormal\":" << (gdev <= 1e-8L ? 1 : 0) << ",\"zero_denominator_seen\":" << (zero_denom ? 1 : 0) << ",\"degenerate_correction_seen\":" << (in_span ? 1 : 0) << ",\"extension_block_orthonormal\":" << (block_ok ? 1 : 0) << ",\"final_space_lt_nev\":" << ((long) s.th.size() < nev ? 1 : 0) << ",\"flags_lt_nev\":" << ((long) s.flags.size() < nev ? 1 : 0)
                              << ",\"initial_space_gt_max\":" << ((c.gkind == 0 ? c.in : (long) c.G.cols()) > c.mx ? 1 : 0)
                              << ",\"guess_lt_initial_restart\":" << (restart_below_initial ? 1 : 0) << ",\"info\":" << s.info << ",\"ret\":" << s.ret << ",\"raised\":\"" << jesc(s.threw ? s.what : std::string("")) << "\"" << extra;
    std::string rj = replay_json(c, seed, tier, ex.str());
    std::string tag = std::string(CLS[c.cls]) + "/" + GK[c.gkind] + "/" + RN[c.rule] + " n=" + str(n) + " nev=" + str(nev);
    if (out) { out->count("oracle_runs"); out->count(std::string("info_") + str(s.info)); }
    if (s.threw) { if (out) out->count("oracle_threw"); fail(s.assert_fail ? "eigen-assert" : "exception", "compute on " + tag + " raised: " + s.what, rj); return nf; }
    if (s.acc_threw) { fail("accessor-assert", "eigenvalues()/eigenvectors() after compute on " + tag + " (info=" + str(s.info) + ", Ritz pairs=" + str(s.th.size()) + ") raised: " + s.acc_what, rj); return nf; }
    // finiteness whatever the outcome
    bool fin = true; for (Index i = 0; i < s.evals.size(); i++) if (!std::isfinite(s.evals[i])) fin = false;
    if (!all_finite(s.evecs)) fin = false;
    if (!fin) { fail("nonfinite-output", "non-finite eigenvalues/eigenvectors returned (info=" + str(s.info) + ") on " + tag, rj); return nf; }
    if (s.info != 0) return nf;
    if (out) out->count("oracle_successful");
    if (s.ret != nev) { fail("ret-ne-nev", "Successful but compute() returned " + str(s.ret) + " != nev on " + tag, rj); }
    if (s.evals.size() != nev || s.evecs.cols() != nev) { fail("count-ne-nev", "Successful but " + str(s.evals.size()) + " eigenvalues returned on " + tag, rj); return nf; }
    LD fro = 0; for (int i = 0; i < n; i++) for (int j = 0; j < n; j++) fro += (LD) c.A(i, j) * (LD) c.A(i, j); fro = std::sqrt(fro);
    for (int k = 0; k < nev; k++) {
        LD nx = 0; for (int i = 0; i < n; i++) nx += (LD) s.evecs(i, k) * (LD) s.evecs(i, k); nx = std::sqrt(nx);
        LD rr = 0; for (int i = 0; i < n; i++) { LD a = 0; for (int j = 0; j < n; j++) a += (LD) c.A(i, j) * (LD) s.evecs(j, k); a -= (LD) s.evals[k] * (LD) s.evecs(i, k); rr += a * a; } rr = std::sqrt(rr);
        // slack: rounding of the cached products / Ritz vectors, 64 * eps * n * ||A||_F * ||x||  (stated constant)
        LD slack = 64.0L * 2.220446049250313e-16L * n * (fro + 1.0L) * (nx + 1.0L);
        if (!(rr < (LD) c.tol + slack)) { std::ostringstream w; w << "Successful but true residual ||A x - theta x|| = " << (double) rr << " >= tol = " << c.tol << " for pair " << k << " on " << tag; fail("true-residual", w.str(), rj); break; }
        if (!(std::fabs(nx - 1.0L) <= 1e-8L)) { std::ostringstream w; w << "Successful but ||x_" << k << "|| = " << (double) nx << " on " << tag; fail("non-unit-vector", w.str(), rj); break; }
    }
    for (int a = 0; a < nev; a++) for (int b = a + 1; b < nev; b++) { LD d = 0; for (int i = 0; i < n; i++) d += (LD) s.evecs(i, a) * (LD) s.evecs(i, b);
        if (!(std::fabs(d) <= 1e-8L)) { std::ostringstream w; w << "Successful but x_" << a << " . x_" << b << " = " << (double) d << " on " << tag; fail("non-orthogonal-vectors", w.str(), rj); a = nev; break; } }
    for (int k = 0; k + 1 < nev; k++) if (rule_key(c.rule, s.evals[k]) > rule_key(c.rule, s.evals[k + 1])) { fail("order", "returned eigenvalues not ordered by " + std::string(RN[c.rule]) + " at position " + str(k) + " on " + tag, rj); break; }
    return nf;
}

// ------------------------------------------------------------------ prefix runs (maxit = 1, 2, ...): per-iteration states through the REAL loop
// (fresh object per prefix); detects restarts, exact zero denominators, degenerate correction blocks and checks the Q-factor specification
struct Scan { std::vector<Snap> pre; bool zero_denom = false, in_span = false, any_restart = false, space_full = false, block_ok = true; std::string block_what; long block_iter = -1; };

template <class Op>
static Scan scan_prefix(Op& op, const Case& c, const Snap& fin) {
    Scan sc; const int n = c.n; const long co = c.co, mx = c.mx;
    int kmax = (int) std::min<long>(c.maxit, fin.niter >= 0 ? fin.niter + 1 : 1);
    Vec diag = c.A.diagonal();
    bool push = true; long prev_size = -1; int prev_k = -1;
    for (int k = 1; k <= kmax; k++) {
        if (k > 30 && k % 5 != 0 && k != kmax) { push = false; continue; }    // later iterations are sampled (cost is quadratic in the iteration count)
        Snap p = run_real(op, c, k);
        if (std::getenv("C15_DEBUG")) { std::cerr << "maxit=" << k << " threw=" << p.threw << " " << p.what << " info=" << p.info << " niter=" << p.niter << " ret=" << p.ret << " size=" << p.B.cols() << " opcols=" << p.W.cols() << " orthdev=" << (p.B.transpose() * p.B - Mat::Identity(p.B.cols(), p.B.cols())).cwiseAbs().maxCoeff() << "\n  theta=" << p.th.transpose() << "\n  resnorm=" << p.R.colwise().norm() << "\n  xnorm=" << p.X.colwise().norm() << "\n"; }
        if (p.threw && !p.assert_fail) break;
        if (p.threw) push = false;     // the return expression asserted (flag array shorter than nev): state usable for the mechanism tags only
        if (push) sc.pre.push_back(p);
        if (p.B.cols() >= n) sc.space_full = true;
        if (prev_size >= 0 && (long) p.B.cols() < prev_size) sc.any_restart = true;
        // specification of the HouseholderQR kernel on the real code: the co columns appended by extend_basis (no restart in between) are the
        // leading columns of a Q factor, orthonormal among themselves for EVERY input block (rank deficient or not, whatever the old columns are)
        if (sc.block_ok && !p.threw && prev_k == k - 1 && prev_size >= 0 && (long) p.B.cols() == prev_size + co && prev_size + co <= mx && all_finite(p.B)) {
            Mat Q = p.B.rightCols(co); Mat Gq = Q.transpose() * Q - Mat::Identity(co, co); double dev = Gq.cwiseAbs().maxCoeff();
            if (!(dev <= 1e-8)) { sc.block_ok = false; sc.block_iter = k - 1; std::ostringstream w; w << "max|Q^T Q - I| = " << dev << ", column norms";
                for (Index j = 0; j < Q.cols(); j++) w << " " << Q.col(j).norm(); sc.block_what = w.str(); } }
        prev_size = (long) p.B.cols(); prev_k = k;
        if (p.info == 2 || k < kmax) for (Index kk = 0; kk < std::min<Index>(co, p.th.size()); kk++) for (int i = 0; i < n; i++) if (p.th[kk] - diag[i] == 0.0) sc.zero_denom = true;
        if ((p.info == 2 || k < kmax) && p.B.cols() <= n && p.B.cols() > 0 && all_finite(p.B) && all_finite(p.R)) {   // DPR correction numerically inside the current search space (stagnation)?
            Eigen::HouseholderQR<Mat> qr(p.B); Mat Q = qr.householderQ() * Mat::Identity(n, p.B.cols());
            // is the block of DPR corrections, once projected against the space, numerically rank deficient relative to its
            // scale (a correction inside the space, a correction at rounding level, mutually dependent corrections)?
            Index cc = std::min<Index>(co, p.th.size()); Mat T(n, cc); bool fin_t = true;
            for (Index kk = 0; kk < cc; kk++) { Eigen::ArrayXd den = p.th[kk] - diag.array(); T.col(kk) = (den == 0.0).select(0.0, p.R.col(kk).array() / den).matrix(); if (!T.col(kk).allFinite()) fin_t = false; }   // the DPR correction as the library forms it (0 where theta == a_ii)
            if (fin_t && cc > 0) { double tmax = T.colwise().norm().maxCoeff(); Mat P = T - Q * (Q.transpose() * T); P -= Q * (Q.transpose() * P);
                if (tmax == 0) sc.in_span = true; else { Eigen::JacobiSVD<Mat> svd(P); double smin = svd.singularValues()(svd.singularValues().size() - 1); if (cc > n - p.B.cols() || smin <= 1e-6 * tmax) sc.in_span = true; } }
        }
        if (p.info != 2) break;
    }
    return sc;
}

// ------------------------------------------------------------------ histories on ONE solver object (blind spots 1, 3, 4 and the guess part of 2)
struct Call { bool guess = false; int rule = 0; long maxit = 100; double tol = 1e-8; Mat G; int gkind = 0; int view = 0; };
static const char* VW[6] = {"owning", "block", "map_outer_stride", "const_ref", "map_inner_stride", "owning"};
static const uint64_t CANARY = 0x7ff8c15ac15ac15aULL;   // a quiet NaN with a payload: anything computed from it is NaN, and its bit pattern is recognisable

static std::string call_text(const Call& k) {
    std::ostringstream o; if (k.guess) o << "compute_with_guess(" << GK[k.gkind] << " " << k.G.rows() << "x" << k.G.cols() << " as " << VW[k.view] << ", "; else o << "compute(";
    o << RN[k.rule] << ", " << k.maxit << ", " << k.tol << ")"; return o.str();
}

// one call on an EXISTING solver.  rule / maxit / tol and the guess live on the heap; they are overwritten (canary / other values) and freed
// after the call has returned and BEFORE any accessor is queried.  The guess is handed over in the shape `k.view` asks for; `viewfail`
// reports a canary next to the view (or the viewed entries themselves) that the call changed.
template <class S>
static Snap call_on(S& solver, const Call& k, int n, std::string& viewfail) {
    Snap s; const double cv = bitsd(CANARY);
    std::unique_ptr<SortRule> pr(new SortRule((SortRule) k.rule)); std::unique_ptr<Index> pm(new Index(k.maxit)); std::unique_ptr<double> pt(new double(k.tol));
    try {
        if (!k.guess) s.ret = (long) solver.compute(*pr, *pm, *pt);
        else {
            const Index g = k.G.cols();
            if (k.view == 0 || k.view == 5) { std::unique_ptr<Mat> pg(new Mat(k.G)); try { s.ret = (long) solver.compute_with_guess(*pg, *pr, *pm, *pt); } catch (...) { pg->setConstant(cv); throw; } if (!same_bits(*pg, k.G)) viewfail = "owning guess matrix modified"; pg->setConstant(cv); pg.reset(); }
            else if (k.view == 1 || k.view == 3) {
                std::unique_ptr<Mat> big(new Mat(Mat::Constant(n + 5, g + 3, cv))); big->block(2, 1, n, g) = k.G;
                auto chk = [&]() { for (Index j = 0; j < big->cols(); j++) for (Index i = 0; i < big->rows(); i++) { bool in = (i >= 2 && i < 2 + n && j >= 1 && j < 1 + g); uint64_t want = in ? dbits(k.G(i - 2, j - 1)) : CANARY; if (dbits((*big)(i, j)) != want) viewfail = std::string(in ? "viewed guess entry" : "canary next to the guess view") + " changed at (" + str(i) + "," + str(j) + ")"; } };
                try {
                    if (k.view == 1) s.ret = (long) solver.compute_with_guess(big->block(2, 1, n, g), *pr, *pm, *pt);
                    else { const Eigen::Ref<const Mat> ref(big->block(2, 1, n, g)); s.ret = (long) solver.compute_with_guess(ref, *pr, *pm, *pt); }
                } catch (...) { chk(); big->setConstant(cv); throw; }
                chk(); big->setConstant(cv); big.reset();
            } else {
                const Index inner = (k.view == 4) ? 2 : 1, ld = inner * n + 3, off = 2;
                std::unique_ptr<std::vector<double>> buf(new std::vector<double>((size_t) (off + ld * g + 4), cv));
                typedef Eigen::Stride<Eigen::Dynamic, Eigen::Dynamic> St;
                { Eigen::Map<Mat, 0, St> w(buf->data() + off, n, g, St(ld, inner)); w = k.G; }
                std::vector<double> before(*buf);
                auto chk = [&]() { for (size_t i = 0; i < buf->size(); i++) if (dbits((*buf)[i]) != dbits(before[i])) viewfail = "buffer under the strided guess Map changed at offset " + str(i); };
                try {
                    if (k.view == 2) { Eigen::Map<const Mat, 0, Eigen::OuterStride<>> m(buf->data() + off, n, g, Eigen::OuterStride<>(ld)); s.ret = (long) solver.compute_with_guess(m, *pr, *pm, *pt); }
                    else { Eigen::Map<const Mat, 0, St> m(buf->data() + off, n, g, St(ld, inner)); s.ret = (long) solver.compute_with_guess(m, *pr, *pm, *pt); }
                } catch (...) { chk(); std::fill(buf->begin(), buf->end(), cv); throw; }
                chk(); std::fill(buf->begin(), buf->end(), cv); buf.reset();
            }
        }
    } catch (const VhAssert& e) { s.threw = true; s.assert_fail = true; s.what = e.what(); }
    catch (const std::exception& e) { s.threw = true; s.what = e.what(); }
    *pr = SortRule::BothEnds; *pm = -5; *pt = cv; pr.reset(); pm.reset(); pt.reset();
    take_state(solver, s);
    try { s.evals = solver.eigenvalues(); s.evecs = solver.eigenvectors(); }
    catch (const std::exception& e) { s.acc_threw = true; s.acc_what = e.what(); }
    return s;
}

// accessors called three more times each, in random orders: every answer bit-identical to the first one
template <class S>
static std::string accessor_probe(const S& solver, Rng& r, const Snap& ref) {
    if (ref.acc_threw) return "";
    try {
        for (int round = 0; round < 3; round++) {
            int p[4] = {0, 1, 2, 3}; for (int i = 3; i > 0; i--) std::swap(p[i], p[r.below(i + 1)]);
            for (int q = 0; q < 4; q++) switch (p[q]) {
                case 0: { Vec e = solver.eigenvalues(); if (!same_bitsv(e, ref.evals)) return "eigenvalues() changed between two calls (round " + str(round) + ")"; break; }
                case 1: { Mat v = solver.eigenvectors(); if (!same_bits(v, ref.evecs)) return "eigenvectors() changed between two calls (round " + str(round) + ")"; break; }
                case 2: { if ((int) solver.info() != ref.info) return "info() changed between two calls (round " + str(round) + ")"; break; }
                default: { if ((long) solver.num_iterations() != ref.niter) return "num_iterations() changed between two calls (round " + str(round) + ")"; break; }
            }
        }
    } catch (const std::exception& e) { return std::string("accessor raised on a repeated call: ") + e.what(); }
    return "";
}

template <class Op>
static void history(Op& op, const Case& c, const Snap& fin, Out& out, uint64_t seed, const std::string& tier, bool corr) {
    const int n = c.n; const long co = c.co, in = c.in, mx = c.mx;
    Rng r(seed, 1520, (uint64_t) c.idx);
    static const int rules[4] = {0, 3, 4, 7};
    static const double tols[5] = {1e-5, 1e-6, 1e-7, 1e-8, 1e-10};
    // ---- the calls: the case's own call first, then three more; the last one has maxit in {0, 1} (feeds the `recall` correspondence)
    std::vector<Call> calls;
    { Call k; k.guess = c.gkind != 0; k.rule = c.rule; k.maxit = c.maxit; k.tol = c.tol; k.G = c.G; k.gkind = c.gkind; k.view = k.guess ? (int) r.below(5) : 0; calls.push_back(k); }
    const int nmore = 3;
    for (int j = 0; j < nmore; j++) {
        Call k; const Call& prev = calls.back();
        k.rule = r.coin(0.75) ? rules[(std::find(rules, rules + 4, prev.rule) - rules + 1 + r.below(3)) % 4] : prev.rule;
        { double u = r.unit(); k.maxit = u < 0.12 ? 0 : u < 0.27 ? 1 : u < 0.42 ? r.range(2, 3) : 100; }
        k.tol = tols[r.below(5)];
        if (j == nmore - 1) k.maxit = (c.idx + (long) r.below(2)) % 2 == 0 ? 0 : 1;
        if ((c.wide_guess > 0 && j == nmore - 1) || (c.wide_mid > 0 && j == nmore - 2)) { k.maxit = 100; k.guess = true; k.gkind = 1; k.view = 0; k.G = Mat::Identity(n, c.wide_guess > 0 ? c.wide_guess : c.wide_mid); calls.push_back(k); continue; }
        double u = r.unit();
        if (u < 0.5) k.guess = false;
        else {
            k.guess = true; k.view = (int) r.below(5);
            const long glo = std::max<long>(1, co), ghi = std::max<long>(glo, std::min<long>(mx, n - 1));
            long g = std::min<long>(n - 1, std::max<long>(co, in)); if (r.coin(0.3)) g = r.range((int) glo, (int) ghi);
            g = std::max<long>(glo, std::min<long>(g, std::max<long>(ghi, glo)));
            if (u < 0.62 && c.gkind != 0 && c.G.cols() > 0) { k.G = c.G; k.gkind = c.gkind; }        // the case's own user space again
            else if (c.structured) { Case t = c; t.gkind = u < 0.9 ? 1 : 2; k.G = make_struct_guess(r, t, (int) g); k.gkind = t.gkind; }
            else { k.gkind = u < 0.9 ? 1 : 2; k.G = make_guess(r, k.gkind, n, (int) g); }
        }
        calls.push_back(k);
    }
    // ---- ONE object for the whole history
    std::unique_ptr<Solver<Op>> sp;
    try { sp = make_solver(op, c); } catch (const std::exception&) { return; }
    Snap prevh; bool have_prev = false; std::string hist;
    for (size_t j = 0; j < calls.size(); j++) {
        const Call& k = calls[j];
        Case cj = c; cj.rule = k.rule; cj.maxit = (int) k.maxit; cj.tol = k.tol; cj.gkind = k.guess ? k.gkind : 0; cj.G = k.guess ? k.G : Mat(n, 0);
        hist += (j ? "; " : "") + call_text(k);
        std::string viewfail;
        Snap h = call_on(*sp, k, n, viewfail);
        out.count("hist_calls"); out.count(std::string("hist_maxit_") + (k.maxit >= 4 ? std::string("100") : str(k.maxit))); if (k.guess) out.count(std::string("hist_guess_view_") + VW[k.view]); else out.count("hist_compute");
        if (have_prev) { out.count(std::string("hist_after_info_") + str(prevh.info)); if (prevh.threw) out.count("hist_after_throw"); }
        // the same call on a FRESH object, guess as an owning matrix (for the first call: the run one_case made through run_real)
        Snap f = (j == 0) ? fin : run_real(op, cj, (int) k.maxit);
        std::ostringstream ex; ex << ",\"reused_object\":" << (j ? 1 : 0) << ",\"history_call\":" << j << ",\"history\":\"" << jesc(hist) << "\",\"last_call_maxit\":" << k.maxit << ",\"guess_view\":\"" << (k.guess ? VW[k.view] : "none") << "\"";
        if (!viewfail.empty()) { out.fail("guess-view-canary", viewfail + " by " + call_text(k), replay_json(cj, seed, tier, ex.str())); }
        std::string d = snap_diff(h, f);
        if (!d.empty()) {
            // does the used object simply still hold what the PREVIOUS call on it left there?
            bool stale = have_prev && h.info == prevh.info && (prevh.threw || h.ret == prevh.ret) && same_bitsv(h.evals, prevh.evals) && same_bits(h.evecs, prevh.evecs) && same_bitsv(h.th, prevh.th) && same_bits(h.X, prevh.X) && same_bits(h.R, prevh.R) && h.flags == prevh.flags;
            std::ostringstream w; w << "call " << j << " of the history `" << hist << "` on ONE solver object" << ((k.guess && k.view != 0) ? std::string(" (guess handed over as a ") + VW[k.view] + " view)" : std::string("")) << " differs from the same call on a fresh object" << ((k.guess && k.view != 0) ? " given an owning matrix" : "") << " in " << d << " (" << CLS[c.cls] << " n=" << n << " nev=" << c.nev << "): used object info=" << h.info << " ret=" << h.ret << " niter=" << h.niter << " " << h.evals.size() << " eigenvalues" << (h.threw ? " raised " + h.what : std::string(""))
              << "; fresh object info=" << f.info << " ret=" << f.ret << " niter=" << f.niter << " " << f.evals.size() << " eigenvalues" << (f.threw ? " raised " + f.what : std::string(""));
            if (stale) { w << "; the used object still reports the results of the previous call";
                if (h.info == 0 && !h.threw) { bool ord = true; for (Index q = 0; q + 1 < h.evals.size(); q++) if (rule_key(k.rule, h.evals[q]) > rule_key(k.rule, h.evals[q + 1])) ord = false; w << " as Successful" << (ord ? "" : ", not ordered by the rule of this call"); } }
            ex << ",\"differs_in\":\"" << jesc(d) << "\",\"matches_previous_call\":" << (stale ? 1 : 0) << ",\"initial_space_gt_max\":" << ((k.guess ? (long) k.G.cols() : in) > mx ? 1 : 0) << ",\"both_raised_same\":" << ((h.threw && f.threw && h.what == f.what) ? 1 : 0) << ",\"raised\":\"" << jesc(h.threw ? h.what : std::string("")) << "\",\"fresh_raised\":\"" << jesc(f.threw ? f.what : std::string("")) << "\"";
            out.fail("reuse-differs-from-fresh", w.str(), replay_json(cj, seed, tier, ex.str())); out.count("hist_differs_from_fresh"); if (stale) out.count("hist_stale_results");
        } else {
            out.count("hist_equal_fresh");
            // the property's predicate for THIS call (j = 0 was judged by one_case); mechanism tags from prefix runs of this call, made only when a clause fails
            if (j > 0 && oracle(cj, h, nullptr, seed, tier, false, false, true) > 0) { Scan sc = scan_prefix(op, cj, f); oracle(cj, h, &out, seed, tier, sc.zero_denom, sc.in_span, sc.block_ok, ex.str()); out.count("hist_oracle_failures"); }
            else if (j > 0) { out.count("hist_oracle_runs"); if (h.info == 0) out.count("hist_oracle_successful"); }
        }
        std::string af = accessor_probe(*sp, r, h); out.count("acc_probes");
        if (!af.empty()) out.fail("accessor-unstable", af + " after " + call_text(k) + " (history `" + hist + "`)", replay_json(cj, seed, tier, ex.str()));
        // ---- correspondence: this call replayed in the model from the state the previous call left in the object
        if (corr && j > 0 && k.maxit <= 1 && have_prev && !h.threw && n <= 16 && (k.guess ? (long) k.G.cols() : in) <= mx && prevh.th.allFinite() && h.th.allFinite()
            && all_finite(prevh.B) && all_finite(prevh.W) && all_finite(prevh.X) && all_finite(prevh.R) && prevh.X.cols() == prevh.th.size() && prevh.R.cols() == prevh.th.size() && all_finite(h.W) && all_finite(h.Y) && all_finite(h.R)) {
            std::ostringstream rq, rs;
            rq << "recall " << n << " " << c.nev << " " << mx << " " << in << " " << co << " " << k.rule << " " << k.maxit << " " << dbits(k.tol) << " " << prevh.info << " " << prevh.niter
               << " " << prevh.B.cols() << bits(prevh.B) << " " << prevh.W.cols() << bits(prevh.W) << " " << prevh.th.size() << bitsv(prevh.th) << bits(prevh.X) << bits(prevh.R) << " " << prevh.flags.size(); for (int fl : prevh.flags) rq << " " << fl;
            rq << bits(c.A) << " " << (k.guess ? k.G.cols() : 0); if (k.guess) rq << bits(k.G);
            if (k.maxit == 0) rq << " 1 0"; else rq << " 1 " << h.th.size() << bitsv(h.th) << bits(h.Y);
            rs << h.info << " " << h.niter << " " << h.ret << " " << h.flags.size(); for (int fl : h.flags) rs << " " << fl;
            rs << " " << h.evals.size(); for (Index q = 0; q < h.evals.size(); q++) rs << " " << dbits(h.evals[q]);
            rs << " 1 |"; for (Index q = 0; q < h.R.cols(); q++) rs << " " << dbits(h.R.col(q).norm()); rs << " |" << bits(h.W);
            out.corr(rq.str(), rs.str()); out.count(k.maxit == 0 ? "recall_maxit0" : "recall_maxit1"); out.count(std::string("recall_after_info_") + str(prevh.info)); if (prevh.threw) out.count("recall_after_throw");
        }
        prevh = h; have_prev = true;
    }
}

// the operator's matrix handed to the wrapper as a view (blind spot 2): same call on a fresh solver, bitwise equal to the owning-matrix run
template <class Op>
static void view_check(Op& opv, const Case& c, const Snap& fin, const char* shape, Out& out, uint64_t seed, const std::string& tier) {
    Snap v = run_real(opv, c, c.maxit); out.count(std::string("view_op_") + shape);
    std::string d = snap_diff(v, fin);
    if (!d.empty()) { std::ostringstream w, ex; w << "operator built on a " << shape << " of the matrix: result differs from the owning-matrix run in " << d << " (" << CLS[c.cls] << "/" << GK[c.gkind] << "/" << RN[c.rule] << " n=" << c.n << " nev=" << c.nev << "): info " << v.info << " vs " << fin.info << ", niter " << v.niter << " vs " << fin.niter;
        ex << ",\"operator_view\":\"" << shape << "\",\"differs_in\":\"" << jesc(d) << "\""; out.fail("operator-view-differs", w.str(), replay_json(c, seed, tier, ex.str())); }
}

template <class Op>
static Snap one_case(Op& op, Case& c, Out& out, uint64_t seed, const std::string& tier, bool corr) {
    const int n = c.n;
    // ---- constructor: sizes (exact correspondence with Gen.JD / Gen.Guard)
    long mx = -1, in = -1, co = -1; bool ctor_threw = false;
    try {
        auto sp = make_solver(op, c);
        mx = AX::maxsz(*sp); in = AX::initsz(*sp); co = AX::corrsz(*sp);
    } catch (const std::invalid_argument&) { ctor_threw = true; }
    c.mx = mx; c.in = in; c.co = co;
    if (corr) out.corr("sizes " + str(n) + " " + str(c.nev) + " " + str(c.nvec_init) + " " + str(c.nvec_max), ctor_threw ? "throw" : "ok " + str(mx) + " " + str(in) + " " + str(co));
    if (ctor_threw) { out.count("ctor_throw"); Snap s; s.threw = true; s.what = "ctor"; return s; }
    if (in + co > n || mx > n || in < 1 || co < 1) { std::ostringstream ex; ex << ",\"max\":" << mx << ",\"init\":" << in << ",\"corr\":" << co; if (in < 1 || co < 1 || in + co > n) out.fail("sizes-guard", "constructor leaves sizes init=" + str(in) + " corr=" + str(co) + " max=" + str(mx) + " for n=" + str(n), replay_json(c, seed, tier, ex.str())); }
    // ---- initial space supplied by the caller
    if (c.gkind != 0) { Rng rg(seed, 1515, (uint64_t) c.idx); int g = (int) std::min<long>(n - 1, std::max<long>(co, in)); if (c.gkind == 3 && g < 2) c.gkind = 2; c.G = c.structured ? make_struct_guess(rg, c, g) : make_guess(rg, c.gkind, n, g); }
    out.count(std::string("cls_") + CLS[c.cls]); out.count(std::string("guess_") + GK[c.gkind]); out.count(std::string("rule_") + RN[c.rule]); out.count(c.sparse ? "op_sparse" : "op_dense");
    if (c.edge) { out.count("edge_cases"); out.count(c.nev == 1 ? "edge_nev_1" : "edge_nev_n-1"); out.count("edge_maxit_" + str(c.maxit)); out.count(c.two_arg ? "edge_sizes_2arg" : (c.nvec_max == c.nvec_init ? "edge_sizes_init=max=nev" : "edge_sizes_max=nev+corr")); }
    // ---- the full run
    Snap fin = run_real(op, c, c.maxit);
    if (fin.niter >= 0) out.count(fin.niter == 0 ? "iters_0" : fin.niter < 5 ? "iters_1_4" : fin.niter < 20 ? "iters_5_19" : "iters_20+");
    // ---- prefix runs (maxit = 1, 2, ...): per-iteration states through the REAL loop; detect restarts and exact zero denominators
    Scan sc = scan_prefix(op, c, fin);
    std::vector<Snap>& pre = sc.pre; const bool zero_denom = sc.zero_denom, in_span = sc.in_span, block_ok = sc.block_ok;
    Vec diag = c.A.diagonal();
    if (sc.any_restart) out.count("runs_with_restart"); if (sc.space_full) out.count("runs_space_reaches_n"); if (zero_denom) out.count("runs_zero_denominator");
    if (in_span) out.count("runs_correction_in_span");
    if (c.structured) { out.count("struct_cases"); if (in_span) out.count("struct_dependent_block_seen"); if (fin.info == 0) out.count("struct_successful"); }
    if (!block_ok) { std::ostringstream w, ex; w << "extend_basis appended a block that is not a Householder Q factor (" << sc.block_what << ") in iteration " << sc.block_iter << " on " << CLS[c.cls] << "/" << GK[c.gkind] << "/" << RN[c.rule] << " n=" << n << " nev=" << c.nev << " (final info=" << fin.info << ")";
        ex << ",\"zero_denominator_seen\":" << (zero_denom ? 1 : 0) << ",\"degenerate_correction_seen\":" << (in_span ? 1 : 0) << ",\"extension_block_orthonormal\":0,\"iteration\":" << sc.block_iter;
        out.fail("extension-block-not-orthonormal", w.str(), replay_json(c, seed, tier, ex.str())); out.count("oracle_block_dev"); }
    // specification of extend_basis / restart on the real code: an orthonormal initial space stays orthonormal
    { LD g0 = 0; if (c.gkind != 0) g0 = (LD) (c.G.transpose() * c.G - Mat::Identity(c.G.cols(), c.G.cols())).cwiseAbs().maxCoeff();
      if (g0 <= 1e-8L) for (size_t k = 0; k < pre.size(); k++) { const Mat& B = pre[k].B; if (!all_finite(B) || B.cols() > n) continue;
          double dev = (B.transpose() * B - Mat::Identity(B.cols(), B.cols())).cwiseAbs().maxCoeff();
          if (!(dev <= 1e-8)) { std::ostringstream w, ex; w << "search-space basis lost orthonormality: max|V^T V - I| = " << dev << " at iteration " << k << " (size " << B.cols() << ") although the initial space was orthonormal, on " << CLS[c.cls] << "/" << GK[c.gkind] << " n=" << n << " nev=" << c.nev;
              ex << ",\"guess_orthonormal\":1,\"zero_denominator_seen\":" << (zero_denom ? 1 : 0) << ",\"degenerate_correction_seen\":" << (in_span ? 1 : 0) << ",\"extension_block_orthonormal\":" << (block_ok ? 1 : 0) << ",\"iteration\":" << k;
              out.fail("basis-not-orthonormal", w.str(), replay_json(c, seed, tier, ex.str())); out.count("oracle_basis_dev"); break; } } }
    oracle(c, fin, &out, seed, tier, zero_denom, in_span, block_ok);
    if (!corr) return fin;
    // ---- correspondence: kernels that are explicit scalar code (bit-exact): DPR correction, initial space from the sorted diagonal
    auto nb = [](double x) { return std::isnan(x) ? std::string("nan") : str(dbits(x)); };
    { std::ostringstream rq, rs; rq << "initspace " << n << " " << in << " " << c.rule << bitsv(diag);
      if (n <= 16) { rs << "r"; for (long r_ : fin.init_rows) rs << " " << r_; rs << " "; }
      rs << "v"; for (long r_ : fin.init_rows) rs << " " << (r_ >= 0 ? str(dbits((c.rule == 0 || c.rule == 4) ? std::fabs(diag[r_]) : diag[r_])) : std::string("?"));   // sort KEY along the order (tie order canonicalised)
      if ((long) fin.init_rows.size() == in) { out.corr(rq.str(), rs.str()); out.count("initspace_requests"); } }
    for (size_t k = 0; k < pre.size() && k < 3; k++) { const Snap& p = pre[k]; if (!p.haveC) continue;
        std::ostringstream rq, rs; rq << "dpr " << n << " " << co << bitsv(diag) << bitsv(p.th.head(co)) << bits(p.R.leftCols(co));
        bool first = true; bool anynan = false; for (Index j = 0; j < p.C.cols(); j++) for (Index i = 0; i < p.C.rows(); i++) { if (!first) rs << " "; first = false; rs << nb(p.C(i, j)); if (std::isnan(p.C(i, j))) anynan = true; }
        out.corr(rq.str(), rs.str()); out.count(anynan ? "dpr_requests_nan" : "dpr_requests"); }
    // ---- correspondence: step requests along the real trajectory
    std::string hdr = str(n) + " " + str(c.nev) + " " + str(mx) + " " + str(in) + " " + str(co) + " " + str(c.rule);
    int nsteps = 0;
    for (size_t k = 1; k < pre.size() && nsteps < 10; k++) {
        const Snap& p = pre[k - 1]; const Snap& q = pre[k];
        if (!all_finite(p.B) || !all_finite(q.B) || !all_finite(q.W) || !all_finite(q.Y) || !all_finite(p.Y)) { out.count("step_skipped_nonfinite"); break; }
        if (p.th.size() < co || p.B.cols() != p.W.cols()) { out.count("step_skipped_shape"); break; }
        bool restart = p.B.cols() + co > mx;
        if (!restart && q.B.cols() != p.B.cols() + co) { out.count("step_skipped_shape"); break; }
        if (n > 24 && k > 3 && !restart) continue;
        std::ostringstream rq;
        rq << "step " << hdr << " " << (k + 1) << " " << dbits(c.tol) << " " << p.B.cols() << bits(p.B) << bits(p.W) << bitsv(p.th) << bits(p.Y) << bits(c.A);
        if (restart) rq << " 0"; else rq << " " << q.B.cols() << bits(q.B);
        rq << " 1 " << q.th.size() << bitsv(q.th) << bits(q.Y);
        std::ostringstream rs;
        rs << (restart ? 1 : 0) << " " << q.B.cols() << " " << q.info << " " << q.niter << " " << q.ret << " " << q.flags.size(); for (int f : q.flags) rs << " " << f;
        rs << " 1 1 1 1 1 |"; for (Index j = 0; j < q.R.cols(); j++) rs << " " << dbits(q.R.col(j).norm()); rs << " |" << bits(q.W);
        out.corr(rq.str(), rs.str()); nsteps++; out.count(restart ? "step_restart" : "step_plain");
    }
    // ---- correspondence: full run with the model's own kernels (generic classes only: distinct, separated spectrum)
    bool generic = (c.cls == 0 || c.cls == 1) && (c.gkind == 0 || c.gkind == 1) && !fin.threw && !zero_denom && n <= 24 && all_finite(fin.X) && c.maxit >= 1;
    if (generic) {
        std::ostringstream rq; rq << "run " << n << " " << c.nev << " " << c.nvec_init << " " << c.nvec_max << " " << c.rule << " " << c.maxit << " " << dbits(c.tol) << " " << c.G.cols() << bits(c.A) << bits(c.G);
        std::ostringstream rs; rs << fin.info << " " << fin.ret << " " << fin.niter << " " << pre.size(); for (auto& p : pre) rs << " " << p.B.cols();
        long ne = std::min<long>(c.nev, fin.th.size()); rs << " " << ne; for (long i = 0; i < ne; i++) rs << " " << dbits(fin.th[i]);
        out.corr(rq.str(), rs.str()); out.count("run_requests");
    }
    return fin;
}

static void do_case(Case& c, Out& out, uint64_t seed, const std::string& tier, bool corr) {
    { std::ofstream lc(out.dir + "/lastcase.txt"); lc << replay_json(c, seed, tier); }
    const int n = c.n; const double cv = bitsd(CANARY);
    if (c.sparse) {
        typedef Eigen::SparseMatrix<double> SpM; typedef Spectra::SparseSymMatProd<double> Op;
        SpM S = c.A.sparseView(); S.makeCompressed(); Op op(S); Snap fin = one_case(op, c, out, seed, tier, corr);
        if (fin.threw && fin.what == "ctor") return;
        history(op, c, fin, out, seed, tier, corr);
        // the same compressed arrays inside larger caller-owned buffers (canaries around them), viewed through a Map
        { const Index nnz = S.nonZeros(); std::vector<int> outer(n + 1 + 4, -12345), inner((size_t) nnz + 4, -12345); std::vector<double> val((size_t) nnz + 4, cv);
          for (int j = 0; j <= n; j++) outer[2 + j] = S.outerIndexPtr()[j]; for (Index q = 0; q < nnz; q++) { inner[2 + q] = S.innerIndexPtr()[q]; val[2 + q] = S.valuePtr()[q]; }
          std::vector<int> outer0(outer), inner0(inner); std::vector<double> val0(val);
          { Eigen::Map<const SpM> M(n, n, nnz, outer.data() + 2, inner.data() + 2, val.data() + 2); Op opv(M); view_check(opv, c, fin, "sparse_map", out, seed, tier); }
          bool same = outer == outer0 && inner == inner0; for (size_t q = 0; q < val.size(); q++) if (dbits(val[q]) != dbits(val0[q])) same = false;
          if (!same) out.fail("operator-view-canary", "arrays under the sparse Map (or the canaries around them) were modified", replay_json(c, seed, tier, ",\"operator_view\":\"sparse_map\"")); }
        // uncompressed storage (room left in every column): Ref<const SparseMatrix> takes it as it is
        { SpM U(n, n); U.reserve(Eigen::VectorXi::Constant(n, n)); for (int j = 0; j < S.outerSize(); j++) for (SpM::InnerIterator it(S, j); it; ++it) U.insert(it.row(), it.col()) = it.value();
          if (!U.isCompressed()) { Op opv(U); view_check(opv, c, fin, "sparse_uncompressed", out, seed, tier); } }
    } else {
        typedef Spectra::DenseSymMatProd<double> Op;
        Op op(c.A); Snap fin = one_case(op, c, out, seed, tier, corr);
        if (fin.threw && fin.what == "ctor") return;
        history(op, c, fin, out, seed, tier, corr);
        // block of a larger matrix: canaries around it, and the strictly upper triangle (never read with Uplo = Lower) poisoned
        { Mat big = Mat::Constant(n + 4, n + 6, cv); for (int j = 0; j < n; j++) for (int i = j; i < n; i++) big(1 + i, 3 + j) = c.A(i, j);
          Mat big0 = big;
          { Op opv(big.block(1, 3, n, n)); view_check(opv, c, fin, "dense_block_upper_poisoned", out, seed, tier); }
          if (!same_bits(big, big0)) out.fail("operator-view-canary", "matrix under the operator's block view (or the canaries around it) was modified", replay_json(c, seed, tier, ",\"operator_view\":\"dense_block\"")); }
        // Map with an outer stride over a caller-owned buffer
        { const Index ld = n + 3; std::vector<double> buf((size_t) (2 + ld * n + 3), cv); { Eigen::Map<Mat, 0, Eigen::OuterStride<>> w(buf.data() + 2, n, n, Eigen::OuterStride<>(ld)); w = c.A; }
          std::vector<double> buf0(buf);
          { Eigen::Map<const Mat, 0, Eigen::OuterStride<>> M(buf.data() + 2, n, n, Eigen::OuterStride<>(ld)); Op opv(M); view_check(opv, c, fin, "dense_map_outer_stride", out, seed, tier); }
          bool same = true; for (size_t q = 0; q < buf.size(); q++) if (dbits(buf[q]) != dbits(buf0[q])) same = false;
          if (!same) out.fail("operator-view-canary", "buffer under the operator's strided Map (or the canaries around it) was modified", replay_json(c, seed, tier, ",\"operator_view\":\"dense_map_outer_stride\"")); }
    }
}

// fixed regression inputs (always run first)
static std::vector<Case> corpus() {
    std::vector<Case> v;
    { Case c; c.idx = -1; c.cls = 3; c.n = 8; c.nev = 2; c.rule = 3; c.tol = 1e-8; c.A = Mat::Zero(8, 8);   // F11 (repaired): decoupled coordinate with the largest diagonal entry; used to return NaN
      for (int i = 0; i < 8; i++) for (int j = 0; j < 8; j++) c.A(i, j) = (i == j) ? i + 1.0 : 0.1 / (1.0 + std::abs(i - j)); for (int i = 0; i < 8; i++) { if (i != 3) { c.A(i, 3) = 0; c.A(3, i) = 0; } } c.A(3, 3) = 20.0;
      c.two_arg = true; c.nvec_init = 4; c.nvec_max = 20; c.G = Mat(8, 0); v.push_back(c); }
    { Case c; c.idx = -2; c.cls = 4; c.n = 10; c.nev = 6; c.rule = 3; c.tol = 1e-8; c.A = Mat::Zero(10, 10); for (int i = 0; i < 10; i++) c.A(i, i) = i + 1.0;   // F18 (repaired): 3*nev > n; the clamped initial space used to be smaller than nev
      c.two_arg = true; c.nvec_init = 12; c.nvec_max = 60; c.G = Mat(10, 0); v.push_back(c); }
    { Case c; c.idx = -3; c.cls = 0; c.n = 12; c.nev = 2; c.rule = 7; c.tol = 1e-8; c.A = Mat::Zero(12, 12);    // F16: non-orthonormal guess
      for (int i = 0; i < 12; i++) for (int j = 0; j < 12; j++) c.A(i, j) = (i == j) ? i + 1.0 : 0.01; c.two_arg = true; c.nvec_init = 4; c.nvec_max = 20; c.gkind = 2; c.G = Mat(12, 0); v.push_back(c); }
    { Case c; c.idx = -4; c.cls = 0; c.n = 12; c.nev = 2; c.rule = 7; c.tol = 1e-8; c.A = Mat::Zero(12, 12);    // restarts forced by a small maximum
      for (int i = 0; i < 12; i++) for (int j = 0; j < 12; j++) c.A(i, j) = (i == j) ? i + 1.0 : 0.3 / (1.0 + std::abs(i - j)); c.two_arg = false; c.nvec_init = 3; c.nvec_max = 6; c.G = Mat(12, 0); v.push_back(c); }
    { Case c; c.idx = -5; c.cls = 0; c.n = 12; c.nev = 1; c.rule = 3; c.tol = 1e-8; c.A = Mat::Zero(12, 12);    // F21b / F21c (repaired by /repo 6587027): a user space wider than the maximum on a USED object used to restart from the previous call's Ritz pairs and keep the previous info(); now it fails exactly as on a fresh object (F20)
      for (int i = 0; i < 12; i++) for (int j = 0; j < 12; j++) c.A(i, j) = (i == j) ? i + 1.0 : 0.05 / (1.0 + std::abs(i - j)); c.two_arg = false; c.nvec_init = 2; c.nvec_max = 4; c.wide_guess = 6; c.G = Mat(12, 0); v.push_back(c); }
    for (int q = 0; q < 2; q++) { Case c; c.idx = -6 - q; c.cls = 0; c.n = 12; c.nev = 1; c.rule = 3; c.tol = 1e-8; c.A = Mat::Zero(12, 12);    // F21c (repaired): Successful call; call that throws (F20); compute(.., maxit = 0 / 1, ..): answered as by a fresh object (recall request after a throw)
      for (int i = 0; i < 12; i++) for (int j = 0; j < 12; j++) c.A(i, j) = (i == j) ? i + 1.0 : 0.05 / (1.0 + std::abs(i - j)); c.two_arg = false; c.nvec_init = 2; c.nvec_max = 4; c.wide_mid = 6; c.G = Mat(12, 0); v.push_back(c); }
    return v;
}

int main(int argc, char** argv) {
    Args a(argc, argv); Out out(a.out);
    if (!a.replay.empty()) {
        std::ifstream f(a.replay); std::string t((std::istreambuf_iterator<char>(f)), {});
        auto num = [&](const char* key, long dflt) { auto p = t.find(std::string("\"") + key + "\":"); return p == std::string::npos ? dflt : std::atol(t.c_str() + p + std::strlen(key) + 3); };
        long idx = num("idx", 0); uint64_t sd = (uint64_t) num("seed", (long) a.seed); bool th = false; { auto p = t.find("\"tier\":"); if (p != std::string::npos) th = t.substr(p + 7, 14).find("thorough") != std::string::npos; }   // the framework re-serialises the replay with a space after the colon
        Case c; if (idx < 0) { auto v = corpus(); c = v[(size_t) (-idx - 1)]; } else if (idx >= EDGE_BASE) c = gen_edge_case(sd, idx - EDGE_BASE, th); else if (idx >= STRUCT_BASE) c = gen_struct_case(sd, idx - STRUCT_BASE, th); else c = gen_case(sd, idx, th);
        do_case(c, out, sd, th ? "thorough" : "quick", false); out.finish(); return out.nfail ? 1 : 0;
    }
    for (auto& c0 : corpus()) { Case c = c0; do_case(c, out, a.seed, a.tier, true); }
    long ncases = a.thorough() ? 1500 : 160;
    for (long i = 0; i < ncases; i++) { Case c = gen_case(a.seed, i, a.thorough()); do_case(c, out, a.seed, a.tier, true); out.count("cases"); }
    long nstruct = a.thorough() ? 480 : 48;     // structured share: dependent DPR correction blocks (one full period of kind x rule x definiteness per 48)
    for (long i = 0; i < nstruct; i++) { Case c = gen_struct_case(a.seed, i, a.thorough()); do_case(c, out, a.seed, a.tier, true); out.count("cases"); }
    long nedge = a.thorough() ? 360 : 72;       // edge share: one full period of rule x nev in {1, n-1} x maxit in {0, 1, 100} x sizes per 72
    for (long i = 0; i < nedge; i++) { Case c = gen_edge_case(a.seed, i, a.thorough()); do_case(c, out, a.seed, a.tier, true); out.count("cases"); }
    out.finish();
    return 0;
}
