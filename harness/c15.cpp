// C15 harness: real DavidsonSymEigsSolver / JDSymEigsBase / SearchSpace / RitzPairs  vs  the Lean model (correspondence)
// plus the property's own oracle (true residuals from A, unit norms, orthonormality, order, return value, finiteness),
// all in long double on the implementation's outputs.
//
// Request kinds (one line each; floats as decimal uint64 bit patterns):
//   sizes n nev nvec_init nvec_max                      -> "throw" | "ok max init corr"      (constructor; exact)
//   run   n nev nvec_init nvec_max rule maxit tol g  A(n*n) G(n*g)
//         full compute()/compute_with_guess() with the model's OWN eigen-solver / orthogonalisation
//                                                        -> info ret niter nsz sizes.. nev evals..   (tolerance, see c15.py)
//   initspace n init rule diag(n)                       -> ["r" rows.. ] "v" key(diag[rows])..       (setup_initial_search_space; exact, rows only for n <= 16: std::sort is stable there)
//   dpr   n corr diag(n) theta(corr) R(n*corr)          -> correction entries, NaN canonicalised  (calculate_correction_vector; bit-exact)
//   step  n nev max init corr rule maxit tol  m B(n*m) W(n*m) th(m) Y(m*m)  A(n*n)  m2 B2(n*m2)  ok2 k2 th2(k2) Y2(k2*k2)
//         one trip round the REAL loop (state at the break of iteration maxit-2  ->  state at the break of iteration maxit-1),
//         the third-party kernels (HouseholderQR inside extend_basis, SelfAdjointEigenSolver) replayed from the recording
//                                                        -> restart m' info niter ret nfl flags.. leftsame lenok inspan blockok eigok | norms(m') | W'(n*m')
//         blockok = the columns the recorded HouseholderQR kernel appended are orthonormal AMONG THEMSELVES (unit norm, |q_i . q_j| <= 1e-8):
//         the Q factor of a Householder QR has this property for EVERY input block, rank deficient or not (a zero or non-unit column is not a Q factor)
// Eigen assertions are turned into exceptions so that an assertion failure is a recorded outcome, not a dead harness.
#include <stdexcept>
#include <string>
#include <memory>
struct VhAssert : std::runtime_error { explicit VhAssert(const char* m) : std::runtime_error(m) {} };
#define eigen_assert(x) do { if (!(x)) throw VhAssert(#x); } while (0)
#include "common.h"
#include <Eigen/Core>
#include <Eigen/SparseCore>
#include <Eigen/QR>
#include <Eigen/SVD>
#include <Spectra/DavidsonSymEigsSolver.h>
#include <Spectra/MatOp/DenseSymMatProd.h>
#include <Spectra/MatOp/SparseSymMatProd.h>
using namespace vh;
using Spectra::SortRule;
typedef long double LD;
typedef Eigen::MatrixXd Mat;
typedef Eigen::VectorXd Vec;
typedef Eigen::Index Index;

struct SpectraVerifAccess {
    template <class S> static const Mat& basis(const S& s) { return s.m_search_space.m_basis_vectors; }
    template <class S> static const Mat& opbasis(const S& s) { return s.m_search_space.m_op_basis_product; }
    template <class S> static const Vec& values(const S& s) { return s.m_ritz_pairs.m_values; }
    template <class S> static const Mat& small(const S& s) { return s.m_ritz_pairs.m_small_vectors; }
    template <class S> static const Mat& vectors(const S& s) { return s.m_ritz_pairs.m_vectors; }
    template <class S> static const Mat& residues(const S& s) { return s.m_ritz_pairs.m_residues; }
    template <class S> static const Eigen::Array<bool, Eigen::Dynamic, 1>& flags(const S& s) { return s.m_ritz_pairs.m_root_converged; }
    template <class S> static Index maxsz(const S& s) { return s.m_max_search_space_size; }
    template <class S> static Index initsz(const S& s) { return s.m_initial_search_space_size; }
    template <class S> static Index corrsz(const S& s) { return s.m_correction_size; }
};
typedef SpectraVerifAccess AX;

static const char* RN[9] = {"LargestMagn", "LargestReal", "LargestImag", "LargestAlge", "SmallestMagn", "SmallestReal", "SmallestImag", "SmallestAlge", "BothEnds"};
static const char* CLS[12] = {"diagdom", "dense", "blockdiag", "decoupled", "diagonal", "clustered", "exactritz", "graded", "arrowhead", "bordered", "twin", "arrowblock"};
static const long STRUCT_BASE = 1000000;   // case indices >= STRUCT_BASE: the structured share (gen_struct_case)
static const char* GK[4] = {"default", "orthonormal", "nonorthonormal", "dependent"};

struct Case {
    long idx = 0; int cls = 0; int n = 0; int nev = 1; bool two_arg = true; long nvec_init = 0, nvec_max = 0; int rule = 0; int maxit = 100; double tol = 1e-8;
    bool sparse = false; int gkind = 0; Mat A; Mat G; long mx = -1, in = -1, co = -1;   // sizes after the constructor
    bool structured = false; std::vector<int> hubs; int defn = 0;   // structured share: hub coordinates, definiteness (0 positive, 1 negative, 2 indefinite)
};

static std::string bits(const Mat& M) { std::string s; for (Index j = 0; j < M.cols(); j++) for (Index i = 0; i < M.rows(); i++) { s += ' '; s += str(dbits(M(i, j))); } return s; }
static std::string bitsv(const Vec& v) { std::string s; for (Index i = 0; i < v.size(); i++) { s += ' '; s += str(dbits(v[i])); } return s; }

static std::string replay_json(const Case& c, uint64_t seed, const std::string& tier, const std::string& extra = "") {
    std::ostringstream o;
    o << "{\"harness\":\"c15\",\"seed\":" << seed << ",\"tier\":\"" << tier << "\",\"idx\":" << c.idx << ",\"cls\":\"" << CLS[c.cls] << "\",\"n\":" << c.n << ",\"nev\":" << c.nev
      << ",\"two_arg_ctor\":" << (c.two_arg ? 1 : 0) << ",\"nvec_init\":" << c.nvec_init << ",\"nvec_max\":" << c.nvec_max << ",\"rule\":\"" << RN[c.rule] << "\",\"maxit\":" << c.maxit
      << ",\"tol\":" << c.tol << ",\"op\":\"" << (c.sparse ? "SparseSymMatProd" : "DenseSymMatProd") << "\",\"guess\":\"" << GK[c.gkind] << "\"" << extra << ",\"A_bits_colmajor\":[";
    bool f = true; for (Index j = 0; j < c.A.cols(); j++) for (Index i = 0; i < c.A.rows(); i++) { if (!f) o << ","; f = false; o << dbits(c.A(i, j)); }
    o << "],\"guess_bits_colmajor\":[";
    f = true; for (Index j = 0; j < c.G.cols(); j++) for (Index i = 0; i < c.G.rows(); i++) { if (!f) o << ","; f = false; o << dbits(c.G(i, j)); }
    o << "]}";
    return o.str();
}

// ------------------------------------------------------------------ generators
static Mat sym_random(Rng& r, int n, double off) { Mat A(n, n); for (int i = 0; i < n; i++) for (int j = 0; j <= i; j++) { double v = (i == j) ? r.sym() : off * r.sym(); A(i, j) = v; A(j, i) = v; } return A; }

static Case gen_case(uint64_t seed, long idx, bool thorough) {
    Rng r(seed, 15, (uint64_t) idx); Case c; c.idx = idx;
    static const int rules[4] = {0, 3, 4, 7};
    c.cls = (int) r.below(8);
    int nmax = thorough ? 40 : 20;
    c.n = r.coin(0.6) ? r.range(4, 12) : r.range(4, nmax);
    int n = c.n;
    c.rule = rules[r.below(4)];
    c.sparse = r.coin(0.4);
    Mat A = Mat::Zero(n, n);
    switch (c.cls) {
    case 0: { A = sym_random(r, n, 0.05); std::vector<int> p(n); for (int i = 0; i < n; i++) p[i] = i; for (int i = n - 1; i > 0; i--) std::swap(p[i], p[r.below(i + 1)]);
              for (int i = 0; i < n; i++) A(i, i) = (double) (p[i] + 1) * (r.coin() ? 1.0 : 1.0) + 0.1 * r.sym(); if (r.coin(0.3)) A = -A; break; }
    case 1: { A = sym_random(r, n, 1.0); break; }
    case 2: { int b = r.range(1, std::max(1, n / 2)); Mat B1 = sym_random(r, b, 1.0), B2 = sym_random(r, n - b, 0.3); for (int i = 0; i < n - b; i++) B2(i, i) += i; A.topLeftCorner(b, b) = B1; A.bottomRightCorner(n - b, n - b) = B2; break; }
    case 3: { A = sym_random(r, n, 0.2); for (int i = 0; i < n; i++) A(i, i) = i + 1 + 0.25 * r.sym();   // one exactly decoupled coordinate whose diagonal is extreme for the rule
              int k = (int) r.below(n); for (int i = 0; i < n; i++) if (i != k) { A(i, k) = 0; A(k, i) = 0; }
              double big = (double) (n + 3 + r.range(0, 3)); A(k, k) = (c.rule == 0 || c.rule == 3) ? big : (c.rule == 7 ? -big : 0.015625 * r.range(0, 1)); break; }
    case 4: { for (int i = 0; i < n; i++) A(i, i) = r.coin(0.2) ? (double) r.range(-3, 3) : 4 * r.sym(); break; }
    case 5: { A = sym_random(r, n, 0.02); for (int i = 0; i < n; i++) A(i, i) = (double) (i / 3) + 1e-3 * r.sym() * (r.coin() ? 1 : 0); break; }
    case 6: { // exact Ritz vectors: a 2x2 / 3x3 leading block decoupled from the rest, block holds the wanted end of the spectrum
              A = sym_random(r, n, 0.3); for (int i = 0; i < n; i++) A(i, i) = i + 1; int b = r.range(1, std::min(3, n - 2));
              std::vector<int> ids; for (int i = 0; i < b; i++) ids.push_back((c.rule == 0 || c.rule == 3) ? n - 1 - i : i);
              for (int id : ids) for (int j = 0; j < n; j++) { bool in = std::find(ids.begin(), ids.end(), j) != ids.end(); if (!in) { A(id, j) = 0; A(j, id) = 0; } }
              for (int id : ids) A(id, id) += (c.rule == 0 || c.rule == 3) ? 5.0 : (c.rule == 7 ? -5.0 : -A(id, id) + 0.01 * (id + 1)); break; }
    default: { A = sym_random(r, n, 1.0); for (int i = 0; i < n; i++) { double s = std::pow(10.0, -6.0 * i / n); A.row(i) *= s; A.col(i) *= s; } break; }
    }
    c.A = A;
    // nev and sizes
    c.nev = r.coin(0.7) ? r.range(1, std::max(1, n / 3)) : r.range(1, n - 1);
    c.two_arg = r.coin(0.5);
    if (c.two_arg) { c.nvec_init = 2 * c.nev; c.nvec_max = 10 * c.nev; }
    else { c.nvec_init = r.range(c.nev, std::max(c.nev, n / 2 + 1)); c.nvec_max = r.coin(0.5) ? r.range((int) c.nvec_init, n + 2) : r.range((int) c.nvec_init + 1, (int) c.nvec_init + 2 * c.nev + 1); }
    static const double tols[5] = {1e-5, 1e-6, 1e-7, 1e-8, 1e-10};
    c.tol = tols[r.below(5)];
    c.maxit = r.coin(0.15) ? r.range(1, 4) : 100;
    // initial space
    c.gkind = r.coin(0.55) ? 0 : (int) r.range(1, 3);
    c.G = Mat(n, 0);
    return c;
}

// user guess with g columns, built after the constructor so that g >= correction size
static Mat make_guess(Rng& r, int kind, int n, int g) {
    Mat G = Mat::NullaryExpr(n, g, [&](Index, Index) { return r.sym(); });
    if (kind == 1) { Eigen::HouseholderQR<Mat> qr(G); G = qr.householderQ() * Mat::Identity(n, g); }
    if (kind == 3 && g >= 2) { int a = (int) r.below(g), b = (a + 1 + (int) r.below(g - 1)) % g; G.col(b) = r.coin() ? Vec(G.col(a)) : Vec(2.0 * G.col(a)); }
    return G;
}


static LD rule_key(int rule, double x);

// ------------------------------------------------------------------ structured share: linearly dependent DPR correction blocks
// The default initial space of DavidsonSymEigsSolver is a set S of unit coordinate vectors.  When the coordinates of S are coupled to the
// rest of the matrix through a few "hub" coordinates only (arrowhead / bordered-diagonal matrix, or such a block of a block-diagonal
// matrix), the Ritz pairs of the first iteration are (a_ii, e_i) exactly, every residue lies in span{e_h : h a hub} and so does every DPR
// correction: with one hub the corrections are exactly PARALLEL, with b hubs and more than b corrections they are linearly dependent, and
// when two coordinates of S have the same diagonal entry and the same couplings ("twin") their corrections are exactly EQUAL.  Entries are
// small integers / dyadic fractions, so these relations hold bit for bit.  HouseholderQR inside extend_basis returns an orthonormal block
// for such rank-deficient input and the run must end with genuine pairs (or not Successful); the share cycles through
// {arrowhead, bordered, twin, arrowhead block + dense block} x {LargestMagn, LargestAlge, SmallestMagn, SmallestAlge} x {positive definite,
// negative definite, indefinite} (period 48) with nev >= 2, dense and sparse wrappers, default and user-supplied (coordinate) spaces.
static Case gen_struct_case(uint64_t seed, long i, bool thorough) {
    Rng r(seed, 1508, (uint64_t) i); Case c; c.idx = STRUCT_BASE + i; c.structured = true;
    static const int rules[4] = {0, 3, 4, 7};
    const int sk = (int) (i % 4); c.cls = 8 + sk;
    c.rule = rules[(i / 4) % 4];
    c.defn = (int) ((i / 16) % 3);
    const int n1 = r.coin(0.6) ? r.range(9, 16) : r.range(9, thorough ? 36 : 20);          // size of the arrowhead / bordered part
    const int n2 = (sk == 3) ? r.range(2, thorough ? 8 : 5) : 0;                            // dense block next to it
    const int n = n1 + n2; c.n = n;
    c.nev = r.range(2, std::max(2, std::min(4, n1 / 4)));
    c.sparse = r.coin(0.4);
    std::vector<int> p(n1); for (int k = 0; k < n1; k++) p[k] = k + 1; for (int k = n1 - 1; k > 0; k--) std::swap(p[k], p[r.below(k + 1)]);
    std::vector<int> val(n1); for (int k = 0; k < n1; k++) val[k] = (sk == 2) ? (p[k] + 1) / 2 : p[k];    // twin: every diagonal value occurs twice
    auto dg = [&](double v) { return c.defn == 0 ? v : c.defn == 1 ? -v : v - (double) (n1 / 2) - 0.25; };
    Mat A = Mat::Zero(n, n);
    for (int k = 0; k < n1; k++) A(k, k) = dg((double) val[k]);
    // hubs: with probability 0.8 outside the 3*nev coordinates the rule ranks first (the default initial space holds the first 2*nev)
    const int nb = (sk == 0 || sk == 3) ? 1 : r.range(1, 2) + ((thorough && r.coin(0.2)) ? 1 : 0);
    std::vector<int> ord(n1); for (int k = 0; k < n1; k++) ord[k] = k;
    std::stable_sort(ord.begin(), ord.end(), [&](int a, int b) { return rule_key(c.rule, A(a, a)) < rule_key(c.rule, A(b, b)); });
    const int prot = r.coin(0.8) ? std::min(n1 - nb, 3 * c.nev) : 0;
    std::vector<int> cand(ord.begin() + prot, ord.end());
    for (int k = (int) cand.size() - 1; k > 0; k--) std::swap(cand[k], cand[r.below(k + 1)]);
    c.hubs.assign(cand.begin(), cand.begin() + nb);
    auto is_hub = [&](int k) { return std::find(c.hubs.begin(), c.hubs.end(), k) != c.hubs.end(); };
    // couplings k/8, k = +-1..+-4, a function of (hub, diagonal VALUE): twins share their couplings
    for (int h : c.hubs) { std::vector<double> cpl(n1 + 2); for (auto& x : cpl) x = (r.coin() ? 1.0 : -1.0) * (double) r.range(1, 4) / 8.0;
        for (int k = 0; k < n1; k++) if (k != h && !(is_hub(k) && k < h)) { A(k, h) = cpl[val[k]]; A(h, k) = cpl[val[k]]; } }
    if (n2 > 0) {   // dense block with a mid-range diagonal (never the wanted end of the spectrum), decoupled from the arrowhead block
        double mid = (c.defn == 2) ? ((c.rule == 0 || c.rule == 4) ? (double) (n1 / 4) + 0.375 : 0.375) : (double) (n1 / 2) + 0.375; if (c.defn == 1) mid = -mid;
        for (int a = 0; a < n2; a++) for (int b = 0; b <= a; b++) { double v = (a == b) ? mid + a / 64.0 : 0.05 * r.sym(); A(n1 + a, n1 + b) = v; A(n1 + b, n1 + a) = v; } }
    c.A = A;
    c.two_arg = r.coin(0.65);
    if (c.two_arg) { c.nvec_init = 2 * c.nev; c.nvec_max = 10 * c.nev; }
    else { c.nvec_init = r.range(c.nev, 2 * c.nev + 1); c.nvec_max = r.range((int) c.nvec_init + c.nev, std::max((int) c.nvec_init + c.nev, n)); }
    static const double tols[5] = {1e-5, 1e-6, 1e-7, 1e-8, 1e-10};
    c.tol = tols[r.below(5)];
    c.maxit = r.coin(0.1) ? r.range(2, 4) : 100;
    { double u = r.unit(); c.gkind = u < 0.5 ? 0 : u < 0.75 ? 1 : u < 0.87 ? 2 : 3; }
    c.G = Mat(n, 0);
    return c;
}

// user space for the structured share: g signed unit coordinate vectors (orthonormal, exact), avoiding the hubs where possible - either
// the g coordinates the rule ranks first among the non-hubs or g random ones; kind 2 scales some columns by 2 or 1/2 (non-orthonormal),
// kind 3 repeats a column (dependent)
static Mat make_struct_guess(Rng& r, const Case& c, int g) {
    const int n = c.n; std::vector<int> idx;
    for (int k = 0; k < n; k++) if (std::find(c.hubs.begin(), c.hubs.end(), k) == c.hubs.end()) idx.push_back(k);
    if ((int) idx.size() < g) { idx.clear(); for (int k = 0; k < n; k++) idx.push_back(k); }
    if (r.coin()) std::stable_sort(idx.begin(), idx.end(), [&](int a, int b) { return rule_key(c.rule, c.A(a, a)) < rule_key(c.rule, c.A(b, b)); });
    else for (int k = (int) idx.size() - 1; k > 0; k--) std::swap(idx[k], idx[r.below(k + 1)]);
    Mat G = Mat::Zero(n, g);
    for (int j = 0; j < g; j++) G(idx[j], j) = r.coin() ? 1.0 : -1.0;
    if (c.gkind == 2) { int j0 = (int) r.below(g); for (int j = 0; j < g; j++) if (j == j0 || r.coin(0.3)) G.col(j) *= (r.coin() ? 2.0 : 0.5); }
    if (c.gkind == 3 && g >= 2) { int a = (int) r.below(g), b = (a + 1 + (int) r.below(g - 1)) % g; G.col(b) = r.coin() ? Vec(G.col(a)) : Vec(-2.0 * G.col(a)); }
    return G;
}

struct Snap {   // state of a solver after compute*/compute_with_guess
    bool threw = false; std::string what; bool assert_fail = false;
    int info = 1; long ret = -1, niter = -1; Mat B, W, Y, X, R; Vec th; std::vector<int> flags; Vec evals; Mat evecs; bool acc_threw = false; std::string acc_what; Mat C; bool haveC = false; std::vector<long> init_rows;
};

template <class Op>
static Snap run_real(Op& op, const Case& c, int maxit) {
    Snap s;
    try {
        std::unique_ptr<Spectra::DavidsonSymEigsSolver<Op>> sp;
        if (c.two_arg) sp.reset(new Spectra::DavidsonSymEigsSolver<Op>(op, c.nev)); else sp.reset(new Spectra::DavidsonSymEigsSolver<Op>(op, c.nev, c.nvec_init, c.nvec_max));
        auto& solver = *sp;
        try {
            if (c.gkind == 0) s.ret = (long) solver.compute((SortRule) c.rule, maxit, c.tol);
            else s.ret = (long) solver.compute_with_guess(c.G, (SortRule) c.rule, maxit, c.tol);
        } catch (const VhAssert& e) { s.threw = true; s.assert_fail = true; s.what = e.what(); }
        catch (const std::exception& e) { s.threw = true; s.what = e.what(); }
        s.info = (int) solver.info(); s.niter = (long) solver.num_iterations();
        s.B = AX::basis(solver); s.W = AX::opbasis(solver); s.Y = AX::small(solver); s.X = AX::vectors(solver); s.R = AX::residues(solver); s.th = AX::values(solver);
        auto& f = AX::flags(solver); for (Index i = 0; i < f.size(); i++) s.flags.push_back(f[i] ? 1 : 0);
        try { if (s.th.size() >= AX::corrsz(solver) && s.R.cols() >= AX::corrsz(solver) && s.R.rows() == c.n) { s.C = solver.calculate_correction_vector(); s.haveC = true; } } catch (const std::exception&) {}
        try { Mat I0 = solver.setup_initial_search_space((SortRule) c.rule); for (Index k = 0; k < I0.cols(); k++) { long row = -1; for (Index i = 0; i < I0.rows(); i++) if (I0(i, k) == 1.0) row = (long) i; s.init_rows.push_back(row); } } catch (const std::exception&) {}
        try { s.evals = solver.eigenvalues(); s.evecs = solver.eigenvectors(); }
        catch (const std::exception& e) { s.acc_threw = true; s.acc_what = e.what(); }
    } catch (const std::exception& e) { s.threw = true; s.what = std::string("ctor: ") + e.what(); }
    return s;
}

static bool all_finite(const Mat& M) { for (Index j = 0; j < M.cols(); j++) for (Index i = 0; i < M.rows(); i++) if (!std::isfinite(M(i, j))) return false; return true; }

static LD rule_key(int rule, double x) { switch (rule) { case 0: return -std::fabs((LD) x); case 3: return -(LD) x; case 4: return std::fabs((LD) x); default: return (LD) x; } }

// ------------------------------------------------------------------ the property's oracle on one finished run
static void oracle(const Case& c, const Snap& s, Out& out, uint64_t seed, const std::string& tier, bool zero_denom, bool in_span, bool block_ok) {
    const int n = c.n; const int nev = c.nev;
    // mechanism tags used by known-finding matching (computed, not assumed)
    LD gdev = 0; if (c.gkind != 0) { for (Index i = 0; i < c.G.cols(); i++) for (Index j = 0; j < c.G.cols(); j++) { LD d = 0; for (int k = 0; k < n; k++) d += (LD) c.G(k, i) * (LD) c.G(k, j); gdev = std::max(gdev, std::fabs(d - (i == j ? 1.0L : 0.0L))); } }
    std::ostringstream ex; ex << ",\"guess_orthonormal\":" << (gdev <= 1e-8L ? 1 : 0) << ",\"zero_denominator_seen\":" << (zero_denom ? 1 : 0) << ",\"degenerate_correction_seen\":" << (in_span ? 1 : 0) << ",\"extension_block_orthonormal\":" << (block_ok ? 1 : 0) << ",\"final_space_lt_nev\":" << ((long) s.th.size() < nev ? 1 : 0) << ",\"flags_lt_nev\":" << ((long) s.flags.size() < nev ? 1 : 0)
                              << ",\"initial_space_gt_max\":" << ((c.gkind == 0 ? c.in : (long) c.G.cols()) > c.mx ? 1 : 0) << ",\"info\":" << s.info << ",\"ret\":" << s.ret << ",\"raised\":\"" << jesc(s.threw ? s.what : std::string("")) << "\"";
    std::string rj = replay_json(c, seed, tier, ex.str());
    std::string tag = std::string(CLS[c.cls]) + "/" + GK[c.gkind] + "/" + RN[c.rule] + " n=" + str(n) + " nev=" + str(nev);
    out.count("oracle_runs");
    out.count(std::string("info_") + str(s.info));
    if (s.threw) { out.count("oracle_threw"); out.fail(s.assert_fail ? "eigen-assert" : "exception", "compute on " + tag + " raised: " + s.what, rj); return; }
    if (s.acc_threw) { out.fail("accessor-assert", "eigenvalues()/eigenvectors() after compute on " + tag + " (info=" + str(s.info) + ", Ritz pairs=" + str(s.th.size()) + ") raised: " + s.acc_what, rj); return; }
    // finiteness whatever the outcome
    bool fin = true; for (Index i = 0; i < s.evals.size(); i++) if (!std::isfinite(s.evals[i])) fin = false;
    if (!all_finite(s.evecs)) fin = false;
    if (!fin) { out.fail("nonfinite-output", "non-finite eigenvalues/eigenvectors returned (info=" + str(s.info) + ") on " + tag, rj); return; }
    if (s.info != 0) return;
    out.count("oracle_successful");
    if (s.ret != nev) { out.fail("ret-ne-nev", "Successful but compute() returned " + str(s.ret) + " != nev on " + tag, rj); }
    if (s.evals.size() != nev || s.evecs.cols() != nev) { out.fail("count-ne-nev", "Successful but " + str(s.evals.size()) + " eigenvalues returned on " + tag, rj); return; }
    LD fro = 0; for (int i = 0; i < n; i++) for (int j = 0; j < n; j++) fro += (LD) c.A(i, j) * (LD) c.A(i, j); fro = std::sqrt(fro);
    for (int k = 0; k < nev; k++) {
        LD nx = 0; for (int i = 0; i < n; i++) nx += (LD) s.evecs(i, k) * (LD) s.evecs(i, k); nx = std::sqrt(nx);
        LD rr = 0; for (int i = 0; i < n; i++) { LD a = 0; for (int j = 0; j < n; j++) a += (LD) c.A(i, j) * (LD) s.evecs(j, k); a -= (LD) s.evals[k] * (LD) s.evecs(i, k); rr += a * a; } rr = std::sqrt(rr);
        // slack: rounding of the cached products / Ritz vectors, 64 * eps * n * ||A||_F * ||x||  (stated constant)
        LD slack = 64.0L * 2.220446049250313e-16L * n * (fro + 1.0L) * (nx + 1.0L);
        if (!(rr < (LD) c.tol + slack)) { std::ostringstream w; w << "Successful but true residual ||A x - theta x|| = " << (double) rr << " >= tol = " << c.tol << " for pair " << k << " on " << tag; out.fail("true-residual", w.str(), rj); break; }
        if (!(std::fabs(nx - 1.0L) <= 1e-8L)) { std::ostringstream w; w << "Successful but ||x_" << k << "|| = " << (double) nx << " on " << tag; out.fail("non-unit-vector", w.str(), rj); break; }
    }
    for (int a = 0; a < nev; a++) for (int b = a + 1; b < nev; b++) { LD d = 0; for (int i = 0; i < n; i++) d += (LD) s.evecs(i, a) * (LD) s.evecs(i, b);
        if (!(std::fabs(d) <= 1e-8L)) { std::ostringstream w; w << "Successful but x_" << a << " . x_" << b << " = " << (double) d << " on " << tag; out.fail("non-orthogonal-vectors", w.str(), rj); a = nev; break; } }
    for (int k = 0; k + 1 < nev; k++) if (rule_key(c.rule, s.evals[k]) > rule_key(c.rule, s.evals[k + 1])) { out.fail("order", "returned eigenvalues not ordered by " + std::string(RN[c.rule]) + " at position " + str(k) + " on " + tag, rj); break; }
}

template <class Op>
static void one_case(Op& op, Case& c, Out& out, uint64_t seed, const std::string& tier, bool corr) {
    const int n = c.n;
    // ---- constructor: sizes (exact correspondence with Gen.JD / Gen.Guard)
    long mx = -1, in = -1, co = -1; bool ctor_threw = false;
    try {
        std::unique_ptr<Spectra::DavidsonSymEigsSolver<Op>> sp;
        if (c.two_arg) sp.reset(new Spectra::DavidsonSymEigsSolver<Op>(op, c.nev)); else sp.reset(new Spectra::DavidsonSymEigsSolver<Op>(op, c.nev, c.nvec_init, c.nvec_max));
        mx = AX::maxsz(*sp); in = AX::initsz(*sp); co = AX::corrsz(*sp);
    } catch (const std::invalid_argument&) { ctor_threw = true; }
    c.mx = mx; c.in = in; c.co = co;
    if (corr) out.corr("sizes " + str(n) + " " + str(c.nev) + " " + str(c.nvec_init) + " " + str(c.nvec_max), ctor_threw ? "throw" : "ok " + str(mx) + " " + str(in) + " " + str(co));
    if (ctor_threw) { out.count("ctor_throw"); return; }
    if (in + co > n || mx > n || in < 1 || co < 1) { std::ostringstream ex; ex << ",\"max\":" << mx << ",\"init\":" << in << ",\"corr\":" << co; if (in < 1 || co < 1 || in + co > n) out.fail("sizes-guard", "constructor leaves sizes init=" + str(in) + " corr=" + str(co) + " max=" + str(mx) + " for n=" + str(n), replay_json(c, seed, tier, ex.str())); }
    // ---- initial space supplied by the caller
    if (c.gkind != 0) { Rng rg(seed, 1515, (uint64_t) c.idx); int g = (int) std::min<long>(n - 1, std::max<long>(co, in)); if (c.gkind == 3 && g < 2) c.gkind = 2; c.G = c.structured ? make_struct_guess(rg, c, g) : make_guess(rg, c.gkind, n, g); }
    out.count(std::string("cls_") + CLS[c.cls]); out.count(std::string("guess_") + GK[c.gkind]); out.count(std::string("rule_") + RN[c.rule]); out.count(c.sparse ? "op_sparse" : "op_dense");
    // ---- the full run
    Snap fin = run_real(op, c, c.maxit);
    if (fin.niter >= 0) out.count(fin.niter == 0 ? "iters_0" : fin.niter < 5 ? "iters_1_4" : fin.niter < 20 ? "iters_5_19" : "iters_20+");
    // ---- prefix runs (maxit = 1, 2, ...): per-iteration states through the REAL loop; detect restarts and exact zero denominators
    std::vector<Snap> pre; bool zero_denom = false; bool in_span = false; bool any_restart = false; bool space_full = false;
    int kmax = (int) std::min<long>(c.maxit, fin.niter >= 0 ? fin.niter + 1 : 1);
    Vec diag = c.A.diagonal();
    bool push = true; long prev_size = -1; int prev_k = -1; bool block_ok = true; std::string block_what; long block_iter = -1;
    for (int k = 1; k <= kmax; k++) {
        if (k > 30 && k % 5 != 0 && k != kmax) { push = false; continue; }    // later iterations are sampled (cost is quadratic in the iteration count)
        Snap p = run_real(op, c, k);
        if (std::getenv("C15_DEBUG")) { std::cerr << "maxit=" << k << " threw=" << p.threw << " " << p.what << " info=" << p.info << " niter=" << p.niter << " ret=" << p.ret << " size=" << p.B.cols() << " opcols=" << p.W.cols() << " orthdev=" << (p.B.transpose() * p.B - Mat::Identity(p.B.cols(), p.B.cols())).cwiseAbs().maxCoeff() << "\n  theta=" << p.th.transpose() << "\n  resnorm=" << p.R.colwise().norm() << "\n  xnorm=" << p.X.colwise().norm() << "\n"; }
        if (p.threw && !p.assert_fail) break;
        if (p.threw) push = false;     // the return expression asserted (flag array shorter than nev): state usable for the mechanism tags only
        if (push) pre.push_back(p);
        if (p.B.cols() >= n) space_full = true;
        if (prev_size >= 0 && (long) p.B.cols() < prev_size) any_restart = true;
        // specification of the HouseholderQR kernel on the real code: the co columns appended by extend_basis (no restart in between) are the
        // leading columns of a Q factor, orthonormal among themselves for EVERY input block (rank deficient or not, whatever the old columns are)
        if (block_ok && !p.threw && prev_k == k - 1 && prev_size >= 0 && (long) p.B.cols() == prev_size + co && prev_size + co <= mx && all_finite(p.B)) {
            Mat Q = p.B.rightCols(co); Mat Gq = Q.transpose() * Q - Mat::Identity(co, co); double dev = Gq.cwiseAbs().maxCoeff();
            if (!(dev <= 1e-8)) { block_ok = false; block_iter = k - 1; std::ostringstream w; w << "max|Q^T Q - I| = " << dev << ", column norms";
                for (Index j = 0; j < Q.cols(); j++) w << " " << Q.col(j).norm(); block_what = w.str(); } }
        prev_size = (long) p.B.cols(); prev_k = k;
        if (p.info == 2 || k < kmax) for (Index kk = 0; kk < std::min<Index>(co, p.th.size()); kk++) for (int i = 0; i < n; i++) if (p.th[kk] - diag[i] == 0.0) zero_denom = true;
        if ((p.info == 2 || k < kmax) && p.B.cols() <= n && p.B.cols() > 0 && all_finite(p.B) && all_finite(p.R)) {   // DPR correction numerically inside the current search space (stagnation)?
            Eigen::HouseholderQR<Mat> qr(p.B); Mat Q = qr.householderQ() * Mat::Identity(n, p.B.cols());
            // is the block of DPR corrections, once projected against the space, numerically rank deficient relative to its
            // scale (a correction inside the space, a correction at rounding level, mutually dependent corrections)?
            Index cc = std::min<Index>(co, p.th.size()); Mat T(n, cc); bool fin_t = true;
            for (Index kk = 0; kk < cc; kk++) { Eigen::ArrayXd den = p.th[kk] - diag.array(); T.col(kk) = (den == 0.0).select(0.0, p.R.col(kk).array() / den).matrix(); if (!T.col(kk).allFinite()) fin_t = false; }   // the DPR correction as the library forms it (0 where theta == a_ii)
            if (fin_t && cc > 0) { double tmax = T.colwise().norm().maxCoeff(); Mat P = T - Q * (Q.transpose() * T); P -= Q * (Q.transpose() * P);
                if (tmax == 0) in_span = true; else { Eigen::JacobiSVD<Mat> svd(P); double smin = svd.singularValues()(svd.singularValues().size() - 1); if (cc > n - p.B.cols() || smin <= 1e-6 * tmax) in_span = true; } }
        }
        if (p.info != 2) break;
    }
    if (any_restart) out.count("runs_with_restart"); if (space_full) out.count("runs_space_reaches_n"); if (zero_denom) out.count("runs_zero_denominator");
    if (in_span) out.count("runs_correction_in_span");
    if (c.structured) { out.count("struct_cases"); if (in_span) out.count("struct_dependent_block_seen"); if (fin.info == 0) out.count("struct_successful"); }
    if (!block_ok) { std::ostringstream w, ex; w << "extend_basis appended a block that is not a Householder Q factor (" << block_what << ") in iteration " << block_iter << " on " << CLS[c.cls] << "/" << GK[c.gkind] << "/" << RN[c.rule] << " n=" << n << " nev=" << c.nev << " (final info=" << fin.info << ")";
        ex << ",\"zero_denominator_seen\":" << (zero_denom ? 1 : 0) << ",\"degenerate_correction_seen\":" << (in_span ? 1 : 0) << ",\"extension_block_orthonormal\":0,\"iteration\":" << block_iter;
        out.fail("extension-block-not-orthonormal", w.str(), replay_json(c, seed, tier, ex.str())); out.count("oracle_block_dev"); }
    // specification of extend_basis / restart on the real code: an orthonormal initial space stays orthonormal
    { LD g0 = 0; if (c.gkind != 0) g0 = (LD) (c.G.transpose() * c.G - Mat::Identity(c.G.cols(), c.G.cols())).cwiseAbs().maxCoeff();
      if (g0 <= 1e-8L) for (size_t k = 0; k < pre.size(); k++) { const Mat& B = pre[k].B; if (!all_finite(B) || B.cols() > n) continue;
          double dev = (B.transpose() * B - Mat::Identity(B.cols(), B.cols())).cwiseAbs().maxCoeff();
          if (!(dev <= 1e-8)) { std::ostringstream w, ex; w << "search-space basis lost orthonormality: max|V^T V - I| = " << dev << " at iteration " << k << " (size " << B.cols() << ") although the initial space was orthonormal, on " << CLS[c.cls] << "/" << GK[c.gkind] << " n=" << n << " nev=" << c.nev;
              ex << ",\"guess_orthonormal\":1,\"zero_denominator_seen\":" << (zero_denom ? 1 : 0) << ",\"degenerate_correction_seen\":" << (in_span ? 1 : 0) << ",\"extension_block_orthonormal\":" << (block_ok ? 1 : 0) << ",\"iteration\":" << k;
              out.fail("basis-not-orthonormal", w.str(), replay_json(c, seed, tier, ex.str())); out.count("oracle_basis_dev"); break; } } }
    oracle(c, fin, out, seed, tier, zero_denom, in_span, block_ok);
    if (!corr) return;
    // ---- correspondence: kernels that are explicit scalar code (bit-exact): DPR correction, initial space from the sorted diagonal
    auto nb = [](double x) { return std::isnan(x) ? std::string("nan") : str(dbits(x)); };
    { std::ostringstream rq, rs; rq << "initspace " << n << " " << in << " " << c.rule << bitsv(diag);
      if (n <= 16) { rs << "r"; for (long r_ : fin.init_rows) rs << " " << r_; rs << " "; }
      rs << "v"; for (long r_ : fin.init_rows) rs << " " << (r_ >= 0 ? str(dbits((c.rule == 0 || c.rule == 4) ? std::fabs(diag[r_]) : diag[r_])) : std::string("?"));   // sort KEY along the order (tie order canonicalised)
      if ((long) fin.init_rows.size() == in) { out.corr(rq.str(), rs.str()); out.count("initspace_requests"); } }
    for (size_t k = 0; k < pre.size() && k < 3; k++) { const Snap& p = pre[k]; if (!p.haveC) continue;
        std::ostringstream rq, rs; rq << "dpr " << n << " " << co << bitsv(diag) << bitsv(p.th.head(co)) << bits(p.R.leftCols(co));
        bool first = true; bool anynan = false; for (Index j = 0; j < p.C.cols(); j++) for (Index i = 0; i < p.C.rows(); i++) { if (!first) rs << " "; first = false; rs << nb(p.C(i, j)); if (std::isnan(p.C(i, j))) anynan = true; }
        out.corr(rq.str(), rs.str()); out.count(anynan ? "dpr_requests_nan" : "dpr_requests"); }
    // ---- correspondence: step requests along the real trajectory
    std::string hdr = str(n) + " " + str(c.nev) + " " + str(mx) + " " + str(in) + " " + str(co) + " " + str(c.rule);
    int nsteps = 0;
    for (size_t k = 1; k < pre.size() && nsteps < 10; k++) {
        const Snap& p = pre[k - 1]; const Snap& q = pre[k];
        if (!all_finite(p.B) || !all_finite(q.B) || !all_finite(q.W) || !all_finite(q.Y) || !all_finite(p.Y)) { out.count("step_skipped_nonfinite"); break; }
        if (p.th.size() < co || p.B.cols() != p.W.cols()) { out.count("step_skipped_shape"); break; }
        bool restart = p.B.cols() + co > mx;
        if (!restart && q.B.cols() != p.B.cols() + co) { out.count("step_skipped_shape"); break; }
        if (n > 24 && k > 3 && !restart) continue;
        std::ostringstream rq;
        rq << "step " << hdr << " " << (k + 1) << " " << dbits(c.tol) << " " << p.B.cols() << bits(p.B) << bits(p.W) << bitsv(p.th) << bits(p.Y) << bits(c.A);
        if (restart) rq << " 0"; else rq << " " << q.B.cols() << bits(q.B);
        rq << " 1 " << q.th.size() << bitsv(q.th) << bits(q.Y);
        std::ostringstream rs;
        rs << (restart ? 1 : 0) << " " << q.B.cols() << " " << q.info << " " << q.niter << " " << q.ret << " " << q.flags.size(); for (int f : q.flags) rs << " " << f;
        rs << " 1 1 1 1 1 |"; for (Index j = 0; j < q.R.cols(); j++) rs << " " << dbits(q.R.col(j).norm()); rs << " |" << bits(q.W);
        out.corr(rq.str(), rs.str()); nsteps++; out.count(restart ? "step_restart" : "step_plain");
    }
    // ---- correspondence: full run with the model's own kernels (generic classes only: distinct, separated spectrum)
    bool generic = (c.cls == 0 || c.cls == 1) && (c.gkind == 0 || c.gkind == 1) && !fin.threw && !zero_denom && n <= 24 && all_finite(fin.X);
    if (generic) {
        std::ostringstream rq; rq << "run " << n << " " << c.nev << " " << c.nvec_init << " " << c.nvec_max << " " << c.rule << " " << c.maxit << " " << dbits(c.tol) << " " << c.G.cols() << bits(c.A) << bits(c.G);
        std::ostringstream rs; rs << fin.info << " " << fin.ret << " " << fin.niter << " " << pre.size(); for (auto& p : pre) rs << " " << p.B.cols();
        long ne = std::min<long>(c.nev, fin.th.size()); rs << " " << ne; for (long i = 0; i < ne; i++) rs << " " << dbits(fin.th[i]);
        out.corr(rq.str(), rs.str()); out.count("run_requests");
    }
}

static void do_case(Case& c, Out& out, uint64_t seed, const std::string& tier, bool corr) {
    { std::ofstream lc(out.dir + "/lastcase.txt"); lc << replay_json(c, seed, tier); }
    if (c.sparse) { Eigen::SparseMatrix<double> S = c.A.sparseView(); S.makeCompressed(); Spectra::SparseSymMatProd<double> op(S); one_case(op, c, out, seed, tier, corr); }
    else { Spectra::DenseSymMatProd<double> op(c.A); one_case(op, c, out, seed, tier, corr); }
}

// fixed regression inputs (always run first)
static std::vector<Case> corpus() {
    std::vector<Case> v;
    { Case c; c.idx = -1; c.cls = 3; c.n = 8; c.nev = 2; c.rule = 3; c.tol = 1e-8; c.A = Mat::Zero(8, 8);   // F11 (repaired): decoupled coordinate with the largest diagonal entry; used to return NaN
      for (int i = 0; i < 8; i++) for (int j = 0; j < 8; j++) c.A(i, j) = (i == j) ? i + 1.0 : 0.1 / (1.0 + std::abs(i - j)); for (int i = 0; i < 8; i++) { if (i != 3) { c.A(i, 3) = 0; c.A(3, i) = 0; } } c.A(3, 3) = 20.0;
      c.two_arg = true; c.nvec_init = 4; c.nvec_max = 20; c.G = Mat(8, 0); v.push_back(c); }
    { Case c; c.idx = -2; c.cls = 4; c.n = 10; c.nev = 6; c.rule = 3; c.tol = 1e-8; c.A = Mat::Zero(10, 10); for (int i = 0; i < 10; i++) c.A(i, i) = i + 1.0;   // F18 (repaired): 3*nev > n; the clamped initial space used to be smaller than nev
      c.two_arg = true; c.nvec_init = 12; c.nvec_max = 60; c.G = Mat(10, 0); v.push_back(c); }
    { Case c; c.idx = -3; c.cls = 0; c.n = 12; c.nev = 2; c.rule = 7; c.tol = 1e-8; c.A = Mat::Zero(12, 12);    // F16: non-orthonormal guess
      for (int i = 0; i < 12; i++) for (int j = 0; j < 12; j++) c.A(i, j) = (i == j) ? i + 1.0 : 0.01; c.two_arg = true; c.nvec_init = 4; c.nvec_max = 20; c.gkind = 2; c.G = Mat(12, 0); v.push_back(c); }
    { Case c; c.idx = -4; c.cls = 0; c.n = 12; c.nev = 2; c.rule = 7; c.tol = 1e-8; c.A = Mat::Zero(12, 12);    // restarts forced by a small maximum
      for (int i = 0; i < 12; i++) for (int j = 0; j < 12; j++) c.A(i, j) = (i == j) ? i + 1.0 : 0.3 / (1.0 + std::abs(i - j)); c.two_arg = false; c.nvec_init = 3; c.nvec_max = 6; c.G = Mat(12, 0); v.push_back(c); }
    return v;
}

int main(int argc, char** argv) {
    Args a(argc, argv); Out out(a.out);
    if (!a.replay.empty()) {
        std::ifstream f(a.replay); std::string t((std::istreambuf_iterator<char>(f)), {});
        auto num = [&](const char* key, long dflt) { auto p = t.find(std::string("\"") + key + "\":"); return p == std::string::npos ? dflt : std::atol(t.c_str() + p + std::strlen(key) + 3); };
        long idx = num("idx", 0); uint64_t sd = (uint64_t) num("seed", (long) a.seed); bool th = t.find("\"tier\":\"thorough\"") != std::string::npos;
        Case c; if (idx < 0) { auto v = corpus(); c = v[(size_t) (-idx - 1)]; } else if (idx >= STRUCT_BASE) c = gen_struct_case(sd, idx - STRUCT_BASE, th); else c = gen_case(sd, idx, th);
        do_case(c, out, sd, th ? "thorough" : "quick", false); out.finish(); return out.nfail ? 1 : 0;
    }
    for (auto& c0 : corpus()) { Case c = c0; do_case(c, out, a.seed, a.tier, true); }
    long ncases = a.thorough() ? 1500 : 160;
    for (long i = 0; i < ncases; i++) { Case c = gen_case(a.seed, i, a.thorough()); do_case(c, out, a.seed, a.tier, true); out.count("cases"); }
    long nstruct = a.thorough() ? 480 : 48;     // structured share: dependent DPR correction blocks (one full period of kind x rule x definiteness per 48)
    for (long i = 0; i < nstruct; i++) { Case c = gen_struct_case(a.seed, i, a.thorough()); do_case(c, out, a.seed, a.tier, true); out.count("cases"); }
    out.finish();
    return 0;
}
