// C13 failing-input search (implementation only; ASan + UBSan + Eigen assertions ON):
//   every Arnoldi/Lanczos-family solver class x the property's matrix classes x (nev, ncv) extremes x maxit 0.. x norm 1e-8..1e8
//   with a pointer-validating, call-counting operator wrapper.
// Predicate per case: no sanitizer report / assertion / crash; operator call count <= 2 + 2*ncv*(maxit+1); every perform_op gets two
//   distinct, non-overlapping, fully addressable length-n buffers; all returned values finite; outcome in {Successful, NotConverging}
//   or an exception whose type appears in a `throw` of the library (std::invalid_argument, std::logic_error, std::runtime_error).
// Cases run in forked batches: the child writes lastcase.txt before each case, so a crash is attributed to exactly one case, recorded
// with its replay, and the search continues after it.
#include "common.h"
#include <Spectra/Util/VerifHooks.h>
#include <Spectra/SymEigsSolver.h>
#include <Spectra/SymEigsShiftSolver.h>
#include <Spectra/HermEigsSolver.h>
#include <Spectra/GenEigsSolver.h>
#include <Spectra/GenEigsRealShiftSolver.h>
#include <Spectra/GenEigsComplexShiftSolver.h>
#include <Spectra/SymGEigsSolver.h>
#include <Spectra/SymGEigsShiftSolver.h>
#include <Spectra/MatOp/DenseSymMatProd.h>
#include <Spectra/MatOp/DenseSymShiftSolve.h>
#include <Spectra/MatOp/DenseGenRealShiftSolve.h>
#include <Spectra/MatOp/DenseGenComplexShiftSolve.h>
#include <Spectra/MatOp/DenseCholesky.h>
#include <Spectra/MatOp/SparseSymMatProd.h>
#include <Spectra/MatOp/SparseRegularInverse.h>
#include <Spectra/MatOp/SymShiftInvert.h>
#include <Spectra/contrib/PartialSVDSolver.h>
#include <Eigen/SVD>
#include <unistd.h>
#include <csignal>
#include <cstdio>
#include <fcntl.h>
#include <sys/wait.h>
#if defined(__SANITIZE_ADDRESS__)
#include <sanitizer/asan_interface.h>
#define REGION_BAD(p, n) (__asan_region_is_poisoned((void*) (p), (n)) != nullptr)
#else
#define REGION_BAD(p, n) false
#endif
using namespace vh;
using namespace Spectra;
using Eigen::Index;
typedef Eigen::MatrixXd Mat;
typedef Eigen::VectorXd Vec;
typedef std::complex<double> Cx;
typedef Eigen::MatrixXcd CMat;

struct SpectraVerifAccess {
    template <class S> static Index svd_ops(S& s) { return s.m_eigs->num_operations(); }
    // step-by-step replica of GenEigsBase::compute's loop that prints, before every restart, the restart size and a compact
    // description of the Ritz values (r real | P first of an adjacent conjugate pair | p second | X complex without adjacent partner;
    // '=' appended when the value equals the one two places earlier, i.e. a duplicated pair) -- used by --replay for diagnosis
    template <class Op, class BOp> static void trace_gen(GenEigsBase<Op, BOp>& s, SortRule rule, long maxit, double tol, std::ostream& os) {
        const Index ncv = s.m_ncv, nev = s.m_nev;
        s.m_fac.factorize_from(1, ncv, s.m_nmatop); s.retrieve_ritzpair(rule);
        for (long i = 0; i < maxit; i++) {
            Index nconv = s.num_converged(tol); if (nconv >= nev) { os << "iter " << i << ": converged\n"; return; }
            Index k = s.nev_adjusted(nconv);
            std::string pat;
            for (Index j = 0; j < ncv; j++) {
                Cx v = s.m_ritz_val[j]; char ch = 'r';
                if (v.imag() != 0.0) { if (j + 1 < ncv && v == std::conj(Cx(s.m_ritz_val[j + 1]))) ch = 'P'; else if (j > 0 && v == std::conj(Cx(s.m_ritz_val[j - 1]))) ch = 'p'; else ch = 'X'; }
                pat += ch; if (j >= 2 && v == Cx(s.m_ritz_val[j - 2]) && v.imag() != 0.0) pat += '=';
                if (j == k - 1) pat += '|';
            }
            Index j = k; bool oob = false;
            while (j < ncv) { Cx v = s.m_ritz_val[j]; if (v.imag() != 0.0) { if (j + 1 >= ncv) { oob = true; break; } if (v == std::conj(Cx(s.m_ritz_val[j + 1]))) j++; } j++; }
            os << "iter " << i << ": nconv=" << nconv << " k=" << k << " ritz pattern (| = restart position) " << pat << (oob ? "   => the shift loop will read m_ritz_val[ncv]" : "") << std::endl;
            s.restart(k, rule);
        }
    }
};

// ------------------------------------------------------------------ probe shared by all wrappers of one case
struct Probe {
    long calls = 0; long n = 0; std::string bad;
    long limit = 0;   // runaway guard: far beyond the property's work bound the case is stopped (a loop that never ends must not hang the search)
    template <class T> void check(const T* x, T* y) {
        calls++;
        if (limit > 0 && calls > limit) {
            fprintf(stderr, "RUNAWAY: operator applied %ld times, more than 8x the work bound 2+2*ncv*(maxit+1): the run was stopped\n", calls); fflush(stderr); _exit(97);
        }
        if (!bad.empty()) return;
        if ((const void*) x == (const void*) y) { bad = "x == y"; return; }
        if (x == nullptr || y == nullptr) { bad = "null pointer"; return; }
        const char* xb = (const char*) x; const char* yb = (const char*) y; long len = n * (long) sizeof(T);
        if (xb < yb + len && yb < xb + len) { bad = "input and output ranges overlap"; return; }
        if (REGION_BAD(x, len)) { bad = "input range not addressable"; return; }
        if (REGION_BAD(y, len)) { bad = "output range not addressable"; return; }
        for (long i = 0; i < n; i++) { volatile T t = x[i]; (void) t; }    // touch: ASan would report
    }
};

// explicit product operators (real symmetric / general, complex Hermitian)
template <class M> struct ProdOp {
    using Scalar = typename M::Scalar;
    const M& A; Probe& pr;
    ProdOp(const M& A_, Probe& p) : A(A_), pr(p) {}
    Index rows() const { return A.rows(); } Index cols() const { return A.cols(); }
    void perform_op(const Scalar* x, Scalar* y) const {
        pr.check(x, y);
        Eigen::Map<const Eigen::Matrix<Scalar, Eigen::Dynamic, 1>> xv(x, A.cols()); Eigen::Map<Eigen::Matrix<Scalar, Eigen::Dynamic, 1>> yv(y, A.rows());
        yv.noalias() = A * xv;
    }
};
// wrapper around one of the library's own operator classes
template <class Inner> struct Counted {
    using Scalar = typename Inner::Scalar;
    Inner& in; Probe& pr;
    Counted(Inner& i, Probe& p) : in(i), pr(p) {}
    Index rows() const { return in.rows(); } Index cols() const { return in.cols(); }
    void set_shift(const Scalar& s) { in.set_shift(s); }
    void set_shift(const Scalar& sr, const Scalar& si) { in.set_shift(sr, si); }
    void perform_op(const Scalar* x, Scalar* y) const { pr.check(x, y); in.perform_op(x, y); }
};

// ------------------------------------------------------------------ case description
struct Case { long idx; int cls, kind, n, nev, ncv, maxit, rule, scale, v0; double tol; long seedov = -1; };
static const char* CLS[] = {"SymEigsSolver", "SymEigsShiftSolver", "HermEigsSolver", "GenEigsSolver", "GenEigsRealShiftSolver", "GenEigsComplexShiftSolver",
                            "SymGEigsSolver<Cholesky>", "SymGEigsSolver<RegularInverse>", "SymGEigsShiftSolver<ShiftInvert>", "SymGEigsShiftSolver<Buckling>",
                            "SymGEigsShiftSolver<Cayley>", "PartialSVDSolver"};
static const int NCLS = 12;
static const char* KIND[] = {"zero", "identity", "nilpotent", "rank-deficient", "permutation", "orthogonal", "skew", "key-ties", "random", "two-equal-cycles", "dup-rotation-blocks"};
static const int NKIND = 11;
static const double SCALES[] = {1.0, 1e-8, 1e8};

static std::string cjson(const Case& c) {
    return "{\"part\":\"X\",\"harness\":\"c13x\",\"idx\":" + str(c.idx) + ",\"cls\":" + str(c.cls) + ",\"class\":\"" + CLS[c.cls] + "\",\"kind\":" + str(c.kind) + ",\"matrix\":\"" + KIND[c.kind] +
           "\",\"n\":" + str(c.n) + ",\"nev\":" + str(c.nev) + ",\"ncv\":" + str(c.ncv) + ",\"maxit\":" + str(c.maxit) + ",\"rule\":" + str(c.rule) + ",\"scale\":" + str(c.scale) + ",\"v0\":" + str(c.v0) + ",\"tol\":" + str(dbits(c.tol)) + "}";
}
static long jget(const std::string& t, const std::string& k, long d) {
    size_t p = t.find("\"" + k + "\":"); if (p == std::string::npos) return d;
    return std::strtol(t.c_str() + p + k.size() + 3, nullptr, 10);
}

static bool is_sym_class(int cls) { return cls == 0 || cls == 1 || (cls >= 6 && cls <= 10); }
static bool is_gen_class(int cls) { return cls >= 3 && cls <= 5; }

// the matrix of a case (general form; symmetric classes get the symmetric variant of the same class of matrices)
static Mat make_matrix(const Case& c, Rng& rng, bool sym) {
    int n = c.n; Mat A = Mat::Zero(n, n);
    switch (c.kind) {
        case 0: break;
        case 1: A.setIdentity(); break;
        case 2: for (int i = 0; i + 1 < n; i++) A(i, i + 1) = 1.0; if (sym) { A.setZero(); /* symmetric nilpotent = 0; use rank-1 PSD with a big null space instead */ A(0, 0) = 1.0; } break;
        case 3: { int r = 1 + (int) rng.below(2); for (int t = 0; t < r; t++) { Vec u(n), v(n); for (int i = 0; i < n; i++) { u[i] = rng.sym(); v[i] = rng.sym(); } A += u * (sym ? u : v).transpose(); } break; }
        case 4: if (sym) { for (int i = 0; i + 1 < n; i += 2) { A(i, i + 1) = 1; A(i + 1, i) = 1; } if (n % 2) A(n - 1, n - 1) = 1; }   // involution
                else for (int i = 0; i < n; i++) A((i + 1) % n, i) = 1.0; break;                                                    // n-cycle
        case 5: { // orthogonal: product of Householder reflectors (symmetric classes: one reflector = symmetric orthogonal)
                  A.setIdentity(); int m = sym ? 1 : 3;
                  for (int t = 0; t < m; t++) { Vec u(n); for (int i = 0; i < n; i++) u[i] = rng.sym(); u.normalize(); A = (A - 2.0 * (A * u) * u.transpose()).eval(); }
                  if (sym) A = (0.5 * (A + A.transpose())).eval(); break; }
        case 6: for (int i = 0; i < n; i++) for (int j = 0; j < i; j++) { double v = rng.sym(); A(i, j) = v; A(j, i) = sym ? v : -v; } if (sym) for (int i = 0; i < n; i++) A(i, i) = 0.0; break;
        case 7: for (int i = 0; i < n; i++) A(i, i) = ((i % 2) ? -1.0 : 1.0) * (double) (1 + (i / 2) % 3); break;                 // exact ties in |.|, repeated values
        case 8: for (int i = 0; i < n; i++) for (int j = 0; j < n; j++) A(i, j) = rng.sym(); if (sym) A = (0.5 * (A + A.transpose())).eval(); break;
        case 9: { int h = n / 2; for (int i = 0; i < h; i++) { A((i + 1) % h, i) = 1.0; A(h + (i + 1) % h, h + i) = 1.0; } if (n % 2) A(n - 1, n - 1) = 1.0;   // two equal cycles: every eigenvalue twice
                  if (sym) A = (0.5 * (A + A.transpose())).eval(); break; }
        default: { for (int i = 0; i + 1 < n; i += 2) { double th = (i % 4 == 0) ? 0.9 : 0.9; double cs = std::cos(th), sn = std::sin(th); A(i, i) = cs; A(i, i + 1) = -sn; A(i + 1, i) = sn; A(i + 1, i + 1) = cs; }
                   if (n % 2) A(n - 1, n - 1) = 0.5; if (sym) A = (0.5 * (A + A.transpose())).eval(); break; }       // identical rotation blocks: duplicated complex pairs
    }
    return (A * SCALES[c.scale]).eval();
}

static Vec make_v0(const Case& c, Rng& rng, const Mat& A) {
    int n = (int) A.cols(); Vec v(n);
    switch (c.v0) {
        case 1: v.setZero(); v[0] = 1.0; break;
        case 2: v.setOnes(); break;
        case 3: { // a vector of the null space of A if there is one (F17), else e_n
                  Eigen::JacobiSVD<Mat> svd(A, Eigen::ComputeFullV); v = svd.matrixV().col(n - 1); break; }
        case 4: v.setZero(); v[n - 1] = 1e-200; break;
        default: for (int i = 0; i < n; i++) v[i] = rng.sym(); break;
    }
    return v;
}

template <class V> static bool all_finite(const V& v) { for (Index i = 0; i < v.size(); i++) { if (!std::isfinite(std::abs(v.data()[i]))) return false; } return true; }

struct Res { std::string status, sig, what; long calls = 0, nmatop = -1; };

static const std::vector<SortRule> SYM_RULES = {SortRule::LargestMagn, SortRule::LargestAlge, SortRule::SmallestAlge, SortRule::BothEnds, SortRule::SmallestMagn};
static const std::vector<SortRule> GEN_RULES = {SortRule::LargestMagn, SortRule::LargestReal, SortRule::LargestImag, SortRule::SmallestMagn, SortRule::SmallestReal, SortRule::SmallestImag};

template <class Solver, class SV> static void drive(Solver& s, const Case& c, const SV* v0, SortRule rule, Probe& pr, Res& r, bool extra_probe_solves) {
    if (v0) s.init(v0->data()); else s.init();
    Index nconv = s.compute(rule, c.maxit, c.tol);
    auto ev = s.eigenvalues(); auto evec = s.eigenvectors();
    r.nmatop = (long) s.num_operations();
    if (!(s.info() == CompInfo::Successful || s.info() == CompInfo::NotConverging)) { r.status = "fail"; r.sig = "bad-info"; r.what = "info() = " + str((int) s.info()); return; }
    if (nconv < 0 || nconv > c.nev || ev.size() != nconv || evec.cols() != nconv) { r.status = "fail"; r.sig = "bad-count"; r.what = "nconv " + str(nconv) + " values " + str(ev.size()) + " vectors " + str(evec.cols()); return; }
    if (!all_finite(ev) || !all_finite(evec)) { r.status = "fail"; r.sig = "nonfinite-result"; r.what = "non-finite value returned by eigenvalues()/eigenvectors() with info() = " + str((int) s.info()); return; }
    long bound = 2 + 2L * c.ncv * (c.maxit + 1);
    long counted = pr.calls;
    if (extra_probe_solves) {
        long extra = pr.calls - r.nmatop;
        if (extra < 0 || extra > 2L * c.nev || (extra % 2)) { r.status = "fail"; r.sig = "probe-solves"; r.what = "complex-shift post-processing applied the operator " + str(extra) + " times, expected an even number <= 2*nev"; return; }
        if (pr.calls > bound) { r.status = "fail"; r.sig = "work-bound-with-probe-solves"; r.what = "operator applied " + str(pr.calls) + " times (" + str(extra) + " uncounted probe solves) > 2+2*ncv*(maxit+1) = " + str(bound); return; }
        counted = r.nmatop;
    } else if (r.nmatop != pr.calls) { r.status = "fail"; r.sig = "opcount-mismatch"; r.what = "num_operations() = " + str(r.nmatop) + ", operator applied " + str(pr.calls) + " times"; return; }
    if (counted > bound) { r.status = "fail"; r.sig = "work-bound"; r.what = "operator applied " + str(counted) + " times > 2+2*ncv*(maxit+1) = " + str(bound); return; }
    r.status = s.info() == CompInfo::Successful ? "ok-successful" : "ok-notconverging";
}

static std::ostream* g_trace = nullptr;   // --replay diagnosis of GenEigsSolver cases
static Res run_case(const Case& c, uint64_t seed) {
    Res r; Rng rng(seed, 41, c.idx);
    Probe pr; pr.n = c.n; pr.limit = 8 * (2 + 2L * c.ncv * (c.maxit + 1)) + 64;
    bool sym = is_sym_class(c.cls) || c.cls == 2;
    Mat A = make_matrix(c, rng, sym && c.cls != 2);
    Vec v0 = make_v0(c, rng, A); const Vec* pv0 = c.v0 == 5 ? nullptr : &v0;
    SortRule rs = SYM_RULES[c.rule % SYM_RULES.size()], rg = GEN_RULES[c.rule % GEN_RULES.size()];
    const double sigma = (c.rule % 3 == 0) ? 0.3 * SCALES[c.scale] : ((c.rule % 3 == 1) ? 1.0 * SCALES[c.scale] : -0.7 * SCALES[c.scale]);   // 1.0*scale: an exact eigenvalue of several classes
    try {
        switch (c.cls) {
            case 0: { ProdOp<Mat> op(A, pr); SymEigsSolver<ProdOp<Mat>> s(op, c.nev, c.ncv); drive(s, c, pv0, rs, pr, r, false); break; }
            case 1: { DenseSymShiftSolve<double> in(A); Counted<DenseSymShiftSolve<double>> op(in, pr); SymEigsShiftSolver<Counted<DenseSymShiftSolve<double>>> s(op, c.nev, c.ncv, sigma); drive(s, c, pv0, rs, pr, r, false); break; }
            case 2: { // complex Hermitian: H = S + i K with S symmetric, K skew built from the same matrix class
                      Case c2 = c; Mat S = make_matrix(c2, rng, true); Mat K = Mat::Zero(c.n, c.n);
                      if (c.kind == 6 || c.kind == 8 || c.kind == 5) { for (int i = 0; i < c.n; i++) for (int j = 0; j < i; j++) { double v = rng.sym() * SCALES[c.scale]; K(i, j) = v; K(j, i) = -v; } }
                      if (c.kind == 6) S.setZero();
                      CMat H = S.cast<Cx>() + Cx(0, 1) * K.cast<Cx>();
                      ProdOp<CMat> op(H, pr); HermEigsSolver<ProdOp<CMat>> s(op, c.nev, c.ncv);
                      Eigen::VectorXcd cv(c.n); for (int i = 0; i < c.n; i++) cv[i] = Cx(v0[i], (c.v0 == 0) ? rng.sym() : 0.0);
                      drive(s, c, pv0 ? &cv : (const Eigen::VectorXcd*) nullptr, rs, pr, r, false); break; }
            case 3: { ProdOp<Mat> op(A, pr); GenEigsSolver<ProdOp<Mat>> s(op, c.nev, c.ncv);
                      if (g_trace) { if (pv0) s.init(pv0->data()); else s.init(); SpectraVerifAccess::trace_gen(s, rg, c.maxit, c.tol, *g_trace); r.status = "traced"; break; }
                      drive(s, c, pv0, rg, pr, r, false); break; }
            case 4: { DenseGenRealShiftSolve<double> in(A); Counted<DenseGenRealShiftSolve<double>> op(in, pr); GenEigsRealShiftSolver<Counted<DenseGenRealShiftSolve<double>>> s(op, c.nev, c.ncv, sigma);
                      if (g_trace) { if (pv0) s.init(pv0->data()); else s.init(); SpectraVerifAccess::trace_gen(s, rg, c.maxit, c.tol, *g_trace); r.status = "traced"; break; }
                      drive(s, c, pv0, rg, pr, r, false); break; }
            case 5: { DenseGenComplexShiftSolve<double> in(A); Counted<DenseGenComplexShiftSolve<double>> op(in, pr);
                      GenEigsComplexShiftSolver<Counted<DenseGenComplexShiftSolve<double>>> s(op, c.nev, c.ncv, sigma, 0.4 * SCALES[c.scale]);
                      if (g_trace) { if (pv0) s.init(pv0->data()); else s.init(); SpectraVerifAccess::trace_gen(s, rg, c.maxit, c.tol, *g_trace); r.status = "traced"; break; }
                      drive(s, c, pv0, rg, pr, r, true); break; }
            case 6: case 7: case 8: case 9: case 10: {
                      // B symmetric positive definite (well conditioned), same scale as A
                      Mat B = Mat::Identity(c.n, c.n); for (int i = 0; i + 1 < c.n; i++) { B(i, i + 1) = 0.2; B(i + 1, i) = 0.2; } B *= (c.rule % 2 ? 1.0 : 2.0);
                      if (c.cls == 6) { DenseSymMatProd<double> in(A); Counted<DenseSymMatProd<double>> op(in, pr); DenseCholesky<double> Bop(B);
                                        SymGEigsSolver<Counted<DenseSymMatProd<double>>, DenseCholesky<double>, GEigsMode::Cholesky> s(op, Bop, c.nev, c.ncv); drive(s, c, pv0, rs, pr, r, false); }
                      else if (c.cls == 7) { Eigen::SparseMatrix<double> As = A.sparseView(), Bs = B.sparseView(); SparseSymMatProd<double> in(As); Counted<SparseSymMatProd<double>> op(in, pr); SparseRegularInverse<double> Bop(Bs);
                                        SymGEigsSolver<Counted<SparseSymMatProd<double>>, SparseRegularInverse<double>, GEigsMode::RegularInverse> s(op, Bop, c.nev, c.ncv); drive(s, c, pv0, rs, pr, r, false); }
                      else { using SI = SymShiftInvert<double, Eigen::Dense, Eigen::Dense>; using BO = DenseSymMatProd<double>;
                             if (c.cls == 9) { // buckling: K positive definite, KG = A indefinite; the solver takes (K, KG)
                                 Mat K = B; SI in(K, A); Counted<SI> op(in, pr); BO Bop(K);
                                 const double sb = sigma / (SCALES[c.scale] * SCALES[c.scale]);   // eigenvalues of (K, KG) scale like 1/|KG|
                                 SymGEigsShiftSolver<Counted<SI>, BO, GEigsMode::Buckling> s(op, Bop, c.nev, c.ncv, sb); drive(s, c, pv0, rs, pr, r, false); }
                             else { SI in(A, B); Counted<SI> op(in, pr); BO Bop(B);
                                 if (c.cls == 8) { SymGEigsShiftSolver<Counted<SI>, BO, GEigsMode::ShiftInvert> s(op, Bop, c.nev, c.ncv, sigma); drive(s, c, pv0, rs, pr, r, false); }
                                 else { SymGEigsShiftSolver<Counted<SI>, BO, GEigsMode::Cayley> s(op, Bop, c.nev, c.ncv, sigma); drive(s, c, pv0, rs, pr, r, false); } } }
                      break; }
            default: { // PartialSVDSolver on an n x (n-1) / (n-1) x n / n x n matrix of the class
                      int m = c.n, q = (c.rule % 3 == 0) ? c.n : c.n - 1; Mat G = (c.rule % 3 == 2) ? Mat(A.topRows(q)) : Mat(A.leftCols(q));
                      (void) m;
                      PartialSVDSolver<Mat> s(G, c.nev, c.ncv); Index nc = s.compute(c.maxit, c.tol);
                      Vec sv = s.singular_values(); Mat U = s.matrix_U(c.nev), V = s.matrix_V(c.nev);
                      r.nmatop = (long) SpectraVerifAccess::svd_ops(s); r.calls = r.nmatop;
                      if (nc < 0 || nc > c.nev || sv.size() != nc) { r.status = "fail"; r.sig = "bad-count"; r.what = "svd count"; break; }
                      if (!all_finite(sv) || !all_finite(U) || !all_finite(V)) { r.status = "fail"; r.sig = "nonfinite-result"; r.what = "non-finite singular value / vector returned"; break; }
                      if (r.nmatop > 2 + 2L * c.ncv * (c.maxit + 1)) { r.status = "fail"; r.sig = "work-bound"; r.what = "svd operator count " + str(r.nmatop); break; }
                      r.status = "ok-svd"; break; }
        }
    } catch (const std::invalid_argument& e) { r.status = "ok-exc"; r.what = std::string("invalid_argument: ") + e.what(); }
      catch (const std::runtime_error& e) { r.status = "ok-exc"; r.what = std::string("runtime_error: ") + e.what(); }
      catch (const std::logic_error& e) { r.status = "ok-exc"; r.what = std::string("logic_error: ") + e.what(); }
      catch (const std::exception& e) { r.status = "fail"; r.sig = "foreign-exception"; r.what = std::string("exception type not thrown by the library: ") + e.what(); }
    if (c.cls != 11) r.calls = pr.calls;
    // a shift that is (numerically) an eigenvalue puts the input outside the shift-and-invert domain: the library is expected to
    // reject it; when the factorization does not notice, the failure is tagged so that it is not confused with in-domain failures
    if (r.status == "fail" && r.sig == "nonfinite-result" && (c.cls == 1 || c.cls == 4 || c.cls == 5 || c.cls == 8 || c.cls == 10)) {
        Mat B = Mat::Identity(c.n, c.n);
        if (c.cls >= 8) { for (int i = 0; i + 1 < c.n; i++) { B(i, i + 1) = 0.2; B(i + 1, i) = 0.2; } B *= (c.rule % 2 ? 1.0 : 2.0); }
        CMat M = A.cast<Cx>() - Cx(sigma, c.cls == 5 ? 0.4 * SCALES[c.scale] : 0.0) * B.cast<Cx>();
        Eigen::JacobiSVD<CMat> svd(M);
        double smax = svd.singularValues()[0], smin = svd.singularValues()[c.n - 1];
        if (!(smin > 1e-10 * smax)) { r.sig = "nonfinite-result-singular-shift"; r.what += " [A - sigma*B is singular to working precision: sigma is an eigenvalue, smin/smax = " + str(smax > 0 ? smin / smax : 0.0) + "]"; }
    }
    if (!pr.bad.empty()) { r.status = "fail"; r.sig = "op-args"; r.what = "perform_op: " + pr.bad; }
    return r;
}

// ------------------------------------------------------------------ case list (fixed counts)
// fixed regression inputs (run first, identical for every VERIF_SEED): replays of defects found by this search
static std::vector<Case> corpus() {
    std::vector<Case> cs;
    auto add = [&](long idx, int cls, int kind, int n, int nev, int ncv, int maxit, int rule, int scale, int v0, uint64_t tolbits, long seed) {
        Case c; c.idx = idx; c.cls = cls; c.kind = kind; c.n = n; c.nev = nev; c.ncv = ncv; c.maxit = maxit; c.rule = rule; c.scale = scale; c.v0 = v0; c.tol = bitsd(tolbits); c.seedov = seed; cs.push_back(c); };
    add(1357, 3, 10, 18, 1, 15, 30, 5, 1, 0, 4547007122018943789ull, 1);   // GenEigsSolver, identical rotation blocks: duplicated conjugate pairs, stable sort (ncv <= 16)
    add(1348, 3, 10, 21, 13, 21, 3, 3, 2, 3, 0ull, 1);                      // GenEigsSolver, ncv = n = 21 > 16: key ties + unstable std::sort break adjacency
    add(1697, 4, 10, 19, 8, 10, 100, 5, 0, 5, 0ull, 1);                     // GenEigsRealShiftSolver
    add(2028, 5, 10, 10, 5, 7, 10, 1, 0, 3, 0ull, 1);                       // GenEigsComplexShiftSolver
    add(2010, 5, 9, 20, 2, 19, 5, 1, 1, 3, 4397347889687374747ull, 1);      // two equal permutation cycles
    add(1745, 5, 1, 9, 2, 4, 0, 2, 0, 0, 4547007122018943789ull, 1);        // complex shift, maxit = 0: probe solves exceed the work bound
    add(3854, 11, 3, 18, 13, 14, 100, 3, 2, 2, 4457293557087583675ull, 1);  // PartialSVDSolver, rank-deficient: sqrt of a tiny negative eigenvalue
    add(3064, 9, 0, 17, 13, 15, 5, 2, 2, 5, 4547007122018943789ull, 1);     // buckling with KG = 0: every eigenvalue infinite
    return cs;
}

static std::vector<Case> make_cases(const Args& a) {
    std::vector<Case> cs = corpus(); long idx = 0;
    long per = a.thorough() ? 260 : 80;
    for (int cls = 0; cls < NCLS; cls++) for (int kind = 0; kind < NKIND; kind++) for (long t = 0; t < per / (kind >= 9 ? 2 : 1); t++) {
        Rng rng(a.seed, 40, idx);
        Case c; c.idx = idx++; c.cls = cls; c.kind = kind;
        bool gen = is_gen_class(cls); int gap = gen ? 2 : 1;
        int big = a.thorough() ? 40 : 24;
        c.n = rng.coin(0.75) ? rng.range(gap + 2, 10) : rng.range(11, big);
        if (kind >= 9 && rng.coin(0.5)) c.n = rng.range(18, big);
        int nmax = (cls == 11) ? c.n - 1 : c.n;     // SVD: the smaller dimension is n-1 in two of three shapes
        int mode = (int) rng.below(4);
        c.nev = rng.range(1, std::max(1, nmax - gap));
        if (mode == 0) c.ncv = c.nev + gap;                 // ncv = nev+1 (nev+2)
        else if (mode == 1) c.ncv = nmax;                   // ncv = n
        else c.ncv = rng.range(c.nev + gap, nmax);
        if (gen && kind >= 4 && rng.coin(0.5) && nmax >= 19) { c.ncv = rng.range(17, nmax); c.nev = rng.range(1, c.ncv - 2); }   // > 16 Ritz values: std::sort is not stable
        c.maxit = rng.pick(std::vector<int>{0, 0, 1, 2, 3, 5, 10, 30, 100});
        c.rule = (int) rng.below(6); c.scale = (int) rng.below(3);
        c.v0 = rng.pick(std::vector<int>{0, 0, 1, 2, 3, 3, 4, 5});
        c.tol = rng.pick(std::vector<double>{1e-10, 1e-10, 1e-14, 0.0, 1e-4});
        cs.push_back(c);
    }
    return cs;
}

int main(int argc, char** argv) {
    Args a(argc, argv); Out out(a.out);
    std::vector<Case> cases;
    if (!a.replay.empty()) {
        std::ifstream f(a.replay); std::string t((std::istreambuf_iterator<char>(f)), {});
        { size_t rp = t.find("\"replay\""); if (rp != std::string::npos) t = t.substr(rp); }   // the case is the nested "replay" object of a replay file
        Case c; c.idx = jget(t, "idx", 0); c.cls = (int) jget(t, "cls", 0); c.kind = (int) jget(t, "kind", 0); c.n = (int) jget(t, "n", 5); c.nev = (int) jget(t, "nev", 1);
        c.ncv = (int) jget(t, "ncv", 3); c.maxit = (int) jget(t, "maxit", 1); c.rule = (int) jget(t, "rule", 0); c.scale = (int) jget(t, "scale", 0); c.v0 = (int) jget(t, "v0", 0);
        size_t p = t.find("\"tol\":"); c.tol = p == std::string::npos ? 1e-10 : bitsd(std::strtoull(t.c_str() + p + 6, nullptr, 10));
        long sd = jget(t, "seed", -1); if (sd >= 0) c.seedov = sd;
        cases.push_back(c);
    } else cases = make_cases(a);
    const size_t BATCH = 64;
    size_t pos = 0;
    std::string resf = a.out + "/xresults.txt", errf = a.out + "/child_stderr.txt", lastf = a.out + "/lastcase.txt";
    int n_runaway = 0;
    while (pos < cases.size()) {
        // three cases that do not terminate are three failing inputs: the rest of the search is skipped instead of waiting 30 s for each further one
        if (n_runaway >= 3) { out.count("X_skipped_after_runaway", (long) (cases.size() - pos)); break; }
        size_t hi = std::min(cases.size(), pos + BATCH);
        { std::ofstream r(resf, std::ios::trunc); }
        fflush(nullptr);
        pid_t pid = fork();
        if (pid == 0) {
            int fd = open(errf.c_str(), O_WRONLY | O_CREAT | O_TRUNC, 0644); if (fd >= 0) { dup2(fd, 2); dup2(fd, 1); }
            std::ofstream rs(resf, std::ios::app);
            for (size_t i = pos; i < hi; i++) {
                { std::ofstream lc(lastf, std::ios::trunc); lc << i << "\n" << cjson(cases[i]) << "\n"; }
                std::signal(SIGALRM, SIG_DFL); alarm(30);   // watchdog: a single case takes milliseconds; one that is still running after 30 s does not terminate
                Res r = run_case(cases[i], cases[i].seedov >= 0 ? (uint64_t) cases[i].seedov : a.seed);
                rs << i << "\t" << r.status << "\t" << r.sig << "\t" << jesc(r.what) << "\t" << r.calls << "\n"; rs.flush();
            }
            alarm(0);
            _exit(0);
        }
        int st = 0; waitpid(pid, &st, 0);
        size_t done = pos;
        { std::ifstream rs(resf); std::string ln;
          while (std::getline(rs, ln)) {
              std::vector<std::string> f; size_t s0 = 0; for (size_t k = 0; k <= ln.size(); k++) if (k == ln.size() || ln[k] == '\t') { f.push_back(ln.substr(s0, k - s0)); s0 = k + 1; }
              if (f.size() < 5) continue;
              size_t i = (size_t) std::strtoul(f[0].c_str(), nullptr, 10); const Case& c = cases[i]; done = i + 1;
              out.count(std::string("oracle_cases")); out.count(std::string("X_class:") + CLS[c.cls]); out.count(std::string("X_matrix:") + KIND[c.kind]); out.count("X_outcome:" + f[1]);
              if (f[1] == "ok-exc") out.count("X_exception:" + f[3].substr(0, 90));
              if (c.ncv == c.n) out.count("X_ncv_eq_n"); if (c.maxit == 0) out.count("X_maxit0"); if (c.ncv > 16) out.count("X_ncv_gt_16");
              if (f[1] == "fail") {
                  std::string rj = cjson(c); rj.insert(rj.size() - 1, ",\"seed\":" + str(c.seedov >= 0 ? (uint64_t) c.seedov : a.seed));
                  out.fail(f[2], std::string(CLS[c.cls]) + " on " + KIND[c.kind] + " matrix (n=" + str(c.n) + ", nev=" + str(c.nev) + ", ncv=" + str(c.ncv) + ", maxit=" + str(c.maxit) + "): " + f[3], rj);
              }
          } }
        bool crashed = !(WIFEXITED(st) && WEXITSTATUS(st) == 0);
        if (crashed && done < hi) {
            const Case& c = cases[done];
            std::ifstream ef(errf); std::string et((std::istreambuf_iterator<char>(ef)), {});
            std::string key = "crash";
            size_t p;
            if (WIFSIGNALED(st) && WTERMSIG(st) == SIGALRM) key = "WATCHDOG: the case was still running after 30 s (no termination within the work bound)";
            else if ((p = et.find("RUNAWAY")) != std::string::npos) key = et.substr(p, std::min<size_t>(260, et.find('\n', p) - p));
            else if ((p = et.find("Assertion")) != std::string::npos) key = et.substr(p, std::min<size_t>(260, et.find('\n', p) - p));
            else if ((p = et.find("ERROR: AddressSanitizer")) != std::string::npos) key = et.substr(p, std::min<size_t>(200, et.find('\n', p) - p));
            else if ((p = et.find("runtime error:")) != std::string::npos) key = et.substr(p, std::min<size_t>(200, et.find('\n', p) - p));
            if (key.find("RUNAWAY") == 0 || key.find("WATCHDOG") == 0) n_runaway++;
            std::string sig = (key.find("RUNAWAY") == 0 || key.find("WATCHDOG") == 0) ? "work-bound-runaway" : key.find("Assertion") == 0 ? "assertion" : (key.find("ERROR: AddressSanitizer") == 0 ? "asan" : (key.find("runtime error") == 0 ? "ubsan" : "crash"));
            std::string rj = cjson(c); rj.insert(rj.size() - 1, ",\"seed\":" + str(c.seedov >= 0 ? (uint64_t) c.seedov : a.seed));
            if (is_gen_class(c.cls)) {
                // diagnosis: replica of compute's loop that prints the Ritz pattern before each restart (crashes at the same place)
                std::string trf = a.out + "/trace.txt"; fflush(nullptr);
                pid_t tp = fork();
                if (tp == 0) { int fd = open("/dev/null", O_WRONLY); if (fd >= 0) { dup2(fd, 2); dup2(fd, 1); }
                               std::ofstream tr(trf, std::ios::trunc); g_trace = &tr; run_case(c, c.seedov >= 0 ? (uint64_t) c.seedov : a.seed); tr.flush(); _exit(0); }
                int tst = 0; waitpid(tp, &tst, 0);
                std::ifstream tf(trf); std::string ln, last; while (std::getline(tf, ln)) if (!ln.empty()) last = ln;
                if (last.find("will read m_ritz_val[ncv]") != std::string::npos) { sig = "gen-restart-ritz-oob"; key += " | GenEigsBase::restart, " + last.substr(0, 300); }
            }
            out.fail(sig, std::string(CLS[c.cls]) + " on " + KIND[c.kind] + " matrix (n=" + str(c.n) + ", nev=" + str(c.nev) + ", ncv=" + str(c.ncv) + ", maxit=" + str(c.maxit) + ", rule=" + str(c.rule) + "): " + key, rj);
            out.count("oracle_cases"); out.count("X_outcome:crash");
            done = done + 1;
        } else if (crashed) done = hi;
        pos = std::max(done, pos + (crashed ? 0 : BATCH));
        if (!crashed) pos = hi;
    }
    { std::ofstream lc(lastf, std::ios::trunc); lc << "done\n"; }
    out.finish();
    return 0;
}
