// C02 harness: GenEigsSolver, GenEigsRealShiftSolver, GenEigsComplexShiftSolver of the REAL library on histories of
// init / compute / accessor calls over the property's matrix classes.
//   * correspondence: every history is also written as a `gen …` request for the Lean model (Model/GenSolver.lean through
//     Driver/C02.lean): return value, status, counters, eigenvalues (bit-exact), eigenvectors (soft: matrix-matrix product),
//     hash of the whole factorization object, and for the complex-shift class the probe shift the solver installed;
//     `ckern …` requests pin the complex arithmetic of the back-transformations (std::sqrt(complex), the two roots, 1/nu + sigma).
//   * oracle: the property's own predicate in long double against a dense reference (Eigen::EigenSolver<long double>).
//   * structured complex-shift shares (all from the framework PRNG, replayable by (seed, tier, stream, case)): stream 1 |lambda - Re sigma| = |Im sigma|;
//     stream 2 decoupled / block-diagonal matrices whose wanted eigenvectors vanish in the first nev coordinates (and controls); stream 3 exactly prescribed
//     spectra (triangular, banded, block triangular, permuted) with Re sigma an exact eigenvalue (A - Re sigma I singular, A - sigma I regular).
// Eigen's index/size assertions are turned into C++ exceptions (the technique of Eigen's own test-suite), so that an assertion
// inside the library is a recorded result of ONE case, not the end of the run.
#include <stdexcept>
struct EigenAssertFail : public std::logic_error { explicit EigenAssertFail(const char* w) : std::logic_error(w) {} };
#define eigen_assert(x) do { if (!(x)) throw EigenAssertFail(#x); } while (0)
#include "solver_common.h"
#include <Eigen/LU>
#include <Eigen/Eigenvalues>
using namespace sh;
typedef std::complex<double> CD;
typedef std::complex<LD> CL;
typedef Eigen::MatrixXcd CMat;
typedef Eigen::VectorXcd CVec;
typedef Eigen::Matrix<CL, Eigen::Dynamic, Eigen::Dynamic> CMatL;
typedef Eigen::Matrix<CL, Eigen::Dynamic, 1> CVecL;

struct SpectraVerifAccess {
    template <class S> static auto fac(S& s) -> decltype((s.m_fac)) { return s.m_fac; }
    template <class F> static std::string fachash(const F& f) {
        uint64_t h = 1469598103934665603ull; auto feed = [&h](double x) { uint64_t u = dbits(x + 0.0); for (int b = 0; b < 8; b++) { h ^= (u >> (8 * b)) & 0xff; h *= 1099511628211ull; } };
        feed(f.m_beta); const long m = f.m_m, n = f.m_n, k = f.m_k;
        for (long j = 0; j < m; j++) for (long i = 0; i < m; i++) feed(f.m_fac_H(i, j));
        for (long i = 0; i < n; i++) feed(f.m_fac_f[i]);
        for (long j = 0; j < k; j++) for (long i = 0; i < n; i++) feed(f.m_fac_V(i, j));
        return "k=" + str(k) + " beta=e:" + str(dbits(f.m_beta)) + " hash=" + str(h);
    }
    // max |V'V - I| over the whole basis eigenvectors() multiplies with (mechanism key of finding F13)
    template <class F> static long double vloss(const F& f) {
        Eigen::Matrix<long double, Eigen::Dynamic, Eigen::Dynamic> V = f.m_fac_V.template cast<long double>();
        Eigen::Matrix<long double, Eigen::Dynamic, Eigen::Dynamic> G = V.transpose() * V; for (long i = 0; i < G.rows(); i++) G(i, i) -= 1; return G.cwiseAbs().maxCoeff();
    }
};

static const LD EPS = 2.220446049250313e-16L;
// stated constants of the oracle
static const LD C1 = 10.0L;      // multiple of tol * (documented convergence scale)
static const LD C2 = 2000.0L;    // multiple of n * eps * ||operator||_F  (rounding level)
static const LD C3 = 1000.0L;    // | ||x|| - 1 | <= C3 * n * eps * (1 + restarts of this compute())

// ---- operator for the complex-shift solver: explicit matrix Re[(A - sigma I)^{-1}], recomputed (in long double) for every shift
// the solver installs; every installed (shift, matrix) is recorded so that the model can be given the same matrices
struct ShiftRec { double r, i; Mat R; };
struct ExplCplxOp {
    using Scalar = double; const Mat* A; OpLog* log; Mat R; double sr = 0, si = 0, sr0 = 0, si0 = 0; bool have0 = false;
    std::vector<ShiftRec>* rec; mutable long probes = 0;
    ExplCplxOp(const Mat& a, OpLog& l, std::vector<ShiftRec>& r) : A(&a), log(&l), rec(&r) {}
    Eigen::Index rows() const { return A->rows(); } Eigen::Index cols() const { return A->cols(); }
    static Mat re_inverse(const Mat& A, double r_, double i_) {
        CMatL M = A.cast<CL>(); for (long k = 0; k < M.rows(); k++) M(k, k) -= CL((LD) r_, (LD) i_);
        CMatL Inv = M.partialPivLu().inverse(); Mat R(A.rows(), A.cols()); for (long i = 0; i < R.rows(); i++) for (long j = 0; j < R.cols(); j++) R(i, j) = (double) Inv(i, j).real(); return R; }
    void set_shift(const double& r_, const double& i_) { sr = r_; si = i_; if (!have0) { sr0 = r_; si0 = i_; have0 = true; } R = re_inverse(*A, r_, i_); rec->push_back(ShiftRec{r_, i_, R}); }
    bool at_main() const { return sr == sr0 && si == si0; }
    void perform_op(const double* x, double* y) const { const long n = rows(); if (at_main()) log->enter(x, y, n); else probes++;
        for (long i = 0; i < n; i++) { double s = 0.0; for (long j = 0; j < n; j++) s += R(i, j) * x[j]; y[i] = s; } }
};

// ---- matrix classes of the property ----
static const char* MCLS[10] = {"dense", "normal", "skew", "orthogonal", "permutation", "triangular", "companion", "rank1", "blockdiag", "fewdistinct"};
static Mat normal_from_blocks(Rng& r, int n, const std::vector<CD>& ev) {   // Q blockdiag(…) Q', ev lists one value per 1x1 block and one (a+ib) per 2x2 block
    Mat D = Mat::Zero(n, n); int p = 0;
    for (const CD& z : ev) { if (z.imag() == 0.0 || p + 1 >= n) { if (p < n) D(p, p) = z.real(); p++; } else { D(p, p) = z.real(); D(p + 1, p + 1) = z.real(); D(p, p + 1) = -z.imag(); D(p + 1, p) = z.imag(); p += 2; } if (p >= n) break; }
    Mat Q = rand_orth(r, n); return (Q * D * Q.transpose()).eval();
}
static Mat gen_matrix(Rng& r, int n, int mclass, double scale, std::string& sub) {
    Mat A(n, n); for (int i = 0; i < n; i++) for (int j = 0; j < n; j++) A(i, j) = r.sym();
    switch (mclass) {
    case 1: { std::vector<CD> ev; int p = 0; while (p < n) { if (p + 1 < n && r.coin(0.6)) { ev.push_back(CD(r.sym() * 2, 0.2 + r.unit() * 2)); p += 2; } else { ev.push_back(CD(r.sym() * 3, 0)); p++; } } A = normal_from_blocks(r, n, ev); break; }
    case 2: { Mat S = A - A.transpose(); A = S; break; }
    case 3: A = rand_orth(r, n); break;
    case 4: { A.setZero(); if (r.coin(0.4)) { for (int i = 0; i < n; i++) A((i + 1) % n, i) = 1; sub = "cyclic"; }
              else { std::vector<int> p(n); for (int i = 0; i < n; i++) p[i] = i; for (int i = n - 1; i > 0; i--) std::swap(p[i], p[r.below(i + 1)]); for (int i = 0; i < n; i++) A(p[i], i) = 1; sub = "random"; } break; }
    case 5: { for (int i = 0; i < n; i++) for (int j = 0; j < i; j++) A(i, j) = 0; if (r.coin(0.5)) { for (int i = 0; i < n; i++) A(i, i) = (double) r.range(-4, 4) * 0.5 + 0.25 * i; sub = "dyadic-diagonal"; } double g = r.coin(0.5) ? 1.0 : 4.0; for (int i = 0; i < n; i++) for (int j = i + 1; j < n; j++) A(i, j) *= g; break; }
    case 6: { Mat C = Mat::Zero(n, n); for (int i = 0; i + 1 < n; i++) C(i + 1, i) = 1; for (int i = 0; i < n; i++) C(i, n - 1) = r.sym() * (r.coin(0.3) ? 3.0 : 1.0); A = C; break; }
    case 7: { Vec u(n), v(n); for (int i = 0; i < n; i++) { u[i] = r.sym(); v[i] = r.sym(); } A = u * v.transpose(); break; }
    case 8: { Mat B = Mat::Zero(n, n); int h = std::max(1, n / 2 - (int) r.below(2)); for (int i = 0; i < h; i++) for (int j = 0; j < h; j++) B(i, j) = A(i, j); for (int i = h; i < n; i++) for (int j = h; j < n; j++) B(i, j) = A(i, j); if (r.coin(0.3)) { B(0, 0) = 2.0; for (int j = 1; j < h; j++) { B(0, j) = 0; B(j, 0) = 0; } sub = "decoupled-2.0"; } A = B; break; }
    case 9: { std::vector<CD> ev; int style = r.below(3); int p = 0;
              if (style == 0) { CD z(r.sym(), 0.3 + r.unit()); while (p < n) { if (p + 1 < n && p < 4) { ev.push_back(z); p += 2; } else { ev.push_back(CD((double) (p % 2) + 0.5, 0)); p++; } } sub = "repeated-complex-pair"; }
              else if (style == 1) { while (p < n) { ev.push_back(CD((double) (p % 3) - 1.0, 0)); p++; } sub = "three-real-values"; }
              else { CD z1(0.5, 1.0), z2(-0.5, 0.7); while (p < n) { if (p + 1 < n) { ev.push_back((p / 2) % 2 ? z1 : z2); p += 2; } else { ev.push_back(CD(1.5, 0)); p++; } } sub = "two-complex-pairs-repeated"; }
              A = normal_from_blocks(r, n, ev); break; }
    default: break;
    }
    return (A * scale).eval();
}

// ---- dense reference in long double ----
struct Ref { CVecL ev; CMatL X; LD condX; LD normA; };
static Ref reference(const Mat& A) {
    Ref R; const long n = A.rows(); MatL AL = A.cast<LD>(); R.normA = AL.norm();
    Eigen::EigenSolver<MatL> es(AL, true); R.ev = es.eigenvalues(); R.X = es.eigenvectors();
    Eigen::FullPivLU<CMatL> lu(R.X); if (lu.isInvertible()) { CMatL Xi = lu.inverse(); R.condX = R.X.norm() * Xi.norm(); } else R.condX = std::numeric_limits<LD>::infinity();
    if (!(R.condX == R.condX)) R.condX = std::numeric_limits<LD>::infinity(); (void) n;
    return R;
}
static LD gap_of(const Ref& R, long m) { LD g = std::numeric_limits<LD>::infinity(); for (long j = 0; j < R.ev.size(); j++) if (j != m) g = std::min(g, std::abs(R.ev[j] - R.ev[m])); return g; }
static long nearest(const Ref& R, CL lam) { long b = 0; LD d = std::numeric_limits<LD>::infinity(); for (long j = 0; j < R.ev.size(); j++) { LD e = std::abs(R.ev[j] - lam); if (e < d) { d = e; b = j; } } return b; }

struct Case {
    int variant = 0, mclass = 0, n = 0, nev = 0, ncv = 0; double scale = 1, sr = 0, si = 0; Mat A; std::vector<Call> calls; std::string sub, cfg; int dupcx = 0; long idx = 0; uint64_t seed = 0; std::string tier; int stream = 0;
};
static const char* VCLS[3] = {"GenEigsSolver", "GenEigsRealShiftSolver", "GenEigsComplexShiftSolver"};

static std::string case_json(const Case& c, size_t upto, const std::string& extra = "") {
    std::string s = "{\"harness\":\"c02\",\"seed\":" + str(c.seed) + ",\"tier\":\"" + c.tier + "\",\"stream\":" + str(c.stream) + ",\"case\":" + str(c.idx) + ",\"class\":\"" + VCLS[c.variant] + "\",\"mclass\":\"" + MCLS[c.mclass] + "\",\"sub\":\"" + jesc(c.sub) + "\",\"cfg\":\"" + jesc(c.cfg) +
        "\",\"n\":" + str(c.n) + ",\"nev\":" + str(c.nev) + ",\"ncv\":" + str(c.ncv) + ",\"scale\":" + str(c.scale) + ",\"sigmar\":" + str(c.sr) + ",\"sigmai\":" + str(c.si) + ",\"dupcx\":" + str(c.dupcx) + extra + ",\"calls\":\"";
    for (size_t i = 0; i <= upto && i < c.calls.size(); i++) { const Call& k = c.calls[i];
        if (k.kind == 'I') s += "init(v);"; else if (k.kind == 'J') s += "init();"; else s += "compute(" + str(k.sel) + "," + str(k.maxit) + "," + str(k.tol) + "," + str(k.sort) + ");"; }
    return s + "\"}";
}

static std::string gen_header(const Case& c, const Mat& M) {
    const double eps = Spectra::TypeTraits<double>::epsilon(); const double eps23 = std::pow(eps, double(2) / 3); const double near0 = Spectra::TypeTraits<double>::min() * double(10);
    return "gen " + str(c.variant) + " " + str(c.n) + " " + str(c.nev) + " " + str(c.ncv) + " " + str(dbits(eps23)) + " " + str(dbits(near0)) + " " + str(dbits(eps)) + " " + str(dbits(c.sr)) + " " + str(dbits(c.si)) + mat_bits(M);
}

// ---- the oracle: property predicate on the pairs handed back by one compute() ----
struct OracleCtx { Out* out; const Case* c; const Ref* ref; const Mat* Op; LD opnorm; size_t callno; LD vloss; long niter; };

// amplification factor `amp` and transformed value nu such that  ||A x - lambda x|| <= amp * ||Op x - nu x||  (exact identities,
// Proofs/Spectral.lean and c02_quadratic); returns false when the bound is infinite (the other root of the quadratic is an eigenvalue)
static bool amplification(const Case& c, const Mat& A, CL lam, LD& amp, CL& nu, LD& extra) {
    const long n = A.rows(); extra = 0;
    if (c.variant == 0) { amp = 1; nu = lam; return true; }
    if (c.variant == 1) {
        CL t = lam - CL((LD) c.sr, 0); if (std::abs(t) == 0) return false; nu = CL(1, 0) / t;
        MatL S = A.cast<LD>(); for (long i = 0; i < n; i++) S(i, i) -= (LD) c.sr; amp = std::abs(t) * S.norm();
        return true; }
    CL t = lam - CL((LD) c.sr, 0); LD b = (LD) c.si; if (std::abs(t) == 0) return false;
    nu = t / (t * t + CL(b * b, 0)); if (std::abs(nu) == 0) return false;
    CL lam2 = CL((LD) c.sr, 0) + CL(b * b, 0) / t;                                  // the other root: (lam - sr)(lam' - sr) = si^2
    CMatL AL = A.cast<LD>().cast<CL>(); CMatL S = AL; for (long i = 0; i < n; i++) S(i, i) -= CL((LD) c.sr, 0);
    CMatL B = S * S; for (long i = 0; i < n; i++) B(i, i) += CL(b * b, 0);
    CMatL T = AL; for (long i = 0; i < n; i++) T(i, i) -= lam2;
    Eigen::FullPivLU<CMatL> lu(T); if (!lu.isInvertible()) return false;
    CMatL G = lu.solve(B); LD g = G.norm(); if (!(g == g) || g > 1e30L) return false;
    amp = g / std::abs(nu); return true;
}

static void check_pairs(OracleCtx& o, const CVec& ev, const CMat& X, double tol, long ret) {
    Out& out = *o.out; const Case& c = *o.c; const Ref& R = *o.ref; const long n = c.n;
    // mechanism key (known-finding matching): a NON-REAL returned eigenvalue lies on the circle |lambda - Re sigma| = |Im sigma| (to rounding).
    // The roots of the code's quadratic for a REAL transformed value nu with negative discriminant are exactly the points of that circle,
    // so such a value was produced from a real Ritz value that sort_ritzpair treated as one half of a conjugate pair.
    // unit-norm tolerance: rounding level, growing with the number of restarts of this compute() (every compress_V multiplies the basis by a
    // product of rotations/reflectors that is orthogonal only to rounding); mechanism key `vloss`: the basis eigenvectors() multiplies with is
    // not orthonormal beyond that level (| ||V y||^2 - 1 | <= ncv max|V'V - I| for unit y, so every unit-norm failure of a unit y has vloss = 1)
    const LD tolU = C3 * n * EPS * (1 + o.niter);
    const int vlossKey = (o.vloss > tolU / c.ncv) ? 1 : 0;
    int anycircle = 0;
    if (c.variant == 2) for (long j = 0; j < ev.size(); j++) { const LD d = std::hypot((LD) ev[j].real() - (LD) c.sr, (LD) ev[j].imag()); if (ev[j].imag() != 0.0 && std::fabs(d - std::fabs((LD) c.si)) <= 1e-9L * std::fabs((LD) c.si)) anycircle = 1; }
    auto rj = [&](const std::string& extra) { return case_json(c, o.callno, extra + ",\"anycircle\":" + str(anycircle) + ",\"vloss\":" + str(vlossKey)); };
    const std::string who = std::string(VCLS[c.variant]) + " on a " + MCLS[c.mclass] + " matrix (n=" + str(c.n) + ", nev=" + str(c.nev) + ", ncv=" + str(c.ncv) + ")";
    CMatL AL = c.A.cast<LD>().cast<CL>(); MatL OpL = o.Op->cast<LD>();
    const LD eps23 = std::pow(EPS, 2.0L / 3.0L);
    if ((long) ev.size() != ret || X.cols() != ret || (ret > 0 && X.rows() != n)) { out.fail("counts", who + ": compute() returned " + str(ret) + " but eigenvalues().size() = " + str((long) ev.size()) + ", eigenvectors() is " + str((long) X.rows()) + "x" + str((long) X.cols()), rj("")); return; }
    std::vector<long> match(ret, -1); std::vector<LD> dist(ret, 0); std::vector<int> tiny(ret, 0), nzv(ret, 0);
    for (long j = 0; j < ret; j++) {
        out.count("oracle_pairs");
        CL lam((LD) ev[j].real(), (LD) ev[j].imag()); CVecL x(n); for (long i = 0; i < n; i++) x[i] = CL((LD) X(i, j).real(), (LD) X(i, j).imag());
        bool finite = std::isfinite((double) lam.real()) && std::isfinite((double) lam.imag()); for (long i = 0; i < n && finite; i++) finite = std::isfinite((double) x[i].real()) && std::isfinite((double) x[i].imag());
        if (!finite) { int nz = 0; bool xfin = true; for (long i = 0; i < n && xfin; i++) xfin = std::isfinite((double) x[i].real()) && std::isfinite((double) x[i].imag());
            if (c.variant == 2 && xfin && x.norm() > 0.5L) { const LD sc0 = R.normA + std::fabs((LD) c.sr) + std::fabs((LD) c.si); const long m0 = nearest(R, CL((LD) c.sr, 0)); if (std::abs(R.ev[m0] - CL((LD) c.sr, 0)) <= 1e-9L * sc0 && (AL * x - R.ev[m0] * x).norm() <= 1e-6L * sc0 * x.norm()) nz = 1; }
            out.fail("nonfinite", who + ": pair " + str(j) + " handed back as converged contains NaN/inf", rj(",\"pair\":" + str(j) + ",\"nuzero\":" + str(nz))); continue; }
        const LD xn = x.norm();
        // mechanism keys of the replay (used by known-finding matching): a (numerically) zero vector; a tiny non-zero imaginary part
        // mechanism key `nuzero` (complex shift): A has an eigenvalue mu0 AT Re sigma (to rounding; its transformed value is nu = mu0' / (mu0'^2 + Im sigma^2) = 0 with
        // mu0' = mu0 - Re sigma) and the returned vector is an eigenvector of A for mu0: the pair is the one whose lambda the code computes as the difference
        // (Re sigma + 0.5 / nu) - 0.5 sqrt(1 - 4 Im sigma^2 nu^2) / nu of two numbers of size 1 / |nu| ~ 1 / eps (finding C02-resigma-cancellation)
        int nuzero = 0;
        if (c.variant == 2 && xn > 0.5L) { const LD sc0 = R.normA + std::fabs((LD) c.sr) + std::fabs((LD) c.si); const long m0 = nearest(R, CL((LD) c.sr, 0));
            if (std::abs(R.ev[m0] - CL((LD) c.sr, 0)) <= 1e-9L * sc0 && (AL * x - R.ev[m0] * x).norm() <= 1e-6L * sc0 * xn) nuzero = 1; }
        const std::string pk = ",\"pair\":" + str(j) + ",\"xnorm0\":" + str(xn < 1e-6L ? 1 : 0) + ",\"tinyimag\":" + str((lam.imag() != 0 && std::fabs(lam.imag()) <= 1e-6L * std::abs(lam)) ? 1 : 0) + ",\"nuzero\":" + str(nuzero);
        if (nuzero) out.count("oracle_pairs_at_resigma");
        nzv[j] = nuzero;
        tiny[j] = (lam.imag() != 0 && std::fabs(lam.imag()) <= 1e-6L * std::abs(lam));
        if (!(std::fabs(xn - 1) <= tolU)) out.fail("unit-norm", who + ": returned eigenvector " + str(j) + " has norm " + str((double) xn) + " (|norm - 1| = " + str((double) std::fabs(xn - 1)) + " > " + str((double) tolU) + " after " + str(o.niter) + " restarts; max|V'V - I| = " + str((double) o.vloss) + ")", rj(pk));
        const LD res = (AL * x - lam * x).norm();
        LD amp, extra; CL nu; const bool bounded = amplification(c, c.A, lam, amp, nu, extra);
        LD bound = std::numeric_limits<LD>::infinity();
        if (bounded) {
            bound = amp * (C1 * (LD) tol * std::max(std::abs(nu), eps23) + C2 * n * EPS * o.opnorm);
            out.count("oracle_resid_checked");
            if (!(res <= bound * std::max(xn, (LD) 1))) out.fail("residual", who + ": pair " + str(j) + " handed back as converged has ||A x - lambda x|| = " + str((double) res) + " > " + str((double) bound) + " (tol = " + str(tol) + ", lambda = (" + str(ev[j].real()) + "," + str(ev[j].imag()) + "), back-transformation factor " + str((double) amp) + ")", rj(pk));
        } else {
            out.count("oracle_resid_unbounded");
            // the back-transformation factor is infinite exactly when the OTHER root of the quadratic is an eigenvalue of A; then either both roots
            // are eigenvalues (nu is a double eigenvalue of the operator: nothing can be said) or the solver selected the wrong root
            if (c.variant == 2 && std::abs(lam - CL((LD) c.sr, 0)) > 0) {
                const CL lam2 = CL((LD) c.sr, 0) + CL((LD) c.si * c.si, 0) / (lam - CL((LD) c.sr, 0));
                const LD sc = R.normA + std::fabs((LD) c.sr) + std::fabs((LD) c.si);
                const LD d1 = std::abs(R.ev[nearest(R, lam)] - lam), d2 = std::abs(R.ev[nearest(R, lam2)] - lam2);
                if (d2 <= 1e-7L * sc && d1 >= 1e-3L * sc) out.fail("wrong-root", who + ": returned eigenvalue " + str(j) + " = (" + str(ev[j].real()) + "," + str(ev[j].imag()) + ") is at distance " + str((double) d1) + " from the spectrum of A, but the OTHER root of the quadratic (" + str((double) lam2.real()) + "," + str((double) lam2.imag()) + ") is an eigenvalue (distance " + str((double) d2) + "): the root selection picked the wrong candidate", rj(pk));
            }
        }
        // the same clause when the factor is finite but huge: the other root lambda' computed from the ROUNDED returned value misses the eigenvalue it mirrors by a
        // rounding error, A - lambda' I is then invertible in long double with a norm ~ 1/eps and the residual / Bauer-Fike bounds above hold vacuously.  Stated on its
        // own: a unit-norm pair handed back as converged by a complex-shift solver whose value is clearly NOT in the spectrum (distance >= max(1e-3, 1000 tol) (||A|| + |sigma|),
        // reference eigenvectors conditioned below 1e8) while its mirror image lambda' = Re sigma + Im sigma^2 / (lambda - Re sigma) IS an eigenvalue (distance <= 1e-7 (||A|| + |sigma|)):
        // nu(lambda) = nu(lambda') is a Ritz value of a genuine eigenvalue and the wrong one of the two candidates was reported.  Not evaluated when the basis has lost
        // orthonormality (mechanism key vloss of F13: the vectors the probing works on are noise).
        if (bounded && c.variant == 2 && !vlossKey && std::fabs(xn - 1) <= tolU && R.condX < 1e8L && std::abs(lam - CL((LD) c.sr, 0)) > 0) {
            const CL lam2 = CL((LD) c.sr, 0) + CL((LD) c.si * c.si, 0) / (lam - CL((LD) c.sr, 0));
            const LD sc = R.normA + std::fabs((LD) c.sr) + std::fabs((LD) c.si);
            const LD d1 = std::abs(R.ev[nearest(R, lam)] - lam), d2 = std::abs(R.ev[nearest(R, lam2)] - lam2);
            out.count("oracle_mirror_checked");
            if (d2 <= 1e-7L * sc && d1 >= std::max(1e-3L, 1e3L * (LD) tol) * sc) out.fail("wrong-root", who + ": returned eigenvalue " + str(j) + " = (" + str(ev[j].real()) + "," + str(ev[j].imag()) + ") is at distance " + str((double) d1) + " from the spectrum of A (||A x - lambda x|| = " + str((double) res) + "), but its mirror image (" + str((double) lam2.real()) + "," + str((double) lam2.imag()) + ") = Re sigma + Im sigma^2 / (lambda - Re sigma), the OTHER root of the quadratic, is an eigenvalue (distance " + str((double) d2) + "): the root selection picked the wrong candidate", rj(pk));
        }
        // lambda is reported in the spectrum of A (Bauer-Fike with the reference eigenvector matrix; skipped when A is (nearly) defective)
        const long m = nearest(R, lam); match[j] = m; dist[j] = std::abs(R.ev[m] - lam);
        if (bounded && R.condX < 1e8L) {
            out.count("oracle_spectrum_checked");
            const LD sb = 2 * R.condX * (bound + 100 * n * EPS * R.normA);
            if (!(dist[j] <= sb)) out.fail("not-in-spectrum", who + ": returned eigenvalue " + str(j) + " = (" + str(ev[j].real()) + "," + str(ev[j].imag()) + ") is at distance " + str((double) dist[j]) + " from the nearest eigenvalue of A (allowed " + str((double) sb) + ", cond(X) = " + str((double) R.condX) + ")", rj(pk));
        }
    }
    if (std::getenv("C02_DEBUG")) {
        std::cerr << "DEBUG " << who << " sigma=(" << c.sr << "," << c.si << ") tol=" << tol << "\n  reference:";
        for (long q = 0; q < R.ev.size(); q++) { CL t = R.ev[q] - CL((LD) c.sr, 0); CL nu = c.variant == 2 ? t / (t * t + CL((LD) c.si * c.si, 0)) : (c.variant == 1 ? CL(1, 0) / t : R.ev[q]); CL l2 = c.variant == 2 ? CL((LD) c.sr, 0) + CL((LD) c.si * c.si, 0) / t : CL(0, 0);
            std::cerr << "\n    mu=(" << (double) R.ev[q].real() << "," << (double) R.ev[q].imag() << ") nu=(" << (double) nu.real() << "," << (double) nu.imag() << ") |nu|=" << (double) std::abs(nu) << " otherroot=(" << (double) l2.real() << "," << (double) l2.imag() << ")"; }
        std::cerr << "\n  returned:"; for (long j = 0; j < ret; j++) std::cerr << " (" << ev[j].real() << "," << ev[j].imag() << ")"; std::cerr << "\n";
    }
    // distinctness: two returned values on one SIMPLE reference eigenvalue
    for (long i = 0; i < ret; i++) for (long j = i + 1; j < ret; j++) {
        if (match[i] < 0 || match[i] != match[j]) continue;
        const LD gap = gap_of(R, match[i]); if (!(gap > 1e-6L * (R.normA + 1e-300L))) continue;     // reference eigenvalue not clearly simple
        out.count("oracle_distinct_checked");
        if (dist[i] <= 1e-3L * gap && dist[j] <= 1e-3L * gap) {
            // mechanism key: the two vectors are (nearly) parallel = two Ritz pairs approximating ONE eigenpair (a ghost copy), as opposed to
            // a copied eigenvalue sitting on a different vector (overwrite)
            CVecL xi(n), xj(n); for (long q = 0; q < n; q++) { xi[q] = CL((LD) X(q, i).real(), (LD) X(q, i).imag()); xj[q] = CL((LD) X(q, j).real(), (LD) X(q, j).imag()); }
            const LD cs = std::abs(xi.dot(xj)) / (xi.norm() * xj.norm() + 1e-300L); const int par = cs > 0.99L ? 1 : 0;
            // mechanism key `mirrorpair` (complex shift): the duplicated eigenvalue mu has a DIFFERENT eigenvalue of A as its mirror image Re sigma + Im sigma^2 / (mu - Re sigma):
            // both have the same transformed value nu, the operator has a double eigenvalue and the iteration cannot separate the two eigenvectors (finding C02-mirror-pair);
            // `nuzero`: one of the two pairs is the pair of the eigenvalue AT Re sigma (finding C02-resigma-cancellation: its garbage value landed on a neighbour)
            int mirrorpair = 0;
            if (c.variant == 2) { const CL mu = R.ev[match[i]]; const LD sc0 = R.normA + std::fabs((LD) c.sr) + std::fabs((LD) c.si);
                if (std::abs(mu - CL((LD) c.sr, 0)) > 0) { const CL mm = CL((LD) c.sr, 0) + CL((LD) c.si * c.si, 0) / (mu - CL((LD) c.sr, 0)); const long q = nearest(R, mm); if (q != match[i] && std::abs(R.ev[q] - mm) <= 1e-7L * sc0 && std::abs(mm - mu) > 1e-3L * sc0) mirrorpair = 1; } }
            out.fail("duplicate-eigenvalue", who + ": returned eigenvalues " + str(i) + " and " + str(j) + " are both copies of the simple eigenvalue (" + str((double) R.ev[match[i]].real()) + "," + str((double) R.ev[match[i]].imag()) + ") of A (gap to the rest of the spectrum " + str((double) gap) + "; |cos| of the two vectors " + str((double) cs) + ")", rj(",\"pair\":" + str(j) + ",\"xnorm0\":0,\"tinyimag\":" + str((tiny[i] || tiny[j]) ? 1 : 0) + ",\"parallel\":" + str(par) + ",\"mirrorpair\":" + str(mirrorpair) + ",\"nuzero\":" + str((nzv[i] || nzv[j]) ? 1 : 0))); return; }
    }
}

// ---- one case: run the history on the real class, write the correspondence line, evaluate the oracle ----
template <class Solver, class OpT>
static void run_history(Solver& s, OpT& op, OpLog& log, const Case& c, const Ref& ref, const Mat& Op, Out& out, std::string& req, std::string& resp,
                        std::vector<ShiftRec>* rec, const std::function<long()>& probes) {
    (void) op; bool inited = false; const LD opnorm = Op.cast<LD>().norm();
    for (size_t ci = 0; ci < c.calls.size(); ci++) {
        const Call& k = c.calls[ci];
        if (k.kind == 'I' || k.kind == 'J') {
            req += (k.kind == 'I' ? std::string(" | I") + vec_bits(k.v0) : std::string(" | J"));
            try { log.reset(); if (k.kind == 'I') s.init(k.v0.data()); else s.init(); inited = true; resp += " | ok nmatop=" + str((long) s.num_operations()); out.count("oracle_init"); }
            catch (const std::invalid_argument&) { resp += " | throw std::invalid_argument"; out.count("init_throw"); continue; }
            // whatever the accessors hand back between init() and the next compute() is judged like any other returned pair (the
            // unchanged library hands back nothing here: init() clears the Ritz data of an earlier run)
            {   CVec e0 = s.eigenvalues(); CMat X0 = s.eigenvectors(); out.count("oracle_after_init");
                if (e0.size() > 0 || X0.cols() > 0) { out.count("pairs_handed_back_after_init");
                    OracleCtx o{&out, &c, &ref, &Op, opnorm, ci, SpectraVerifAccess::vloss(SpectraVerifAccess::fac(s)), 0};
                    check_pairs(o, e0, X0, 1e-3, (long) e0.size()); } }
            continue;
        }
        if (!inited) continue;
        req += " | C " + str(k.sel) + " " + str(k.maxit) + " " + str(dbits(k.tol)) + " " + str(k.sort);
        long r = -1; std::string ex; const long probes0 = probes(); const long niter0 = inited ? (long) s.num_iterations() : 0; const size_t nrec0 = rec ? rec->size() : 0;
        try { r = (long) s.compute((SortRule) k.sel, k.maxit, k.tol, (SortRule) k.sort); }
        catch (const EigenAssertFail& e) { ex = "eigen_assert"; }
        catch (const std::invalid_argument&) { ex = "std::invalid_argument"; }
        catch (const std::runtime_error&) { ex = "std::runtime_error"; }
        catch (const std::exception&) { ex = "other"; }
        if (!ex.empty()) {
            resp += " | throw " + ex; out.count("compute_throw_" + ex);
            if (ex == "eigen_assert") out.fail("eigen-index-assertion", std::string(VCLS[c.variant]) + " on a " + MCLS[c.mclass] + " matrix: an Eigen index assertion fired inside compute() (GenEigsBase::restart reads m_ritz_val[ncv])", case_json(c, ci));
            else if (ex != "std::invalid_argument") out.count("oracle_compute_exception");
            return;    // the object is in the state of the throw point: the history ends here (model and harness alike)
        }
        resp += " | ret=" + str(r) + " info=" + str((int) s.info()) + " niter=" + str((long) s.num_iterations()) + " nmatop=" + str((long) s.num_operations());
        if (rec) { double shiftr = 0; bool seen = false; for (size_t q = nrec0; q < rec->size(); q++) if (!((*rec)[q].r == c.sr && (*rec)[q].i == c.si)) { shiftr = (*rec)[q].r; seen = true; if ((*rec)[q].i != 0.0) out.fail("probe-shift-not-real", "complex-shift solver installed a non-real probe shift", case_json(c, ci)); }
                   resp += " shiftr=e:" + str(dbits(seen ? shiftr : 0.0));
                   // F3 (fixed in ddaf8d1): the operator must be back at the user's shift after compute()
                   if (!(rec->back().r == c.sr && rec->back().i == c.si)) out.fail("operator-drift", "GenEigsComplexShiftSolver left the user's operator at shift (" + str(rec->back().r) + "," + str(rec->back().i) + ") instead of (" + str(c.sr) + "," + str(c.si) + ") after compute()", case_json(c, ci));
                   out.count("probe_solves", probes() - probes0); }
        req += " | E | V " + str(c.nev) + " | F";
        CVec e1 = s.eigenvalues(); resp += " | k=" + str((long) e1.size()); for (long i = 0; i < e1.size(); i++) resp += " e:" + str(dbits(e1[i].real())) + " e:" + str(dbits(e1[i].imag()));
        CMat X1 = s.eigenvectors(c.nev); resp += " | rows=" + str(c.n) + " cols=" + str((long) X1.cols()); for (long j = 0; j < X1.cols(); j++) for (long i = 0; i < X1.rows(); i++) resp += " " + str(dbits(X1(i, j).real() + 0.0)) + " " + str(dbits(X1(i, j).imag() + 0.0));
        resp += " | " + SpectraVerifAccess::fachash(SpectraVerifAccess::fac(s));
        const long niter_this = (long) s.num_iterations() - niter0;
        out.count("oracle_compute"); out.count(r == c.nev ? "oracle_successful" : (r > 0 ? "oracle_partial" : "oracle_none"));
        out.count(std::string("outcome_") + MCLS[c.mclass] + (r == c.nev ? "_successful" : "_notconverged"));
        OracleCtx o{&out, &c, &ref, &Op, opnorm, ci, SpectraVerifAccess::vloss(SpectraVerifAccess::fac(s)), niter_this};
        if (o.vloss > C3 * c.n * EPS * (1 + niter_this) / c.ncv) out.count("basis_not_orthonormal");
        if (std::getenv("C02_DEBUG")) std::cerr << "VL " << (double) o.vloss << " " << niter_this << " " << c.n << " " << c.ncv << " " << MCLS[c.mclass] << " " << c.variant << " " << r << "\n";
        check_pairs(o, s.eigenvalues(), s.eigenvectors(), k.tol, r);
        if ((long) s.num_operations() != log.count) out.fail("opcount", std::string(VCLS[c.variant]) + ": num_operations() = " + str((long) s.num_operations()) + " but the operator was applied " + str(log.count) + " times since init()", case_json(c, ci));
    }
}

static void run_case(Case& c, Out& out, bool corr) {
    { std::ofstream lc(out.dir + "/lastcase.txt"); lc << case_json(c, c.calls.size()) << "\n"; }
    out.count(std::string("cls_") + VCLS[c.variant]); out.count(std::string("mclass_") + MCLS[c.mclass]); if (!c.cfg.empty()) out.count("cfg_" + c.cfg);
    Ref ref = reference(c.A);
    // mechanism key: A has a REPEATED non-real eigenvalue (the trigger of C13's finding F9: conjugate test of nev_adjusted / restart across a pair boundary)
    for (long i = 0; i < ref.ev.size(); i++) for (long j = i + 1; j < ref.ev.size(); j++) if (std::fabs(ref.ev[i].imag()) > 1e-8L * (ref.normA + 1e-300L) && std::abs(ref.ev[i] - ref.ev[j]) <= 1e-8L * (ref.normA + 1e-300L)) c.dupcx = 1;
    OpLog log; std::string req, resp;
    try {
        if (c.variant == 0) { LoopMatOp op(c.A, log); Spectra::GenEigsSolver<LoopMatOp> s(op, c.nev, c.ncv); req = gen_header(c, c.A);
            run_history(s, op, log, c, ref, c.A, out, req, resp, nullptr, []() { return 0L; }); }
        else if (c.variant == 1) { MatL M = c.A.cast<LD>(); for (long i = 0; i < M.rows(); i++) M(i, i) -= (LD) c.sr; MatL I = M.partialPivLu().inverse(); Mat Inv = I.cast<double>();
            LoopMatOp op(Inv, log); Spectra::GenEigsRealShiftSolver<LoopMatOp> s(op, c.nev, c.ncv, c.sr); req = gen_header(c, Inv);
            run_history(s, op, log, c, ref, Inv, out, req, resp, nullptr, []() { return 0L; }); }
        else { std::vector<ShiftRec> rec; ExplCplxOp op(c.A, log, rec); Spectra::GenEigsComplexShiftSolver<ExplCplxOp> s(op, c.nev, c.ncv, c.sr, c.si);
            Mat Rmain = rec.empty() ? Mat::Zero(c.n, c.n) : rec[0].R; std::string tail;
            run_history(s, op, log, c, ref, Rmain, out, tail, resp, &rec, [&op]() { return op.probes; });
            Mat P = Mat::Zero(c.n, c.n); for (const ShiftRec& q : rec) if (!(q.r == c.sr && q.i == c.si)) P = q.R;
            req = gen_header(c, Rmain) + mat_bits(P) + tail; }
    } catch (const std::invalid_argument&) { out.count("ctor_invalid_argument"); return; }
    if (corr && !resp.empty()) { out.corr(req, resp.size() > 3 ? resp.substr(3) : resp); out.count("corr_histories"); }
    else out.count("corr_skipped");
}

// ---- case generation ----
static std::vector<Call> gen_history(Rng& r, int n, bool thorough) {
    std::vector<Call> h; static const int grule[6] = {0, 1, 2, 4, 5, 6};
    auto mkinit = [&]() { Call k; k.kind = r.coin(0.5) ? 'J' : 'I'; k.v0 = Vec(n); for (int j = 0; j < n; j++) k.v0[j] = r.sym(); return k; };
    auto mkcomp = [&]() { Call k; k.kind = 'C'; k.sel = grule[r.below(6)]; if (r.coin(0.5)) k.sel = 0; k.sort = grule[r.below(6)];
        static const long miq[8] = {0, 1, 2, 5, 20, 60, 60, 60}, mit[8] = {0, 1, 3, 10, 60, 200, 300, 300}; k.maxit = thorough ? mit[r.below(8)] : miq[r.below(8)];
        static const double tl[6] = {1e-3, 1e-6, 1e-10, 1e-10, 1e-13, 4.5e-16}; k.tol = tl[r.below(6)]; return k; };
    // histories of at most 4 calls: init compute [compute] [init compute | compute]
    h.push_back(mkinit()); h.push_back(mkcomp());
    const int style = r.below(6);
    if (style == 1 || style == 2) h.push_back(mkcomp());
    if (style == 2 && r.coin()) h.push_back(mkcomp());
    if (style == 3 || style == 4) { h.push_back(mkinit()); h.push_back(mkcomp()); }
    return h;
}

// ---- structured complex-shift families (streams 2 and 3): GenEigsComplexShiftSolver only, LargestMagn (= nearest to sigma) in most histories ----
static CD nu_of(CD lam, double sr, double si) { return 0.5 * (1.0 / (lam - CD(sr, si)) + 1.0 / (lam - CD(sr, -si))); }
static void perm_similarity(Rng& r, Mat& A, const std::vector<int>& keep_off, int nfirst) {
    // B(p[i], p[j]) = A(i, j): entries (and zeros) are moved, never recomputed; coordinates listed in keep_off are kept out of the first `nfirst` positions
    const int n = (int) A.rows(); std::vector<int> p(n); for (int i = 0; i < n; i++) p[i] = i; for (int i = n - 1; i > 0; i--) std::swap(p[i], p[r.below(i + 1)]);
    std::vector<char> off(n, 0); for (int i : keep_off) off[i] = 1;
    for (int i = 0; i < n; i++) if (off[i] && p[i] < nfirst) { for (int j = 0; j < n; j++) if (!off[j] && p[j] >= nfirst) { std::swap(p[i], p[j]); break; } }
    Mat B(n, n); for (int i = 0; i < n; i++) for (int j = 0; j < n; j++) B(p[i], p[j]) = A(i, j); A = B;
}
static void structured_history(Case& c, Rng& r, bool thorough, double keep_rule) {
    c.calls = gen_history(r, c.n, thorough);
    for (Call& k : c.calls) if (k.kind == 'C') { if (!r.coin(keep_rule)) k.sel = 0; if (k.maxit < 20) k.maxit = 60; if (k.tol > 1e-6) k.tol = 1e-10; }
}
// stream 2: decoupled (block-diagonal) real matrices: 1x1 real blocks, 2x2 rotation-scaling blocks [[a, b], [-b, a]] (pair a +- ib), small dense blocks;
// the blocks that hold the eigenvalues nearest to sigma (largest |nu|) are placed so that their eigenvectors are supported AWAY from the first nev
// coordinates (cfg decoupled-away, optionally hidden by a permutation similarity that keeps every zero exact: decoupled-away-perm), or INSIDE the
// leading coordinates (control share: decoupled-inside), or anywhere (decoupled-mixed)
static bool make_decoupled(Case& c, Rng& r, bool thorough) {
    struct Blk { Mat M; std::vector<CD> ev; double score; };
    c.variant = 2; c.mclass = 8; c.scale = 1.0; c.sub.clear();
    const int nmax = thorough ? 22 : 14;
    c.nev = r.range(1, 4); c.n = r.range(2 * c.nev + 6, std::max(2 * c.nev + 6, nmax)); { int lo = c.nev + 2; c.ncv = r.range(lo, std::min(c.n, lo + 6)); }
    c.sr = 2.0 * r.sym(); c.si = 0.2 + 1.3 * r.unit();
    const CD sg(c.sr, c.si), sgc(c.sr, -c.si);
    std::vector<Blk> blocks; std::vector<CD> all; int p = 0;
    auto clear_of = [&](const std::vector<CD>& ev) { for (const CD& z : ev) { if (std::abs(z - sg) < 0.15 || std::abs(z - sgc) < 0.15) return false; for (const CD& w : all) if (std::abs(z - w) < 0.05) return false; } return true; };
    while (p < c.n) {
        Blk b; bool ok = false; int kind = r.below(5); if (kind >= 3 && p + 3 > c.n) kind = r.below(3); if (kind == 2 && p + 2 > c.n) kind = 0;
        for (int att = 0; att < 30 && !ok; att++) {
            if (kind <= 1) { b.M = Mat::Constant(1, 1, 3.0 * r.sym()); b.ev = {CD(b.M(0, 0), 0)}; }
            else if (kind == 2) { const double a = 2.5 * r.sym(), bb = 0.2 + 1.8 * r.unit(); b.M = Mat(2, 2); b.M << a, bb, -bb, a; b.ev = {CD(a, bb), CD(a, -bb)}; }
            else { const int d = (kind == 4 && p + 4 <= c.n) ? 4 : 3; b.M = Mat(d, d); for (int i = 0; i < d; i++) for (int j = 0; j < d; j++) b.M(i, j) = 1.2 * r.sym(); const double sh = 2.0 * r.sym(); for (int i = 0; i < d; i++) b.M(i, i) += sh;
                   Eigen::EigenSolver<Mat> es(b.M, false); b.ev.clear(); for (int i = 0; i < d; i++) b.ev.push_back(es.eigenvalues()[i]); }
            ok = clear_of(b.ev);
            if (!ok && att == 20) kind = 0;
        }
        if (!ok) return false;
        b.score = 0; for (const CD& z : b.ev) { b.score = std::max(b.score, std::abs(nu_of(z, c.sr, c.si))); all.push_back(z); }
        p += (int) b.M.rows(); blocks.push_back(b);
    }
    // wanted blocks: by decreasing score until they hold nev + 1 eigenvalues (one beyond nev: the solver may take both members of a pair)
    std::vector<int> ord(blocks.size()); for (size_t i = 0; i < ord.size(); i++) ord[i] = (int) i; std::stable_sort(ord.begin(), ord.end(), [&](int a, int b) { return blocks[a].score > blocks[b].score; });
    std::vector<int> W, U; int cnt = 0, dW = 0; for (int i : ord) { if (cnt < c.nev + 1) { W.push_back(i); cnt += (int) blocks[i].ev.size(); dW += (int) blocks[i].M.rows(); } else U.push_back(i); }
    if (c.n - dW < c.nev) return false;
    auto shuffle = [&](std::vector<int>& v) { for (int i = (int) v.size() - 1; i > 0; i--) std::swap(v[i], v[r.below(i + 1)]); };
    shuffle(W); shuffle(U);
    const int share = (int) (c.idx % 8);     // 0,1,2,4 away; 3,5 away + permutation; 6 inside (control); 7 mixed
    const bool away = (share <= 5), inside = (share == 6), perm = (share == 3 || share == 5);
    std::vector<int> layout; if (away) { layout = U; layout.insert(layout.end(), W.begin(), W.end()); } else if (inside) { layout = W; layout.insert(layout.end(), U.begin(), U.end()); } else { layout = U; layout.insert(layout.end(), W.begin(), W.end()); shuffle(layout); }
    c.A = Mat::Zero(c.n, c.n); std::vector<int> wcoord; std::vector<char> isW(blocks.size(), 0); for (int i : W) isW[i] = 1;
    { int q = 0; for (int i : layout) { const int d = (int) blocks[i].M.rows(); c.A.block(q, q, d, d) = blocks[i].M; if (isW[i]) for (int t = 0; t < d; t++) wcoord.push_back(q + t); q += d; } }
    if (perm) perm_similarity(r, c.A, wcoord, c.nev);
    c.cfg = away ? (perm ? "decoupled-away-perm" : "decoupled-away") : inside ? "decoupled-inside" : "decoupled-mixed"; c.sub = "blocks=" + str(blocks.size()) + ",wanted-dim=" + str(dW);
    structured_history(c, r, thorough, 0.15);
    return true;
}
// stream 3: upper triangular / diagonal plus banded strictly upper / block upper triangular (2x2 rotation-scaling diagonal blocks) matrices whose eigenvalues are
// prescribed EXACTLY (multiples of 1/4 on the diagonal), sigma = (an exact real eigenvalue) + i tau, tau in {0.1, ..., 2}: A - Re sigma I is exactly singular while
// A - sigma I is regular (cfg exact-resigma-*); or Re sigma = the real part a of a 2x2 block a +- ib, Im sigma != b (cfg exact-resigma-blockre)
static bool make_exact_resigma(Case& c, Rng& r, bool thorough) {
    c.variant = 2; c.mclass = 5; c.scale = 1.0; c.sub.clear();
    const int nmax = thorough ? 22 : 14;
    c.nev = r.range(1, 4); c.n = r.range(std::max(7, c.nev + 4), nmax); { int lo = c.nev + 2; c.ncv = r.range(lo, std::min(c.n, lo + 6)); }
    const int style = (int) (c.idx % 5);     // 0 dense upper triangular, 1 diagonal + banded strictly upper, 2 block upper triangular, 3 block upper triangular with Re sigma on a block, 4 as 0 or 2 behind a permutation similarity
    const bool blocksty = (style == 2 || style == 3 || (style == 4 && r.coin()));
    std::vector<int> ks(41); for (int i = 0; i < 41; i++) ks[i] = i - 20; for (int i = 40; i > 0; i--) std::swap(ks[i], ks[r.below(i + 1)]);
    static const double BS[6] = {0.5, 0.75, 1.0, 1.25, 1.5, 2.0}, TAUS[7] = {0.1, 0.25, 0.5, 0.7, 1.0, 1.5, 2.0};
    c.A = Mat::Zero(c.n, c.n); std::vector<char> blockstart(c.n, 0); std::vector<double> reals; std::vector<CD> pairs; int p = 0, kq = 0;
    while (p < c.n) {
        const double a = 0.25 * ks[kq++];
        if (blocksty && p + 2 <= c.n && (r.coin(0.3) || (style == 3 && pairs.empty() && p + 3 >= c.n))) { const double b = BS[r.below(6)]; c.A(p, p) = a; c.A(p + 1, p + 1) = a; c.A(p, p + 1) = b; c.A(p + 1, p) = -b; blockstart[p] = 1; pairs.push_back(CD(a, b)); p += 2; }
        else { c.A(p, p) = a; reals.push_back(a); p++; }
    }
    if (reals.empty() || (style == 3 && pairs.empty())) return false;
    const bool banded = (style == 1); const double g = banded ? 0.5 : (r.coin() ? 0.1 : 0.3);
    for (int i = 0; i < c.n; i++) for (int j = i + 1; j < c.n; j++) { if (j == i + 1 && blockstart[i]) continue; if (banded && j - i > 2) continue; c.A(i, j) = g * r.sym(); }
    double tau = TAUS[r.below(7)];
    if (style == 3) { const CD z = pairs[r.below(pairs.size())]; c.sr = z.real(); for (int t = 0; t < 7 && std::fabs(tau - z.imag()) < 0.2; t++) tau = TAUS[(r.below(7) + t) % 7]; if (std::fabs(tau - z.imag()) < 0.2) return false; c.cfg = "exact-resigma-blockre"; }
    else { c.sr = reals[r.below(reals.size())]; c.cfg = style == 0 ? "exact-resigma-tri" : style == 1 ? "exact-resigma-banded" : style == 2 ? "exact-resigma-blocktri" : "exact-resigma-perm"; }
    c.si = tau;
    for (const CD& z : pairs) if (std::abs(z - CD(c.sr, c.si)) < 0.15) return false;
    if (style == 4) perm_similarity(r, c.A, std::vector<int>(), 0);
    c.sub = std::string(blocksty ? "block-triangular" : banded ? "diagonal-plus-banded-upper" : "upper-triangular") + ",tau=" + str(tau) + ",pairs=" + str(pairs.size());
    structured_history(c, r, thorough, 0.25);
    return true;
}

static bool make_case(Case& c, uint64_t seed, const std::string& tier, int stream, long idx) {
    const bool thorough = tier == "thorough"; Rng r(seed, 20 + stream, idx);
    c.seed = seed; c.tier = tier; c.stream = stream; c.idx = idx;
    c.variant = idx % 3; c.mclass = (idx / 3) % 10;
    const int nmax = thorough ? 22 : 14;
    c.n = r.range(6, nmax); if (r.coin(0.15)) c.n = r.range(3, 6);
    c.nev = r.range(1, std::max(1, std::min(5, c.n - 2))); int lo = c.nev + 2; c.ncv = r.range(lo, std::min(c.n, lo + 6)); if (r.coin(0.06)) c.ncv = c.n;
    static const double scales[4] = {1.0, 1.0, 1e-3, 1e3}; c.scale = scales[r.below(4)];
    c.A = gen_matrix(r, c.n, c.mclass, c.scale, c.sub);
    c.calls = gen_history(r, c.n, thorough);
    if (stream == 1) {   // targeted: complex shift with |lambda - Re sigma| = |Im sigma| for a real eigenvalue lambda (F14 configuration)
        c.variant = 2; c.mclass = (idx % 2) ? 5 : 8; c.scale = 1.0; c.sub.clear();
        c.A = gen_matrix(r, c.n, c.mclass, 1.0, c.sub);
        const double lam0 = 2.0; static const double bs[4] = {0.5, 0.25, 1.0, 0.75}; const double b = bs[r.below(4)];
        if (c.mclass == 5) { for (int i = 0; i < c.n; i++) c.A(i, i) = lam0 + 1.5 + 0.75 * i; c.A(0, 0) = lam0; }
        else { for (int j = 0; j < c.n; j++) { c.A(0, j) = 0; c.A(j, 0) = 0; } c.A(0, 0) = lam0; }
        c.sr = r.coin() ? lam0 - b : lam0 + b; c.si = b; c.cfg = "dist-eq-imsigma";
        for (Call& k : c.calls) if (k.kind == 'C') { k.sel = 0; if (k.maxit < 20) k.maxit = 60; if (k.tol > 1e-6) k.tol = 1e-10; }
        return true;
    }
    if (stream == 2) return make_decoupled(c, r, thorough);
    if (stream == 3) return make_exact_resigma(c, r, thorough);
    if (c.variant == 0) return true;
    // shift: keep A - sigma I comfortably nonsingular (the shift-and-invert domain)
    Eigen::EigenSolver<Mat> es(c.A, false); Eigen::VectorXcd ev = es.eigenvalues(); double rad = 0; for (long i = 0; i < ev.size(); i++) rad = std::max(rad, std::abs(ev[i])); rad = std::max(rad, 1e-3 * c.scale);
    for (int attempt = 0; attempt < 20; attempt++) {
        double sr = rad * 1.2 * r.sym(), si = (c.variant == 2) ? rad * (0.05 + 0.6 * r.unit()) : 0.0; if (r.coin(0.25)) sr = rad * (1.1 + r.unit());
        double d = 1e300; for (long i = 0; i < ev.size(); i++) d = std::min(d, std::abs(ev[i] - CD(sr, si)));
        if (d >= 0.03 * rad) { c.sr = sr; c.si = si; return true; }
    }
    return false;
}

// ---- complex-arithmetic kernels of the back-transformations ----
static void kernel_cases(Out& out, uint64_t seed, int count) {
    for (int i = 0; i < count; i++) {
        Rng r(seed, 29, i); const int kind = i % 4;
        auto val = [&]() { double v = r.sym(); switch (r.below(6)) { case 0: return 0.0; case 1: return -0.0; case 2: return v * 1e-9; case 3: return (double) r.range(-3, 3) * 0.5; case 4: return v * 50; default: return v; } };
        if (kind == 0) { double a = val(), b = val(); CD z = std::sqrt(CD(a, b)); out.corr("ckern sqrt " + str(dbits(a)) + " " + str(dbits(b)), str(dbits(z.real())) + " " + str(dbits(z.imag()))); }
        else if (kind == 1) { double sr = val(), si = std::fabs(val()) + (r.coin(0.2) ? 0.0 : 0.125), a = val(), b = r.coin(0.5) ? 0.0 : val(); if (a == 0.0 && b == 0.0) a = 0.75;
            if (r.coin(0.3)) { a = 1.0 / (2.0 * si) * (1 + (r.coin(0.5) ? 0.0 : r.sym() * 4e-16)); b = 0.0; }    // discriminant 1 - 4 si^2 nu^2 at (or next to) zero
            if (r.coin(0.2)) { const double tiny = r.coin() ? 1e-17 : 1e-30; a = r.sym() * tiny; b = r.coin(0.5) ? 0.0 : r.sym() * tiny; if (r.coin(0.25)) { a = r.coin() ? 0.0 : -0.0; b = r.coin() ? 0.0 : -0.0; } }   // nu at / next to 0: the eigenvalue at Re sigma (root2 = sr exactly for nu = 0)
            const CD nu(a, b); const CD sq = std::sqrt(1.0 - 4.0 * si * si * (nu * nu)); const CD p1 = sr + 0.5 / nu; const CD p2 = 0.5 * sq / nu; const CD r1 = p1 + p2, r2 = sr + (2.0 * si * si) * nu / (1.0 + sq);   // as sort_ritzpair since 0117f45
            // nu = 0 exactly: root1 = 0.5 / nu is inf/NaN by the C99 recovery path of __divdc3 (not modelled, never a candidate: its probe error is NaN); only root2 is pinned
            if (a == 0.0 && b == 0.0) out.corr("ckern root2 " + str(dbits(sr)) + " " + str(dbits(si)) + " " + str(dbits(a)) + " " + str(dbits(b)), str(dbits(r2.real())) + " " + str(dbits(r2.imag())));
            else out.corr("ckern roots " + str(dbits(sr)) + " " + str(dbits(si)) + " " + str(dbits(a)) + " " + str(dbits(b)), str(dbits(r1.real())) + " " + str(dbits(r1.imag())) + " " + str(dbits(r2.real())) + " " + str(dbits(r2.imag()))); }
        else if (kind == 2) { double sg = val(), a = val(), b = r.coin(0.5) ? 0.0 : val(); if (a == 0.0 && b == 0.0) a = -1.25; const CD nu(a, b); const CD l = 1.0 / nu + sg;
            out.corr("ckern rsback " + str(dbits(sg)) + " " + str(dbits(a)) + " " + str(dbits(b)), str(dbits(l.real())) + " " + str(dbits(l.imag()))); }
        else { double sr = val(); Spectra::SimpleRandom<double> rng(0); const double shiftr = rng.random() * sr + rng.random(); out.corr("ckern probeshift " + str(dbits(sr)), str(dbits(shiftr))); }
        out.count("kernel_cases");
    }
}

int main(int argc, char** argv) {
    Args args(argc, argv); Out out(args.out);
    if (!args.replay.empty()) {
        std::ifstream f(args.replay); std::string t((std::istreambuf_iterator<char>(f)), {}); auto p = t.find("\"replay\""); if (p != std::string::npos) t = t.substr(p);
        auto num = [&t](const std::string& key, long dflt) { auto q = t.find("\"" + key + "\""); if (q == std::string::npos) return dflt; q = t.find(':', q); if (q == std::string::npos) return dflt; return std::strtol(t.c_str() + q + 1, nullptr, 10); };
        auto sval = [&t](const std::string& key) { auto q = t.find("\"" + key + "\""); if (q == std::string::npos) return std::string(); q = t.find(':', q); q = t.find('"', q); auto e = t.find('"', q + 1); return t.substr(q + 1, e - q - 1); };
        Case c; std::string tier = sval("tier"); if (tier.empty()) tier = args.tier;
        if (!make_case(c, (uint64_t) num("seed", (long) args.seed), tier, (int) num("stream", 0), num("case", 0))) { std::cerr << "replay: case not generated\n"; out.finish(); return 2; }
        run_case(c, out, true); out.finish(); return 0;
    }
    const bool th = args.thorough();
    const int ncases = th ? 16000 : 2400, ntarget = th ? 1000 : 180;
    for (int cs = 0; cs < ncases; cs++) { Case c; if (!make_case(c, args.seed, args.tier, 0, cs)) { out.count("case_no_shift_found"); continue; } run_case(c, out, c.ncv <= 16); }
    for (int cs = 0; cs < ntarget; cs++) { Case c; if (!make_case(c, args.seed, args.tier, 1, cs)) continue; run_case(c, out, c.ncv <= 16); }
    // structured complex-shift shares: decoupled matrices with the wanted eigenvectors away from / inside the leading coordinates (stream 2), exactly prescribed
    // spectra with Re sigma an exact eigenvalue (stream 3)
    const int nstruct = th ? 800 : 160;
    for (int st = 2; st <= 3; st++) for (int cs = 0; cs < nstruct; cs++) { Case c; if (!make_case(c, args.seed, args.tier, st, cs)) { out.count("structured_case_not_generated"); continue; } out.count(st == 2 ? "stream_decoupled" : "stream_exact_resigma"); run_case(c, out, c.ncv <= 16); }
    kernel_cases(out, args.seed, th ? 20000 : 2000);
    out.finish();
    return 0;
}
