// C04 harness: "the converged set is the part of the spectrum the selection rule asks for".
//
//  ACCEPTANCE ORACLE on the real solvers: prescribed spectra (simple eigenvalues, keys of the rule spaced by >= 0.5 % of
//                  the key spread, checked again on the reference spectrum), every rule x every solver family, ncv >= 2 nev + 1, default
//                  start vector; when the solver reports Successful the returned eigenvalues must be the top-k (by the rule's key, in
//                  the spectrum the rule acts on: A's own, nu = 1/(lam-sigma), lam/(lam-sigma), (lam+sigma)/(lam-sigma), ...) of a dense
//                  long-double reference decomposition, mapped back to lam; BothEnds: ceil(k/2) from the top + floor(k/2) from the bottom.
//                  At every "herm.restart" / "gen.restart" hook the stored Ritz values are checked to be ordered wanted-first.
//                  SymEigsSolver / SymEigsShiftSolver runs with n <= 40 are also written as `herm ...` requests for drv_c05 (the
//                  numeric solver model: selection permutation, restart sizes, shifts and results compared bit for bit).
//  Every case is run a second time with ncv = n ("full-space run": the Krylov space is the whole space, the Ritz values ARE the
//  eigenvalues, no convergence question is left): a wrong set there is a defect of the selection logic (sig wrong-set); a wrong set
//  in the normal run whose full-space twin is right is a premature declaration of convergence (sig misconverged).
//  The kernel-level requests for drv_c04 are produced by harness/c04k.cpp.
//  Structured shares of the complex-shift family (fam 5, rep >= 100; all from the framework PRNG, replay by (seed, tier, fam, rule, rep), counters cfg_*):
//    decoupled / block-diagonal matrices (1x1, 2x2 rotation-scaling, small dense blocks) whose WANTED eigenvectors vanish in the first nev coordinates
//    (decoupled-away, -perm behind a permutation similarity that keeps every zero), control: supported inside (decoupled-inside); upper triangular / banded /
//    block upper triangular / permuted matrices with exactly prescribed eigenvalues (multiples of 1/8) and sigma = (an exact eigenvalue) + i tau, or Re sigma =
//    the real part of a 2x2 diagonal block (exact-resigma-*).  A returned value whose ACTED-ON value nu is right but whose lambda is not (the mirror image
//    Re sigma + Im sigma^2 / (lambda - Re sigma) of the eigenvalue) is reported as `wrong-root` whatever the full-space twin does.
//  History shares of the general families (fam 3..5, rep >= 200): init(); compute(ruleA); compute(ruleB) on ONE object, judged under ruleB (cfg history).
#include "solver_common.h"
#include <Eigen/LU>
#include <Eigen/Eigenvalues>
#include <Eigen/Sparse>
#include <Spectra/DavidsonSymEigsSolver.h>
#include <Spectra/contrib/PartialSVDSolver.h>
#include <Spectra/contrib/LOBPCGSolver.h>
#include <Spectra/Util/SelectionRule.h>
using namespace sh;
typedef std::complex<double> CD;
typedef std::complex<LD> CL;
typedef Eigen::MatrixXcd CMat;
typedef Eigen::VectorXcd CVec;
typedef Eigen::Matrix<CL, Eigen::Dynamic, Eigen::Dynamic> CMatL;
using Eigen::Index;

struct SpectraVerifAccess {
    // the members live in the (friend) base classes; derived solver classes re-declare the names privately, so go through the base
    template <class O, class B> static auto fac(Spectra::HermEigsBase<O, B>& s) -> decltype((s.m_fac)) { return s.m_fac; }
    template <class O, class B> static auto fac(Spectra::GenEigsBase<O, B>& s) -> decltype((s.m_fac)) { return s.m_fac; }
    template <class O, class B> static auto ritz_val(Spectra::HermEigsBase<O, B>& s) -> decltype((s.m_ritz_val)) { return s.m_ritz_val; }
    template <class O, class B> static auto ritz_val(Spectra::GenEigsBase<O, B>& s) -> decltype((s.m_ritz_val)) { return s.m_ritz_val; }
    template <class O, class B> static void restart(Spectra::HermEigsBase<O, B>& s, Index k, SortRule r) { s.restart(k, r); }
    template <class O, class B> static void restart(Spectra::GenEigsBase<O, B>& s, Index k, SortRule r) { s.restart(k, r); }
    template <class F> static Index fac_k(const F& f) { return f.m_k; }
    template <class F> static const Mat& fac_H(const F& f) { return f.m_fac_H; }
    template <class F> static std::string fachash(const F& f) {
        uint64_t h = 1469598103934665603ull; auto feed = [&h](double x) { uint64_t u = dbits(x + 0.0); for (int b = 0; b < 8; b++) { h ^= (u >> (8 * b)) & 0xff; h *= 1099511628211ull; } };
        feed(f.m_beta); const long m = f.m_m, n = f.m_n, k = f.m_k;
        for (long j = 0; j < m; j++) for (long i = 0; i < m; i++) feed(f.m_fac_H(i, j));
        for (long i = 0; i < n; i++) feed(f.m_fac_f[i]);
        for (long j = 0; j < k; j++) for (long i = 0; i < n; i++) feed(f.m_fac_V(i, j));
        return "k=" + str(k) + " beta=e:" + str(dbits(f.m_beta)) + " hash=" + str(h);
    }
};
typedef SpectraVerifAccess AX;

struct Obs : public Spectra::verif::Observer { std::function<void(const char*, const void*)> f; void on(const char* tag, const void* o) override { if (f) f(tag, o); } };

static const char* RN[9] = {"LargestMagn", "LargestReal", "LargestImag", "LargestAlge", "SmallestMagn", "SmallestReal", "SmallestImag", "SmallestAlge", "BothEnds"};
static const double GAP_REQ = 0.005;      // the property's spacing requirement (fraction of the key spread)
static const LD GAP_CHECK = 0.005L;       // re-checked on the reference spectrum; a case that does not meet it is skipped and counted
static const LD TOL_SET = 1e-6L;          // returned vs reference, relative to the largest magnitude in the acted-on spectrum (gap is >= 5e-3 of the spread)
static const LD TOL_LAM = 1e-5L;          // returned lambda vs reference lambda, relative to max(|lambda|, |sigma|)

// the documented key (smaller = better), real rules 0,3,4,7 (8 = BothEnds handled separately) and complex rules 0,1,2,4,5,6
static LD key_of(int rule, CL z, bool cplx) {
    if (!cplx) switch (rule) { case 0: return -std::fabs(z.real()); case 3: case 8: return -z.real(); case 4: return std::fabs(z.real()); default: return z.real(); }
    switch (rule) { case 0: return -std::abs(z); case 1: return -z.real(); case 2: return -std::fabs(z.imag()); case 4: return std::abs(z); case 5: return z.real(); default: return std::fabs(z.imag()); }
}

// ---------------------------------------------------------------- spectra with separated keys
// U keys with all gaps in [g, (1+J) g], min gap / spread >= 0.55 %.  mode 0: all positive (lowest >= one gap above 0), 1: mixed signs
// with 0 in the middle of a gap, 2: all negative
static std::vector<double> grid_keys(Rng& r, int U, int mode) {
    double J = std::min(2.0, 1.0 / (0.0055 * std::max(1, U - 1)) - 1.0); if (J < 0) J = 0;
    std::vector<double> k(U); double x = 1.0 + 2.0 * r.unit();
    for (int i = 0; i < U; i++) { k[i] = x; x += 1.0 + J * r.unit(); }
    if (mode == 1 && U >= 2) { int j = r.range(0, U - 2); double off = 0.5 * (k[j] + k[j + 1]); for (double& v : k) v -= off; }
    if (mode == 2) { for (double& v : k) v = -v; }
    return k;
}
// real spectrum whose key under `rule` is separated; type 0 positive, 1 mixed, 2 negative
static Vec sym_spectrum(Rng& r, int n, int rule, int type) {
    Vec d(n);
    if (rule == 0 || rule == 4) { std::vector<double> m = grid_keys(r, n, 0); for (int i = 0; i < n; i++) d[i] = m[i] * (type == 0 ? 1.0 : type == 2 ? -1.0 : (r.coin() ? 1.0 : -1.0)); }
    else { std::vector<double> m = grid_keys(r, n, type); for (int i = 0; i < n; i++) d[i] = m[i]; }
    for (int i = n - 1; i > 0; i--) std::swap(d[i], d[r.below(i + 1)]);
    return d;
}
// keep transformed values away from the poles / zeros of the back-transformations (nu = 0, and nu = 1 for buckling / Cayley)
static void avoid(Vec& nu, bool also_one) {
    double ming = 1e300; std::vector<double> s(nu.data(), nu.data() + nu.size()); std::sort(s.begin(), s.end()); for (size_t i = 0; i + 1 < s.size(); i++) ming = std::min(ming, s[i + 1] - s[i]);
    if (!(ming < 1e299)) ming = 1.0;
    for (int t = 0; t < 8; t++) { bool bad = false; for (long i = 0; i < nu.size(); i++) if (std::fabs(nu[i]) < 0.2 * ming || (also_one && std::fabs(nu[i] - 1.0) < 0.2 * ming)) bad = true; if (!bad) return; for (long i = 0; i < nu.size(); i++) nu[i] += 0.29 * ming; }
}
// complex spectrum as units (conjugate pairs / reals) with separated keys under complex rule `rule`; returns the n eigenvalues (pairs adjacent)
static std::vector<CD> cplx_spectrum(Rng& r, int n, int rule, int type) {
    const bool imag = (rule == 2 || rule == 6), magn = (rule == 0 || rule == 4);
    int q = imag ? (n % 2) : (n % 2) + 2 * r.range(0, std::max(0, n / 6)); if (q > n) q = n % 2; int p = (n - q) / 2; const int U = p + q;
    std::vector<double> k = grid_keys(r, U, (imag || magn) ? 0 : type);
    const double spread = std::fabs(k[U - 1] - k[0]) + 1.0;
    std::vector<int> isreal(U, 0); { std::vector<int> idx(U); for (int i = 0; i < U; i++) idx[i] = i; for (int i = U - 1; i > 0; i--) std::swap(idx[i], idx[r.below(i + 1)]); for (int i = 0; i < q; i++) isreal[idx[i]] = 1; }
    std::vector<CD> out;
    for (int u = 0; u < U; u++) {
        if (isreal[u]) { double x = magn ? k[u] * (type == 0 ? 1.0 : (r.coin() ? 1.0 : -1.0)) : imag ? spread * r.sym() * 0.5 : k[u]; out.push_back(CD(x, 0.0)); if (imag) { /* key 0: the single real eigenvalue */ } }
        else { CD z; if (magn) { double phi = 3.141592653589793 * (0.15 + 0.7 * r.unit()); z = CD(k[u] * std::cos(phi), k[u] * std::sin(phi)); }
               else if (imag) z = CD(spread * 0.5 * r.sym(), k[u]); else z = CD(k[u], spread * 0.25 * (0.2 + 0.8 * r.unit()));
               out.push_back(z); out.push_back(std::conj(z)); }
    }
    return out;
}
static Mat sym_from(Rng& r, const Vec& d) { return sym_from_spectrum(r, d); }
// A = S D S^-1, D real block-diagonal with the prescribed eigenvalues, S = Q1 diag(1..3) Q2 (condition <= 3)
static Mat gen_from(Rng& r, const std::vector<CD>& ev) {
    const int n = (int) ev.size(); Mat D = Mat::Zero(n, n);
    for (int i = 0; i < n; i++) { if (ev[i].imag() != 0.0 && i + 1 < n) { D(i, i) = ev[i].real(); D(i + 1, i + 1) = ev[i].real(); D(i, i + 1) = ev[i].imag(); D(i + 1, i) = -ev[i].imag(); i++; } else D(i, i) = ev[i].real(); }
    Mat Q1 = rand_orth(r, n), Q2 = rand_orth(r, n); Vec s(n), si(n); for (int i = 0; i < n; i++) { s[i] = 1.0 + 2.0 * r.unit(); si[i] = 1.0 / s[i]; }
    Mat S = Q1 * s.asDiagonal() * Q2, Si = Q2.transpose() * si.asDiagonal() * Q1.transpose();
    return (S * D * Si).eval();
}
static Mat spd(Rng& r, int n, double lo, double hi) { Vec b(n); for (int i = 0; i < n; i++) b[i] = lo + (hi - lo) * r.unit(); return sym_from_spectrum(r, b); }
// symmetric A with  A x = lam B x  for the prescribed lam:  A = L (Q diag(lam) Q') L',  B = L L'
static Mat pencil_from(Rng& r, const Vec& lam, const Mat& B) { Eigen::LLT<Mat> llt(B); Mat L = llt.matrixL(); Mat C = sym_from_spectrum(r, lam); Mat A = L * C * L.transpose(); return (0.5 * (A + A.transpose())).eval(); }

// ---------------------------------------------------------------- structured complex-shift shares (fam 5, rep >= 100)
static const char* SCFG[8] = {"decoupled-away", "decoupled-away-perm", "decoupled-inside", "exact-resigma-tri", "decoupled-away-dense", "exact-resigma-blocktri", "exact-resigma-perm", "exact-resigma-blockre"};
static CL nu_cs(CL z, CL sg) { return (CL(1) / (z - sg) + CL(1) / (z - std::conj(sg))) * CL(0.5L); }
static LD key_cs(int rule, CD z, CL sg) { CL a = nu_cs(CL(z.real(), z.imag()), sg); if (a.imag() < 0) a = std::conj(a); return key_of(rule, a, true); }
// B(p[i], p[j]) = A(i, j): entries (and zeros) are moved, never recomputed; the coordinates in keep_off stay out of the first `nfirst` positions
static void perm_similarity(Rng& r, Mat& A, const std::vector<int>& keep_off, int nfirst) {
    const int n = (int) A.rows(); std::vector<int> p(n); for (int i = 0; i < n; i++) p[i] = i; for (int i = n - 1; i > 0; i--) std::swap(p[i], p[r.below(i + 1)]);
    std::vector<char> off(n, 0); for (int i : keep_off) off[i] = 1;
    for (int i = 0; i < n; i++) if (off[i] && p[i] < nfirst) { for (int j = 0; j < n; j++) if (!off[j] && p[j] >= nfirst) { std::swap(p[i], p[j]); break; } }
    Mat B(n, n); for (int i = 0; i < n; i++) for (int j = 0; j < n; j++) B(p[i], p[j]) = A(i, j); A = B;
}
// units (one representative with Im >= 0 per real eigenvalue / conjugate pair) for exactly n eigenvalues whose keys under `rule` in the nu-spectrum are pairwise at least
// 0.65 % of the (trimmed) candidate key range apart.  exact: candidates on the grid Re sigma + j/8, Im = k/8; forced: 1 = the real eigenvalue AT Re sigma (nu = 0),
// 2 = a conjugate pair with real part Re sigma.  Candidates are accepted in random order.
static bool struct_spectrum(Rng& r, int n, int rule, double sr, double si, bool exact, int forced, std::vector<CD>& units) {
    const CL sg((LD) sr, (LD) si); const bool imagrule = (rule == 2 || rule == 6);
    std::vector<CD> cand; const int NC = 16 * n;
    for (int i = 0; i < NC; i++) {
        CD z;
        if (!exact) { const bool re = r.coin(0.25); z = re ? CD(4.0 * r.sym(), 0) : CD(4.0 * r.sym(), 0.3 + 3.0 * r.unit()); }
        else { const bool re = r.coin(0.4); const int j = r.range(-32, 32), k = r.range(2, 24); z = re ? CD(sr + j / 8.0, 0) : CD(sr + j / 8.0, k / 8.0); if (re && j == 0) continue; }
        if (std::abs(z - CD(sr, si)) < 0.3 && z.imag() != 0.0) continue;
        if (imagrule && z.imag() == 0.0) continue;               // |Im nu| = 0 for every real lambda: at most one real eigenvalue (the forced one, or none)
        cand.push_back(z);
    }
    if (cand.size() < (size_t) n) return false;
    std::vector<LD> ck(cand.size()); for (size_t i = 0; i < cand.size(); i++) ck[i] = key_cs(rule, cand[i], sg);
    std::vector<LD> so(ck); std::sort(so.begin(), so.end()); LD lo = so[so.size() / 20], hi = so[so.size() - 1 - so.size() / 20];
    units.clear(); std::vector<LD> keys; int cnt = 0;
    auto accept = [&](CD z, LD k) { units.push_back(z); keys.push_back(k); cnt += (z.imag() != 0.0) ? 2 : 1; };
    if (forced == 1) { const CD z(sr, 0); const LD k = key_cs(rule, z, sg); lo = std::min(lo, k); hi = std::max(hi, k); accept(z, k); }
    if (forced == 2) { double b = 0; for (int t = 0; t < 20; t++) { b = r.range(2, 24) / 8.0; if (std::fabs(b - si) >= 0.25) break; } if (std::fabs(b - si) < 0.25) return false;
        const CD z(sr, b); const LD k = key_cs(rule, z, sg); lo = std::min(lo, k); hi = std::max(hi, k); accept(z, k); }
    const LD delta = 0.0065L * (hi - lo); if (!(delta > 0)) return false;
    for (size_t i = 0; i < cand.size() && cnt < n; i++) {
        if (ck[i] < lo || ck[i] > hi) continue; const int w = (cand[i].imag() != 0.0) ? 2 : 1; if (cnt + w > n) continue;
        bool ok = true; for (LD k : keys) if (std::fabs(k - ck[i]) < delta) { ok = false; break; } if (!ok) continue;
        accept(cand[i], ck[i]);
    }
    return cnt == n;
}
static std::vector<CD> expand_units(const std::vector<CD>& u) { std::vector<CD> ev; for (const CD& z : u) { ev.push_back(z); if (z.imag() != 0.0) ev.push_back(std::conj(z)); } return ev; }
// the units that hold one of the first nev + 1 eigenvalues in the rule's order (a pair is one unit)
static std::vector<char> wanted_units(const std::vector<CD>& units, int rule, CL sg, int nev) {
    std::vector<std::pair<LD, int>> ke; for (size_t u = 0; u < units.size(); u++) { const LD k = key_cs(rule, units[u], sg); ke.push_back({k, (int) u}); if (units[u].imag() != 0.0) ke.push_back({k, (int) u}); }
    std::stable_sort(ke.begin(), ke.end(), [](const std::pair<LD, int>& a, const std::pair<LD, int>& b) { return a.first < b.first; });
    std::vector<char> w(units.size(), 0); for (int i = 0; i < nev + 1 && i < (int) ke.size(); i++) w[ke[i].second] = 1; return w;
}
// block-diagonal matrix from the units: 1x1, 2x2 rotation-scaling [[a, b], [-b, a]], and (grouping > 0) dense blocks S D S^-1 over 2..3 consecutive units;
// layout 0: blocks holding a wanted unit LAST (their eigenvectors vanish in the leading coordinates), 1: FIRST; perm: permutation similarity keeping the layout property
static bool build_decoupled(Rng& r, const std::vector<CD>& units, const std::vector<char>& wanted, int nev, int layout, bool perm, double grouping, Mat& A, int& dW) {
    struct Blk { Mat M; bool w; }; std::vector<Blk> blocks; const int U = (int) units.size();
    for (int i = 0; i < U;) {
        int g = 1; if (r.coin(grouping)) g = std::min(U - i, r.range(2, 3));
        Blk b; b.w = false; std::vector<CD> sub; for (int t = 0; t < g; t++) { if (wanted[i + t]) b.w = true; sub.push_back(units[i + t]); }
        if (g == 1) { const CD z = units[i]; if (z.imag() == 0.0) b.M = Mat::Constant(1, 1, z.real()); else { b.M = Mat(2, 2); b.M << z.real(), z.imag(), -z.imag(), z.real(); } }
        else b.M = gen_from(r, expand_units(sub));
        blocks.push_back(b); i += g;
    }
    for (int i = (int) blocks.size() - 1; i > 0; i--) std::swap(blocks[i], blocks[r.below(i + 1)]);
    std::stable_partition(blocks.begin(), blocks.end(), [&](const Blk& b) { return layout == 0 ? !b.w : b.w; });
    int n = 0; dW = 0; for (const Blk& b : blocks) { n += (int) b.M.rows(); if (b.w) dW += (int) b.M.rows(); }
    if (n - dW < nev) return false;
    A = Mat::Zero(n, n); std::vector<int> wc; int q = 0; for (const Blk& b : blocks) { const int d = (int) b.M.rows(); A.block(q, q, d, d) = b.M; if (b.w) for (int t = 0; t < d; t++) wc.push_back(q + t); q += d; }
    if (perm) perm_similarity(r, A, layout == 0 ? wc : std::vector<int>(), layout == 0 ? nev : 0);
    return true;
}
// (block) upper triangular matrix with the units on the diagonal in random order (exactly: 1x1 entries a, 2x2 blocks [[a, b], [-b, a]]); strictly upper part dense (g = 0.1) or banded (two superdiagonals, g = 0.3)
static Mat build_blocktri(Rng& r, std::vector<CD> units, bool banded, bool perm) {
    for (int i = (int) units.size() - 1; i > 0; i--) std::swap(units[i], units[r.below(i + 1)]);
    int n = 0; for (const CD& z : units) n += (z.imag() != 0.0) ? 2 : 1;
    Mat A = Mat::Zero(n, n); std::vector<char> bs(n, 0); int p = 0;
    for (const CD& z : units) { if (z.imag() == 0.0) { A(p, p) = z.real(); p++; } else { A(p, p) = z.real(); A(p + 1, p + 1) = z.real(); A(p, p + 1) = z.imag(); A(p + 1, p) = -z.imag(); bs[p] = 1; p += 2; } }
    const double g = banded ? 0.3 : 0.1;
    for (int i = 0; i < n; i++) for (int j = i + 1; j < n; j++) { if (j == i + 1 && bs[i]) continue; if (banded && j - i > 2) continue; A(i, j) = g * r.sym(); }
    if (perm) perm_similarity(r, A, std::vector<int>(), 0);
    return A;
}

// ---------------------------------------------------------------- dense long-double references
static std::vector<CL> ref_symL(const MatL& M) { Eigen::SelfAdjointEigenSolver<MatL> es(M, Eigen::EigenvaluesOnly); std::vector<CL> v; for (long i = 0; i < M.rows(); i++) v.push_back(CL(es.eigenvalues()[i], 0)); return v; }
static std::vector<CL> ref_sym(const Mat& A) { MatL M = A.cast<LD>(); return ref_symL(M); }
// Hermitian n x n as the real symmetric 2n x 2n matrix [[Re, -Im], [Im, Re]]: every eigenvalue appears twice; keep every second one
static std::vector<CL> ref_herm(const CMat& A) { const long n = A.rows(); MatL M(2 * n, 2 * n); for (long i = 0; i < n; i++) for (long j = 0; j < n; j++) { M(i, j) = A(i, j).real(); M(i + n, j + n) = A(i, j).real(); M(i + n, j) = A(i, j).imag(); M(i, j + n) = -A(i, j).imag(); }
    std::vector<CL> d = ref_symL(M), v; for (long i = 0; i < n; i++) v.push_back(d[2 * i]); return v; }
static std::vector<CL> ref_gen(const Mat& A) { MatL M = A.cast<LD>(); Eigen::EigenSolver<MatL> es(M, false); std::vector<CL> v; for (long i = 0; i < A.rows(); i++) v.push_back(es.eigenvalues()[i]); return v; }
// A x = lam B x, B = L L' (Cholesky by hand in long double), C = L^-1 A L^-T symmetric
static std::vector<CL> ref_pencil(const Mat& A, const Mat& B) { const long n = A.rows(); MatL a = A.cast<LD>(), L = MatL::Zero(n, n);
    for (long j = 0; j < n; j++) { LD s = B(j, j); for (long k = 0; k < j; k++) s -= L(j, k) * L(j, k); L(j, j) = std::sqrt(s); for (long i = j + 1; i < n; i++) { LD t = B(i, j); for (long k = 0; k < j; k++) t -= L(i, k) * L(j, k); L(i, j) = t / L(j, j); } }
    MatL Y(n, n); for (long c = 0; c < n; c++) for (long i = 0; i < n; i++) { LD t = a(i, c); for (long k = 0; k < i; k++) t -= L(i, k) * Y(k, c); Y(i, c) = t / L(i, i); }          // Y = L^-1 A
    MatL C(n, n); for (long r_ = 0; r_ < n; r_++) for (long i = 0; i < n; i++) { LD t = Y(r_, i); for (long k = 0; k < i; k++) t -= L(i, k) * C(r_, k); C(r_, i) = t / L(i, i); }   // C = Y L^-T
    MatL Cs = (C + C.transpose()) * (LD) 0.5; return ref_symL(Cs); }
static Mat inverse_ld(const Mat& A, double sigma) { MatL M = A.cast<LD>(); for (long i = 0; i < M.rows(); i++) M(i, i) -= (LD) sigma; MatL I = M.partialPivLu().inverse(); return I.cast<double>(); }

// ---------------------------------------------------------------- the judgement
struct CaseId { uint64_t seed; std::string tier; int fam, rule, rep; std::string famname; int n, nev, ncv; double sigma_r = 0, sigma_i = 0; bool full = false; std::string cfg; };
static std::string cj(const CaseId& c, const std::string& extra = "") {
    return "{\"harness\":\"c04\",\"part\":\"solver\",\"seed\":" + str(c.seed) + ",\"tier\":\"" + c.tier + "\",\"fam\":" + str(c.fam) + ",\"family\":\"" + c.famname + "\",\"rule\":" + str(c.rule) + ",\"rulename\":\"" + RN[c.rule] + "\",\"rep\":" + str(c.rep) +
           ",\"n\":" + str(c.n) + ",\"nev\":" + str(c.nev) + ",\"ncv\":" + str(c.ncv) + ",\"sigma\":[" + str(c.sigma_r) + "," + str(c.sigma_i) + "],\"full\":" + (c.full ? "1" : "0") + ",\"cfg\":\"" + c.cfg + "\"" + extra + "}";
}
static std::string cl_str(CL z) { std::ostringstream o; o.precision(17); o << "(" << (double) z.real() << "," << (double) z.imag() << ")"; return o.str(); }

// lam_ref: eigenvalues of the user's problem (reference); fwd: lam -> the value the rule acts on; ret: eigenvalues returned by the solver.
// cplx: complex rules (general family; values are compared up to conjugation, a conjugate pair is one unit).
// returns 0 ok, 1 mismatch (description in `msg`), 2 precondition (spacing) not met on the reference
// mechanism keys of a mismatch: backmap = the returned set contains the wanted ACTED-ON value (nu matches) but the lambda handed back for it is not the eigenvalue
// (the back-transformation / root selection is wrong, not the selection); nuzero = the wanted eigenvalue that is missing has acted-on value 0 (complex shift: it lies AT Re sigma)
struct JudgeInfo { int backmap = 0, nuzero = 0; };
static int judge(Out& out, const CaseId& c, const std::vector<CL>& lam_ref, const std::function<CL(CL)>& fwd, const std::vector<CL>& ret, bool cplx, LD sigma_abs, std::string& msg, JudgeInfo* ji = nullptr) {
    const int n = (int) lam_ref.size(); const int k = (int) ret.size();
    std::vector<CL> lam(lam_ref), act(n);
    for (int i = 0; i < n; i++) { act[i] = fwd(lam[i]); if (cplx && act[i].imag() < 0) { act[i] = std::conj(act[i]); lam[i] = std::conj(lam[i]); } }
    LD amax = 0; for (int i = 0; i < n; i++) amax = std::max(amax, std::abs(act[i]));
    std::vector<int> ord(n); for (int i = 0; i < n; i++) ord[i] = i;
    const int krule = (c.rule == 8) ? 3 : c.rule;
    std::stable_sort(ord.begin(), ord.end(), [&](int a, int b) { return key_of(krule, act[a], cplx) < key_of(krule, act[b], cplx); });
    // precondition: distinct units have keys at least 0.5 % of the spread apart (a conjugate pair is one unit)
    { LD spread = key_of(krule, act[ord[n - 1]], cplx) - key_of(krule, act[ord[0]], cplx); LD ming = spread;
      for (int i = 0; i + 1 < n; i++) { if (cplx && std::abs(act[ord[i]] - act[ord[i + 1]]) <= 1e-9L * amax) continue; ming = std::min(ming, key_of(krule, act[ord[i + 1]], cplx) - key_of(krule, act[ord[i]], cplx)); }
      if (n >= 2 && !(spread > 0 && ming >= GAP_CHECK * spread)) { out.count("precondition_spacing_not_met"); return 2; } }
    std::vector<int> want;
    if (c.rule == 8) { for (int i = 0; i < (k + 1) / 2; i++) want.push_back(ord[i]); for (int i = 0; i < k / 2; i++) want.push_back(ord[n - 1 - i]); }
    else for (int i = 0; i < k && i < n; i++) want.push_back(ord[i]);
    std::vector<CL> got(k), gotl(k); for (int j = 0; j < k; j++) { gotl[j] = ret[j]; got[j] = fwd(ret[j]); if (cplx && got[j].imag() < 0) { got[j] = std::conj(got[j]); gotl[j] = std::conj(gotl[j]); } }
    std::vector<int> used(k, 0); std::string miss;
    for (int w : want) {
        int best = -1; LD bd = 0; for (int j = 0; j < k; j++) if (!used[j]) { LD d = std::abs(got[j] - act[w]); if (best < 0 || d < bd) { best = j; bd = d; } }
        const LD lscale = std::max(std::abs(lam[w]), sigma_abs);
        if (best < 0 || !(bd <= TOL_SET * amax) || !(std::abs(gotl[best] - lam[w]) <= TOL_LAM * lscale + 1e-300L)) {
            const bool numatch = (best >= 0 && bd <= TOL_SET * amax);
            if (ji) { ji->backmap = numatch ? 1 : 0; ji->nuzero = (c.fam == 5 && std::abs(act[w]) <= 1e-9L * amax) ? 1 : 0; }
            miss = "wanted eigenvalue lambda=" + cl_str(lam[w]) + " (acted-on value " + cl_str(act[w]) + ") is not among the returned ones";
            if (numatch) miss += ": its acted-on value IS there, but the lambda handed back for it is " + cl_str(gotl[best]) + " (wrong back-transformation / root)";
            break; }
        used[best] = 1;
    }
    if (miss.empty()) return 0;
    std::string gs; for (int j = 0; j < k; j++) gs += (j ? " " : "") + cl_str(ret[j]);
    std::string ws; for (int w : want) ws += (ws.empty() ? "" : " ") + cl_str(lam[w]);
    msg = c.famname + " " + RN[c.rule] + " n=" + str(c.n) + " nev=" + str(c.nev) + " ncv=" + str(c.ncv) + ": reported Successful but " + miss + "; returned {" + gs + "}, the rule names {" + ws + "}";
    return 1;
}

// ordering of the stored Ritz values at a restart hook: wanted first for EVERY k (c04_wanted_first on the real object)
template <class V> static bool hook_order_ok(const V& rv, int rule, bool cplx) {
    const long m = rv.size();
    if (!cplx && rule == 8) {   // interleaved: even positions descending from the top, odd positions ascending from the bottom
        std::vector<LD> s; for (long i = 0; i < m; i++) s.push_back((LD) std::real(rv[i])); std::sort(s.begin(), s.end(), [](LD a, LD b) { return a > b; });
        for (long i = 0; i < m; i++) { LD e = (i % 2 == 0) ? s[i / 2] : s[m - 1 - i / 2]; if (!((LD) std::real(rv[i]) == e)) return false; }
        return true;
    }
    for (long i = 0; i + 1 < m; i++) { CL a((LD) std::real(rv[i]), (LD) std::imag(rv[i])), b((LD) std::real(rv[i + 1]), (LD) std::imag(rv[i + 1]));
        LD ka = key_of(rule, a, cplx), kb = key_of(rule, b, cplx); if (ka > kb + 4e-16L * (std::fabs(ka) + std::fabs(kb))) return false; }
    return true;
}
static bool conj_adjacent(const CVec& rv, long from) {
    for (long i = from; i < rv.size(); i++) { if (rv[i].imag() != 0.0) { if (i + 1 >= rv.size() || rv[i + 1] != std::conj(rv[i])) return false; i++; } }
    return true;
}

struct Ctx { Out* out; CaseId id; Obs* obs; };
static int g_pre_rule = -1;               // history share: the rule of a first compute() on the same object (no init() in between); -1 = none
// outcome of one solver run: 0 right set, 1 wrong set (msg), 2 spacing precondition not met, 3 not Successful, 4 exception, 5 not run
struct Res { int st = 5; std::string msg, rj; JudgeInfo ji; };
static Res finish_judge(Out& out, const CaseId& id, int j, const std::string& msg, const JudgeInfo& ji = JudgeInfo()) { Res r; r.st = j; r.msg = msg; r.ji = ji; if (j == 0) { out.count(id.full ? "oracle_fullspace_checked" : "oracle_successful_checked"); out.count((id.full ? "okfull_" : "ok_") + id.famname); } return r; }

// run a HermEigsBase / GenEigsBase style solver with default start vector and default maxit/tol, judge when Successful
template <class S> static Res run_krylov(Ctx& c, S& s, bool cplx, const std::vector<CL>& lam_ref, const std::function<CL(CL)>& fwd, LD sigma_abs, int sortrule) {
    Out& out = *c.out; const CaseId& id = c.id;
    long hooks = 0; bool order_bad = false; bool judging = (g_pre_rule < 0);
    c.obs->f = [&](const char* tag, const void*) {
        if (!judging || std::strcmp(tag, cplx ? "gen.restart" : "herm.restart")) return;
        hooks++; auto& rv = AX::ritz_val(s);
        if (!hook_order_ok(rv, id.rule, cplx)) order_bad = true;
    };
    long nconv = -1; std::string ex;
    try { s.init();
          if (g_pre_rule >= 0) { s.compute((SortRule) g_pre_rule, 1000, 1e-10, (SortRule) g_pre_rule); judging = true; }     // history share: compute(ruleA) first, no init() in between
          nconv = (long) s.compute((SortRule) id.rule, 1000, 1e-10, (SortRule) sortrule); }
    catch (const std::exception& e) { ex = e.what(); }
    c.obs->f = nullptr;
    out.count(id.full ? "oracle_fullspace_runs" : "oracle_runs"); out.count("hooks_seen", hooks);
    if (order_bad) out.fail("ritz-order", id.famname + " " + RN[id.rule] + ": after a restart the stored Ritz values are not ordered wanted-first by the rule's key", cj(id, ",\"pred\":\"ritz-order\""));
    Res res;
    if (!ex.empty()) { out.count("run_exception"); out.count("exc_" + id.famname); res.st = 4; res.msg = ex; return res; }
    if (s.info() != CompInfo::Successful) { out.count(id.full ? "not_successful_fullspace" : "not_successful"); out.count((id.full ? "notconvfull_" : "notconv_") + id.famname + "_" + RN[id.rule]); res.st = 3; return res; }
    auto ev = s.eigenvalues(); std::vector<CL> ret; for (long i = 0; i < ev.size(); i++) ret.push_back(CL((LD) std::real(ev[i]), (LD) std::imag(ev[i])));
    if ((long) ret.size() != id.nev) { out.fail("count", id.famname + ": Successful but " + str(ret.size()) + " eigenvalues returned for nev = " + str(id.nev), cj(id, ",\"pred\":\"count\"")); res.st = 1; res.msg = "count"; return res; }
    std::string msg; JudgeInfo ji; int j = judge(out, id, lam_ref, fwd, ret, cplx, sigma_abs, msg, &ji);
    return finish_judge(out, id, j, msg, ji);
}

struct CntSymProd : public Spectra::DenseSymMatProd<double> { CntSymProd(const Mat& A) : Spectra::DenseSymMatProd<double>(A) {} };
// Re[(A - sigma I)^{-1} x] with the shift the solver installs (dense complex LU inverse, explicit loop)
struct CplxShiftOp {
    using Scalar = double; const Mat* A; Mat R;
    CplxShiftOp(const Mat& a) : A(&a) {}
    Eigen::Index rows() const { return A->rows(); } Eigen::Index cols() const { return A->cols(); }
    void set_shift(const double& r_, const double& i_) { CMat M = A->cast<CD>(); for (long k = 0; k < M.rows(); k++) M(k, k) -= CD(r_, i_); CMat Inv = M.partialPivLu().inverse(); R = Inv.real(); }
    void perform_op(const double* x, double* y) const { const long n = rows(); for (long i = 0; i < n; i++) { double s = R(i, 0) * x[0]; for (long j = 1; j < n; j++) s += R(i, j) * x[j]; y[i] = s; } }
};

static std::string herm_header(int variant, int n, int nev, int ncv, double sigma, const Mat& M) {
    const double eps = Spectra::TypeTraits<double>::epsilon(); const double eps23 = std::pow(eps, double(2) / 3); const double near0 = Spectra::TypeTraits<double>::min() * double(10);
    return "herm " + str(variant) + " " + str(n) + " " + str(nev) + " " + str(ncv) + " " + str(dbits(eps23)) + " " + str(dbits(near0)) + " " + str(dbits(eps)) + " " + str(dbits(sigma)) + mat_bits(M);
}
// the same run once more on a fresh object, recorded as a request for the numeric solver model (drv_c05)
template <class S> static void model_tie(Out& out, S& s, const std::string& header, int rule, int nev) {
    std::string req = header + " | J | C " + str(rule) + " 1000 " + str(dbits(1e-10)) + " 3 | E | F", resp;
    try {
        s.init(); resp = "ok nmatop=" + str((long) s.num_operations());
        long r = (long) s.compute((SortRule) rule, 1000, 1e-10, SortRule::LargestAlge);
        resp += " | ret=" + str(r) + " info=" + str((int) s.info()) + " niter=" + str((long) s.num_iterations()) + " nmatop=" + str((long) s.num_operations());
        Vec e = s.eigenvalues(); resp += " | k=" + str((long) e.size()); for (long i = 0; i < e.size(); i++) resp += " e:" + str(dbits(e[i]));
        resp += " | " + AX::fachash(AX::fac(s));
    } catch (const std::invalid_argument&) { resp += (resp.empty() ? "" : " | ") + std::string("throw std::invalid_argument"); }
      catch (const std::exception&) { resp += (resp.empty() ? "" : " | ") + std::string("throw std::runtime_error"); }
    (void) nev; out.corr(req, resp); out.count("model_tie_requests");
}

static double g_lob_tol = 1e-7;            // LOBPCG tol_div_n: the class default; the probe below uses 1e-9
static const int REAL_RULES[5] = {0, 3, 4, 7, 8};
static const int CPLX_RULES[6] = {0, 1, 2, 4, 5, 6};
static const char* FAM[14] = {"SymEigsSolver", "HermEigsSolver", "SymEigsShiftSolver", "GenEigsSolver", "GenEigsRealShiftSolver", "GenEigsComplexShiftSolver",
                              "SymGEigsSolver<Cholesky>", "SymGEigsSolver<RegularInverse>", "SymGEigsShiftSolver<ShiftInvert>", "SymGEigsShiftSolver<Buckling>", "SymGEigsShiftSolver<Cayley>",
                              "DavidsonSymEigsSolver", "PartialSVDSolver", "LOBPCGSolver"};

static Res one_case(Out& out, Obs& obs, uint64_t seed, const std::string& tier, int fam, int rule, int rep, bool with_model, bool full) {
    Res res;
    const bool thorough = (tier == "thorough");
    Rng r(seed, 40 + fam, rule * 1000 + rep);
    static const int sizes_sym[8] = {30, 30, 60, 100, 30, 150, 200, 45}; static const int sizes_gen[8] = {30, 30, 40, 60, 30, 50, 60, 36};
    const bool genfam = (fam >= 3 && fam <= 5);
    int n = thorough ? (genfam ? sizes_gen[rep % 8] : sizes_sym[rep % 8]) : 30;
    if (fam == 5 && n > 50) n = 50;
    // structured shares of the complex-shift family (rep 100..199) and history shares of the general families (rep >= 200)
    const bool structured = (fam == 5 && rep >= 100 && rep < 200); const int skind = structured ? (rep - 100) % 8 : -1;
    const bool history = ((genfam || fam == 11) && rep >= 200);   // fam 11 (Davidson, no init()): compute(ruleA); compute(ruleB) on one object
    if (structured) { static const int sn[3] = {24, 30, 36}; n = thorough ? sn[((rep - 100) / 8) % 3] : 24; if ((rule == 2 || rule == 6) && (skind == 3 || skind == 5 || skind == 6)) n += 1; }
    if (history) n = (fam == 11) ? 100 : 30;
    if ((fam == 7 || fam == 13) && n > 100) n = 100;                      // iterative inner solves / sparse products: keep the cost bounded
    int nev = r.range(1, 6); if (fam == 13) nev = r.range(2, 6); if (fam == 11 && history) nev = r.range(2, 6);
    int ncv = 2 * nev + 1 + r.range(0, 6); if (ncv > n) ncv = n;
    if (full) { ncv = n; with_model = false; }     // full-space run: the Krylov space is everything, the Ritz values are the eigenvalues, only the selection logic is left
    const int type = rep % 3;
    CaseId id{seed, tier, fam, rule, rep, FAM[fam], n, nev, ncv, 0, 0, full};
    // history share: ruleA (first compute) is another rule of the family than the judged ruleB = rule
    g_pre_rule = -1;
    if (history && fam == 11) { static const int DR[4] = {0, 3, 4, 7}; int ri = 0; for (int i = 0; i < 4; i++) if (DR[i] == rule) ri = i; g_pre_rule = DR[(ri + 1 + (rep - 200) % 3) % 4]; id.cfg = std::string("history-") + RN[g_pre_rule] + "-then-" + RN[rule]; }
    else if (history) { int ri = 0; for (int i = 0; i < 6; i++) if (CPLX_RULES[i] == rule) ri = i; g_pre_rule = CPLX_RULES[(ri + 1 + (rep - 200) % 5) % 6]; id.cfg = std::string("history-") + RN[g_pre_rule] + "-then-" + RN[rule]; }
    if (structured) id.cfg = SCFG[skind];
    { std::ofstream lc(out.dir + "/lastcase.txt"); lc << cj(id) << "\n"; }
    if (!full) { out.count(std::string("cases_") + FAM[fam]); if (structured) out.count("cfg_" + id.cfg); if (history) out.count("cfg_history"); }
    Ctx c{&out, id, &obs};
    struct PreRuleReset { ~PreRuleReset() { g_pre_rule = -1; } } pre_rule_reset;
    const std::function<CL(CL)> ident = [](CL z) { return z; };
    switch (fam) {
    case 0: { Vec d = sym_spectrum(r, n, rule, type); Mat A = sym_from(r, d); OpLog log; LoopMatOp op(A, log); Spectra::SymEigsSolver<LoopMatOp> s(op, nev, ncv);
              res = run_krylov(c, s, false, ref_sym(A), ident, 0, 3);
              if (with_model && n <= 40) { OpLog l2; LoopMatOp op2(A, l2); Spectra::SymEigsSolver<LoopMatOp> s2(op2, nev, ncv); model_tie(out, s2, herm_header(0, n, nev, ncv, 0.0, A), rule, nev); }
              break; }
    case 1: { Vec d = sym_spectrum(r, n, rule, type); CMat G(n, n); for (int i = 0; i < n; i++) for (int j = 0; j < n; j++) G(i, j) = CD(r.sym(), r.sym());
              Eigen::HouseholderQR<CMat> qr(G); CMat Q = qr.householderQ(); CMat A = Q * d.cast<CD>().asDiagonal() * Q.adjoint(); A = (0.5 * (A + A.adjoint())).eval(); for (int i = 0; i < n; i++) A(i, i) = CD(A(i, i).real(), 0);
              Spectra::DenseHermMatProd<CD> op(A); Spectra::HermEigsSolver<Spectra::DenseHermMatProd<CD>> s(op, nev, ncv); res = run_krylov(c, s, false, ref_herm(A), ident, 0, 3); break; }
    case 2: { Vec nu = sym_spectrum(r, n, rule, type); avoid(nu, false); const double sigma = 3.0 * r.sym(); Vec lam(n); for (int i = 0; i < n; i++) lam[i] = sigma + 1.0 / nu[i];
              Mat A = sym_from(r, lam); Mat Inv = inverse_ld(A, sigma); c.id.sigma_r = sigma; OpLog log; LoopMatOp op(Inv, log); Spectra::SymEigsShiftSolver<LoopMatOp> s(op, nev, ncv, sigma);
              const LD sg = sigma; res = run_krylov(c, s, false, ref_sym(A), [sg](CL z) { return CL(1) / (z - sg); }, std::fabs(sg), 3);
              if (with_model && n <= 40) { OpLog l2; LoopMatOp op2(Inv, l2); Spectra::SymEigsShiftSolver<LoopMatOp> s2(op2, nev, ncv, sigma); model_tie(out, s2, herm_header(1, n, nev, ncv, sigma, Inv), rule, nev); }
              break; }
    case 3: { std::vector<CD> ev = cplx_spectrum(r, n, rule, type); Mat A = gen_from(r, ev); OpLog log; LoopMatOp op(A, log); Spectra::GenEigsSolver<LoopMatOp> s(op, nev, ncv);
              res = run_krylov(c, s, true, ref_gen(A), ident, 0, rule); break; }
    case 4: { std::vector<CD> nu = cplx_spectrum(r, n, rule, type); const double sigma = 2.0 * r.sym();
              { double mn = 1e300, mx = 0; for (auto& z : nu) { mn = std::min(mn, std::abs(z)); mx = std::max(mx, std::abs(z)); } if (mn < 0.02 * mx) for (auto& z : nu) z += CD(0.05 * mx, 0); }
              std::vector<CD> lam; for (auto& z : nu) lam.push_back(CD(sigma, 0) + CD(1, 0) / z);
              Mat A = gen_from(r, lam); Mat Inv = inverse_ld(A, sigma); c.id.sigma_r = sigma; OpLog log; LoopMatOp op(Inv, log); Spectra::GenEigsRealShiftSolver<LoopMatOp> s(op, nev, ncv, sigma);
              const LD sg = sigma; res = run_krylov(c, s, true, ref_gen(A), [sg](CL z) { return CL(1) / (z - sg); }, std::fabs(sg), rule); break; }
    case 5: if (structured) {
              // decoupled kinds 0,1,2,4: generic sigma; exact kinds 3,5,6,7: Re sigma a multiple of 1/4, Im sigma = tau from the list
              const bool exact = (skind == 3 || skind == 5 || skind == 6 || skind == 7); static const double TAUS[7] = {0.1, 0.25, 0.5, 0.7, 1.0, 1.5, 2.0};
              const double sr = exact ? 0.25 * r.range(-6, 6) : 1.5 * r.sym(), si = exact ? TAUS[r.below(7)] : 0.4 + 1.2 * r.unit(); c.id.sigma_r = sr; c.id.sigma_i = si; const CL sg((LD) sr, (LD) si);
              auto fwd = [sg](CL z) { return nu_cs(z, sg); };
              std::vector<CD> units; bool ok = false; for (int att = 0; att < 20 && !ok; att++) ok = struct_spectrum(r, n, rule, sr, si, exact, exact ? (skind == 7 ? 2 : 1) : 0, units);
              if (!ok) { out.count("generator_gave_up"); out.count("generator_gave_up_structured"); break; }
              Mat A;
              if (!exact) { std::vector<char> w = wanted_units(units, rule, sg, nev); int dW = 0; bool built = false;
                  for (int att = 0; att < 3 && !built; att++) built = build_decoupled(r, units, w, nev, skind == 2 ? 1 : 0, skind == 1, att == 2 ? 0.0 : (skind == 4 ? 0.5 : 0.2), A, dW);
                  if (!built) { out.count("generator_gave_up"); out.count("generator_gave_up_structured"); break; } }
              else A = build_blocktri(r, units, skind == 5 && r.coin(), skind == 6);
              CplxShiftOp op(A); Spectra::GenEigsComplexShiftSolver<CplxShiftOp> s(op, nev, ncv, sr, si);
              res = run_krylov(c, s, true, ref_gen(A), fwd, std::abs(sg), rule); break; }
            else { // nu = (1/(lam - sigma) + 1/(lam - conj sigma)) / 2: eigenvalue of Re[(A - sigma I)^-1]; candidates picked greedily so that the keys are separated
              const double sr = 1.5 * r.sym(), si = 0.4 + 1.2 * r.unit(); c.id.sigma_r = sr; c.id.sigma_i = si; const CL sg((LD) sr, (LD) si);
              auto fwd = [sg](CL z) { return (CL(1) / (z - sg) + CL(1) / (z - std::conj(sg))) * CL(0.5L); };
              std::vector<CD> ev; bool ok = false;
              for (int att = 0; att < 20 && !ok; att++) {
                  std::vector<CD> cand; std::vector<LD> ck; const int NC = 12 * n;
                  const bool imagrule = (rule == 2 || rule == 6);   // |Im nu| = 0 for every real lambda: at most one real eigenvalue, and only if n is odd
                  for (int i = 0; i < NC; i++) { bool re = r.coin(0.25) && !(imagrule && (n % 2 == 0)); CD z = re ? CD(4.0 * r.sym(), 0) : CD(4.0 * r.sym(), 0.3 + 3.0 * r.unit()); if (std::abs(z - CD(sr, si)) < 0.3 || std::abs(z - CD(sr, -si)) < 0.3) continue; cand.push_back(z); CL a = fwd(CL(z.real(), z.imag())); if (a.imag() < 0) a = std::conj(a); ck.push_back(key_of(rule, a, true)); }
                  std::vector<int> o(cand.size()); for (size_t i = 0; i < o.size(); i++) o[i] = (int) i; std::sort(o.begin(), o.end(), [&](int a, int b) { return ck[a] < ck[b]; });
                  // smallest key window [lo, e] in which a greedy pick with gap >= 0.65 % of the window width yields units for exactly n eigenvalues
                  const size_t N = o.size(); size_t lo = N / 20;
                  for (size_t e = lo + n / 2; e < N - N / 20 && !ok; e += 3) {
                      LD delta = 0.0065L * (ck[o[e]] - ck[o[lo]]); LD last = -1e300L; int cnt = 0; ev.clear(); if (!(delta > 0)) continue;
                      for (size_t i = lo; i <= e && cnt < n; i++) { if (ck[o[i]] - last < delta) continue; CD z = cand[o[i]]; int w = (z.imag() != 0.0) ? 2 : 1; if (cnt + w > n) continue; ev.push_back(z); if (w == 2) ev.push_back(std::conj(z)); cnt += w; last = ck[o[i]]; }
                      if (cnt == n) ok = true;
                  }
              }
              if (!ok) { out.count("generator_gave_up"); break; }
              Mat A = gen_from(r, ev); CplxShiftOp op(A); Spectra::GenEigsComplexShiftSolver<CplxShiftOp> s(op, nev, ncv, sr, si);
              res = run_krylov(c, s, true, ref_gen(A), fwd, std::abs(sg), rule); break; }
    case 6: case 7: { Vec lam = sym_spectrum(r, n, rule, type); Mat B = spd(r, n, 1.0, 8.0); Mat A = pencil_from(r, lam, B); std::vector<CL> ref = ref_pencil(A, B);
              if (fam == 6) { Spectra::DenseSymMatProd<double> op(A); Spectra::DenseCholesky<double> Bop(B); Spectra::SymGEigsSolver<Spectra::DenseSymMatProd<double>, Spectra::DenseCholesky<double>, Spectra::GEigsMode::Cholesky> s(op, Bop, nev, ncv); res = run_krylov(c, s, false, ref, ident, 0, 3); }
              else { Spectra::DenseSymMatProd<double> op(A); Eigen::SparseMatrix<double> Bs = B.sparseView(); Spectra::SparseRegularInverse<double> Bop(Bs);
                     Spectra::SymGEigsSolver<Spectra::DenseSymMatProd<double>, Spectra::SparseRegularInverse<double>, Spectra::GEigsMode::RegularInverse> s(op, Bop, nev, ncv); res = run_krylov(c, s, false, ref, ident, 0, 3); }
              break; }
    case 8: case 9: case 10: {
              Vec nu = sym_spectrum(r, n, rule, type); avoid(nu, fam != 8); double sigma = (0.5 + 2.0 * r.unit()) * (r.coin() ? 1.0 : -1.0); c.id.sigma_r = sigma; const LD sg = sigma;
              Vec lam(n); for (int i = 0; i < n; i++) lam[i] = (fam == 8) ? sigma + 1.0 / nu[i] : (fam == 9) ? sigma * nu[i] / (nu[i] - 1.0) : sigma * (nu[i] + 1.0) / (nu[i] - 1.0);
              using SI = Spectra::SymShiftInvert<double, Eigen::Dense, Eigen::Dense>; using BP = Spectra::DenseSymMatProd<double>;
              if (fam == 8) { Mat B = spd(r, n, 1.0, 8.0); Mat A = pencil_from(r, lam, B); SI op(A, B); BP Bop(B); Spectra::SymGEigsShiftSolver<SI, BP, Spectra::GEigsMode::ShiftInvert> s(op, Bop, nev, ncv, sigma);
                  res = run_krylov(c, s, false, ref_pencil(A, B), [sg](CL z) { return CL(1) / (z - sg); }, std::fabs(sg), 3); }
              else if (fam == 9) { // K x = lam KG x, K positive definite:  KG x = (1/lam) K x
                  Mat K = spd(r, n, 1.0, 8.0); Vec th(n); for (int i = 0; i < n; i++) th[i] = 1.0 / lam[i]; Mat KG = pencil_from(r, th, K);
                  std::vector<CL> ref = ref_pencil(KG, K); for (auto& z : ref) z = CL(1) / z;
                  SI op(K, KG); BP Bop(K); Spectra::SymGEigsShiftSolver<SI, BP, Spectra::GEigsMode::Buckling> s(op, Bop, nev, ncv, sigma);
                  res = run_krylov(c, s, false, ref, [sg](CL z) { return z / (z - sg); }, std::fabs(sg), 3); }
              else { Mat B = spd(r, n, 1.0, 8.0); Mat A = pencil_from(r, lam, B); SI op(A, B); BP Bop(B); Spectra::SymGEigsShiftSolver<SI, BP, Spectra::GEigsMode::Cayley> s(op, Bop, nev, ncv, sigma);
                  res = run_krylov(c, s, false, ref_pencil(A, B), [sg](CL z) { return (z + sg) / (z - sg); }, std::fabs(sg), 3); }
              break; }
    case 11: { // Davidson: diagonally dominant (the solver's diagonal preconditioner assumes it); the reference decomposition defines the spectrum
              Vec d = sym_spectrum(r, n, rule, type);
              // history share: magnitudes 1..n, the odd ones above 40 negative: the top of the spectrum by magnitude alternates in sign, so
              // an initial space taken from one END of the diagonal (the order of another rule) does not contain the wanted directions
              if (history) { for (int i = 0; i < n; i++) { const int m = i + 1; d[i] = ((m % 2 == 1 && m > 40) ? -1.0 : 1.0) * m; } for (int i = n - 1; i > 0; i--) std::swap(d[i], d[(int) r.below((uint64_t) i + 1)]); }
              Mat A = Mat::Zero(n, n); for (int i = 0; i < n; i++) { A(i, i) = d[i]; for (int j = 0; j < i; j++) { double v = 0.02 * r.sym(); A(i, j) = v; A(j, i) = v; } }
              Spectra::DenseSymMatProd<double> op(A); Spectra::DavidsonSymEigsSolver<Spectra::DenseSymMatProd<double>> s(op, nev);
              out.count("oracle_runs"); long nc = -1; std::string ex;
              try { if (g_pre_rule >= 0) { try { s.compute((SortRule) g_pre_rule, 300, 1e-10); } catch (const std::exception&) {} out.count("davidson_history_runs"); }   // history share: another rule first, same object
                    nc = (long) s.compute((SortRule) rule, 300, 1e-10); } catch (const std::exception& e) { ex = e.what(); }
              if (!ex.empty()) { out.count("run_exception"); out.count(std::string("exc_") + FAM[fam]); res.st = 4; break; }
              if (s.info() != CompInfo::Successful) { out.count("not_successful"); out.count(std::string("notconv_") + FAM[fam] + "_" + RN[rule]); res.st = 3; break; }
              Vec ev = s.eigenvalues(); std::vector<CL> ret; for (long i = 0; i < ev.size(); i++) ret.push_back(CL(ev[i], 0));
              { std::string msg; int j = judge(out, c.id, ref_sym(A), ident, ret, false, 0, msg); res = finish_judge(out, c.id, j, msg); }
              (void) nc; break; }
    case 12: { // largest singular values: the rule (LargestAlge) acts on the spectrum of A'A
              const int m = n + r.range(0, 10); Vec s2(n); { std::vector<double> k = grid_keys(r, n, 0); for (int i = 0; i < n; i++) s2[i] = k[i]; }
              Mat U = rand_orth(r, m), V = rand_orth(r, n); Mat S = Mat::Zero(m, n); for (int i = 0; i < n; i++) S(i, i) = std::sqrt(s2[i]); Mat A = U * S * V.transpose();
              Spectra::PartialSVDSolver<Mat> svd(A, nev, ncv); out.count(full ? "oracle_fullspace_runs" : "oracle_runs"); long nc = -1; std::string ex;
              try { nc = (long) svd.compute(1000, 1e-10); } catch (const std::exception& e) { ex = e.what(); }
              if (!ex.empty()) { out.count("run_exception"); out.count(std::string("exc_") + FAM[fam]); res.st = 4; break; }
              if (nc != nev) { out.count(full ? "not_successful_fullspace" : "not_successful"); out.count(std::string(full ? "notconvfull_" : "notconv_") + FAM[fam] + "_" + RN[rule]); res.st = 3; break; }
              Vec sv = svd.singular_values(); std::vector<CL> ret; for (long i = 0; i < sv.size(); i++) ret.push_back(CL((LD) sv[i] * (LD) sv[i], 0));
              MatL Gl = A.cast<LD>().transpose() * A.cast<LD>(); std::vector<CL> ref = ref_symL(Gl);
              { std::string msg; int j = judge(out, c.id, ref, ident, ret, false, 0, msg); res = finish_judge(out, c.id, j, msg); }
              break; }
    case 13: { // LOBPCG: smallest eigenvalues (rule = SmallestAlge); known findings of C17: k = 1 and k >= 10 throw, so 2 <= k <= 6
              Vec d = sym_spectrum(r, n, 7, 0); Mat A = sym_from(r, d); Eigen::SparseMatrix<double> As = A.sparseView(); Mat X0(n, nev); for (int j = 0; j < nev; j++) for (int i = 0; i < n; i++) X0(i, j) = r.sym();
              Eigen::SparseMatrix<double> Xs = X0.sparseView(); Spectra::LOBPCGSolver<double> s(As, Xs); out.count("oracle_runs"); std::string ex;
              { Mat Ti = inverse_ld(A, 0.0); Ti = (0.5 * (Ti + Ti.transpose())).eval(); Eigen::SparseMatrix<double> Ts = Ti.sparseView(); s.setPreconditioner(Ts); }   // A is positive definite here: preconditioner A^-1
              try { s.compute(1000, g_lob_tol); } catch (const std::exception& e) { ex = e.what(); }
              if (!ex.empty()) { out.count("run_exception"); out.count(std::string("exc_") + FAM[fam]); res.st = 4; break; }
              if (s.info() != 0) { out.count("not_successful"); out.count(std::string("notconv_") + FAM[fam] + "_" + RN[rule]); res.st = 3; break; }
              Vec ev = s.eigenvalues(); std::vector<CL> ret; for (long i = 0; i < ev.size() && i < nev; i++) ret.push_back(CL(ev[i], 0));
              { Mat X = s.eigenvectors(); if (X.norm() == 0.0) { std::ostringstream tl; tl << g_lob_tol;
                  out.fail("zero-iterate", std::string(FAM[fam]) + " n=" + str(n) + " k=" + str(nev) + " tol_div_n=" + tl.str() + ": info() = Success with the iterate X = 0, eigenvalues() = 0, residuals() = 0 (the iteration stagnated above the tolerance, lost B-orthonormality, diverged and collapsed)", cj(c.id, ",\"pred\":\"zero-iterate\"")); res.st = 1; res.msg = "zero-iterate"; res.rj.clear(); res.st = 4; break; } }
              if ((long) ret.size() != nev) { out.fail("count", std::string(FAM[fam]) + ": Success but " + str(ret.size()) + " eigenvalues", cj(c.id, ",\"pred\":\"count\"")); res.st = 1; res.msg = "count"; break; }
              { std::string msg; int j = judge(out, c.id, ref_sym(A), ident, ret, false, 0, msg);
                if (j == 1) { Mat X = s.eigenvectors(); Mat Rs = s.residuals(); msg += " [LOBPCG diagnostics: ||X||_F = " + str((double) X.norm()) + ", X " + str((long) X.rows()) + "x" + str((long) X.cols()) + ", ||residuals||_F = " + str((double) Rs.norm()) + "]"; }
                res = finish_judge(out, c.id, j, msg); }
              break; }
    }
    res.rj = cj(c.id);
    return res;
}

static bool has_fullspace(int fam, int n) { return fam <= 10 ? n <= 100 : fam == 12 ? n <= 100 : false; }   // Davidson / LOBPCG have no ncv
static void run_pair(Out& out, Obs& obs, uint64_t seed, const std::string& tier, int fam, int rule, int rep, bool with_model) {
    Res a, b;
    try { a = one_case(out, obs, seed, tier, fam, rule, rep, with_model, false); } catch (const std::exception& e) { out.count("case_exception"); return; }
    long n = 0; { size_t p = a.rj.find("\"n\":"); if (p != std::string::npos) n = std::strtol(a.rj.c_str() + p + 4, nullptr, 10); }
    if (has_fullspace(fam, (int) n) || (a.st == 1 && (fam <= 10 || fam == 12))) { /* routinely for n <= 100; for larger n only to classify a wrong set */ try { b = one_case(out, obs, seed, tier, fam, rule, rep, false, true); } catch (const std::exception& e) { out.count("case_exception_fullspace"); } }
    auto with_pred = [](const Res& q, const std::string& pred) { return q.rj.substr(0, q.rj.size() - 1) + ",\"pred\":\"" + pred + "\",\"nuzero\":" + str(q.ji.nuzero) + ",\"backmap\":" + str(q.ji.backmap) + "}"; };
    // the acted-on value of a wanted eigenvalue was returned, but not the eigenvalue: a defect of the back-transformation (complex shift: of the root selection), whatever the twin does
    if (b.st == 1 && b.ji.backmap) { out.fail("wrong-root", b.msg + " [full-space run, ncv = n]", with_pred(b, "back-transform-fullspace")); b.st = 6; }
    if (a.st == 1 && a.ji.backmap) { out.fail("wrong-root", a.msg, with_pred(a, "back-transform")); a.st = 6; }
    // full-space run (ncv = n): no convergence question is left, a wrong set is a defect of the selection logic
    if (b.st == 1) out.fail("wrong-set", b.msg + " [full-space run, ncv = n: the Ritz values are the eigenvalues]", with_pred(b, "top-k-fullspace"));
    if (a.st == 1) {
        if (b.st == 0) out.fail("misconverged", a.msg + " [the same problem with ncv = n returns the right set: the selection logic is right, the iteration was declared converged before the wanted eigenvalue had emerged in the Krylov space]", with_pred(a, "misconverged"));
        else out.fail("wrong-set", a.msg, with_pred(a, "top-k"));
    }
}
static void part_solver(const Args& a, Out& out) {
    Obs obs; Spectra::verif::observer() = &obs;
    int reps = a.thorough() ? 24 : 6; if (const char* e = std::getenv("C04_REPS")) reps = std::atoi(e);
    int sreps = a.thorough() ? 24 : 8, hreps = a.thorough() ? 5 : 2; if (const char* e = std::getenv("C04_SREPS")) sreps = std::atoi(e); if (const char* e = std::getenv("C04_HREPS")) hreps = std::atoi(e);
    for (int fam = 0; fam < 14; fam++) {
        const bool cplx = (fam >= 3 && fam <= 5);
        std::vector<int> rules; if (fam == 12) rules = {3}; else if (fam == 13) rules = {7}; else if (cplx) rules.assign(CPLX_RULES, CPLX_RULES + 6); else rules.assign(REAL_RULES, REAL_RULES + 5);
        for (int rule : rules) for (int rep = 0; rep < reps; rep++) run_pair(out, obs, a.seed, a.tier, fam, rule, rep, true);
        // structured shares of the complex-shift family (8 kinds, see SCFG) and history shares init(); compute(ruleA); compute(ruleB) of the general families
        if (fam == 5) for (int rule : rules) for (int rep = 100; rep < 100 + sreps; rep++) run_pair(out, obs, a.seed, a.tier, fam, rule, rep, false);
        if (cplx) for (int rule : rules) for (int rep = 200; rep < 200 + hreps; rep++) run_pair(out, obs, a.seed, a.tier, fam, rule, rep, false);
        // Davidson has no init(): compute(ruleA); compute(ruleB) on one object must select by ruleB (BothEnds is not a Davidson rule)
        if (fam == 11) for (int rule : rules) if (rule != 8) for (int rep = 200; rep < 200 + 3 * hreps; rep++) run_pair(out, obs, a.seed, a.tier, fam, rule, rep, false);
    }
    // fixed probe (seed-independent): LOBPCG with a tolerance it cannot reach (tol_div_n = 1e-9, n = 100, exact-inverse preconditioner)
    { g_lob_tol = 1e-9; try { one_case(out, obs, 2, "thorough", 13, 7, 11, false, false); } catch (const std::exception&) { out.count("case_exception"); } g_lob_tol = 1e-7; out.count("lobpcg_strict_probe"); }
    Spectra::verif::observer() = nullptr;
}

// minimal extraction of "key":<int> from a replay file
static bool jint(const std::string& s, const std::string& key, long& v) { size_t p = s.find("\"" + key + "\":"); if (p == std::string::npos) return false; p += key.size() + 3; v = std::strtol(s.c_str() + p, nullptr, 10); return true; }

int main(int argc, char** argv) {
    Args args(argc, argv); Out out(args.out);
    if (!args.replay.empty()) {
        std::ifstream f(args.replay); std::stringstream ss; ss << f.rdbuf(); std::string s = ss.str(); long fam, rule, rep, seed;
        if (jint(s, "fam", fam) && jint(s, "rule", rule) && jint(s, "rep", rep) && jint(s, "seed", seed)) {
            std::string tier = (s.find("\"tier\":\"thorough\"") != std::string::npos || s.find("\"tier\": \"thorough\"") != std::string::npos) ? "thorough" : "quick";
            Obs obs; Spectra::verif::observer() = &obs; run_pair(out, obs, (uint64_t) seed, tier, (int) fam, (int) rule, (int) rep, false); Spectra::verif::observer() = nullptr;
        } else out.count("replay_unparsable");
        out.finish(); return 0;
    }
    part_solver(args, out);
    out.finish();
    return 0;
}
