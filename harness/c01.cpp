// C01 harness: SymEigsSolver / HermEigsSolver / SymEigsShiftSolver hand back only genuine, orthonormal eigenpairs, for every
// outcome (Successful / NotConverging) and every init()/compute() history.
//
//  (a) correspondence (streams 0, 1): histories on the REAL SymEigsSolver<LoopMatOp> and SymEigsShiftSolver<LoopMatOp> (double);
//      the same history is answered by the Lean solver model (Driver/C05.lean, `herm` requests): return value, status, counters,
//      eigenvalues, eigenvectors and a hash of the whole factorization object after every compute().
//  (b) oracle (all streams): after every compute() that returns, for EVERY pair handed back (evaluated in __float128):
//         standard:  ||A x - theta x||  <=  C1 * tol * max(eps^(2/3), |theta|)  +  C2 * n * eps * ||A||_F
//         shift:     ||A x - lam x||    <=  ||A - sigma I||_F * C1 * tol * max(eps^(2/3), |nu|) / |nu|
//                                           +  C2 * n * eps * ( ||A||_F + |sigma| sqrt(n)  +  ||A - sigma I||_F ||(A - sigma I)^-1||_F / |nu| ),
//                    nu = 1 / (lam - sigma)         (tol times the documented scale, back-transformed, + rounding-level multiple of ||A||; the last
//                    term is the accuracy to which ANY solver can know an eigenvalue through (A - sigma I)^-1: eps * cond * |lam - sigma|)
//         shift, operator given as a matrix (stream 1), additionally in the iterated spectrum, with nu the Rayleigh quotient x'Op x / x'x
//         (the solver's own nu cannot be recovered from lam = sigma + 1/nu when |lam - sigma| << |sigma|; the Rayleigh quotient minimises the residual):
//                    ||Op x - nu x||    <=  C1 * tol * max(eps^(2/3), |nu|)  +  C2 * n * eps * ||Op||_F
//         DenseSymShiftSolve instantiations: cases with eps * ||A - sigma I||_F ||(A - sigma I)^-1||_F > 1e-3 are skipped (precondition "sigma is not
//         an eigenvalue" fails in the working precision); counted as shift_numerically_singular_skipped.
//         | ||x|| - 1 | <= C3 * n * eps,      |x_i^H x_j| <= C3 * n * eps (i != j),      every returned number finite.
//      eps = machine epsilon of the solver's real scalar type;  C1 = 1.01, C2 = 100, C3 = 100.
//      Streams: 0 SymEigsSolver<LoopMatOp> (double), 1 SymEigsShiftSolver<LoopMatOp> (double),
//               2 oracle only: SymEigsSolver<DenseSymMatProd<float | long double>>, HermEigsSolver<DenseHermMatProd<complex<float | double | long double>>>,
//                 SymEigsShiftSolver<DenseSymShiftSolve<float | double | long double>>.
//      Failures carry diagnostic match keys (weak_handover, residual_discarded, abs_threshold_regime, min_beta_rel, explained) taken from the
//      factorization hooks; they never influence the predicate, only the known-finding classification (see `explain`).
//  (c) structured share "zd" (zero-diagonal projected matrix) of EVERY stream (correspondence and oracle): a case becomes a zd case when the first
//      draw of its own generator Rng(seed, 200 + stream, idx) says so (15 % of streams 0/1, 12 % of stream 2; the other cases are untouched).
//      The matrix has a sparsity pattern that makes every Rayleigh quotient v_i' A v_i along the Lanczos vectors EXACTLY zero in floating point
//      when the user-supplied start vector is supported on one part only (a structural zero: sums of products with exact zeros), so the projected
//      tridiagonal matrix H has an exactly zero diagonal until the first restart / breakdown:
//         zd_bipartite [0 B; B' 0], zd_checkerboard (A_ij != 0 only for i + j odd), zd_antidiag3 [0 0 B; 0 C 0; B' 0 0] (start vector zero on the
//         C part), zd_permuted (random assignment of the indices to the parts P, Q and a decoupled part D), zd_blocktridiag (zero diagonal blocks,
//         coupling between neighbouring blocks only), zd_imag_skew (HermEigsSolver: A = i K, K real skew-symmetric, REAL start vector);
//         entries small integers / dyadic k/16 / generic doubles, optionally 40 % of them dropped, scaled by 2^{-4, 0, 3, 10}; sizes balanced
//         (|P| - |Q| in {0, 1}, start on P: no breakdown before ncv steps) in 70 % of the cases; shift classes: |P| = |Q|, sigma = 0 (the inverse
//         has the same pattern); histories init(one-sided v0); compute(any rule, ...) {; init(one-sided | default) | compute(...)}*.
//      The "lanczos.factorize" hook counts the factorizations that end with diag(H) == 0 exactly (zd_compute_exact_zero_H_diagonal).
//  Every case is a function of (seed, stream, idx) only, so a replay needs just those three numbers.
#include "solver_common.h"
#include <Spectra/MatOp/DenseSymShiftSolve.h>
#include <array>
using namespace sh;
typedef __float128 Q;
typedef std::complex<double> CD;
typedef std::complex<LD> CL;
typedef Eigen::MatrixXcd CMat;
typedef Eigen::VectorXcd CVec;
typedef Eigen::Matrix<CL, Eigen::Dynamic, Eigen::Dynamic> CMatL;
typedef Eigen::Matrix<CL, Eigen::Dynamic, 1> CVecL;

static const LD C1 = 1.01L, C2 = 100.0L, C3 = 100.0L;

struct SpectraVerifAccess {
    template <class S> static auto& fac(S& s) { return s.m_fac; }
    template <class F> static LD beta(const F& f) { return (LD) f.m_beta; }
    template <class F> static long k(const F& f) { return (long) f.m_k; }
    // the projected matrix of a complete factorization (k = m >= 2) has an EXACTLY zero diagonal (and is not the zero matrix)
    template <class F> static bool zero_diag(const F& f) {
        if (f.m_k != f.m_m || f.m_m < 2) return false; bool off = false;
        for (long i = 0; i < f.m_m; i++) { if (std::real(CL(f.m_fac_H(i, i))) != 0) return false; if (i > 0 && std::real(CL(f.m_fac_H(i, i - 1))) != 0) off = true; }
        return off; }
    template <class F> static std::string fachash(const F& f) {
        uint64_t h = 1469598103934665603ull; auto feed = [&h](double x) { uint64_t u = dbits(x + 0.0); for (int b = 0; b < 8; b++) { h ^= (u >> (8 * b)) & 0xff; h *= 1099511628211ull; } };
        auto rd = [](auto x) { return (double) std::real(CL(x)); };     // only ever used for the double classes (identity there)
        feed(rd(f.m_beta)); const long m = f.m_m, n = f.m_n, k = f.m_k;
        for (long j = 0; j < m; j++) for (long i = 0; i < m; i++) feed(rd(f.m_fac_H(i, j)));
        for (long i = 0; i < n; i++) feed(rd(f.m_fac_f[i]));
        for (long j = 0; j < k; j++) for (long i = 0; i < n; i++) feed(rd(f.m_fac_V(i, j)));
        return "k=" + str(k) + " beta=e:" + str(dbits(rd(f.m_beta))) + " hash=" + str(h);
    }
};
typedef SpectraVerifAccess AX;

// observer: regime diagnostics used ONLY as match keys of known findings (never to decide the predicate)
struct Diag { LD normOp = 0; LD opcond = 1; LD sqrtmin = 0; bool weak = false; bool nanfac = false; long points = 0; long nexpand = 0; bool betazero = false; bool expand_underflow = false; LD minrel = 1e300L; long zdiag = 0; };
static bool g_debug = false;
template <class Fac> struct Obs : public Spectra::verif::Observer {
    Diag* d; explicit Obs(Diag* d_) : d(d_) {}
    void on(const char* tag, const void* obj) override {
        const bool ini = !std::strcmp(tag, "arnoldi.init"), cmp = !std::strcmp(tag, "arnoldi.compress"), fin = !std::strcmp(tag, "lanczos.factorize"), ex = !std::strcmp(tag, "arnoldi.expand");
        const Fac* f = (const Fac*) obj;
        if (g_debug) fprintf(stderr, "  [obs] %-18s k=%ld beta=%.6Le (beta/||Op||_F=%.3Le)\n", tag, AX::k(*f), AX::beta(*f), AX::beta(*f) / d->normOp);
        if (ex) { d->nexpand++; if (fabsl(AX::beta(*f)) < d->sqrtmin) d->expand_underflow = true; return; }   // a breakdown restart: the residual at hand was discarded and a fresh direction generated
                                                     // (expand_underflow: the accepted direction is so small that the squares inside its norm underflow)
        if (!ini && !cmp && !fin) return;
        d->points++;
        LD b = AX::beta(*f);
        if (!(b == b) || std::isinf((double) b)) { d->nanfac = true; return; }
        if (b == 0) d->betazero = true;              // exact zero: genuine, or the `beta < eps*sqrt(n)  =>  f := 0` shortcut
        if (fin) { if (AX::zero_diag(*f)) d->zdiag++; return; }
        d->minrel = std::min(d->minrel, fabsl(b) / d->normOp);
        if (fabsl(b) < 1e-2L * d->normOp) d->weak = true;      // same criterion as C07 (F12a): residual handed over by init / compress_V with beta < 1e-2 ||Op||_F
    }
};

// ---------------------------------------------------------------- quad-precision helpers (explicit loops, no library calls)
static Q qabs(Q x) { return x < 0 ? -x : x; }
static LD qsqrt(Q x) { return sqrtl((LD) x); }
struct Herm {                     // a Hermitian matrix (real part / imaginary part), row-major, in Q
    int n = 0; std::vector<Q> re, im;
    Q& R(int i, int j) { return re[(size_t) i * n + j]; } Q& I(int i, int j) { return im[(size_t) i * n + j]; }
    Q R(int i, int j) const { return re[(size_t) i * n + j]; } Q I(int i, int j) const { return im[(size_t) i * n + j]; }
    LD fro() const { Q s = 0; for (size_t i = 0; i < re.size(); i++) s += re[i] * re[i] + im[i] * im[i]; return qsqrt(s); }
};
static Herm herm_of(const CMatL& A) { Herm h; h.n = (int) A.rows(); h.re.resize((size_t) h.n * h.n); h.im.resize((size_t) h.n * h.n);
    for (int i = 0; i < h.n; i++) for (int j = 0; j < h.n; j++) { h.R(i, j) = (Q) A(i, j).real(); h.I(i, j) = (Q) A(i, j).imag(); } return h; }
// || M x - theta x ||_2 for complex x
static LD resid_norm(const Herm& M, const std::vector<Q>& xr, const std::vector<Q>& xi, Q theta) {
    const int n = M.n; Q s = 0;
    for (int i = 0; i < n; i++) { Q ar = 0, ai = 0;
        for (int j = 0; j < n; j++) { ar += M.R(i, j) * xr[j] - M.I(i, j) * xi[j]; ai += M.R(i, j) * xi[j] + M.I(i, j) * xr[j]; }
        ar -= theta * xr[i]; ai -= theta * xi[i]; s += ar * ar + ai * ai; }
    return qsqrt(s);
}
// inverse of a real symmetric matrix in Q (Gauss-Jordan, partial pivoting), symmetrised; returns false if a pivot vanishes
static bool inverse_q(const Mat& A, double sigma, std::vector<Q>& inv) {
    const int n = (int) A.rows(); std::vector<Q> M((size_t) n * 2 * n, 0);
    for (int i = 0; i < n; i++) { for (int j = 0; j < n; j++) M[(size_t) i * 2 * n + j] = (Q) A(i, j); M[(size_t) i * 2 * n + i] -= (Q) sigma; M[(size_t) i * 2 * n + n + i] = 1; }
    for (int c = 0; c < n; c++) {
        int p = c; for (int i = c + 1; i < n; i++) if (qabs(M[(size_t) i * 2 * n + c]) > qabs(M[(size_t) p * 2 * n + c])) p = i;
        if (M[(size_t) p * 2 * n + c] == 0) return false;
        if (p != c) for (int j = 0; j < 2 * n; j++) std::swap(M[(size_t) p * 2 * n + j], M[(size_t) c * 2 * n + j]);
        Q d = M[(size_t) c * 2 * n + c]; for (int j = 0; j < 2 * n; j++) M[(size_t) c * 2 * n + j] /= d;
        for (int i = 0; i < n; i++) if (i != c) { Q f = M[(size_t) i * 2 * n + c]; if (f == 0) continue; for (int j = 0; j < 2 * n; j++) M[(size_t) i * 2 * n + j] -= f * M[(size_t) c * 2 * n + j]; }
    }
    inv.assign((size_t) n * n, 0);
    for (int i = 0; i < n; i++) for (int j = 0; j < n; j++) inv[(size_t) i * n + j] = (M[(size_t) i * 2 * n + n + j] + M[(size_t) j * 2 * n + n + i]) / 2;
    return true;
}

// ---------------------------------------------------------------- problems
static const char* KIND[] = {"generic", "clustered", "repeated", "graded", "lowrank", "blockdiag", "lowrank_exact",
                             "zd_bipartite", "zd_checkerboard", "zd_antidiag3", "zd_permuted", "zd_blocktridiag", "zd_imag_skew"};       // 7..12: the structured share (c)
static const char* START[] = {"default", "random", "eigenvector", "two_eigenvectors", "nullspace", "invariant_block", "one_sided", "real_vector"};
static const char* ZDSTYLE[] = {"int", "dyadic", "generic"};
struct Problem {
    int n = 0, kind = 0, scale_exp = 0; bool cplx = false;
    CMat A;            // Hermitian (real symmetric when !cplx), double entries
    CMat U;            // the eigenvector matrix it was built from (columns)
    Vec d;             // the spectrum it was built from (already scaled)
    int h = 0;         // size of the leading block (blockdiag / lowrank_exact), else n
    // structured share (c): part[i] = 0 (P, carries the start vector), 1 (Q), 2 (D, decoupled from P and Q)
    bool zd = false; std::vector<int> part; int style = 0, e2 = 0, np = 0, nq = 0, nd = 0; bool sparse = false, balanced = false;
    std::string zdesc() const { return std::string("layout=") + KIND[kind] + " P=" + str(np) + " Q=" + str(nq) + " D=" + str(nd) + " entries=" + ZDSTYLE[style] + (sparse ? " sparse" : " dense") + " scale=2^" + str(e2) + (balanced ? " balanced" : " unbalanced"); }
};
static CMat rand_unitary(Rng& r, int n, bool cplx) {
    if (n == 0) return CMat(0, 0);
    if (!cplx) return rand_orth(r, n).cast<CD>();
    CMat M(n, n); for (int i = 0; i < n; i++) for (int j = 0; j < n; j++) M(i, j) = CD(r.sym(), r.sym());
    Eigen::HouseholderQR<CMat> qr(M); CMat Qm = qr.householderQ(); return Qm;
}
static Problem make_problem(Rng& r, int n, int kind, int scale_exp, bool cplx) {
    Problem p; p.n = n; p.kind = kind; p.scale_exp = scale_exp; p.cplx = cplx; p.h = n;
    Vec d(n); for (int i = 0; i < n; i++) d[i] = r.sym() * 10;
    switch (kind) {
        case 1: { int c = std::max(2, n / 2); for (int i = 0; i < n; i++) d[i] = (i < c ? 5.0 + 1e-8 * i : r.sym()); break; }              // cluster 1e-8 apart at the top of the spectrum
        case 2: for (int i = 0; i < n; i++) d[i] = (double) (i % 3) + 1; break;                                                           // repeated
        case 3: for (int i = 0; i < n; i++) d[i] = std::pow(10.0, -8.0 + 16.0 * i / std::max(1, n - 1)) * (r.coin() ? 1 : -1); break;      // graded 1e-8 .. 1e8
        case 4: { int rk = r.range(1, std::max(1, std::min(3, n - 1))); for (int i = 0; i < n; i++) d[i] = (i < rk ? 3.0 + i : 0.0); break; }  // numerically low rank
        case 6: { int rk = r.range(1, std::max(1, n - 1)); p.h = rk; for (int i = 0; i < n; i++) d[i] = (i < rk ? (r.coin() ? 1 : -1) * (1.0 + r.unit() * 4) : 0.0); break; }   // exact trailing zero block
        default: break;
    }
    if (kind == 5) p.h = std::max(1, n / 2);
    CMat U = CMat::Zero(n, n);
    if (kind == 5 || kind == 6) { U.topLeftCorner(p.h, p.h) = rand_unitary(r, p.h, cplx); if (kind == 5) U.bottomRightCorner(n - p.h, n - p.h) = rand_unitary(r, n - p.h, cplx); else U.bottomRightCorner(n - p.h, n - p.h).setIdentity(); }
    else U = rand_unitary(r, n, cplx);
    CMat A = U * d.cast<CD>().asDiagonal() * U.adjoint();
    A = (0.5 * (A + A.adjoint())).eval(); for (int i = 0; i < n; i++) A(i, i) = CD(A(i, i).real(), 0.0);
    if (kind == 5 || kind == 6) for (int i = 0; i < n; i++) for (int j = 0; j < n; j++) if ((i < p.h) != (j < p.h)) A(i, j) = 0.0;
    if (kind == 6) for (int i = p.h; i < n; i++) for (int j = p.h; j < n; j++) A(i, j) = 0.0;
    const double scale = std::pow(10.0, scale_exp);
    p.A = A * scale; p.d = d * scale; p.U = U;
    return p;
}
static CVec start_vector(Rng& r, const Problem& p, int sk) {
    const int n = p.n; CVec v(n);
    switch (sk) {
        case 2: { v = p.U.col(r.below(n)); break; }
        case 3: { int a = (int) r.below(n), b = (int) r.below(n); if (b == a) b = (a + 1) % n; v = p.U.col(a) * r.sym() + p.U.col(b) * (0.5 + r.unit()); break; }
        case 4: { int j = 0; for (int i = 1; i < n; i++) if (std::fabs(p.d[i]) < std::fabs(p.d[j])) j = i;           // eigenvector of the eigenvalue of least magnitude
                  if (p.kind == 6) { v.setZero(); for (int i = p.h; i < n; i++) v[i] = p.cplx ? CD(r.sym(), r.sym()) : CD(r.sym(), 0); if (n - p.h == 1) v[n - 1] = 1.0; }   // exactly A v = 0
                  else v = p.U.col(j); break; }
        case 5: { v.setZero(); for (int i = 0; i < p.h; i++) v[i] = p.cplx ? CD(r.sym(), r.sym()) : CD(r.sym(), 0); break; }   // inside the invariant subspace of the leading block
        default: for (int i = 0; i < n; i++) v[i] = p.cplx ? CD(r.sym(), r.sym()) : CD(r.sym(), 0);
    }
    return v;
}

// ---- structured share (c): matrices whose Lanczos vectors from a one-sided start have exactly zero Rayleigh quotients ----
static double zd_entry(Rng& r, int style, bool nonzero) {
    for (;;) { double v = style == 0 ? (double) r.range(-3, 3) : style == 1 ? (double) r.range(-32, 32) / 16.0 : r.sym(); if (v != 0 || !nonzero) return v; }
}
// layout 0 bipartite, 1 checkerboard, 2 antidiag3, 3 permuted, 4 blocktridiag, 5 imag_skew (cplx only); need_inv: |P| = |Q| and D coupled to itself only
// (so that the inverse exists for generic entries and has the same pattern)
static Problem make_zd_problem(Rng& r, int n, bool cplx, bool need_inv) {
    Problem p; p.n = n; p.cplx = cplx; p.h = n; p.zd = true; p.scale_exp = 0; p.part.assign(n, 0);
    int layout;
    if (cplx && r.coin(0.4)) layout = 5;
    else if (need_inv) { if (n % 2) layout = r.coin() ? 2 : 3; else { static const int ev[4] = {0, 1, 2, 3}; layout = ev[r.below(4)]; if (layout == 2 && n < 4) layout = 0; } }
    else { layout = (int) r.below(5); if (layout == 2 && n < 3) layout = 0; }
    p.kind = 7 + layout; p.style = (int) r.below(3); p.sparse = r.coin(0.35) && !need_inv; static const int e2s[5] = {-4, 0, 0, 3, 10}; p.e2 = e2s[r.below(5)];
    const bool want_bal = need_inv || r.coin(0.7);
    std::vector<int> blk(n, 0);         // blocktridiag: block number of every index
    if (layout == 5) { p.np = n; }
    else if (layout == 1) { const int sw = (n % 2 == 0 && r.coin()) || (n % 2 == 1 && !want_bal) ? 1 : 0; for (int i = 0; i < n; i++) p.part[i] = (i + sw) % 2; }
    else if (layout == 4) {
        int nb = r.range(2, std::min(n, 5)); std::vector<int> cut; for (int i = 1; i < n; i++) cut.push_back(i);
        for (int i = (int) cut.size() - 1; i > 0; i--) std::swap(cut[i], cut[r.below(i + 1)]); cut.resize(nb - 1); std::sort(cut.begin(), cut.end());
        int b = 0; for (int i = 0; i < n; i++) { if (b < nb - 1 && i == cut[b]) b++; blk[i] = b; } const int sw = r.coin() ? 1 : 0; for (int i = 0; i < n; i++) p.part[i] = (blk[i] + sw) % 2;
    } else {
        int nd = 0;
        if (need_inv) { nd = n % 2; if (layout >= 2 && n - nd >= 4 && (layout == 2 ? nd == 0 : r.coin(0.3))) nd += 2; }
        else if (layout == 2) nd = r.range(1, std::max(1, std::min(n - 2, n / 3)));
        else if (layout == 3 && n >= 3 && r.coin()) nd = r.range(0, std::min(n - 2, n / 3));
        const int m = n - nd; int np = want_bal ? (m + 1) / 2 : r.range(1, m - 1), nq = m - np;
        std::vector<int> lab; for (int i = 0; i < np; i++) lab.push_back(0);
        if (layout == 2) { for (int i = 0; i < nd; i++) lab.push_back(2); for (int i = 0; i < nq; i++) lab.push_back(1); }
        else { for (int i = 0; i < nq; i++) lab.push_back(1); for (int i = 0; i < nd; i++) lab.push_back(2); }
        if (layout == 3) for (int i = n - 1; i > 0; i--) std::swap(lab[i], lab[r.below(i + 1)]);
        p.part = lab;
    }
    if (layout != 5) { p.np = p.nq = p.nd = 0; for (int i = 0; i < n; i++) (p.part[i] == 0 ? p.np : p.part[i] == 1 ? p.nq : p.nd)++; }
    p.balanced = layout == 5 || (p.np - p.nq == 0 || p.np - p.nq == 1);
    const double dens = p.sparse ? 0.6 : 1.0;
    CMat A = CMat::Zero(n, n);
    for (int i = 0; i < n; i++) for (int j = i; j < n; j++) {
        const int a = p.part[i], b = p.part[j]; bool allowed; bool skew = false;
        if (layout == 5) { allowed = i != j; skew = true; }
        else if (a == 2 && b == 2) allowed = true;                                     // the decoupled part: any symmetric / Hermitian block
        else allowed = (a + b == 1) && (layout != 4 || std::abs(blk[i] - blk[j]) == 1);
        if (!allowed) continue;
        if (!r.coin(dens)) continue;
        CD v;
        if (skew) v = CD(0.0, zd_entry(r, p.style, false));
        else if (i == j || !cplx) v = CD(zd_entry(r, p.style, need_inv), 0.0);
        else v = CD(zd_entry(r, p.style, false), zd_entry(r, p.style, false));
        A(i, j) = v; A(j, i) = std::conj(v);
    }
    p.A = A * std::ldexp(1.0, p.e2); p.U = CMat(); p.d = Vec();
    return p;
}
// start vector supported on (a non-empty subset of) the part P; zd_imag_skew: a real vector
static CVec zd_start_vector(Rng& r, const Problem& p, bool& subset) {
    const int n = p.n; CVec v = CVec::Zero(n); std::vector<int> sup; for (int i = 0; i < n; i++) if (p.part[i] == 0) sup.push_back(i);
    subset = false;
    if (sup.size() > 1 && r.coin(0.3)) { std::vector<int> s2; for (int i : sup) if (r.coin()) s2.push_back(i); if (s2.empty()) s2.push_back(sup[r.below(sup.size())]); if (s2.size() < sup.size()) subset = true; sup = s2; }
    const bool cz = p.cplx && p.kind != 12;
    for (int i : sup) v[i] = CD(zd_entry(r, p.style, true), cz ? zd_entry(r, p.style, false) : 0.0);
    return v;
}

struct HCall { char kind; CVec v0; int startkind = 1; int sel = 0, sort = 3; long maxit = 1000; double tol = 1e-10; };
static std::vector<HCall> gen_history(Rng& r, const Problem& p, bool allow_before_init) {
    static const int hsel[5] = {0, 3, 4, 7, 8}, hsort[4] = {0, 3, 4, 7}; static const long mi[5] = {0, 1, 2, 5, 1000};
    const double tl[3] = {1e-3, 1e-10, 4 * 2.220446049250313e-16};
    std::vector<HCall> h; const int len = r.range(2, 6);
    auto mk_init = [&]() { HCall k; k.kind = 'I'; int sk = (int) r.below(6); if (sk == 5 && p.h == p.n) sk = 3; k.startkind = sk; if (sk == 0) k.kind = 'J'; else k.v0 = start_vector(r, p, sk); return k; };
    auto mk_comp = [&]() { HCall k; k.kind = 'C'; k.sel = hsel[r.below(5)]; k.sort = hsort[r.below(4)]; k.maxit = mi[r.below(5)]; k.tol = tl[r.below(3)]; return k; };
    if (allow_before_init && r.coin(0.06)) h.push_back(mk_comp());           // compute() before any init(): rejected by the factorization
    h.push_back(mk_init());
    while ((int) h.size() < len) { if (r.coin(0.22)) h.push_back(mk_init()); else h.push_back(mk_comp()); }
    if (h.back().kind != 'C') h.push_back(mk_comp());
    return h;
}
// structured share (c): init(one-sided v0); compute(...) { ; init(one-sided | default) | compute(...) }*
static std::vector<HCall> gen_history_zd(Rng& r, const Problem& p, Out& out) {
    static const int hsel[5] = {0, 3, 4, 7, 8}, hsort[4] = {0, 3, 4, 7}; static const long mi[6] = {0, 1, 2, 5, 1000, 1000};
    const double tl[3] = {1e-3, 1e-10, 4 * 2.220446049250313e-16};
    std::vector<HCall> h; const int len = r.range(2, 5);
    auto mk_init = [&](bool allow_default) { HCall k; k.kind = 'I'; if (allow_default && r.coin(0.2)) { k.kind = 'J'; k.startkind = 0; return k; }
        bool sub = false; k.v0 = zd_start_vector(r, p, sub); k.startkind = p.kind == 12 ? 7 : 6; if (sub) out.count("zd_start_subset_of_part"); return k; };
    auto mk_comp = [&]() { HCall k; k.kind = 'C'; k.sel = hsel[r.below(5)]; k.sort = hsort[r.below(4)]; k.maxit = mi[r.below(6)]; k.tol = tl[r.below(3)]; return k; };
    h.push_back(mk_init(false)); h.push_back(mk_comp());
    while ((int) h.size() < len) { if (r.coin(0.2)) h.push_back(mk_init(true)); else h.push_back(mk_comp()); }
    if (h.back().kind != 'C') h.push_back(mk_comp());
    return h;
}

// ---------------------------------------------------------------- the oracle on one returned result
struct Case {
    Out* out; uint64_t seed; int stream; long idx; std::string cls; int n, nev, ncv; const Problem* p; double sigma = 0; bool shift = false;
    LD eps; Diag diag; int Av0_zero = 0; std::string hist; int startkind = 0;
    long zdiag_total = 0;     // factorizations of this case that ended with an exactly zero diag(H)
    LD max_res_ratio = 0, max_orth_ratio = 0; bool ever_regime = false;   // ever_regime: some compute() of the case ran under weak hand-over / discarded residual
};
static std::string sci(LD x) { char b[64]; snprintf(b, sizeof b, "%.3Le", x); return b; }
static std::string rj(const Case& c, const std::string& extra = "") {
    return "{\"harness\":\"c01\",\"c01seed\":" + str(c.seed) + ",\"c01stream\":" + str(c.stream) + ",\"c01idx\":" + str(c.idx) + ",\"class\":\"" + c.cls + "\",\"n\":" + str(c.n) + ",\"nev\":" + str(c.nev) + ",\"ncv\":" + str(c.ncv) +
           ",\"kind\":\"" + KIND[c.p->kind] + "\",\"scale_exp\":" + str(c.p->scale_exp) + ",\"sigma\":" + str(c.sigma) + ",\"start\":\"" + START[c.startkind] + "\",\"weak_handover\":" + str((int) c.diag.weak) +
           ",\"nan_factorization\":" + str((int) c.diag.nanfac) + ",\"residual_discarded\":" + str((int) (c.diag.nexpand > 0 || c.diag.betazero)) + ",\"abs_threshold_regime\":" + str((int) (c.diag.normOp * C2 * sqrtl((LD) c.n) < 1.0L)) + ",\"min_beta_rel\":" + sci(c.diag.minrel) + ",\"Av0_zero\":" + str(c.Av0_zero) + ",\"calls\":\"" + jesc(c.hist) + "\"" + (c.p->zd ? ",\"zd\":\"" + c.p->zdesc() + "\",\"zero_diag_factorizations\":" + str(c.zdiag_total) : std::string()) + extra + "}";
}

// Match key `explained` of a failure (NEVER used to decide the predicate, only to tell the two known defect families of the unchanged
// tree apart from anything new):
//   "abs_threshold"  a residual was discarded by the factorization (local restart / `beta < eps*sqrt(n) => f := 0`) and the violation,
//                    measured in the iterated spectrum, is at most 2*eps*sqrt(n): the absolute breakdown threshold of Lanczos.h:78 / Arnoldi.h
//   "weak_handover"  init()/compress_V handed over a residual with beta < 1e-2 ||Op||_F (normalised by the next factorize_from without
//                    re-orthogonalisation) and the violation relative to the operator is at most 1000 * pred, pred = eps * cond / (beta_min / ||Op||_F)
//                    being the orthogonality loss that mechanism predicts (C07 finding F12a; cond = 1 for an operator given as a matrix,
//                    ||A - sigma I||_F ||(A - sigma I)^-1||_F for DenseSymShiftSolve whose solves are accurate to eps * cond), or pred >= 1e-3
//                    (orthogonality lost completely), or the returned value lies outside every possible spectrum, |theta| > 2 ||Op||_F (the
//                    recurrence diverged over the restarts: C07 finding F12g)
//   "expand_underflow" expand_basis accepted a fresh direction of norm < sqrt(min normal): the squares inside norm() underflow (float)
//   "none"           anything else
static std::string explain(const Case& c, LD viol_rel, LD viol_abs_iter, bool escaped = false) {
    const bool disc = c.diag.nexpand > 0 || c.diag.betazero;
    if (disc && viol_abs_iter >= 0 && viol_abs_iter <= 2 * c.eps * sqrtl((LD) c.n)) return ",\"explained\":\"abs_threshold\"";
    const LD pred = c.eps * c.diag.opcond / c.diag.minrel;
    if (c.diag.weak && (pred >= 1e-3L || viol_rel <= 1000 * pred || escaped)) return ",\"explained\":\"weak_handover\"";
    if (c.diag.expand_underflow) return ",\"explained\":\"expand_underflow\"";
    return ",\"explained\":\"none\"";
}

// A: the user's matrix; Opm: for stream 1 the operator matrix actually iterated on (else null); invF = ||(A - sigma I)^-1||_F (shift)
static void check_pairs(Case& c, const Herm& A, const Herm* Opm, LD invF, const CVecL& ev, const CMatL& X, double tol, long ret, int info) {
    Out& out = *c.out; const int n = c.n; const LD eps = c.eps; const LD eps23 = powl(eps, 2.0L / 3.0L);
    out.count("oracle_compute_returned");
    if (ret == c.nev) out.count("oracle_successful"); else if (ret > 0) out.count("oracle_partial"); else out.count("oracle_none");
    if ((long) ev.size() != ret || (long) X.cols() != ret) { out.fail("c01-counts", c.cls + ": compute() returned " + str(ret) + " but " + str((long) ev.size()) + " values / " + str((long) X.cols()) + " vectors", rj(c)); return; }
    (void) info;
    if (ret == 0) return;
    out.count("oracle_pairs", ret);
    // finite?
    bool fin = true; for (long j = 0; j < ret && fin; j++) { if (!std::isfinite((double) ev[j].real())) fin = false; for (int i = 0; i < n && fin; i++) if (!std::isfinite((double) X(i, j).real()) || !std::isfinite((double) X(i, j).imag())) fin = false; }
    if (!fin) { out.fail("c01-nan", c.cls + ": non-finite eigenvalue / eigenvector entries handed back as converged (" + str(ret) + " pairs, info=" + str(info) + ")", rj(c)); return; }
    const LD normA = A.fro();
    Herm As = A; if (c.shift) for (int i = 0; i < n; i++) As.R(i, i) -= (Q) c.sigma;
    const LD normAs = As.fro();
    std::vector<std::vector<Q>> xr(ret, std::vector<Q>(n)), xi(ret, std::vector<Q>(n));
    for (long j = 0; j < ret; j++) for (int i = 0; i < n; i++) { xr[j][i] = (Q) X(i, j).real(); xi[j][i] = (Q) X(i, j).imag(); }
    for (long j = 0; j < ret; j++) {
        const Q lam = (Q) ev[j].real();
        const LD res = resid_norm(A, xr[j], xi[j], lam);
        bool escaped = false;         // the returned value lies outside every possible spectrum of the iterated operator (|theta| > 2 ||Op||_F): the recurrence diverged
        LD bound, scale_used, rscale = normA, iscale = 1;      // rscale: what the rounding term is relative to; iscale: factor from the iterated spectrum to the user's
        if (!c.shift) { scale_used = std::max(eps23, (LD) fabsl((LD) lam)); bound = C1 * tol * scale_used + C2 * n * eps * normA; escaped = fabsl((LD) lam) > 2 * normA; }
        else {
            const Q dl = lam - (Q) c.sigma;                       // lam == sigma can happen after rounding of 1/nu + sigma (|nu| huge): limit form of the bound
            Q nu = dl != 0 ? 1 / dl : (Q) 0; LD anu = dl != 0 ? (LD) qabs(nu) : std::numeric_limits<LD>::infinity(); scale_used = std::max(eps23, anu);
            const LD R = normA + fabsl((LD) c.sigma) * sqrtl((LD) n);          // >= ||A - sigma I||_F; lam itself is only representable to eps * |lam|
            if (dl != 0) { rscale = R + normAs * invF / anu; bound = normAs * C1 * tol * scale_used / anu + C2 * n * eps * rscale; iscale = normAs / anu; escaped = anu > 2 * invF; }
            else { rscale = R; bound = normAs * C1 * tol + C2 * n * eps * rscale; iscale = 0; }
            if (Opm) {
                // iterated spectrum: the Ritz value nu is not recoverable from lam = sigma + 1/nu once |lam - sigma| << |sigma| (cancellation), so the
                // predicate uses the best possible value, the Rayleigh quotient x'Op x / x'x (its residual is <= the residual of the solver's own nu)
                Q num = 0, den = 0; for (int i = 0; i < n; i++) { Q ar = 0, ai = 0; for (int k2 = 0; k2 < n; k2++) { ar += Opm->R(i, k2) * xr[j][k2] - Opm->I(i, k2) * xi[j][k2]; ai += Opm->R(i, k2) * xi[j][k2] + Opm->I(i, k2) * xr[j][k2]; } num += xr[j][i] * ar + xi[j][i] * ai; den += xr[j][i] * xr[j][i] + xi[j][i] * xi[j][i]; }
                const Q nurq = den != 0 ? num / den : (Q) 0; const LD sc2 = std::max(eps23, std::max((LD) qabs(nurq), dl != 0 ? anu : (LD) 0));
                LD r2 = resid_norm(*Opm, xr[j], xi[j], nurq), b2 = C1 * tol * sc2 + C2 * n * eps * Opm->fro();
                c.max_res_ratio = std::max(c.max_res_ratio, r2 / b2);
                if (!(r2 <= b2)) { out.fail("c01-residual", c.cls + ": pair " + str(j) + " handed back as converged has min_nu ||Op x - nu x|| = " + sci(r2) + " > " + sci(b2) + " = C1*tol*max(eps23,|nu|) + C2*n*eps*||Op||_F (nu = " + sci((LD) nurq) + ", tol = " + sci(tol) + ", ||Op||_F = " + sci(Opm->fro()) + ", info=" + str(info) + ")", rj(c, ",\"space\":\"iterated\"" + explain(c, r2 / Opm->fro(), r2, (LD) qabs(nurq) > 2 * Opm->fro()))); return; } }
        }
        c.max_res_ratio = std::max(c.max_res_ratio, res / bound);
        if (!(res <= bound)) { out.fail("c01-residual", c.cls + ": pair " + str(j) + " handed back as converged has ||A x - lambda x|| = " + sci(res) + " > " + sci(bound) + " (lambda = " + sci((LD) lam) + ", tol = " + sci(tol) + ", ||A||_F = " + sci(normA) + ", info=" + str(info) + ")", rj(c, ",\"space\":\"user\"" + explain(c, res / rscale, iscale > 0 ? res / iscale : (LD) -1, escaped))); return; }
    }
    const LD ob = C3 * n * eps;
    for (long a = 0; a < ret; a++) for (long b = a; b < ret; b++) {
        Q sr = 0, si = 0; for (int i = 0; i < n; i++) { sr += xr[a][i] * xr[b][i] + xi[a][i] * xi[b][i]; si += xr[a][i] * xi[b][i] - xi[a][i] * xr[b][i]; }
        LD v = (a == b) ? fabsl(qsqrt(sr) - 1.0L) : qsqrt(sr * sr + si * si);
        c.max_orth_ratio = std::max(c.max_orth_ratio, v / ob);
        if (!(v <= ob)) {
            if (a == b) out.fail("c01-norm", c.cls + ": returned eigenvector " + str(a) + " has | ||x|| - 1 | = " + sci(v) + " > " + sci(ob) + " = C3*n*eps", rj(c, explain(c, v, -1)));
            else out.fail("c01-orth", c.cls + ": returned eigenvectors " + str(a) + "," + str(b) + " have |x_a^H x_b| = " + sci(v) + " > " + sci(ob) + " = C3*n*eps", rj(c, explain(c, v, -1)));
            return; }
    }
}

// ---------------------------------------------------------------- driving one solver object through a history
template <class T> struct RealOf { typedef T type; };
template <class T> struct RealOf<std::complex<T>> { typedef T type; };
template <class S> static S cast_scalar(CD z, std::true_type) { typedef typename RealOf<S>::type R; return S((R) z.real(), (R) z.imag()); }
template <class S> static S cast_scalar(CD z, std::false_type) { return (S) z.real(); }
template <class S> struct IsC : std::false_type {}; template <class T> struct IsC<std::complex<T>> : std::true_type {};

// corr: request/response strings are extended when non-null (double classes with a Lean counterpart)
template <class Solver, class S>
static void drive(Solver& s, Case& c, const std::vector<HCall>& calls, const Herm& A, const Herm* Opm, LD invF, std::string* req, std::string* resp) {
    typedef Eigen::Matrix<S, Eigen::Dynamic, 1> SVec;
    Out& out = *c.out; const int n = c.n;
    typedef typename std::remove_reference<decltype(AX::fac(s))>::type Fac;
    Obs<Fac> obs(&c.diag); Spectra::verif::observer() = &obs;
    for (size_t ci = 0; ci < calls.size(); ci++) {
        const HCall& k = calls[ci];
        if (k.kind == 'I' || k.kind == 'J') {
            c.hist += (k.kind == 'J' ? std::string("init();") : std::string("init(") + START[k.startkind] + ");"); c.startkind = k.startkind;
            c.diag.weak = false; c.diag.nanfac = false; c.diag.nexpand = 0; c.diag.betazero = false; c.diag.expand_underflow = false; c.diag.minrel = 1e300L; c.Av0_zero = 0;
            SVec v0(n);
            if (k.kind == 'I') { for (int i = 0; i < n; i++) v0[i] = cast_scalar<S>(k.v0[i], IsC<S>());
                // A v0 == 0 exactly? (evaluated on the matrix the solver sees; stream 1: on the operator matrix)
                const Herm& M = Opm ? *Opm : A; bool z = true; for (int i = 0; i < n && z; i++) { Q ar = 0, ai = 0; for (int j = 0; j < n; j++) { Q vr = (Q) std::real(CL(v0[j])), vi = (Q) std::imag(CL(v0[j])); ar += M.R(i, j) * vr - M.I(i, j) * vi; ai += M.R(i, j) * vi + M.I(i, j) * vr; } if (ar != 0 || ai != 0) z = false; }
                c.Av0_zero = (z && !c.shift) ? 1 : 0; }
            if (req) *req += (k.kind == 'I' ? std::string(" | I") + vec_bits(k.v0.real()) : std::string(" | J"));
            try { if (k.kind == 'I') s.init(v0.data()); else s.init(); }
            catch (const std::invalid_argument&) { out.count("init_throw"); if (resp) *resp += " | throw std::invalid_argument"; continue; }
            if (resp) *resp += " | ok nmatop=" + str((long) s.num_operations());
            out.count(std::string("start_") + START[k.startkind]); if (c.Av0_zero) out.count("start_Av0_exactly_zero");
            continue;
        }
        c.hist += "compute(" + str(k.sel) + "," + str(k.maxit) + "," + str(k.tol) + "," + str(k.sort) + ");";
        long r = -1; bool threw = false; std::string ex; c.diag.zdiag = 0;
        const double tol = (k.tol < 1e-14) ? (double) (4 * c.eps) : k.tol;      // "4 eps" means 4 eps of the solver's scalar type
        if (req) *req += " | C " + str(k.sel) + " " + str(k.maxit) + " " + str(dbits(tol)) + " " + str(k.sort);
        try { r = (long) s.compute((SortRule) k.sel, k.maxit, (typename RealOf<S>::type) tol, (SortRule) k.sort); }
        catch (const std::invalid_argument&) { threw = true; ex = "std::invalid_argument"; }
        catch (const std::runtime_error&) { threw = true; ex = "std::runtime_error"; }
        catch (const std::exception&) { threw = true; ex = "other"; }
        if (threw) { out.count("compute_throw_" + ex); if (c.Av0_zero) out.count("Av0_zero_compute_throws_" + ex); if (resp) *resp += " | throw " + ex; continue; }
        out.count("maxit_" + str(k.maxit)); out.count(std::string("tol_") + (k.tol > 1e-4 ? "1e-3" : (k.tol > 1e-12 ? "1e-10" : "4eps"))); out.count("sel_" + str(k.sel));
        auto ev0 = s.eigenvalues(); auto X0 = s.eigenvectors();
        const int info = (int) s.info();
        if (resp) {
            *resp += " | ret=" + str(r) + " info=" + str(info) + " niter=" + str((long) s.num_iterations()) + " nmatop=" + str((long) s.num_operations());
            *req += " | E | V " + str(c.nev) + " | F";
            *resp += " | k=" + str((long) ev0.size()); for (long i = 0; i < ev0.size(); i++) *resp += " e:" + str(dbits((double) std::real(CL(ev0[i]))));
            auto X1 = s.eigenvectors(c.nev); *resp += " | rows=" + str(n) + " cols=" + str((long) X1.cols()); for (long j = 0; j < X1.cols(); j++) for (long i = 0; i < X1.rows(); i++) *resp += " " + str(dbits((double) std::real(CL(X1(i, j))) + 0.0));
            *resp += " | " + AX::fachash(AX::fac(s));
        }
        CVecL ev(ev0.size()); for (long i = 0; i < ev0.size(); i++) ev[i] = CL(ev0[i]);
        CMatL X(X0.rows(), X0.cols()); for (long j = 0; j < X0.cols(); j++) for (long i = 0; i < X0.rows(); i++) X(i, j) = CL(X0(i, j));
        if (c.Av0_zero) out.count(std::string("Av0_zero_compute_returns_") + str(r));
        if (c.diag.weak || c.diag.nexpand > 0 || c.diag.betazero || c.diag.nanfac) c.ever_regime = true;
        if (c.diag.weak) out.count("regime_weak_handover"); if (c.diag.nexpand > 0 || c.diag.betazero) out.count("regime_residual_discarded");
        if (c.diag.zdiag > 0) { c.zdiag_total += c.diag.zdiag; out.count("regime_exact_zero_H_diagonal"); if (c.p->zd) { out.count("zd_compute_exact_zero_H_diagonal"); out.count("zd_compute_exact_zero_H_diagonal_sel_" + str(k.sel)); } }
        if (c.p->zd) out.count("zd_compute_returned");
        if (g_debug) fprintf(stderr, "[call] %s -> ret=%ld info=%d\n", c.hist.c_str(), r, info);
        check_pairs(c, A, Opm, invF, ev, X, tol, r, info);
    }
    Spectra::verif::observer() = nullptr;
}

static std::string herm_header(int variant, int n, int nev, int ncv, double sigma, const Mat& M) {
    const double eps = Spectra::TypeTraits<double>::epsilon(); const double eps23 = std::pow(eps, double(2) / 3); const double near0 = Spectra::TypeTraits<double>::min() * double(10);
    return "herm " + str(variant) + " " + str(n) + " " + str(nev) + " " + str(ncv) + " " + str(dbits(eps23)) + " " + str(dbits(near0)) + " " + str(dbits(eps)) + " " + str(dbits(sigma)) + mat_bits(M);
}

// all legal (n, nev, ncv) with 2 <= n <= 10: 1 <= nev <= n-1, nev < ncv <= n       (165 triples)
static std::vector<std::array<int, 3>> all_triples() { std::vector<std::array<int, 3>> t; for (int n = 2; n <= 10; n++) for (int nev = 1; nev < n; nev++) for (int ncv = nev + 1; ncv <= n; ncv++) t.push_back({n, nev, ncv}); return t; }

static double pick_sigma(Rng& r, const Problem& p) {
    const int n = p.n; const double sc = std::pow(10.0, p.scale_exp);
    std::vector<double> d(p.d.data(), p.d.data() + n); std::sort(d.begin(), d.end());
    double u = r.unit(), sg;
    if (u < 0.5) sg = sc * r.sym() * 12;
    else if (u < 0.8 && n >= 2) { int j = (int) r.below(n - 1); sg = 0.5 * (d[j] + d[j + 1]); if (d[j] == d[j + 1]) sg = d[j] + 0.37 * sc; }
    else if (u < 0.9) { int j = (int) r.below(n); sg = d[j] * (1 + 1e-6) + 1e-9 * sc; }     // close to an eigenvalue
    else sg = (d[n - 1] + sc) * 1.5;
    return sg;
}

template <class S> static Eigen::Matrix<S, Eigen::Dynamic, Eigen::Dynamic> cast_mat(const CMat& A) {
    Eigen::Matrix<S, Eigen::Dynamic, Eigen::Dynamic> M(A.rows(), A.cols()); for (long i = 0; i < A.rows(); i++) for (long j = 0; j < A.cols(); j++) M(i, j) = cast_scalar<S>(A(i, j), IsC<S>()); return M;
}
template <class S> static CMatL widen(const Eigen::Matrix<S, Eigen::Dynamic, Eigen::Dynamic>& M) { CMatL W(M.rows(), M.cols()); for (long i = 0; i < M.rows(); i++) for (long j = 0; j < M.cols(); j++) W(i, j) = CL(M(i, j)); return W; }

// oracle-only instantiations (stream 2)
template <class S> static void oracle_sym(Case& c, const Problem& p, const std::vector<HCall>& calls) {
    typedef Eigen::Matrix<S, Eigen::Dynamic, Eigen::Dynamic> SM; SM A = cast_mat<S>(p.A); Herm H = herm_of(widen<S>(A)); c.diag.normOp = H.fro();
    Spectra::DenseSymMatProd<S> op(A); Spectra::SymEigsSolver<Spectra::DenseSymMatProd<S>> s(op, c.nev, c.ncv);
    c.eps = (LD) std::numeric_limits<S>::epsilon(); c.diag.sqrtmin = sqrtl((LD) std::numeric_limits<S>::min()); drive<decltype(s), S>(s, c, calls, H, nullptr, 0, nullptr, nullptr);
}
template <class S> static void oracle_herm(Case& c, const Problem& p, const std::vector<HCall>& calls) {
    typedef std::complex<S> Z; typedef Eigen::Matrix<Z, Eigen::Dynamic, Eigen::Dynamic> SM; SM A = cast_mat<Z>(p.A); Herm H = herm_of(widen<Z>(A)); c.diag.normOp = H.fro();
    Spectra::DenseHermMatProd<Z> op(A); Spectra::HermEigsSolver<Spectra::DenseHermMatProd<Z>> s(op, c.nev, c.ncv);
    c.eps = (LD) std::numeric_limits<S>::epsilon(); c.diag.sqrtmin = sqrtl((LD) std::numeric_limits<S>::min()); drive<decltype(s), Z>(s, c, calls, H, nullptr, 0, nullptr, nullptr);
}
template <class S> static void oracle_shift(Case& c, const Problem& p, const std::vector<HCall>& calls, double sigma) {
    typedef Eigen::Matrix<S, Eigen::Dynamic, Eigen::Dynamic> SM; SM A = cast_mat<S>(p.A); Herm H = herm_of(widen<S>(A));
    const S sg = (S) sigma; c.sigma = (double) sg; c.shift = true;
    Mat Ad(c.n, c.n); for (int i = 0; i < c.n; i++) for (int j = 0; j < c.n; j++) Ad(i, j) = (double) A(i, j);      // exact: every entry of A is a double (or float) value
    std::vector<Q> inv; LD invF = 0;
    if (!inverse_q(Ad, (double) sg, inv)) { c.out->count("shift_singular_skipped"); return; }
    { Q s2 = 0; for (auto& v : inv) s2 += v * v; invF = qsqrt(s2); if (!std::isfinite((double) invF)) { c.out->count("shift_singular_skipped"); return; } }
    c.diag.normOp = invF;
    Spectra::DenseSymShiftSolve<S> op(A); Spectra::SymEigsShiftSolver<Spectra::DenseSymShiftSolve<S>> s(op, c.nev, c.ncv, sg);
    c.eps = (LD) std::numeric_limits<S>::epsilon(); c.diag.sqrtmin = sqrtl((LD) std::numeric_limits<S>::min());
    { Herm Hs = H; for (int i = 0; i < c.n; i++) Hs.R(i, i) -= (Q) c.sigma; c.diag.opcond = std::max((LD) 1, Hs.fro() * invF); }
    // precondition "sigma is not an eigenvalue" in the working precision: A - sigma I must not be numerically singular for the scalar type
    if (c.diag.opcond * c.eps > 1e-3L) { c.out->count("shift_numerically_singular_skipped"); return; }
    drive<decltype(s), S>(s, c, calls, H, nullptr, invF, nullptr, nullptr);
}

static void one_case(uint64_t seed, int stream, long idx, Out& out) {
    Rng r(seed, 100 + stream, (uint64_t) idx);
    { std::ofstream lc(out.dir + "/lastcase.txt"); lc << "{\"harness\":\"c01\",\"c01seed\":" << seed << ",\"c01stream\":" << stream << ",\"c01idx\":" << idx << "}\n"; }
    static const std::vector<std::array<int, 3>> T = all_triples();
    const bool big = idx >= 1000000;
    int n, nev, ncv;
    if (!big) { auto t = T[idx % T.size()]; n = t[0]; nev = t[1]; ncv = t[2]; }
    else { n = r.range(11, 40); nev = r.range(1, std::min(n - 1, 8));
           // correspondence streams: every std::sort the code performs (ncv Ritz values, nev values, ncv - k shifts) stays within the 16 elements for which
           // libstdc++'s sort is the stable insertion sort the model uses; oracle-only stream: ncv - nev <= 16
           ncv = stream < 2 ? r.range(nev + 1, 16) : r.range(nev + 1, std::min(n, nev + 16)); }
    int kind = (int) r.below(7); static const int sexp[5] = {-8, -4, 0, 4, 8}; const int scale_exp = sexp[r.below(5)];
    // structured share (c): decided and generated by the case's OWN second generator, so that every other case is exactly what it was without the share
    Rng rz(seed, 200 + stream, (uint64_t) idx);
    const bool zd = rz.coin(stream < 2 ? 0.15 : 0.12);
    Case c; c.out = &out; c.seed = seed; c.stream = stream; c.idx = idx; c.n = n; c.nev = nev; c.ncv = ncv;
    Problem p;
    auto tags = [&]() {
        out.count(std::string("kind_") + KIND[p.kind]); out.count(big ? "size_11_40" : "size_2_10");
        if (!p.zd) { out.count("scale_1e" + str(scale_exp)); return; }
        out.count("zd_cases"); out.count("zd_stream_" + str(stream)); out.count(std::string("zd_entries_") + ZDSTYLE[p.style]); out.count("zd_scale_2e" + str(p.e2));
        out.count(p.balanced ? "zd_balanced" : "zd_unbalanced"); out.count(p.sparse ? "zd_sparse" : "zd_dense"); if (p.nd > 0) out.count("zd_with_decoupled_part");
    };
    try {
    if (stream == 0) {
        p = zd ? make_zd_problem(rz, n, false, false) : make_problem(r, n, kind, scale_exp, false); c.p = &p; tags();
        std::vector<HCall> calls = zd ? gen_history_zd(rz, p, out) : gen_history(r, p, true);
        Mat A = p.A.real(); OpLog log; LoopMatOp op(A, log); Spectra::SymEigsSolver<LoopMatOp> s(op, nev, ncv); c.cls = "SymEigsSolver"; c.eps = 2.220446049250313e-16L; c.diag.sqrtmin = sqrtl((LD) std::numeric_limits<double>::min());
        Herm H = herm_of(A.cast<CL>()); c.diag.normOp = H.fro();
        std::string req = herm_header(0, n, nev, ncv, 0.0, A), resp;
        drive<decltype(s), double>(s, c, calls, H, nullptr, 0, &req, &resp);
        out.corr(req, resp.size() > 3 ? resp.substr(3) : resp);
    } else if (stream == 1) {
        p = zd ? make_zd_problem(rz, n, false, true) : make_problem(r, n, kind, scale_exp, false); c.p = &p; tags();
        std::vector<HCall> calls = zd ? gen_history_zd(rz, p, out) : gen_history(r, p, true);
        Mat A = p.A.real(); const double sigma = zd ? 0.0 : pick_sigma(r, p); c.sigma = sigma; c.shift = true;     // zd: (A - 0 I)^-1 has the pattern of A
        std::vector<Q> inv; if (!inverse_q(A, sigma, inv)) { out.count("shift_singular_skipped"); return; }
        Mat Inv(n, n); for (int i = 0; i < n; i++) for (int j = 0; j < n; j++) Inv(i, j) = (double) inv[(size_t) i * n + j];
        bool fin = true; for (int i = 0; i < n * n; i++) if (!std::isfinite(Inv.data()[i])) fin = false; if (!fin) { out.count("shift_singular_skipped"); return; }
        Q s2 = 0; for (auto& v : inv) s2 += v * v; const LD invF = qsqrt(s2);
        OpLog log; LoopMatOp op(Inv, log); Spectra::SymEigsShiftSolver<LoopMatOp> s(op, nev, ncv, sigma); c.cls = "SymEigsShiftSolver"; c.eps = 2.220446049250313e-16L; c.diag.sqrtmin = sqrtl((LD) std::numeric_limits<double>::min());
        Herm H = herm_of(A.cast<CL>()); Herm Hop = herm_of(Inv.cast<CL>()); c.diag.normOp = Hop.fro();
        std::string req = herm_header(1, n, nev, ncv, sigma, Inv), resp;
        drive<decltype(s), double>(s, c, calls, H, &Hop, invF, &req, &resp);
        out.corr(req, resp.size() > 3 ? resp.substr(3) : resp);
    } else {
        const int inst = (int) (idx % 8);
        const bool cplx = (inst >= 2 && inst <= 4);
        p = zd ? make_zd_problem(rz, n, cplx, inst >= 5) : make_problem(r, n, kind, scale_exp, cplx); c.p = &p; tags();
        std::vector<HCall> calls = zd ? gen_history_zd(rz, p, out) : gen_history(r, p, false);
        // float: keep the scale inside the float range of the squares the code forms
        out.count("inst_" + str(inst)); if (zd) out.count("zd_inst_" + str(inst));
        auto sg = [&]() { return zd ? 0.0 : pick_sigma(r, p); };
        switch (inst) {
            case 0: c.cls = "SymEigsSolver<float>"; oracle_sym<float>(c, p, calls); break;
            case 1: c.cls = "SymEigsSolver<long double>"; oracle_sym<long double>(c, p, calls); break;
            case 2: c.cls = "HermEigsSolver<complex<float>>"; oracle_herm<float>(c, p, calls); break;
            case 3: c.cls = "HermEigsSolver<complex<double>>"; oracle_herm<double>(c, p, calls); break;
            case 4: c.cls = "HermEigsSolver<complex<long double>>"; oracle_herm<long double>(c, p, calls); break;
            case 5: c.cls = "SymEigsShiftSolver<float>"; oracle_shift<float>(c, p, calls, sg()); break;
            case 6: c.cls = "SymEigsShiftSolver<double>"; oracle_shift<double>(c, p, calls, sg()); break;
            default: c.cls = "SymEigsShiftSolver<long double>"; oracle_shift<long double>(c, p, calls, sg()); break;
        }
    }
    if (p.zd && c.zdiag_total > 0) out.count("zd_cases_with_exact_zero_H_diagonal");
    } catch (const std::exception& e) { out.count(std::string("case_exception_") + (dynamic_cast<const std::invalid_argument*>(&e) ? "invalid_argument" : "other")); }
    Spectra::verif::observer() = nullptr;
    static LD gres = 0, gorth = 0, cres = 0, corth = 0; gres = std::max(gres, c.max_res_ratio); gorth = std::max(gorth, c.max_orth_ratio);
    if (!c.ever_regime) { cres = std::max(cres, c.max_res_ratio); corth = std::max(corth, c.max_orth_ratio); }
    out.counters["max_residual_over_bound_outside_regimes_x1000"] = (long) std::min((LD) 4e18, cres * 1000); out.counters["max_orth_over_bound_outside_regimes_x1000"] = (long) std::min((LD) 4e18, corth * 1000);
    out.counters["max_residual_over_bound_x1000"] = (long) std::min((LD) 4e18, gres * 1000); out.counters["max_orth_over_bound_x1000"] = (long) std::min((LD) 4e18, gorth * 1000);
}

static long find_num(const std::string& t, const std::string& key, long dflt) {
    auto p = t.find("\"" + key + "\":"); if (p == std::string::npos) return dflt; size_t q = p + key.size() + 3; while (q < t.size() && t[q] == ' ') q++; return std::atol(t.c_str() + q);
}

int main(int argc, char** argv) {
    Args a(argc, argv); Out out(a.out); g_debug = std::getenv("C01_DEBUG") != nullptr;
    if (!a.replay.empty()) {
        std::ifstream f(a.replay); std::string t((std::istreambuf_iterator<char>(f)), {});
        one_case((uint64_t) find_num(t, "c01seed", (long) a.seed), (int) find_num(t, "c01stream", 0), find_num(t, "c01idx", 0), out);
        out.finish(); return 0;
    }
    // quick: every legal (n, nev, ncv), n <= 10, twice on each correspondence class + 480 oracle-only runs
    const long nsmall = a.thorough() ? 165 * 12 : 165 * 2, nbig = a.thorough() ? 600 : 0, norc = a.thorough() ? 8000 : 480, norcbig = a.thorough() ? 1600 : 40;
    for (int st = 0; st < 2; st++) { for (long i = 0; i < nsmall; i++) one_case(a.seed, st, i, out); for (long i = 0; i < nbig; i++) one_case(a.seed, st, 1000000 + i, out); }
    for (long i = 0; i < norc; i++) one_case(a.seed, 2, i, out);
    for (long i = 0; i < norcbig; i++) one_case(a.seed, 2, 1000000 + i, out);
    out.finish();
    return 0;
}
