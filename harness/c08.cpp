// C08 harness: the REAL UpperHessenbergQR / TridiagQR / DoubleShiftQR classes
//  (a) correspondence: request lines `givens|norm3|scal3|hqr|tqr|dsqr ...` (IEEE bit patterns) + the implementation's answers;
//  (b) oracle: the property's identities evaluated in long double on the implementation's outputs:
//        Q'Q = I,  Q R = H - sI,  R upper triangular (bandwidth 2 for TridiagQR),  QtHQ = Q'HQ and its shape,
//        every apply_* = multiplication by that Q / Q' from the stated side,
//        DoubleShiftQR: Q'Q = I, QtHQ = Q'HQ, Hessenberg shape, first column of Q parallel to (H^2 - sH + tI)e1.
//      Tolerances (stated, generous):  CTOL * n * eps * (||H||_F + |s|) + n * 16 * DBL_MIN  for matrix identities (the last
//      term is the gradual-underflow floor), CTOL * n * eps for Q'Q - I, CTOL * n * eps * ||Y|| for the apply_* products,
//      CTOL * n * eps * ((||H||_F + |s|)^2 + |t|) for the component of (H^2 - sH + tI)e1 orthogonal to Q e1.   CTOL = 64.
//  (c) argument-buffer independence (exact, bit for bit, every case, float/double/long double):
//      * dest states: matrix_QtHQ(dest) / `w = matrix_R()` with dest default-constructed, of a wrong (larger, smaller) size, of the
//        RIGHT size pre-filled with NaN / huge finite / mixed garbage (off-band positions included), holding its own previous
//        result, and ONE work matrix passed through the three classes in sequence (as the solvers' restart loops do) must give the
//        bits obtained with a fresh destination;
//      * views: every GenericMatrix (= Eigen::Ref<Matrix>) apply_* with Y a block of a larger matrix (topRows, leftCols, middle,
//        bottom-right corner), an Eigen::Map with outer stride > rows (tight buffer: an overrun is an ASan error), and an explicit
//        Ref of those, must give the bits of the owning-matrix result and leave every surrounding entry (distinct canary values)
//        untouched;
//      * object reuse: compute(H1, s1); queries; compute(H, s) on ONE object (H1 of the same / a smaller / a larger size, or a
//        preallocating constructor of another size) must answer every query with the bits of a fresh object; for a fraction of
//        the double cases the same history is a correspondence request (`hqrh|tqrh|dsqrh n1 H1 shifts1 <plain request>`), which the
//        driver answers by running the model's `recompute` on the model object of (H1, s1).
#include "common.h"
#include <Eigen/Core>
#include <Eigen/Eigenvalues>
#include <memory>
#include <type_traits>
#include <Spectra/LinAlg/UpperHessenbergQR.h>
#include <Spectra/LinAlg/DoubleShiftQR.h>
using namespace vh;

typedef Eigen::MatrixXd Mat;
typedef Eigen::VectorXd Vec;
typedef long double LD;
typedef Eigen::Matrix<LD, Eigen::Dynamic, Eigen::Dynamic> LMat;
typedef Eigen::Matrix<LD, Eigen::Dynamic, 1> LVec;

struct SpectraVerifAccess {
    template <class S> static void rot(const S& x, const S& y, S& r, S& c, S& s) { Spectra::UpperHessenbergQR<S>::compute_rotation(x, y, r, c, s); }
    template <class S> static S norm3(S a, S b, S c) { return Spectra::DoubleShiftQR<S>::stable_norm3(a, b, c); }
    template <class S> static void scal3(S& a, S& b, S& c) { Spectra::DoubleShiftQR<S>::stable_scaling(a, b, c); }
    template <class Q> static auto cosv(const Q& q) -> decltype(q.m_rot_cos.matrix().eval()) { return q.m_rot_cos.matrix(); }
    template <class Q> static auto sinv(const Q& q) -> decltype(q.m_rot_sin.matrix().eval()) { return q.m_rot_sin.matrix(); }
    template <class S> static std::vector<int> nr(const Spectra::DoubleShiftQR<S>& q) { std::vector<int> r; for (Eigen::Index i = 0; i < q.m_ref_nr.size(); i++) r.push_back((int) q.m_ref_nr[i]); return r; }
    template <class S> static Eigen::Matrix<S, Eigen::Dynamic, Eigen::Dynamic> u(const Spectra::DoubleShiftQR<S>& q) { return q.m_ref_u; }
};

static const double EPS = std::numeric_limits<double>::epsilon();
static const double CTOL = 64.0;
static const double CUTOFF = 0.1 * std::pow(EPS, 0.25);

static std::string bits(const double* p, Eigen::Index n) { std::string s; for (Eigen::Index i = 0; i < n; i++) { if (i) s += ' '; s += str(dbits(p[i])); } return s; }
static std::string bits(const Mat& m) { return bits(m.data(), m.size()); }
static std::string bitsv(const Vec& v) { return bits(v.data(), v.size()); }
template <class M> static LMat toL(const M& m) { return m.template cast<LD>(); }
template <class S> struct TName { static const char* n() { return "double"; } };
template <> struct TName<float> { static const char* n() { return "float"; } };
template <> struct TName<long double> { static const char* n() { return "longdouble"; } };
static LD maxabs(const LMat& m) { return m.size() ? m.cwiseAbs().maxCoeff() : LD(0); }
template <class M> static bool finite_all(const M& m) { for (Eigen::Index i = 0; i < m.size(); i++) if (!std::isfinite(m.data()[i])) return false; return true; }

struct Case {
    std::string cls; int n; Mat H; double s = 0, t = 0; Mat P; std::string pat; std::string scalar = "double";
    std::string request() const {
        std::string r = cls + " " + str(n) + " " + bits(H) + " " + str(dbits(s));
        if (cls == "dsqr") r += " " + str(dbits(t));
        return r + " " + bits(P);
    }
    std::string replay(const std::string& extra = "") const {   // extra: further `"key":"value",` pairs (which buffer state / view / history failed)
        return "{\"class\":\"" + cls + "\",\"scalar\":\"" + scalar + "\",\"pattern\":\"" + pat + "\",\"n\":" + str(n) + "," + extra + "\"req\":\"" + request() + "\"}";
    }
};

static Out* OUT = nullptr;
static void track(const std::string& k, LD ratio) {   // largest observed error/tolerance ratio per predicate, in 1/1000
    long v = (long) std::min<LD>(ratio * 1000, 1e15L); if (v > OUT->counters["maxratio_permille_" + k]) OUT->counters["maxratio_permille_" + k] = v;
}
static void check(const Case& c, const std::string& sig, LD err, LD tol, const std::string& what) {
    OUT->count("oracle_" + sig);
    if (tol > 0 && c.pat != "fixed-tiny-scale") track(sig, err / tol);     // the known-finding witness is not part of the ratio statistics
    if (!(err <= tol)) {
        std::ostringstream o; o.precision(6); o << c.cls << "<" << c.scalar << "> n=" << c.n << " pattern=" << c.pat << ": " << what << ": error " << (double) err << " > tolerance " << (double) tol;
        OUT->fail(c.cls + "-" + sig, o.str(), c.replay());
    }
}

// ---------------------------------------------------------------- UpperHessenbergQR / TridiagQR
template <class S> struct Bits;
template <> struct Bits<double> { template <class M> static std::string of(const M& m) { Mat t = m; return bits(t); } static std::string one(double x) { return str(dbits(x)); } static const char* suffix() { return ""; } };
template <> struct Bits<float> { template <class M> static std::string of(const M& m) { Eigen::MatrixXf t = m; std::string s; for (Eigen::Index i = 0; i < t.size(); i++) { if (i) s += ' '; s += str(fbits(t.data()[i])); } return s; }
    static std::string one(float x) { return str(fbits(x)); } static const char* suffix() { return "32"; } };
template <> struct Bits<long double> { template <class M> static std::string of(const M&) { return ""; } static std::string one(long double) { return ""; } static const char* suffix() { return "L"; } };

// ---------------------------------------------------------------- argument buffers: destination states, views, object reuse
template <class S> static bool same_elem(S a, S b) { if (std::isnan(a) || std::isnan(b)) return std::isnan(a) && std::isnan(b); return a == b && std::signbit(a) == std::signbit(b); }
template <class A, class B> static bool same_bits(const A& a, const B& b) {
    if (a.rows() != b.rows() || a.cols() != b.cols()) return false;
    for (Eigen::Index j = 0; j < a.cols(); j++) for (Eigen::Index i = 0; i < a.rows(); i++) if (!same_elem(a(i, j), b(i, j))) return false;
    return true;
}
static std::string kv(const std::string& k, const std::string& v) { return "\"" + k + "\":\"" + v + "\","; }
// every failure is counted (`bufferfail_<class>-<sig>`); at most 12 per (class, scalar, signature, state/view/history) are written with
// their replay (a broken helper fails on every case: thousands of identical lines carry no further information)
static void buf_fail(const Case& c, const std::string& sig, const std::string& what, const std::string& extra) {
    static std::map<std::string, int> written;
    OUT->count("bufferfail_" + c.cls + "-" + sig);
    if (++written[c.cls + c.scalar + sig + extra] > 12) return;
    OUT->fail(c.cls + "-" + sig, c.cls + "<" + c.scalar + "> n=" + str(c.n) + " pattern=" + c.pat + ": " + what, c.replay(extra));
}
// the generator of everything the buffer checks add to a case: a function of the case alone, so that a replay repeats it
static Rng buf_rng(const Case& c, int stream) { return Rng(0xC08B, (uint64_t) stream * 1000 + c.n, dbits(c.s) ^ (c.H.size() ? dbits(c.H(0, 0)) * 3 : 0) ^ (c.P.size() ? dbits(c.P(0, 0)) * 7 : 0)); }
// what a buffer may hold before the call: 0 = quiet NaN everywhere, 1 = huge finite (+-max/4 .. max/8), 2 = mixture of NaN, huge, O(1), denormal
template <class M> static void fill_garbage(M& m, int kind, Rng& g) {
    typedef typename M::Scalar S; const S big = std::numeric_limits<S>::max() / 4, nan = std::numeric_limits<S>::quiet_NaN();
    for (Eigen::Index j = 0; j < m.cols(); j++) for (Eigen::Index i = 0; i < m.rows(); i++) {
        const int k = kind == 2 ? g.range(0, 3) : kind;
        m(i, j) = k == 0 ? nan : k == 1 ? (g.coin() ? big : -big) * (S) (0.5 + 0.5 * g.unit()) : k == 2 ? (S) (3 * g.sym()) : std::numeric_limits<S>::denorm_min() * (S) g.range(1, 1000);
    }
}

// `call(dest)` (matrix_QtHQ(dest), dest = matrix_R()) into destinations in every prior state: same bits as `ref` (fresh destination)
template <class S, class F> static void dest_states(const Case& c, const std::string& method, F call, const Eigen::Matrix<S, Eigen::Dynamic, Eigen::Dynamic>& ref, Rng& g) {
    typedef Eigen::Matrix<S, Eigen::Dynamic, Eigen::Dynamic> SMat; const int n = c.n;
    auto one = [&](SMat& d, const char* state) {
        call(d); OUT->count("oracle_dest-state"); OUT->count(std::string("dest_") + method + "_" + state);
        if (!same_bits(d, ref)) buf_fail(c, "dest-state", method + " into a destination that was " + state + " differs from the result with a fresh destination: the output depends on the prior size/contents of its argument", kv("method", method) + kv("dest", state));
    };
    { SMat d; one(d, "empty"); }
    { SMat d(n + 2, n + 1); fill_garbage(d, 2, g); one(d, "larger"); }
    { SMat d(n - 1, n - 1); fill_garbage(d, 2, g); one(d, "smaller"); }
    { SMat d(n, n); fill_garbage(d, 0, g); one(d, "right-size-nan"); }
    { SMat d(n, n); fill_garbage(d, 1, g); one(d, "right-size-huge"); }
    { SMat d(n, n); fill_garbage(d, 2, g); one(d, "right-size-mixed"); one(d, "right-size-own-result"); }
}
// ONE work matrix handed to matrix_QtHQ of the three classes in sequence (GenEigsBase::restart alternates DoubleShiftQR and
// UpperHessenbergQR, the Lanczos loop reuses its matrix): the class under test must still return its fresh-destination bits
template <class S, class F> static void cross_class(const Case& c, F call, const Eigen::Matrix<S, Eigen::Dynamic, Eigen::Dynamic>& ref, Rng& g) {
    typedef Eigen::Matrix<S, Eigen::Dynamic, Eigen::Dynamic> SMat; const int n = c.n;
    if (n < 2) return;
    SMat G(n, n); for (int j = 0; j < n; j++) for (int i = 0; i < n; i++) G(i, j) = (S) (2 * g.sym());
    SMat Gs = G + G.transpose();
    Spectra::UpperHessenbergQR<S> ah(G, (S) 0.37); Spectra::TridiagQR<S> at(Gs, (S) -0.21);
    SMat work;
    auto chk = [&](const char* seq) {
        call(work); OUT->count("oracle_dest-state"); OUT->count(std::string("dest_matrix_QtHQ_") + seq);
        if (!same_bits(work, ref)) buf_fail(c, "dest-state", std::string("matrix_QtHQ into ONE work matrix reused across the classes (") + seq + ") differs from the result with a fresh destination", kv("method", "matrix_QtHQ") + kv("dest", seq));
    };
    ah.matrix_QtHQ(work); chk("work-after-hqr");
    at.matrix_QtHQ(work); chk("work-after-tqr");
    if (n >= 3) { Spectra::DoubleShiftQR<S> ad(G, (S) 0.3, (S) 0.7); ad.matrix_QtHQ(work); chk("work-after-dsqr");
                  at.matrix_QtHQ(work); ad.matrix_QtHQ(work); ah.matrix_QtHQ(work); chk("work-after-tqr-dsqr-hqr"); }
}

// `call(Y)` (an in-place apply_* taking GenericMatrix = Eigen::Ref<Matrix>) with Y a VIEW: bits of `ref` (owning-matrix result for
// the same input Y0) inside the view, every entry of the parent outside the view untouched
template <class S, class F> static void view_states(const Case& c, const std::string& method, F call, const Eigen::Matrix<S, Eigen::Dynamic, Eigen::Dynamic>& Y0,
                                                    const Eigen::Matrix<S, Eigen::Dynamic, Eigen::Dynamic>& ref, Rng& g) {
    typedef Eigen::Matrix<S, Eigen::Dynamic, Eigen::Dynamic> SMat;
    const Eigen::Index r = Y0.rows(), k = Y0.cols();
    struct V { const char* name; int pt, pb, pl, pr; };
    const int a = g.range(1, 3), b = g.range(1, 4);
    const V views[] = {{"topRows", 0, b, 0, 0}, {"leftCols", 0, 0, 0, a}, {"middle-block", a, b, b, a}, {"bottomRightCorner", b, 0, a, 0}};
    auto canary = [](Eigen::Index i, Eigen::Index j) { return (S) (1000 + 37 * i + 101 * j); };
    auto report = [&](const std::string& name, bool in_ok, bool out_ok, Eigen::Index stride) {
        OUT->count("oracle_view"); OUT->count("view_" + method + "_" + name);
        if (in_ok && out_ok) return;
        buf_fail(c, "view-" + method, method + "(Y) with Y a " + name + " view (" + str(r) + " x " + str(k) + ", outer stride " + str(stride) + ")"
                 + (in_ok ? "" : " differs from the owning-matrix result") + (out_ok ? "" : (in_ok ? " overwrote" : " and overwrote") + std::string(" entries of the parent outside the view")),
                 kv("method", method) + kv("view", name) + kv("stride", stride == r ? "equal" : "larger"));
    };
    for (const V& v : views) for (int viaref = 0; viaref < 2; viaref++) {
        SMat Big(r + v.pt + v.pb, k + v.pl + v.pr);
        for (Eigen::Index j = 0; j < Big.cols(); j++) for (Eigen::Index i = 0; i < Big.rows(); i++) Big(i, j) = canary(i, j);
        Big.block(v.pt, v.pl, r, k) = Y0;
        if (viaref) { Eigen::Ref<SMat> R(Big.block(v.pt, v.pl, r, k)); call(R); } else call(Big.block(v.pt, v.pl, r, k));
        bool in_ok = same_bits(Big.block(v.pt, v.pl, r, k), ref), out_ok = true;
        for (Eigen::Index j = 0; j < Big.cols(); j++) for (Eigen::Index i = 0; i < Big.rows(); i++) {
            const bool inside = i >= v.pt && i < v.pt + r && j >= v.pl && j < v.pl + k;
            if (!inside && !same_elem(Big(i, j), canary(i, j))) out_ok = false;
        }
        report(std::string(v.name) + (viaref ? "-Ref" : ""), in_ok, out_ok, Big.rows());
    }
    {   // Eigen::Map with outer stride > rows over a buffer that ends with the view (an overrun is an ASan error)
        const Eigen::Index os = r + g.range(1, 5), off = g.range(0, 2), len = off + (k - 1) * os + r;
        std::vector<S> buf((size_t) len); for (Eigen::Index i = 0; i < len; i++) buf[(size_t) i] = (S) (5000 + 3 * i);
        Eigen::Map<SMat, 0, Eigen::OuterStride<>> M(buf.data() + off, r, k, Eigen::OuterStride<>(os));
        M = Y0; call(M);
        bool in_ok = same_bits(M, ref), out_ok = true;
        for (Eigen::Index i = 0; i < len; i++) { const bool inside = i >= off && (i - off) % os < r; if (!inside && !same_elem(buf[(size_t) i], (S) (5000 + 3 * i))) out_ok = false; }
        report("Map-outer-stride", in_ok, out_ok, os);
    }
}

// first input of a reuse history: dense, O(1) entries (the class reads its Hessenberg / tridiagonal part); size by `kind`
template <class S> static Eigen::Matrix<S, Eigen::Dynamic, Eigen::Dynamic> first_input(int n1, Rng& g) {
    Eigen::Matrix<S, Eigen::Dynamic, Eigen::Dynamic> H(n1, n1); for (int j = 0; j < n1; j++) for (int i = 0; i < n1; i++) H(i, j) = (S) (4 * g.sym()); return H;
}
static const char* HIST[] = {"same-size", "smaller", "larger", "preallocated-other-size"};
static int hist_size(int n, int lo, int kind) { return kind == 0 ? n : kind == 1 ? (n - 1 >= lo ? n - 1 : n + 1) : n + 3; }
static long HISTCORR[3] = {0, 0, 0};       // per class: which double cases also become a correspondence request

template <class S, class QR> static void run_givens_qr(const Case& c, bool tridiag, bool corr) {
    typedef Eigen::Matrix<S, Eigen::Dynamic, Eigen::Dynamic> SMat; typedef Eigen::Matrix<S, Eigen::Dynamic, 1> SVec;
    const int n = c.n; const LD EPS_S = std::numeric_limits<S>::epsilon(), MIN_S = std::numeric_limits<S>::min();
    const S cutoff = S(0.1) * std::pow(std::numeric_limits<S>::epsilon(), S(0.25));
    const std::string tg = c.cls + (std::string(TName<S>::n()) == "double" ? "" : std::string("<") + TName<S>::n() + ">");
    SMat Hs = c.H.cast<S>(); S shift = (S) c.s;
    QR qr(Hs, shift);
    SMat R = qr.matrix_R(); SMat D; qr.matrix_QtHQ(D);
    SVec cs = SpectraVerifAccess::cosv(qr), sn = SpectraVerifAccess::sinv(qr);
    SMat Pm = c.P.cast<S>(); SVec p = Pm.col(0); SMat Pt = Pm.transpose();
    SVec qy = p; qr.apply_QY(qy); SVec qty = p; qr.apply_QtY(qty);
    SMat QYm = Pm; qr.apply_QY(QYm); SMat QtYm = Pm; qr.apply_QtY(QtYm);
    SMat YQ = Pt; qr.apply_YQ(YQ); SMat YQt = Pt; qr.apply_YQt(YQt);
    const std::string reqstr = c.cls + Bits<S>::suffix() + " " + str(n) + " " + Bits<S>::of(Hs) + " " + Bits<S>::one(shift) + " " + Bits<S>::of(Pm);
    if (corr)
        OUT->corr(reqstr, Bits<S>::of(R) + " " + Bits<S>::of(cs) + " " + Bits<S>::of(sn) + " " + Bits<S>::of(D) + " " + Bits<S>::of(qy) + " " + Bits<S>::of(qty) + " " + Bits<S>::of(QYm) + " " + Bits<S>::of(QtYm) + " " + Bits<S>::of(YQ) + " " + Bits<S>::of(YQt));
    // ---- (c) argument-buffer independence: destination states, views, object reuse (bit for bit against the fresh results above)
    {
        Rng gb = buf_rng(c, tridiag ? 2 : 1);
        dest_states<S>(c, "matrix_QtHQ", [&](SMat& d) { qr.matrix_QtHQ(d); }, D, gb);
        dest_states<S>(c, "matrix_R", [&](SMat& d) { d = qr.matrix_R(); }, R, gb);
        cross_class<S>(c, [&](SMat& d) { qr.matrix_QtHQ(d); }, D, gb);
        view_states<S>(c, "apply_QY", [&](auto&& Y) { qr.apply_QY(Y); }, Pm, QYm, gb);
        view_states<S>(c, "apply_QtY", [&](auto&& Y) { qr.apply_QtY(Y); }, Pm, QtYm, gb);
        view_states<S>(c, "apply_YQ", [&](auto&& Y) { qr.apply_YQ(Y); }, Pt, YQ, gb);
        view_states<S>(c, "apply_YQt", [&](auto&& Y) { qr.apply_YQt(Y); }, Pt, YQt, gb);
        const bool fixedcase = c.pat.rfind("fixed", 0) == 0; long& hc = HISTCORR[tridiag ? 1 : 0];
        for (int kind = 0; kind < 4; kind++) {
            const int n1 = hist_size(n, 2, kind);
            std::unique_ptr<QR> q; SMat H1; S s1 = 0;
            if (kind < 3) {      // a first factorization, queried, then compute() again on the same object
                H1 = first_input<S>(n1, gb); s1 = (S) gb.sym(); q.reset(new QR(H1, s1));
                SMat t; q->matrix_QtHQ(t); t = q->matrix_R(); SVec v = H1.col(0); q->apply_QY(v); q->apply_QtY(v); SMat y = H1.topRows(std::min(n1, 2)); q->apply_YQ(y); q->apply_YQt(y);
            } else q.reset(new QR((Eigen::Index) n1));      // the preallocating constructor, for another size
            q->compute(Hs, shift);
            SMat R2 = q->matrix_R(), D2; q->matrix_QtHQ(D2); SVec cs2 = SpectraVerifAccess::cosv(*q), sn2 = SpectraVerifAccess::sinv(*q);
            SVec qy2 = p; q->apply_QY(qy2); SVec qty2 = p; q->apply_QtY(qty2); SMat QYm2 = Pm; q->apply_QY(QYm2); SMat QtYm2 = Pm; q->apply_QtY(QtYm2);
            SMat YQ2 = Pt; q->apply_YQ(YQ2); SMat YQt2 = Pt; q->apply_YQt(YQt2);
            const char* bad = !same_bits(R2, R) ? "matrix_R" : !same_bits(D2, D) ? "matrix_QtHQ" : !same_bits(cs2, cs) || !same_bits(sn2, sn) ? "rotations" : !same_bits(qy2, qy) ? "apply_QY(vector)"
                            : !same_bits(qty2, qty) ? "apply_QtY(vector)" : !same_bits(QYm2, QYm) ? "apply_QY" : !same_bits(QtYm2, QtYm) ? "apply_QtY" : !same_bits(YQ2, YQ) ? "apply_YQ" : !same_bits(YQt2, YQt) ? "apply_YQt" : nullptr;
            OUT->count("oracle_reuse"); OUT->count("reuse_" + tg + "_" + HIST[kind]);
            if (bad) buf_fail(c, "reuse", std::string("compute() on an object with the history `") + HIST[kind] + "` (first size " + str(n1) + "): " + bad + " differs from a fresh object's", kv("history", HIST[kind]) + kv("query", bad));
            if (corr && std::is_same<S, double>::value && kind < 3 && (fixedcase || (hc % 4 == 0 && kind == (hc / 4) % 3))) {
                OUT->count("corr_history_" + c.cls + "_" + HIST[kind]);
                OUT->corr(c.cls + "h " + str(n1) + " " + Bits<S>::of(H1) + " " + Bits<S>::one(s1) + " " + reqstr, Bits<S>::of(R2) + " " + Bits<S>::of(cs2) + " " + Bits<S>::of(sn2) + " " + Bits<S>::of(D2) + " " + Bits<S>::of(qy2) + " " + Bits<S>::of(qty2) + " " + Bits<S>::of(QYm2) + " " + Bits<S>::of(QtYm2) + " " + Bits<S>::of(YQ2) + " " + Bits<S>::of(YQt2));
            }
        }
        if (std::is_same<S, double>::value) hc++;
    }
    // branch tags
    for (int i = 0; i < n - 1; i++) {
        if (sn[i] == 0) OUT->count(tg + "_rot_identity(y=0)");
        else if (cs[i] == 0) OUT->count(tg + "_rot_swap(x=0)");
        else { S t = std::min(std::abs(cs[i]), std::abs(sn[i])) / std::max(std::abs(cs[i]), std::abs(sn[i])); OUT->count(t < cutoff ? tg + "_rot_series" : tg + "_rot_standard"); }
    }
    if (!finite_all(R) || !finite_all(D)) { OUT->fail(c.cls + "-nonfinite", c.cls + " produced a non-finite R or QtHQ on finite input", c.replay()); return; }
    // ---- the matrix the class factorizes, in long double
    LMat H = LMat::Zero(n, n);
    if (tridiag) { for (int i = 0; i < n; i++) H(i, i) = Hs(i, i); for (int i = 0; i + 1 < n; i++) H(i + 1, i) = H(i, i + 1) = Hs(i + 1, i); }
    else for (int j = 0; j < n; j++) for (int i = 0; i <= std::min(j + 1, n - 1); i++) H(i, j) = Hs(i, j);
    LD scale = H.norm() + std::abs((LD) shift);
    LD tol = CTOL * n * EPS_S * scale + (LD) n * 16 * MIN_S;
    LD tolq = CTOL * n * EPS_S;
    LMat Q = LMat::Identity(n, n);           // Q = G1 G2 ... G_{n-1},  Gi = [c s; -s c] at (i, i+1)
    for (int i = 0; i < n - 1; i++) {
        LD ci = cs[i], si = sn[i];
        for (int r = 0; r < n; r++) { LD a = Q(r, i), b = Q(r, i + 1); Q(r, i) = ci * a - si * b; Q(r, i + 1) = si * a + ci * b; }
    }
    LMat Rl = toL(R), Dl = toL(D);
    check(c, "orth", maxabs(Q.transpose() * Q - LMat::Identity(n, n)), tolq, "Q'Q != I");
    check(c, "qr", maxabs(Q * Rl - (H - (LD) shift * LMat::Identity(n, n))), tol, "Q R != H - sI");
    LD low = 0; for (int j = 0; j < n; j++) for (int i = j + 1; i < n; i++) low = std::max(low, std::abs(Rl(i, j)));
    check(c, "r-triangular", low, 0, "R has a nonzero below the diagonal");
    if (tridiag) { LD far = 0; for (int j = 0; j < n; j++) for (int i = 0; i + 2 < j; i++) far = std::max(far, std::abs(Rl(i, j))); check(c, "r-band", far, 0, "R has a nonzero above the second superdiagonal"); }
    check(c, "qthq", maxabs(Dl - Q.transpose() * H * Q), tol, "matrix_QtHQ != Q'HQ");
    LD shape = 0;
    for (int j = 0; j < n; j++) for (int i = 0; i < n; i++) {
        bool inside = tridiag ? (std::abs(i - j) <= 1) : (i <= j + 1);
        if (!inside) shape = std::max(shape, std::abs(Dl(i, j)));
    }
    check(c, "qthq-shape", shape, 0, tridiag ? "matrix_QtHQ is not tridiagonal" : "matrix_QtHQ is not upper Hessenberg");
    if (tridiag) check(c, "qthq-symmetric", maxabs(Dl - Dl.transpose()), 0, "matrix_QtHQ is not symmetric");
    LMat Pl = toL(Pm), Ptl = toL(Pt); LVec pl = p.template cast<LD>();
    LD ty = tolq * Pl.norm() + 16 * MIN_S;
    check(c, "apply-QY-vec", maxabs(toL(qy) - Q * pl), ty, "apply_QY(vector) != Q y");
    check(c, "apply-QtY-vec", maxabs(toL(qty) - Q.transpose() * pl), ty, "apply_QtY(vector) != Q'y");
    check(c, "apply-QY", maxabs(toL(QYm) - Q * Pl), ty, "apply_QY(matrix) != Q Y");
    check(c, "apply-QtY", maxabs(toL(QtYm) - Q.transpose() * Pl), ty, "apply_QtY(matrix) != Q'Y");
    check(c, "apply-YQ", maxabs(toL(YQ) - Ptl * Q), ty, "apply_YQ != Y Q");
    check(c, "apply-YQt", maxabs(toL(YQt) - Ptl * Q.transpose()), ty, "apply_YQt != Y Q'");
    { SVec c0 = QYm.col(0), c1 = QtYm.col(0);
      check(c, "apply-overloads", maxabs(toL(c0) - toL(qy)) + maxabs(toL(c1) - toL(qty)), 0, "vector and matrix overloads of apply_QY/apply_QtY differ"); }
}

// ---------------------------------------------------------------- DoubleShiftQR
template <class S> static void run_dsqr(const Case& c, bool corr) {
    typedef Eigen::Matrix<S, Eigen::Dynamic, Eigen::Dynamic> SMat; typedef Eigen::Matrix<S, Eigen::Dynamic, 1> SVec;
    const int n = c.n; const LD EPS_S = std::numeric_limits<S>::epsilon(), MIN_S = std::numeric_limits<S>::min();
    const std::string tg = std::string("dsqr") + (std::string(TName<S>::n()) == "double" ? "" : std::string("<") + TName<S>::n() + ">");
    SMat Hs = c.H.cast<S>(); S sh_s = (S) c.s, sh_t = (S) c.t;
    Spectra::DoubleShiftQR<S> qr(Hs, sh_s, sh_t);
    SMat D; qr.matrix_QtHQ(D);
    std::vector<int> nr = SpectraVerifAccess::nr(qr); SMat U = SpectraVerifAccess::u(qr);
    for (int i = 0; i < n; i++) if (nr[i] == 1) U.col(i).setZero();     // never written by the class (uninitialised memory)
    SMat Pm = c.P.cast<S>(); SVec p = Pm.col(0); SMat Pt = Pm.transpose();
    SVec qty = p; qr.apply_QtY(qty); SMat YQ = Pt; qr.apply_YQ(YQ);
    auto nrstr = [&](const std::vector<int>& v) { std::string nrs; for (int i = 0; i < n; i++) { if (i) nrs += ' '; nrs += str(v[i]); } return nrs; };
    const std::string reqstr = c.cls + Bits<S>::suffix() + " " + str(n) + " " + Bits<S>::of(Hs) + " " + Bits<S>::one(sh_s) + " " + Bits<S>::one(sh_t) + " " + Bits<S>::of(Pm);
    if (corr) OUT->corr(reqstr, Bits<S>::of(D) + " " + nrstr(nr) + " " + Bits<S>::of(U) + " " + Bits<S>::of(qty) + " " + Bits<S>::of(YQ));
    // ---- (c) argument-buffer independence: destination states, views, object reuse (bit for bit against the fresh results above)
    {
        Rng gb = buf_rng(c, 3);
        dest_states<S>(c, "matrix_QtHQ", [&](SMat& d) { qr.matrix_QtHQ(d); }, D, gb);
        cross_class<S>(c, [&](SMat& d) { qr.matrix_QtHQ(d); }, D, gb);
        view_states<S>(c, "apply_YQ", [&](auto&& Y) { qr.apply_YQ(Y); }, Pt, YQ, gb);
        const bool fixedcase = c.pat.rfind("fixed", 0) == 0; long& hc = HISTCORR[2];
        for (int kind = 0; kind < 4; kind++) {
            const int n1 = hist_size(n, 3, kind);
            std::unique_ptr<Spectra::DoubleShiftQR<S>> q; SMat H1; S s1 = 0, t1 = 0;
            if (kind < 3) {
                H1 = first_input<S>(n1, gb); s1 = (S) gb.sym(); t1 = (S) gb.sym(); q.reset(new Spectra::DoubleShiftQR<S>(H1, s1, t1));
                SMat t; q->matrix_QtHQ(t); SVec v = H1.col(0); q->apply_QtY(v); SMat y = H1.topRows(2); q->apply_YQ(y);
            } else q.reset(new Spectra::DoubleShiftQR<S>((Eigen::Index) n1));
            q->compute(Hs, sh_s, sh_t);
            SMat D2; q->matrix_QtHQ(D2); std::vector<int> nr2 = SpectraVerifAccess::nr(*q); SMat U2 = SpectraVerifAccess::u(*q);
            for (int i = 0; i < n; i++) if (nr2[i] == 1) U2.col(i).setZero();
            SVec qty2 = p; q->apply_QtY(qty2); SMat YQ2 = Pt; q->apply_YQ(YQ2);
            const char* bad = !same_bits(D2, D) ? "matrix_QtHQ" : nr2 != nr ? "reflector row counts" : !same_bits(U2, U) ? "reflectors" : !same_bits(qty2, qty) ? "apply_QtY" : !same_bits(YQ2, YQ) ? "apply_YQ" : nullptr;
            OUT->count("oracle_reuse"); OUT->count("reuse_" + tg + "_" + HIST[kind]);
            if (bad) buf_fail(c, "reuse", std::string("compute() on an object with the history `") + HIST[kind] + "` (first size " + str(n1) + "): " + bad + " differs from a fresh object's", kv("history", HIST[kind]) + kv("query", bad));
            if (corr && std::is_same<S, double>::value && kind < 3 && (fixedcase || (hc % 4 == 0 && kind == (hc / 4) % 3))) {
                OUT->count(std::string("corr_history_dsqr_") + HIST[kind]);
                OUT->corr("dsqrh " + str(n1) + " " + Bits<S>::of(H1) + " " + Bits<S>::one(s1) + " " + Bits<S>::one(t1) + " " + reqstr, Bits<S>::of(D2) + " " + nrstr(nr2) + " " + Bits<S>::of(U2) + " " + Bits<S>::of(qty2) + " " + Bits<S>::of(YQ2));
            }
        }
        if (std::is_same<S, double>::value) hc++;
    }
    for (int i = 0; i < n; i++) OUT->count(tg + "_nr" + str(nr[i]));
    // block sizes from the input's deflation pattern as the class sees it
    { S near0 = std::numeric_limits<S>::min() * S(10), epsabs = near0 * (n / std::numeric_limits<S>::epsilon()); int start = 0;
      for (int i = 0; i < n - 1; i++) { S h = std::abs(Hs(i + 1, i)), dg = std::abs(Hs(i, i)) + std::abs(Hs(i + 1, i + 1));
        if (h <= epsabs || h <= std::numeric_limits<S>::epsilon() * dg) { int b = i + 1 - start; OUT->count(b >= 4 ? tg + "_block>=4" : tg + "_block" + str(b)); start = i + 1; } }
      int b = n - start; OUT->count(b >= 4 ? tg + "_block>=4" : tg + "_block" + str(b)); }
    if (!finite_all(D)) { OUT->fail("dsqr-nonfinite", "DoubleShiftQR produced a non-finite QtHQ on finite input", c.replay()); return; }
    // safety of nr (what apply_PX / apply_XP index with)
    bool nrok = nr[n - 1] == 1;
    for (int i = 0; i < n; i++) { if (nr[i] < 1 || nr[i] > 3) nrok = false; if (nr[i] == 3 && i + 2 > n - 1) nrok = false; if (nr[i] == 2 && i + 1 > n - 1) nrok = false; }
    check(c, "nr-safe", nrok ? 0 : 1, 0, "reflector row counts would index outside the matrix");
    LMat H = LMat::Zero(n, n);
    for (int j = 0; j < n; j++) for (int i = 0; i <= std::min(j + 1, n - 1); i++) H(i, j) = Hs(i, j);
    LD scale = H.norm() + std::abs((LD) sh_s);
    LD tol = CTOL * n * EPS_S * scale + (LD) n * 16 * MIN_S;
    LD tolq = CTOL * n * EPS_S;
    LMat Q = LMat::Identity(n, n);           // Q = P0 P1 ... P_{n-2}
    for (int i = 0; i < n - 1; i++) {
        if (nr[i] == 1) continue;
        int k = nr[i]; LVec u = U.col(i).head(k).template cast<LD>();
        LMat blk = Q.block(0, i, n, k); Q.block(0, i, n, k) = blk - 2 * (blk * u) * u.transpose();
    }
    LMat Dl = toL(D);
    check(c, "orth", maxabs(Q.transpose() * Q - LMat::Identity(n, n)), tolq, "Q'Q != I");
    check(c, "qthq", maxabs(Dl - Q.transpose() * H * Q), tol, "matrix_QtHQ != Q'HQ");
    LD shape = 0; for (int j = 0; j < n; j++) for (int i = j + 2; i < n; i++) shape = std::max(shape, std::abs(Dl(i, j)));
    check(c, "qthq-shape", shape, tol, "matrix_QtHQ is not upper Hessenberg");
    LVec e1 = LVec::Zero(n); e1[0] = 1;
    LVec v = H * (H * e1) - (LD) sh_s * (H * e1) + (LD) sh_t * e1;
    LVec q = Q * e1;
    LD M = scale * scale + std::abs((LD) sh_t);
    check(c, "first-col", (v - q.dot(v) * q).norm(), CTOL * n * EPS_S * M + (LD) n * 16 * MIN_S, "Q e1 is not parallel to (H^2 - sH + tI) e1");
    LMat Ptl = toL(Pt); LVec pl = p.template cast<LD>(); LD ty = tolq * Ptl.norm() + 16 * MIN_S;
    check(c, "apply-QtY-vec", maxabs(toL(qty) - Q.transpose() * pl), ty, "apply_QtY != Q'y");
    check(c, "apply-YQ", maxabs(toL(YQ) - Ptl * Q), ty, "apply_YQ != Y Q");
}

template <class S> static void run_case_t(const Case& c, bool corr) {
    if (c.cls == "hqr") run_givens_qr<S, Spectra::UpperHessenbergQR<S>>(c, false, corr);
    else if (c.cls == "tqr") run_givens_qr<S, Spectra::TridiagQR<S>>(c, true, corr);
    else run_dsqr<S>(c, corr);
}

static void run_case(const Case& c, bool corr) {
    { std::ofstream lc(OUT->dir + "/lastcase.txt"); lc << c.replay(); }
    const std::string tg = c.cls + (c.scalar == "double" ? "" : "<" + c.scalar + ">");
    OUT->count("cases_" + tg); OUT->count("pattern_" + tg + "_" + c.pat); OUT->count("n_" + tg + "_" + (c.n <= 4 ? str(c.n) : c.n <= 12 ? "5-12" : c.n <= 30 ? "13-30" : "31-100"));
    if (c.scalar == "float") run_case_t<float>(c, corr);
    else if (c.scalar == "longdouble") run_case_t<long double>(c, false);
    else run_case_t<double>(c, corr);
}

// ---------------------------------------------------------------- generators
static double mag(Rng& g, double lo10, double hi10) { return std::pow(10.0, lo10 + (hi10 - lo10) * g.unit()); }

static const char* PATS[] = {"random", "integer", "graded", "deflated", "extreme", "eigshift"};

static Case gen_case(const std::string& cls, Rng& g, int n, int pat, const std::string& scalar = "double") {
    Case c; c.cls = cls; c.n = n; c.pat = PATS[pat]; c.scalar = scalar;
    const bool flt = scalar == "float"; const double E = flt ? (double) std::numeric_limits<float>::epsilon() : EPS;
    const bool tri = cls == "tqr", ds = cls == "dsqr";
    Mat H = Mat::Zero(n, n);
    auto hess = [&](int i, int j) { return tri ? (std::abs(i - j) <= 1 && i >= j) : (i <= j + 1); };   // entries the class reads (tqr: diag + subdiag)
    double scale = 1.0;
    switch (pat) {
    case 0: case 5: { scale = g.pick(std::vector<double>{1.0, 1.0, 1e3, 1e-3, 7.5});
        for (int j = 0; j < n; j++) for (int i = 0; i < n; i++) if (hess(i, j)) H(i, j) = scale * g.sym(); break; }
    case 1: { int w = g.range(1, 4);
        for (int j = 0; j < n; j++) for (int i = 0; i < n; i++) if (hess(i, j)) H(i, j) = g.coin(0.35) ? 0.0 : (double) g.range(-w, w);
        if (g.coin(0.3)) for (int i = 0; i < n; i++) { H(i, i) = 2; if (i + 1 < n) { H(i + 1, i) = 1; if (!tri) H(i, i + 1) = 1; } }   // tridiag(1,2,1): integer eigenvalues for some n
        break; }
    case 2: { int mode = g.range(0, 3); double dec = 16.0;
        for (int j = 0; j < n; j++) for (int i = 0; i < n; i++) if (hess(i, j)) {
            double e = mode == 0 ? -dec * i / std::max(1, n - 1) : mode == 1 ? -dec * j / std::max(1, n - 1) : mode == 2 ? -dec * (i + j) / (2.0 * std::max(1, n - 1)) : -dec * g.unit();
            H(i, j) = g.sym() * std::pow(10.0, e + (mode == 0 ? 8 : 0)); }
        break; }
    case 3: { for (int j = 0; j < n; j++) for (int i = 0; i < n; i++) if (hess(i, j)) H(i, j) = g.sym();
        for (int i = 0; i + 1 < n; i++) { double u = g.unit();
            if (u < 0.25) H(i + 1, i) = 0.0; else if (u < 0.35) H(i + 1, i) = g.sym() * (flt ? 1e-8 : 1e-17); else if (u < 0.42) H(i + 1, i) = g.sym() * (flt ? 1e-36 : 1e-300);
            else if (u < 0.47) H(i + 1, i) = E * (std::abs(H(i, i)) + std::abs(H(i + 1, i + 1))) * (g.coin() ? 1.0 : 1.0 + 2 * E) * (g.coin() ? 1 : -1); }
        break; }
    case 4: { double big = ds ? (flt ? 1e15 : 1e140) : (flt ? 1e33 : 1e290), small = ds ? (flt ? 1e-15 : 1e-140) : (flt ? 1e-33 : 1e-290); int mode = g.range(0, ds ? 2 : 4);
        for (int j = 0; j < n; j++) for (int i = 0; i < n; i++) if (hess(i, j)) {
            double sc = mode == 0 ? big : mode == 1 ? small : mode == 2 ? (g.coin() ? big : small) * mag(g, -3, 0) : mode == 3 ? (flt ? 1.4012984643e-45 : 4.9e-324) * (double) g.range(1, 5000) : (flt ? mag(g, -43, -38) : mag(g, -300, -295));
            H(i, j) = g.sym() * sc; }
        scale = mode == 0 ? big : small; break; }
    }
    // entries the class must ignore
    if (g.coin(0.4)) for (int j = 0; j < n; j++) for (int i = 0; i < n; i++) if (!hess(i, j)) H(i, j) = tri && !g.coin(0.5) ? H(j, i) : 3.0 * g.sym() * scale;
    if (tri && g.coin(0.6)) for (int i = 0; i + 1 < n; i++) H(i, i + 1) = H(i + 1, i);
    c.H = H;
    // the matrix seen by the class, for shift selection
    Mat Hs = Mat::Zero(n, n);
    if (tri) { for (int i = 0; i < n; i++) Hs(i, i) = H(i, i); for (int i = 0; i + 1 < n; i++) Hs(i + 1, i) = Hs(i, i + 1) = H(i + 1, i); }
    else for (int j = 0; j < n; j++) for (int i = 0; i <= std::min(j + 1, n - 1); i++) Hs(i, j) = H(i, j);
    double nrm = Hs.cwiseAbs().maxCoeff();
    int sm = pat == 5 ? 3 : g.range(0, 4);
    if (pat == 1 && sm == 3 && g.coin(0.5)) sm = 2;
    std::complex<double> l1 = 0, l2 = 0;
    if (sm == 3 && nrm > 0 && std::isfinite(nrm)) {
        Mat Hn = Hs / nrm;
        if (tri) { Eigen::SelfAdjointEigenSolver<Mat> es(Hn, Eigen::EigenvaluesOnly); if (es.info() == Eigen::Success) { l1 = es.eigenvalues()[g.below(n)] * nrm; l2 = es.eigenvalues()[g.below(n)] * nrm; } }
        else { Eigen::EigenSolver<Mat> es(Hn, false); if (es.info() == Eigen::Success) { int k = (int) g.below(n); l1 = es.eigenvalues()[k] * nrm;
                 if (l1.imag() != 0) l2 = std::conj(l1); else { l2 = l1; for (int q = 0; q < n; q++) { int kk = (k + 1 + q) % n; if (es.eigenvalues()[kk].imag() == 0) { l2 = es.eigenvalues()[kk] * nrm; break; } } } } }
    }
    if (!ds) {
        switch (sm) { case 0: c.s = 0; break; case 1: c.s = g.sym() * (nrm > 0 ? nrm : 1); break; case 2: c.s = Hs.diagonal()[g.below(n)]; break;
                      case 3: c.s = l1.real(); break; default: c.s = (pat == 1) ? (double) g.range(-3, 3) : g.sym() * 10 * (nrm > 0 ? nrm : 1); }
    } else {
        switch (sm) { case 0: c.s = 0; c.t = 0; break;
                      case 1: { double a = g.sym() * nrm, b = g.sym() * nrm; c.s = 2 * a; c.t = a * a + b * b; break; }
                      case 2: { double a = Hs.diagonal()[g.below(n)], b = Hs.diagonal()[g.below(n)]; c.s = a + b; c.t = a * b; break; }
                      case 3: { if (l1.imag() != 0) { c.s = 2 * l1.real(); c.t = std::norm(l1); } else { c.s = l1.real() + l2.real(); c.t = l1.real() * l2.real(); } break; }
                      default: { if (pat == 1) { int a = g.range(-3, 3), b = g.range(-3, 3); c.s = a + b; c.t = a * b; } else { c.s = g.sym() * nrm; c.t = g.sym() * nrm * nrm; } } }
    }
    OUT->count("shift_" + cls + "_" + std::vector<std::string>{"zero", "random", "diagonal-entry", "eigenvalue", "other"}[sm]);
    c.P = Mat(n, 3); for (int j = 0; j < 3; j++) for (int i = 0; i < n; i++) c.P(i, j) = (pat == 1) ? (double) g.range(-4, 4) : g.sym();
    return c;
}

// fixed regression inputs: exactly singular H - sI (shift = exact eigenvalue of an integer matrix), 1x1/2x2 deflated blocks
static void fixed_cases(std::vector<Case>& out) {
    Rng g(12345, 8, 0);
    {   // KNOWN FINDING C08-F1 witness: DoubleShiftQR deflates with the ABSOLUTE threshold near_0 * n / eps (~ n * 1e-291 for double), as
        // LAPACK's dlahqr does; a matrix scaled to 1e-295 (13 decades above the underflow threshold, squares underflow) gets its whole
        // subdiagonal zeroed, so the returned "Q'HQ" is not similar to H relative to ||H||.
        Case c; c.cls = "dsqr"; c.n = 3; c.pat = "fixed-tiny-scale"; c.H = Mat(3, 3); c.H << 1, 2, 3, 4, 5, 6, 0, 7, 8; c.H *= 1e-295; c.s = 1e-295; c.t = 0;
        c.P = Mat(3, 3); c.P << 0.5, 1, -1, -0.25, 2, 0.5, 1, 3, 0.25; out.push_back(c); }
    {   // degenerate size n = 1 (UpperHessenbergQR only: outside the property's n >= 2, but every method is well defined and the reuse
        // histories shrink an object to it; TridiagQR's compute() asks for a vector of size -1 and DoubleShiftQR::apply_YQ indexes column -1 there)
        Case c; c.cls = "hqr"; c.n = 1; c.pat = "fixed-n1"; c.H = Mat(1, 1); c.H << 3.0; c.s = 1.25; c.P = Mat(1, 3); c.P << 0.5, -2, 1; out.push_back(c); }
    for (int n : {2, 3, 5, 7, 11}) for (const char* cls : {"hqr", "tqr", "dsqr"}) {
        if (std::string(cls) == "dsqr" && n < 3) continue;
        Case c; c.cls = cls; c.n = n; c.pat = "fixed-tridiag121"; c.H = Mat::Zero(n, n);
        for (int i = 0; i < n; i++) { c.H(i, i) = 2; if (i + 1 < n) c.H(i + 1, i) = c.H(i, i + 1) = 1; }
        c.s = (n == 2) ? 1 : 2;                       // exact eigenvalue of tridiag(1,2,1) for n = 2 (1, 3) and odd n (2)
        if (c.cls == "dsqr") { c.s = 4; c.t = (n % 6 == 5) ? 3 : 4; }   // (x-1)(x-3) for n = 5, 11; (x-2)^2 otherwise
        c.P = Mat(n, 3); for (int j = 0; j < 3; j++) for (int i = 0; i < n; i++) c.P(i, j) = (double) g.range(-4, 4);
        out.push_back(c);
        Case d = c; d.pat = "fixed-diagonal"; d.H = Mat::Zero(n, n); for (int i = 0; i < n; i++) d.H(i, i) = i - 1; d.s = 1; d.t = 0; out.push_back(d);
        Case z = c; z.pat = "fixed-zero"; z.H = Mat::Zero(n, n); z.s = 0; z.t = 0; out.push_back(z);
        Case b = c; b.pat = "fixed-blocks12"; b.H = Mat::Zero(n, n);
        for (int j = 0; j < n; j++) for (int i = 0; i <= std::min(j + 1, n - 1); i++) b.H(i, j) = (double) ((i * 3 + j * 5) % 7 - 3);
        if (std::string(cls) == "tqr") for (int i = 0; i + 1 < n; i++) b.H(i, i + 1) = b.H(i + 1, i);
        for (int i = 0; i + 1 < n; i++) if (i % 3 != 0) b.H(i + 1, i) = 0;      // blocks of size 2,1,2,1...
        if (std::string(cls) == "tqr") for (int i = 0; i + 1 < n; i++) b.H(i, i + 1) = b.H(i + 1, i);
        b.s = b.H(0, 0); b.t = 1; out.push_back(b);
    }
}

// ---------------------------------------------------------------- scalar kernels
static void givens_cases(Rng& g, int count) {
    auto one = [&](double x, double y) {
        double r, c, s; SpectraVerifAccess::rot<double>(x, y, r, c, s);
        OUT->corr("givens " + str(dbits(x)) + " " + str(dbits(y)), str(dbits(r)) + " " + str(dbits(c)) + " " + str(dbits(s)));
        std::string tag = y == 0 ? (x == 0 ? "both-zero" : "y-zero") : x == 0 ? "x-zero" : std::string(std::abs(x) > std::abs(y) ? "x-larger" : "y-larger") + (std::min(std::abs(x), std::abs(y)) / std::max(std::abs(x), std::abs(y)) < CUTOFF ? "-series" : "-standard");
        OUT->count("givens_" + tag);
        // oracle (long double): r >= 0, c^2+s^2 = 1, s x + c y = 0, c x - s y = r
        LD X = x, Y = y, R = r, C = c, S = s; LD h = std::sqrt(X * X + Y * Y);
        std::string rp = "{\"class\":\"givens\",\"req\":\"givens " + str(dbits(x)) + " " + str(dbits(y)) + "\"}";
        OUT->count("oracle_givens");
        LD fl = 16 * (LD) std::numeric_limits<double>::min();
        if (!(r >= 0) || std::abs(C * C + S * S - 1) > 16 * EPS || std::abs(S * X + C * Y) > 16 * EPS * h + fl || std::abs(C * X - S * Y - R) > 16 * EPS * h + fl || std::abs(R - h) > 16 * EPS * h + fl)
            OUT->fail("givens-spec", "compute_rotation(" + str(x) + ", " + str(y) + ") = (r=" + str(r) + ", c=" + str(c) + ", s=" + str(s) + ") violates r>=0, c^2+s^2=1, s x + c y = 0, c x - s y = r = hypot(x,y) beyond 16 eps", rp);
    };
    for (double x : {0.0, -0.0, 1.0, -1.0, 3.0, 1e-300, -1e300, 4.9e-324}) for (double y : {0.0, -0.0, 1.0, -1.0, 4.0, -1e-300, 1e300, 1e-5, CUTOFF, -CUTOFF * 0.999999}) one(x, y);
    for (int i = 0; i < count; i++) {
        double x, y; int k = g.range(0, 9);
        switch (k) {
        case 0: x = g.sym(); y = g.sym(); break;
        case 1: x = g.sym() * mag(g, -300, 300); y = g.sym() * mag(g, -300, 300); break;
        case 2: x = g.sym(); y = x * CUTOFF * (1 + 4 * EPS * g.range(-8, 8)); break;                 // ratio at the cutoff
        case 3: y = g.sym(); x = y * CUTOFF * (1 + 4 * EPS * g.range(-8, 8)); break;
        case 4: x = g.sym() * mag(g, -150, 150); y = x * g.sym() * mag(g, -12, -4); break;          // series branch
        case 5: y = g.sym() * mag(g, -150, 150); x = y * g.sym() * mag(g, -12, -4); break;
        case 6: x = (double) g.range(-5, 5); y = (double) g.range(-5, 5); break;
        case 7: x = g.sym(); y = g.coin() ? x : -x; if (g.coin()) y = std::nextafter(y, 0); break;   // |x| = |y| boundary
        case 8: x = g.sym() * mag(g, -323, -300); y = g.sym() * mag(g, -323, -300); break;          // subnormals
        default: x = g.sym() * 1e300; y = g.sym() * 1e300; }
        one(x, y);
    }
    // float instantiation of compute_rotation (bit-exact against the Float32 instance of the same generated definition)
    for (int i = 0; i < count / 2; i++) {
        float x, y; int k = g.range(0, 6); const float cf = 0.1f * std::pow(std::numeric_limits<float>::epsilon(), 0.25f);
        switch (k) {
        case 0: x = (float) g.sym(); y = (float) g.sym(); break;
        case 1: x = (float) (g.sym() * mag(g, -36, 36)); y = (float) (g.sym() * mag(g, -36, 36)); break;
        case 2: x = (float) g.sym(); y = x * cf * (1 + 4 * std::numeric_limits<float>::epsilon() * g.range(-8, 8)); break;
        case 3: y = (float) (g.sym() * mag(g, -15, 15)); x = (float) (y * g.sym() * mag(g, -6, -2)); break;
        case 4: x = (float) g.range(-5, 5); y = (float) g.range(-5, 5); break;
        case 5: x = (float) (g.sym() * mag(g, -45, -37)); y = (float) (g.sym() * mag(g, -45, -37)); break;
        default: x = (float) (g.sym() * mag(g, -15, 15)); y = (float) (x * g.sym() * mag(g, -6, -2)); }
        float r, c, s; SpectraVerifAccess::rot<float>(x, y, r, c, s);
        OUT->corr("givens32 " + str(fbits(x)) + " " + str(fbits(y)), str(fbits(r)) + " " + str(fbits(c)) + " " + str(fbits(s)));
        OUT->count("oracle_givens<float>"); LD X = x, Y = y, h = std::sqrt(X * X + Y * Y); const LD ef = std::numeric_limits<float>::epsilon(), fl = 16 * (LD) std::numeric_limits<float>::min();
        if (!(r >= 0) || std::abs((LD) c * c + (LD) s * s - 1) > 16 * ef || std::abs((LD) s * X + (LD) c * Y) > 16 * ef * h + fl || std::abs((LD) c * X - (LD) s * Y - r) > 16 * ef * h + fl)
            OUT->fail("givens-spec", "compute_rotation<float> violates its specification beyond 16 eps", "{\"class\":\"givens\",\"scalar\":\"float\",\"req\":\"givens32 " + str(fbits(x)) + " " + str(fbits(y)) + "\"}");
    }
    // DoubleShiftQR scalar kernels (bit-exact correspondence of the translated Gen.Refl definitions)
    for (int i = 0; i < count / 2; i++) {
        int k = g.range(0, 4); double a, b, c3;
        switch (k) { case 0: a = g.sym(); b = g.sym(); c3 = g.sym(); break;
                     case 1: a = g.sym() * mag(g, -140, 140); b = a * g.sym() * mag(g, -10, 0); c3 = a * g.sym() * mag(g, -10, 0); break;
                     case 2: a = g.sym(); b = a * g.sym() * 1e-6; c3 = a * g.sym() * 1e-6; break;
                     case 3: a = (double) g.range(-3, 3); b = (double) g.range(-3, 3); c3 = (double) g.range(-3, 3); break;
                     default: a = g.sym() * mag(g, -310, -300); b = g.sym() * mag(g, -310, -300); c3 = g.sym() * mag(g, -310, -300); }
        double nv = SpectraVerifAccess::norm3<double>(a, b, c3);
        OUT->corr("norm3 " + str(dbits(a)) + " " + str(dbits(b)) + " " + str(dbits(c3)), str(dbits(nv)));
        OUT->count("oracle_norm3"); LD hh = std::sqrt((LD) a * a + (LD) b * b + (LD) c3 * c3);
        double amax = std::max(std::abs(a), std::max(std::abs(b), std::abs(c3)));
        if (amax >= std::numeric_limits<double>::min() * 10 && std::abs((LD) nv - hh) > 16 * EPS * hh)
            OUT->fail("norm3-spec", "stable_norm3 differs from sqrt(x1^2+x2^2+x3^2) beyond 16 eps", "{\"class\":\"norm3\",\"req\":\"norm3 " + str(dbits(a)) + " " + str(dbits(b)) + " " + str(dbits(c3)) + "\"}");
        // stable_scaling precondition: |x1| >= |x2|, |x3|, x1 != 0
        double x1 = a, x2 = b, x3 = c3; if (std::abs(x1) < std::abs(x2)) std::swap(x1, x2); if (std::abs(x1) < std::abs(x3)) std::swap(x1, x3);
        if (x1 != 0) { double y1 = x1, y2 = x2, y3 = x3; SpectraVerifAccess::scal3<double>(y1, y2, y3);
            OUT->corr("scal3 " + str(dbits(x1)) + " " + str(dbits(x2)) + " " + str(dbits(x3)), str(dbits(y1)) + " " + str(dbits(y2)) + " " + str(dbits(y3)));
            OUT->count("oracle_scal3");
            if (std::abs((LD) y1 * y1 + (LD) y2 * y2 + (LD) y3 * y3 - 1) > 16 * EPS)
                OUT->fail("scal3-spec", "stable_scaling result is not a unit vector within 16 eps", "{\"class\":\"scal3\",\"req\":\"scal3 " + str(dbits(x1)) + " " + str(dbits(x2)) + " " + str(dbits(x3)) + "\"}"); }
    }
}

// ---------------------------------------------------------------- replay
static bool parse_request(const std::string& req, Case& c) {
    std::istringstream is(req); std::string op; is >> op; c.cls = op; c.pat = "replay";
    if (op != "hqr" && op != "tqr" && op != "dsqr") return false;
    is >> c.n; int n = c.n; if (n < 1 || n > 4096) return false;
    auto rd = [&]() { uint64_t u = 0; is >> u; return bitsd(u); };
    c.H = Mat(n, n); for (int k = 0; k < n * n; k++) c.H.data()[k] = rd();
    c.s = rd(); if (op == "dsqr") c.t = rd();
    c.P = Mat(n, 3); for (int k = 0; k < 3 * n; k++) c.P.data()[k] = rd();
    return !is.fail();
}

int main(int argc, char** argv) {
    Args a(argc, argv); Out out(a.out); OUT = &out;
    if (!a.replay.empty()) {
        std::ifstream f(a.replay); std::string t((std::istreambuf_iterator<char>(f)), {});
        auto p = t.find("\"req\":"); if (p == std::string::npos) { out.finish(); return 2; }
        p = t.find('"', p + 6); auto e = t.find('"', p + 1); std::string req = t.substr(p + 1, e - p - 1);
        Case c;
        if (req.rfind("givens32", 0) == 0) { std::istringstream is(req); std::string op; uint32_t ux, uy; is >> op >> ux >> uy; float x, y, r, cc, s; std::memcpy(&x, &ux, 4); std::memcpy(&y, &uy, 4);
            SpectraVerifAccess::rot<float>(x, y, r, cc, s); LD X = x, Y = y, h = std::sqrt(X * X + Y * Y); const LD ef = std::numeric_limits<float>::epsilon();
            if (!(r >= 0) || std::abs((LD) cc * cc + (LD) s * s - 1) > 16 * ef || std::abs((LD) s * X + (LD) cc * Y) > 16 * ef * h + 1e-36L || std::abs((LD) cc * X - (LD) s * Y - r) > 16 * ef * h + 1e-36L)
                out.fail("givens-spec", "compute_rotation<float> violates its specification (replay)", "{\"class\":\"givens\",\"scalar\":\"float\",\"req\":\"" + req + "\"}"); }
        else if (req.rfind("givens", 0) == 0) { std::istringstream is(req); std::string op; uint64_t ux, uy; is >> op >> ux >> uy; Rng g(1, 0, 0);
            double x = bitsd(ux), y = bitsd(uy), r, cc, s; SpectraVerifAccess::rot<double>(x, y, r, cc, s);
            LD X = x, Y = y, h = std::sqrt(X * X + Y * Y);
            if (!(r >= 0) || std::abs((LD) cc * cc + (LD) s * s - 1) > 16 * EPS || std::abs((LD) s * X + (LD) cc * Y) > 16 * EPS * h + 1e-300L || std::abs((LD) cc * X - (LD) s * Y - r) > 16 * EPS * h + 1e-300L)
                out.fail("givens-spec", "compute_rotation violates its specification (replay)", "{\"class\":\"givens\",\"req\":\"" + req + "\"}"); }
        else if (parse_request(req, c)) { if (t.find("\"scalar\":\"float\"") != std::string::npos) c.scalar = "float"; else if (t.find("\"scalar\":\"longdouble\"") != std::string::npos) c.scalar = "longdouble"; run_case(c, true); }
        out.finish(); return out.nfail ? 1 : 0;
    }
    const bool th = a.thorough();
    { Rng g(a.seed, 80, 0); givens_cases(g, th ? 200000 : 30000); }
    std::vector<Case> fx; fixed_cases(fx); for (auto& c : fx) run_case(c, true);
    const int ncase = th ? 4000 : 1200;
    const char* classes[] = {"hqr", "tqr", "dsqr"};
    for (int ci = 0; ci < 3; ci++) for (int k = 0; k < ncase; k++) {
        Rng g(a.seed, 81 + ci, k);
        std::string cls = classes[ci]; int lo = cls == "dsqr" ? 3 : 2;
        int n; double u = g.unit();
        if (u < 0.45) n = g.range(lo, 6); else if (u < 0.8) n = g.range(5, 12); else if (u < (th ? 0.93 : 1.1)) n = g.range(13, 30); else n = g.range(31, 100);
        Case c = gen_case(cls, g, n, k % 6);
        run_case(c, true);
        // the same generators on the float and long double instantiations of the real classes: oracle only (no model comparison)
        if (k % 2 == 0) { Rng gf(a.seed, 91 + ci, k); run_case(gen_case(cls, gf, n, (k / 2) % 6, "float"), true); }
        if (k % 4 == 1) { Rng gl(a.seed, 101 + ci, k); run_case(gen_case(cls, gl, n, (k / 4) % 6, "longdouble"), false); }
    }
    out.finish();
    return 0;
}
